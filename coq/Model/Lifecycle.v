(* C18 - service life-cycle: labelled transition system of pkg/v3/service/recoverable.go (the
   recoverer) composed with an abstract service, and of plugin.Close over k recoverers.
   No proofs in this file.

   One recoverer = three threads over shared state:
     T  the goroutine `go svc.Start(ctx)` of plugin.startServices: recoverer.Start, then the
        watcher loop serviceStart (select on `stopped` / chClose, cool-down, restart);
     G  the goroutine `go m.recoverableStart(ctx)` running service.Start (at most one live at a time);
     C  the caller of recoverer.Close.
   Every access to shared memory (running, closed, chClose, the capacity-1 channel `stopped`,
   the service's own state) is one transition; Go's select among ready cases and the scheduler
   are nondeterministic choice.  The plug-in passes context.Background(): ctx.Done() never fires
   and is not modelled.

   config: fix_a / fix_b / fix_c select the code before (false) or after (true) the three
   repairs of the recoverer in /repo; knd is the kind of the wrapped service:
     KOnce    chainlink-common StateMachine start-once / stop-once (timeTicker, coordinator):
              Close before Start is refused and has no effect, a second Start is refused,
              Close of a started service signals it and waits for Start to return (<-done);
     KFresh   every Start is independent, Close reaches only the Start that is executing;
     KSticky  a stop request made while no Start executes is kept for the next Start
              (resultStore: buffered close channel). *)
From Verif Require Import Base.Util.
From Coq Require Import Arith PeanoNat.

Inductive kind := KOnce | KFresh | KSticky.
Record config := mkConfig { fix_a : bool; fix_b : bool; fix_c : bool; knd : kind }.

Inductive msg := MNil | MErr | MStopped | MCancel.
Inductive tres := RNil | RAlready | RClosed.
Inductive tpc := TIdle | TNew | TChk | TSpawn | TSetRun | TSel | TStop | TCool | TReChk | TRespawn | TRet (r : tres).
Inductive gpc := GNone | GLaunched | GActive | GSend (m : msg) | GDone.
Inductive cres := CNil | CNotRunning | CSvcErr.
Inductive cpc := CIdle | CMark | CRead | CSvc | CWait (r : cres) | CSig (r : cres) | CRet (r : cres).

Record state := mkState {
  s_t : tpc; s_g : gpc; s_c : cpc;
  s_buf : option msg;        (* channel `stopped`, capacity 1 *)
  s_running : bool; s_closed : bool; s_chclose : bool;
  v_started : bool; v_stopped : bool; v_stopreq : bool;   (* the wrapped service *)
  e_preq : bool; e_rreq : bool;  (* environment: a panic / a spontaneous return of service.Start is armed *)
  n_starts : nat;            (* calls of service.Start so far, saturating at 3 *)
  h_early : bool;            (* ghost: service.Close() ran while a launch of service.Start was pending *)
  h_late : bool;             (* ghost: service.Start was entered after recoverer.Close had returned *)
  h_lost : bool              (* ghost: a live service goroutine was overwritten by a launch *)
}.

Definition init : state :=
  mkState TIdle GNone CIdle None false false false false false false false false 0 false false false.

Inductive label :=
  (* environment *)
  | EStart | ECall | EPanic | ERet
  (* T *)
  | TBegin | TCheck | TLaunch | TSetRunL | TRecv | TStopL | TExit | TTimer | TCoolClose | TReCheck | TRelaunch
  (* G *)
  | GEnter | GPanic | GRetL | GStop | GPut
  (* C *)
  | CMarkL | CReadL | CSvcL | CWaitL | CSigL.

Definition all_labels : list label :=
  [EStart; ECall; EPanic; ERet;
   TBegin; TCheck; TLaunch; TSetRunL; TRecv; TStopL; TExit; TTimer; TCoolClose; TReCheck; TRelaunch;
   GEnter; GPanic; GRetL; GStop; GPut;
   CMarkL; CReadL; CSvcL; CWaitL; CSigL].

Definition is_env (l : label) : bool :=
  match l with EStart | ECall | EPanic | ERet => true | _ => false end.

(* ---- field setters *)
Definition w_t s v := mkState v (s_g s) (s_c s) (s_buf s) (s_running s) (s_closed s) (s_chclose s) (v_started s) (v_stopped s) (v_stopreq s) (e_preq s) (e_rreq s) (n_starts s) (h_early s) (h_late s) (h_lost s).
Definition w_g s v := mkState (s_t s) v (s_c s) (s_buf s) (s_running s) (s_closed s) (s_chclose s) (v_started s) (v_stopped s) (v_stopreq s) (e_preq s) (e_rreq s) (n_starts s) (h_early s) (h_late s) (h_lost s).
Definition w_c s v := mkState (s_t s) (s_g s) v (s_buf s) (s_running s) (s_closed s) (s_chclose s) (v_started s) (v_stopped s) (v_stopreq s) (e_preq s) (e_rreq s) (n_starts s) (h_early s) (h_late s) (h_lost s).
Definition w_buf s v := mkState (s_t s) (s_g s) (s_c s) v (s_running s) (s_closed s) (s_chclose s) (v_started s) (v_stopped s) (v_stopreq s) (e_preq s) (e_rreq s) (n_starts s) (h_early s) (h_late s) (h_lost s).
Definition w_running s v := mkState (s_t s) (s_g s) (s_c s) (s_buf s) v (s_closed s) (s_chclose s) (v_started s) (v_stopped s) (v_stopreq s) (e_preq s) (e_rreq s) (n_starts s) (h_early s) (h_late s) (h_lost s).
Definition w_closed s v := mkState (s_t s) (s_g s) (s_c s) (s_buf s) (s_running s) v (s_chclose s) (v_started s) (v_stopped s) (v_stopreq s) (e_preq s) (e_rreq s) (n_starts s) (h_early s) (h_late s) (h_lost s).
Definition w_chclose s v := mkState (s_t s) (s_g s) (s_c s) (s_buf s) (s_running s) (s_closed s) v (v_started s) (v_stopped s) (v_stopreq s) (e_preq s) (e_rreq s) (n_starts s) (h_early s) (h_late s) (h_lost s).
Definition w_started s v := mkState (s_t s) (s_g s) (s_c s) (s_buf s) (s_running s) (s_closed s) (s_chclose s) v (v_stopped s) (v_stopreq s) (e_preq s) (e_rreq s) (n_starts s) (h_early s) (h_late s) (h_lost s).
Definition w_stopped s v := mkState (s_t s) (s_g s) (s_c s) (s_buf s) (s_running s) (s_closed s) (s_chclose s) (v_started s) v (v_stopreq s) (e_preq s) (e_rreq s) (n_starts s) (h_early s) (h_late s) (h_lost s).
Definition w_stopreq s v := mkState (s_t s) (s_g s) (s_c s) (s_buf s) (s_running s) (s_closed s) (s_chclose s) (v_started s) (v_stopped s) v (e_preq s) (e_rreq s) (n_starts s) (h_early s) (h_late s) (h_lost s).
Definition w_preq s v := mkState (s_t s) (s_g s) (s_c s) (s_buf s) (s_running s) (s_closed s) (s_chclose s) (v_started s) (v_stopped s) (v_stopreq s) v (e_rreq s) (n_starts s) (h_early s) (h_late s) (h_lost s).
Definition w_rreq s v := mkState (s_t s) (s_g s) (s_c s) (s_buf s) (s_running s) (s_closed s) (s_chclose s) (v_started s) (v_stopped s) (v_stopreq s) (e_preq s) v (n_starts s) (h_early s) (h_late s) (h_lost s).
Definition w_starts s v := mkState (s_t s) (s_g s) (s_c s) (s_buf s) (s_running s) (s_closed s) (s_chclose s) (v_started s) (v_stopped s) (v_stopreq s) (e_preq s) (e_rreq s) v (h_early s) (h_late s) (h_lost s).
Definition w_early s v := mkState (s_t s) (s_g s) (s_c s) (s_buf s) (s_running s) (s_closed s) (s_chclose s) (v_started s) (v_stopped s) (v_stopreq s) (e_preq s) (e_rreq s) (n_starts s) v (h_late s) (h_lost s).
Definition w_late s v := mkState (s_t s) (s_g s) (s_c s) (s_buf s) (s_running s) (s_closed s) (s_chclose s) (v_started s) (v_stopped s) (v_stopreq s) (e_preq s) (e_rreq s) (n_starts s) (h_early s) v (h_lost s).
Definition w_lost s v := mkState (s_t s) (s_g s) (s_c s) (s_buf s) (s_running s) (s_closed s) (s_chclose s) (v_started s) (v_stopped s) (v_stopreq s) (e_preq s) (e_rreq s) (n_starts s) (h_early s) (h_late s) v.

(* ---- small predicates *)
Definition is_cret (p : cpc) : bool := match p with CRet _ => true | _ => false end.
Definition is_tret (p : tpc) : bool := match p with TRet _ => true | _ => false end.
Definition g_active (p : gpc) : bool := match p with GActive => true | _ => false end.
Definition g_live (p : gpc) : bool := match p with GNone | GDone => false | _ => true end.
Definition g_launched (p : gpc) : bool := match p with GLaunched => true | _ => false end.
Definition is_once (k : kind) : bool := match k with KOnce => true | _ => false end.
Definition is_sticky (k : kind) : bool := match k with KSticky => true | _ => false end.
Definition buf_empty (s : state) : bool := match s_buf s with None => true | Some _ => false end.
Definition sat3 (n : nat) : nat := if 3 <=? n then 3 else n.

(* a call of service.Start is on its way: the goroutine exists but has not entered Start, or the
   watcher is at the `go m.recoverableStart(ctx)` statement *)
Definition pending_launch (s : state) : bool :=
  g_launched (s_g s) || match s_t s with TSpawn | TRespawn => true | _ => false end.

(* `go m.recoverableStart(ctx)` *)
Definition launch (s : state) (next : tpc) : state :=
  w_t (w_g (w_lost s (h_lost s || g_live (s_g s))) GLaunched) next.

(* ---- the transition function *)
Definition step (cf : config) (s : state) (l : label) : option state :=
  match l with
  (* environment *)
  | EStart => match s_t s with TIdle => Some (w_t s TNew) | _ => None end
  | ECall => match s_c s with CIdle => Some (w_c s (if fix_a cf then CMark else CRead)) | _ => None end
  | EPanic => if e_preq s then None else Some (w_preq s true)
  | ERet => if e_rreq s || is_once (knd cf) then None else Some (w_rreq s true)
  (* T: recoverer.Start *)
  | TBegin =>
      match s_t s with
      | TNew =>
          if s_running s then Some (w_t s (TRet RAlready))
          else if fix_a cf then Some (w_t (w_running s true) TChk)     (* running.CompareAndSwap(false,true) *)
          else Some (w_t s TSpawn)                                     (* if m.running.Load() *)
      | _ => None end
  | TCheck =>
      match s_t s with
      | TChk => if s_closed s then Some (w_t (w_running s false) (TRet RClosed)) else Some (w_t s TSpawn)
      | _ => None end
  | TLaunch =>
      match s_t s with
      | TSpawn => Some (launch s (if fix_a cf then TSel else TSetRun))
      | _ => None end
  | TSetRunL => match s_t s with TSetRun => Some (w_t (w_running s true) TSel) | _ => None end
  (* T: serviceStart *)
  | TRecv =>
      match s_t s, s_buf s with
      | TSel, Some m =>
          let s1 := w_buf s None in
          Some (w_t s1 (match m with MNil | MErr => TSel | MStopped => TCool | MCancel => TStop end))
      | _, _ => None end
  | TStopL => match s_t s with TStop => Some (w_t (w_running s false) (TRet RNil)) | _ => None end
  | TExit =>
      match s_t s with
      | TSel => if fix_c cf && s_chclose s then Some (w_t (w_running s false) (TRet RNil)) else None
      | _ => None end
  | TTimer => match s_t s with TCool => Some (w_t s (if fix_b cf then TReChk else TRespawn)) | _ => None end
  | TCoolClose =>
      match s_t s with
      | TCool => if fix_b cf && s_chclose s then Some (w_t s TReChk) else None
      | _ => None end
  | TReCheck =>
      match s_t s with
      | TReChk => if s_closed s then Some (w_t (w_running s false) (TRet RNil)) else Some (w_t s TRespawn)
      | _ => None end
  | TRelaunch => match s_t s with TRespawn => Some (launch s TSel) | _ => None end
  (* G: recoverableStart / service.Start *)
  | GEnter =>
      match s_g s with
      | GLaunched =>
          let s1 := w_late (w_starts s (sat3 (S (n_starts s)))) (h_late s || is_cret (s_c s)) in
          match knd cf with
          | KOnce => if v_started s1 then Some (w_g s1 (GSend MErr))
                     else Some (w_g (w_started s1 true) GActive)
          | KFresh => Some (w_g (w_started s1 true) GActive)
          | KSticky => if v_stopreq s1 then Some (w_g (w_stopreq (w_started s1 true) false) (GSend MNil))
                       else Some (w_g (w_started s1 true) GActive)
          end
      | _ => None end
  | GPanic =>
      match s_g s with
      | GActive => if e_preq s
                   then Some (w_g (w_preq (match knd cf with KFresh => w_stopreq s false | _ => s end) false) (GSend MStopped))
                   else None
      | _ => None end
  | GRetL =>
      match s_g s with
      | GActive => if e_rreq s && negb (is_once (knd cf))
                   then Some (w_g (w_rreq (match knd cf with KFresh => w_stopreq s false | _ => s end) false) (GSend MNil))
                   else None
      | _ => None end
  | GStop =>
      match s_g s with
      | GActive => if v_stopreq s
                   then Some (w_g (match knd cf with KOnce => s | _ => w_stopreq s false end) (GSend MNil))
                   else None
      | _ => None end
  | GPut =>
      match s_g s, s_buf s with
      | GSend m, None => Some (w_g (w_buf s (Some m)) GDone)
      | _, _ => None end
  (* C: recoverer.Close *)
  | CMarkL => match s_c s with CMark => Some (w_c (w_closed s true) CRead) | _ => None end
  | CReadL =>
      match s_c s with
      | CRead => Some (w_c s (if s_running s then CSvc else CRet CNotRunning))
      | _ => None end
  | CSvcL =>
      match s_c s with
      | CSvc =>
          let s1 := w_early s (h_early s || pending_launch s) in
          match knd cf with
          | KOnce => if v_started s1 && negb (v_stopped s1)
                     then Some (w_c (w_stopreq (w_stopped s1 true) true) (CWait CNil))
                     else Some (w_c s1 (CSig CSvcErr))
          | KFresh => Some (w_c (if g_active (s_g s1) then w_stopreq s1 true else s1) (CSig CNil))
          | KSticky => Some (w_c (w_stopreq s1 true) (CSig CNil))
          end
      | _ => None end
  | CWaitL =>
      match s_c s with
      | CWait r => if g_active (s_g s) then None else Some (w_c s (CSig r))
      | _ => None end
  | CSigL =>
      match s_c s with
      | CSig r =>
          if fix_c cf then Some (w_c (w_chclose s true) (CRet r))
          else Some (w_c (if buf_empty s then w_buf s (Some MCancel) else s) (CRet r))
      | _ => None end
  end.

Definition is_some {A} (o : option A) : bool := match o with Some _ => true | None => false end.
Definition enabled (cf : config) (s : state) : list label :=
  filter (fun l => is_some (step cf s l)) all_labels.
Definition enabled_int (cf : config) (s : state) : list label :=
  filter (fun l => negb (is_env l)) (enabled cf s).

Inductive reachable (cf : config) : state -> Prop :=
  | reach_init : reachable cf init
  | reach_step : forall s l s', reachable cf s -> step cf s l = Some s' -> reachable cf s'.

Fixpoint run (cf : config) (s : state) (ls : list label) : option state :=
  match ls with
  | [] => Some s
  | l :: r => match step cf s l with Some s' => run cf s' r | None => None end
  end.

(* no transition of the code itself is enabled: the state lasts until the environment acts *)
Definition stable (cf : config) (s : state) : bool :=
  match enabled_int cf s with [] => true | _ => false end.
(* nothing of this recoverer is left: Start has returned (or was never called) and no service goroutine exists *)
Definition t_gone (p : tpc) : bool := match p with TIdle | TRet _ => true | _ => false end.
Definition quiescent (s : state) : bool := t_gone (s_t s) && negb (g_live (s_g s)).

Definition cfg_old (k : kind) : config := mkConfig false false false k.
Definition cfg_new (k : kind) : config := mkConfig true true true k.
Definition repaired (cf : config) : Prop := fix_a cf = true /\ fix_b cf = true /\ fix_c cf = true.

(* ---- boolean equality on states (used by the exhaustive exploration) *)
Definition msg_eqb (a b : msg) : bool :=
  match a, b with MNil, MNil | MErr, MErr | MStopped, MStopped | MCancel, MCancel => true | _, _ => false end.
Definition tres_eqb (a b : tres) : bool :=
  match a, b with RNil, RNil | RAlready, RAlready | RClosed, RClosed => true | _, _ => false end.
Definition cres_eqb (a b : cres) : bool :=
  match a, b with CNil, CNil | CNotRunning, CNotRunning | CSvcErr, CSvcErr => true | _, _ => false end.
Definition tpc_eqb (a b : tpc) : bool :=
  match a, b with
  | TIdle, TIdle | TNew, TNew | TChk, TChk | TSpawn, TSpawn | TSetRun, TSetRun | TSel, TSel | TStop, TStop
  | TCool, TCool | TReChk, TReChk | TRespawn, TRespawn => true
  | TRet x, TRet y => tres_eqb x y
  | _, _ => false end.
Definition gpc_eqb (a b : gpc) : bool :=
  match a, b with
  | GNone, GNone | GLaunched, GLaunched | GActive, GActive | GDone, GDone => true
  | GSend x, GSend y => msg_eqb x y
  | _, _ => false end.
Definition cpc_eqb (a b : cpc) : bool :=
  match a, b with
  | CIdle, CIdle | CMark, CMark | CRead, CRead | CSvc, CSvc => true
  | CWait x, CWait y | CSig x, CSig y | CRet x, CRet y => cres_eqb x y
  | _, _ => false end.
Definition omsg_eqb (a b : option msg) : bool :=
  match a, b with None, None => true | Some x, Some y => msg_eqb x y | _, _ => false end.
Definition kind_eqb (a b : kind) : bool :=
  match a, b with KOnce, KOnce | KFresh, KFresh | KSticky, KSticky => true | _, _ => false end.

Notation "a &&& b" := (if a then b else false) (at level 40, left associativity).

Definition state_eqb (a b : state) : bool :=
  tpc_eqb (s_t a) (s_t b) &&& gpc_eqb (s_g a) (s_g b) &&& cpc_eqb (s_c a) (s_c b) &&&
  omsg_eqb (s_buf a) (s_buf b) &&& Bool.eqb (s_running a) (s_running b) &&&
  Bool.eqb (s_closed a) (s_closed b) &&& Bool.eqb (s_chclose a) (s_chclose b) &&&
  Bool.eqb (v_started a) (v_started b) &&& Bool.eqb (v_stopped a) (v_stopped b) &&&
  Bool.eqb (v_stopreq a) (v_stopreq b) &&& Bool.eqb (e_preq a) (e_preq b) &&&
  Bool.eqb (e_rreq a) (e_rreq b) &&& Nat.eqb (n_starts a) (n_starts b) &&&
  Bool.eqb (h_early a) (h_early b) &&& Bool.eqb (h_late a) (h_late b) &&& Bool.eqb (h_lost a) (h_lost b).

Definition mem_state (x : state) (l : list state) : bool := existsb (state_eqb x) l.

Fixpoint add_new (seen acc : list state) (xs : list state) : list state :=
  match xs with
  | [] => acc
  | x :: r => if mem_state x seen || mem_state x acc then add_new seen acc r else add_new seen (x :: acc) r
  end.

Definition succs_by (cf : config) (ok : label -> bool) (s : state) : list state :=
  flat_map (fun l => if ok l then match step cf s l with Some s' => [s'] | None => [] end else []) all_labels.

Fixpoint bfs (fuel : nat) (cf : config) (ok : label -> bool) (seen frontier : list state) : list state :=
  match fuel with
  | 0 => seen
  | S f =>
      match frontier with
      | [] => seen
      | _ => let fresh := add_new seen [] (flat_map (succs_by cf ok) frontier) in
             bfs f cf ok (fresh ++ seen) fresh
      end
  end.

(* every state reachable from [init] (closure is re-checked in the proofs, so the fuel is not trusted) *)
Definition reach_set (cf : config) : list state := bfs 400 cf (fun _ => true) [init] [init].

(* [l] contains init and is closed under step *)
Definition closedb (cf : config) (l : list state) : bool :=
  mem_state init l &&
  forallb (fun s => forallb (fun lb => match step cf s lb with Some s' => mem_state s' l | None => true end) all_labels) l.

(* ---- measures used by the progress theorems *)
(* Close in progress: remaining work of recoverer.Close *)
Definition cmu (s : state) : nat :=
  match s_c s with
  | CIdle => 7 | CMark => 6 | CRead => 5 | CSvc => 4
  | CWait _ => if g_active (s_g s) then 3 else 2
  | CSig _ => 1 | CRet _ => 0 end.

(* after Close has returned: remaining work of everything that is left *)
Definition wmsg (m : msg) : nat := match m with MStopped => 4 | _ => 1 end.
Definition qmu_t (p : tpc) : nat :=
  match p with
  | TRet _ => 0 | TSel => 1 | TStop => 1 | TReChk => 2 | TCool => 3
  | TRespawn => 11 | TSetRun => 11 | TSpawn => 12 | TChk => 13 | TNew => 14 | TIdle => 15 end.
Definition qmu_g (p : gpc) : nat :=
  match p with GNone | GDone => 0 | GSend m => 1 + wmsg m | GActive => 8 | GLaunched => 9 end.
Definition qmu (cf : config) (s : state) : nat :=
  qmu_t (s_t s) + qmu_g (s_g s) + match s_buf s with Some m => wmsg m | None => 0 end
  + (if e_preq s then 0 else 1) + (if e_rreq s || is_once (knd cf) then 0 else 1).

(* recovery after a panic (and initial start-up): distance to service.Start executing again *)
Definition recovering (s : state) : bool :=
  match s_g s with
  | GLaunched => true
  | GSend MStopped => true
  | _ => match s_buf s with
         | Some MStopped => true
         | _ => match s_t s with TCool | TReChk | TRespawn => true | _ => false end
         end
  end.
Definition rmu (s : state) : nat :=
  (match s_g s with
   | GSend MStopped => 6
   | GLaunched => 1
   | _ => match s_buf s with
          | Some MStopped => 5
          | _ => match s_t s with TCool => 4 | TReChk => 3 | TRespawn => 2 | _ => 0 end
          end
   end) + (match s_t s with TSetRun => 1 | _ => 0 end).

(* ---- plugin.Close over k recoverers (startServices has already created the k T goroutines) *)
Record pstate := mkP { p_comps : list state; p_called : bool; p_next : nat }.
Inductive plabel := PComp (i : nat) (l : label) | PClose | PInvoke | PNext.

Fixpoint set_nth {A} (i : nat) (v : A) (l : list A) : list A :=
  match l, i with
  | [], _ => []
  | _ :: r, 0 => v :: r
  | x :: r, S j => x :: set_nth j v r
  end.

Definition is_ecall (l : label) : bool := match l with ECall => true | _ => false end.

Definition pinit (cfs : list config) : pstate := mkP (map (fun _ => init) cfs) false 0.

Definition pstep (cfs : list config) (ps : pstate) (pl : plabel) : option pstate :=
  match pl with
  | PComp i l =>
      if is_ecall l then None else
      match nth_error cfs i, nth_error (p_comps ps) i with
      | Some cf, Some s =>
          match step cf s l with
          | Some s' => Some (mkP (set_nth i s' (p_comps ps)) (p_called ps) (p_next ps))
          | None => None end
      | _, _ => None end
  | PClose => if p_called ps then None else Some (mkP (p_comps ps) true (p_next ps))
  | PInvoke =>
      if p_called ps then
        match nth_error cfs (p_next ps), nth_error (p_comps ps) (p_next ps) with
        | Some cf, Some s =>
            match step cf s ECall with
            | Some s' => Some (mkP (set_nth (p_next ps) s' (p_comps ps)) true (p_next ps))
            | None => None end
        | _, _ => None end
      else None
  | PNext =>
      if p_called ps then
        match nth_error (p_comps ps) (p_next ps) with
        | Some s => if is_cret (s_c s) then Some (mkP (p_comps ps) true (S (p_next ps))) else None
        | None => None end
      else None
  end.

Inductive preachable (cfs : list config) : pstate -> Prop :=
  | preach_init : preachable cfs (pinit cfs)
  | preach_step : forall ps pl ps', preachable cfs ps -> pstep cfs ps pl = Some ps' -> preachable cfs ps'.

Definition p_returned (cfs : list config) (ps : pstate) : Prop := p_called ps = true /\ p_next ps = length cfs.
Definition psum (l : list state) : nat := fold_right (fun s a => cmu s + a) 0 l.
Definition pmu (ps : pstate) : nat := psum (p_comps ps) + (length (p_comps ps) - p_next ps).

(* ---- scenarios driven by the harness, observations, checker *)
Inductive act := AStart | ACall | APanic | ARet.
(* a phase: the harness performs the actions one after the other without waiting, then lets every
   goroutine run until all are durably blocked; p_gate = false holds the service goroutine before it
   enters service.Start, p_timer = true lets more than the cool-down of virtual time pass, p_hold = true
   keeps a call of the wrapped service's Close() from returning (a service whose Close takes long:
   recoverer.Close stays between service.Close() and its own last step) *)
Record phase := mkPhase { p_acts : list act; p_gate : bool; p_timer : bool; p_hold : bool }.

Record obs := mkObs {
  o_close : nat;   (* 0 Close not called, 1 nil, 2 ErrServiceNotRunning, 3 other error, 4 did not return *)
  o_start : nat;   (* recoverer.Start: 0 not returned (or never called), 1 nil, 2 already started, 3 closed *)
  o_g : nat;       (* service goroutine: 0 none, 1 held before service.Start, 2 inside service.Start, 3 blocked sending its result *)
  o_starts : nat;  (* calls of service.Start, saturating at 3 *)
  o_late : bool    (* service.Start entered after Close had returned *)
}.
Record scase := mkCase { k_kind : kind; k_phases : list phase; k_obs : obs }.

Definition act_label (a : act) : label :=
  match a with AStart => EStart | ACall => ECall | APanic => EPanic | ARet => ERet end.

Definition allowed (ph : phase) (l : label) : bool :=
  match l with
  | GEnter => p_gate ph
  | TTimer => p_timer ph
  | CSigL => negb (p_hold ph)
  | _ => negb (is_env l)
  end.

Definition acts_eqb (a b : list act) : bool := Nat.eqb (length a) (length b).   (* suffixes of one list *)
Definition mem_as (x : list act * state) (l : list (list act * state)) : bool :=
  existsb (fun y => acts_eqb (fst x) (fst y) &&& state_eqb (snd x) (snd y)) l.
Fixpoint add_new_as (seen acc xs : list (list act * state)) : list (list act * state) :=
  match xs with
  | [] => acc
  | x :: r => if mem_as x seen || mem_as x acc then add_new_as seen acc r else add_new_as seen (x :: acc) r
  end.
(* an armed-twice panic / a Close called twice / a Start called twice is a no-op of the harness *)
Definition fire (cf : config) (a : act) (s : state) : state :=
  match step cf s (act_label a) with Some s' => s' | None => s end.
Definition succs_as (cf : config) (ph : phase) (x : list act * state) : list (list act * state) :=
  map (fun s' => (fst x, s')) (succs_by cf (allowed ph) (snd x)) ++
  match fst x with [] => [] | a :: r => [(r, fire cf a (snd x))] end.
Fixpoint bfs_as (fuel : nat) (cf : config) (ph : phase) (seen frontier : list (list act * state)) :=
  match fuel with
  | 0 => seen
  | S f => match frontier with
           | [] => seen
           | _ => let fresh := add_new_as seen [] (flat_map (succs_as cf ph) frontier) in
                  bfs_as f cf ph (fresh ++ seen) fresh
           end
  end.
Definition phase_end (cf : config) (ph : phase) (x : list act * state) : bool :=
  match fst x with [] => match succs_by cf (allowed ph) (snd x) with [] => true | _ => false end | _ => false end.
Definition run_phase (cf : config) (ph : phase) (ss : list state) : list state :=
  let start := map (fun s => (p_acts ph, s)) ss in
  add_new [] [] (map snd (filter (phase_end cf ph) (bfs_as 200 cf ph start start))).
Definition run_phases (cf : config) (phs : list phase) : list state :=
  fold_left (fun ss ph => run_phase cf ph ss) phs [init].

Definition project (s : state) : obs :=
  mkObs
    (match s_c s with CIdle => 0 | CRet CNil => 1 | CRet CNotRunning => 2 | CRet CSvcErr => 3 | _ => 4 end)
    (match s_t s with TRet RNil => 1 | TRet RAlready => 2 | TRet RClosed => 3 | _ => 0 end)
    (match s_g s with GNone | GDone => 0 | GLaunched => 1 | GActive => 2 | GSend _ => 3 end)
    (n_starts s) (h_late s).
Definition obs_eqb (a b : obs) : bool :=
  Nat.eqb (o_close a) (o_close b) &&& Nat.eqb (o_start a) (o_start b) &&& Nat.eqb (o_g a) (o_g b) &&&
  Nat.eqb (o_starts a) (o_starts b) &&& Bool.eqb (o_late a) (o_late b).

(* the model of the CURRENT code allows the observed outcome *)
Definition model_allows (c : scase) : bool :=
  existsb (fun s => obs_eqb (project s) (k_obs c)) (run_phases (cfg_new (k_kind c)) (k_phases c)).

Definition act_eqb (a b : act) : bool :=
  match a, b with AStart, AStart | ACall, ACall | APanic, APanic | ARet, ARet => true | _, _ => false end.
Definition has_act (a : act) (phs : list phase) : bool := existsb (fun ph => existsb (act_eqb a) (p_acts ph)) phs.
(* the last phase lets everything settle: gate open, cool-down elapsed *)
Definition settled (phs : list phase) : bool :=
  match rev phs with ph :: _ => p_gate ph && p_timer ph && negb (p_hold ph) | [] => false end.

(* the property on one observation *)
Definition C18_spec (c : scase) : Prop :=
  let phs := k_phases c in let o := k_obs c in
  settled phs = true -> has_act AStart phs = true ->
  (has_act ACall phs = true ->
     (1 <= o_close o <= 3) /\ o_start o <> 0 /\ o_g o = 0 /\ o_late o = false) /\
  (has_act ACall phs = false -> has_act ARet phs = false -> o_g o = 2).

Definition C18_check (c : scase) : bool :=
  let phs := k_phases c in let o := k_obs c in
  if settled phs && has_act AStart phs then
    if has_act ACall phs
    then (1 <=? o_close o) && (o_close o <=? 3) && negb (Nat.eqb (o_start o) 0) && Nat.eqb (o_g o) 0 && negb (o_late o)
    else if has_act ARet phs then true else Nat.eqb (o_g o) 2
  else true.

Definition case_nontrivial (c : scase) : bool :=
  settled (k_phases c) && has_act AStart (k_phases c) &&
  (has_act ACall (k_phases c) || has_act APanic (k_phases c)).

(* known-finding predicates (exactly the failing shape of each finding) *)
Definition close_while_gated (phs : list phase) : bool :=
  existsb (fun ph => existsb (act_eqb ACall) (p_acts ph) && negb (p_gate ph)) phs.
(* F08g: service.Close() reaches the service while a call of service.Start is launched but not yet entered
   (held at the gate by the harness, or simply not yet scheduled): the call is entered after Close has
   returned; a start-once or fresh service then runs for ever, a sticky or already stopped one returns
   at once.  The predicate asks that EVERY end state of the model with this observation carries the
   ghost flag of that race, so a failure that the model explains otherwise is not covered. *)
Definition explained_by_early (c : scase) : bool :=
  let ss := filter (fun s => obs_eqb (project s) (k_obs c)) (run_phases (cfg_new (k_kind c)) (k_phases c)) in
  match ss with [] => false | _ => forallb h_early ss end.
Definition kf_close_before_service_start (c : scase) : bool :=
  let o := k_obs c in
  negb (C18_check c) && explained_by_early c &&
  (1 <=? o_close o) && (o_close o <=? 3) && negb (Nat.eqb (o_start o) 0) &&
  ((negb (is_sticky (k_kind c)) && Nat.eqb (o_g o) 2) || (Nat.eqb (o_g o) 0 && o_late o)).
(* F08h: a start-once service is not restarted after a panic in its Start *)
Definition kf_restart_start_once (c : scase) : bool :=
  let o := k_obs c in
  is_once (k_kind c) && negb (has_act ACall (k_phases c)) && has_act APanic (k_phases c) && negb (C18_check c) &&
  Nat.eqb (o_g o) 0 && (2 <=? o_starts o).
