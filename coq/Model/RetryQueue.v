(* Model of the retry queue (pkg/v3/stores/retry_queue.go).  Time is an explicit Z
   (nanoseconds); the iteration order of the Go map in Dequeue is the oracle argument [pi].
   No proofs in this file. *)
From Verif Require Export Base.Util Model.Runner.
Open Scope N_scope.

Record rrec := mkRec { q_pl : payload; q_ivl : Z; q_pend : bool; q_created : Z; q_updated : Z }.

(* records keyed by work id; at most one entry per key is ever visible through rq_find *)
Definition rq := list (N * rrec).

Fixpoint rq_find (q : rq) (k : N) : option rrec :=
  match q with [] => None | (k', r) :: t => if N.eqb k k' then Some r else rq_find t k end.

Fixpoint rq_remove (q : rq) (k : N) : rq :=
  match q with
  | [] => []
  | (k', r) :: t => if N.eqb k k' then rq_remove t k else (k', r) :: rq_remove t k
  end.

Definition rq_put (q : rq) (k : N) (r : rrec) : rq := (k, r) :: rq_remove q k.

Definition rq_keys (q : rq) : list N := map fst q.

Section Queue.
  Variable divl : Z.   (* retryQueue.interval   (RetryInterval, 30 s) *)
  Variable dexp : Z.   (* retryQueue.expiration (DefaultExpiration, 24 h) *)

  Definition eff_ivl (ivl : Z) : Z := if (0 <? ivl)%Z then ivl else divl.

  (* Enqueue of one record at time [now] *)
  Definition enqueue1 (now : Z) (q : rq) (rec : payload * Z) : rq :=
    let '(p, ivl) := rec in
    let r0 := match rq_find q (pl_wid p) with
              | Some r => r
              | None => mkRec p 0 false now now
              end in
    let pl := if N.ltb (pl_blk (q_pl r0)) (pl_blk p) then p else q_pl r0 in
    rq_put q (pl_wid p) (mkRec pl (eff_ivl ivl) false (q_created r0) now).

  Definition enqueue (now : Z) (q : rq) (recs : list (payload * Z)) : rq :=
    fold_left (enqueue1 now) recs q.

  Definition expired (r : rrec) (now : Z) : bool := (dexp <? now - q_created r)%Z.
  Definition elapsed (r : rrec) (now : Z) : bool := (q_ivl r <? now - q_updated r)%Z.
  Definition ready (r : rrec) (now : Z) : bool := negb (expired r now) && negb (q_pend r) && elapsed r now.

  Definition set_pending (r : rrec) : rrec := mkRec (q_pl r) (q_ivl r) true (q_created r) (q_updated r).

  (* one iteration of `for k, record := range q.records`; the state is
     (records, results so far, loop left by `break`) *)
  Definition deq_visit (now n : Z) (st : rq * list payload * bool) (k : N) : rq * list payload * bool :=
    let '(q, out, stop) := st in
    if stop then st else
    match rq_find q k with
    | None => st
    | Some r =>
        if expired r now then (rq_remove q k, out, false)
        else if q_pend r then st
        else if elapsed r now then
          let out' := out ++ [q_pl r] in
          (rq_put q k (set_pending r), out', (n <=? Z.of_nat (length out'))%Z)
        else st
    end.

  (* Dequeue(n) at time [now]; the map is ranged over in the order [pi] followed by every key
     (visiting a key twice changes nothing, so [pi] may be any list) *)
  Definition dequeue (pi : list N) (q : rq) (now n : Z) : rq * list payload :=
    let '(q', out, _) := fold_left (deq_visit now n) (pi ++ rq_keys q) (q, [], false) in (q', out).

  (* Size(): records that are neither pending nor expired *)
  Definition rq_size (q : rq) (now : Z) : nat :=
    length (filter (fun kr => negb (q_pend (snd kr)) && negb (expired (snd kr) now)) q).

  (* ---------------------------------------------------------------------------- *)
  (* Histories *)

  Inductive qop :=
  | QEnq (t : Z) (recs : list (payload * Z))
  | QDeq (t : Z) (n : Z) (pi : list N).

  (* what happened, latest first *)
  Inductive qev :=
  | EEnq (t : Z) (rec : payload * Z)      (* one record enqueued *)
  | EDeq (t : Z) (out : list payload).

  Definition q_step (s : rq * list qev) (o : qop) : rq * list qev :=
    let '(q, h) := s in
    match o with
    | QEnq t recs => (enqueue t q recs, rev (map (EEnq t) recs) ++ h)
    | QDeq t n pi => let '(q', out) := dequeue pi q t n in (q', EDeq t out :: h)
    end.

  Definition q_run (ops : list qop) : rq * list qev := fold_left q_step ops ([], []).

  (* the latest enqueue of work id w: (time, effective interval, payload) *)
  Fixpoint last_enq (h : list qev) (w : N) : option (Z * Z * payload) :=
    match h with
    | [] => None
    | EEnq t (p, ivl) :: h' => if N.eqb (pl_wid p) w then Some (t, eff_ivl ivl, p) else last_enq h' w
    | EDeq _ _ :: h' => last_enq h' w
    end.

  (* was w handed out by a Dequeue after its latest enqueue? *)
  Fixpoint returned_since (h : list qev) (w : N) : bool :=
    match h with
    | [] => false
    | EEnq _ (p, _) :: h' => if N.eqb (pl_wid p) w then false else returned_since h' w
    | EDeq _ out :: h' => memN w (map pl_wid out) || returned_since h' w
    end.

  Fixpoint enq_of (h : list qev) (w : N) : list (Z * payload) :=
    match h with
    | [] => []
    | EEnq t (p, _) :: h' => if N.eqb (pl_wid p) w then (t, p) :: enq_of h' w else enq_of h' w
    | EDeq _ _ :: h' => enq_of h' w
    end.
End Queue.

(* ------------------------------------------------------------------------------ *)
(* Checker K for the queue: decides on an observed Dequeue result whether it respects the
   schedule, given the records as they stand (the state is advanced with what was observed). *)

Definition deq_ok (dexp : Z) (q : rq) (now n : Z) (obs : list payload) : bool :=
  nodupb (map pl_wid obs)
  (* every payload handed out is the stored payload of a record that is due, not pending, not expired *)
  && forallb (fun p => match rq_find q (pl_wid p) with
                       | Some r => payload_eqb p (q_pl r) && ready dexp r now
                       | None => false
                       end) obs
  (* at most n (the loop appends before it tests, so n <= 0 yields one) *)
  && (Z.of_nat (length obs) <=? Z.max n 1)%Z
  (* if there was room, everything that was due was handed out *)
  && ((n <=? Z.of_nat (length obs))%Z
      || forallb (fun k => match rq_find q k with
                           | Some r => negb (ready dexp r now) || memN k (map pl_wid obs)
                           | None => true
                           end) (rq_keys q)).

(* the loop was left by `break` while expired records exist: which of them were deleted
   depends on the map order and cannot be observed *)
Definition deq_undetermined (dexp : Z) (q : rq) (now n : Z) (obs : list payload) : bool :=
  (n <=? Z.of_nat (length obs))%Z
  && existsb (fun k => match rq_find q k with Some r => expired dexp r now | None => false end) (rq_keys q).

Definition deq_advance (dexp : Z) (q : rq) (now : Z) (obs : list payload) : rq :=
  let q1 := fold_left (fun q p => match rq_find q (pl_wid p) with
                                  | Some r => rq_put q (pl_wid p) (set_pending r)
                                  | None => q end) obs q in
  fold_left (fun q k => match rq_find q k with
                        | Some r => if expired dexp r now then rq_remove q k else q
                        | None => q end) (rq_keys q1) q1.

(* ------------------------------------------------------------------------------ *)
(* Case record for op sequences against the real queue *)

Inductive qobs :=
| OEnq (t : Z) (recs : list (payload * Z))
| ODeq (t : Z) (n : Z) (got : list payload)
| OSize (t : Z) (got : nat).

Record q_case := mkQCase { qc_divl : Z; qc_dexp : Z; qc_ops : list qobs }.

Definition payloads_eqb (a b : list payload) : bool := list_eqb payload_eqb a b.

(* model vs implementation: (state, mismatch seen, undetermined seen) *)
Definition qc_model_step (divl dexp : Z) (s : rq * bool * bool) (o : qobs) : rq * bool * bool :=
  let '(q, mis, und) := s in
  match o with
  | OEnq t recs => (enqueue divl t q recs, mis, und)
  | ODeq t n got =>
      let '(q', out) := dequeue dexp (map pl_wid got) q t n in
      (q', mis || negb (payloads_eqb out got), und || deq_undetermined dexp q t n got)
  | OSize t got => (q, mis || negb (Nat.eqb (rq_size dexp q t) got), und)
  end.

Definition qc_mism (k : q_case) : bool :=
  let '(_, mis, und) := fold_left (qc_model_step (qc_divl k) (qc_dexp k)) (qc_ops k) ([], false, false) in
  mis && negb und.

Definition qc_undet (k : q_case) : bool :=
  let '(_, _, und) := fold_left (qc_model_step (qc_divl k) (qc_dexp k)) (qc_ops k) ([], false, false) in und.

Definition qc_check_step (divl dexp : Z) (s : rq * bool) (o : qobs) : rq * bool :=
  let '(q, ok) := s in
  match o with
  | OEnq t recs => (enqueue divl t q recs, ok)
  | ODeq t n got => (deq_advance dexp q t got, ok && deq_ok dexp q t n got)
  | OSize _ _ => (q, ok)
  end.

Definition C12_queue_check (k : q_case) : bool :=
  snd (fold_left (qc_check_step (qc_divl k) (qc_dexp k)) (qc_ops k) ([], true)).

Definition qc_bad (k : q_case) : bool := negb (C12_queue_check k) && negb (qc_undet k).

(* non-trivial: some Dequeue handed out a payload and some Dequeue held one back *)
Definition qc_nontriv (k : q_case) : bool :=
  existsb (fun o => match o with ODeq _ _ (_ :: _) => true | _ => false end) (qc_ops k)
  && existsb (fun o => match o with OEnq _ (_ :: _) => true | _ => false end) (qc_ops k).

(* coverage: (records enqueued, payloads dequeued, dequeues that returned nothing) *)
Definition qc_cov (k : q_case) : nat * nat * nat :=
  fold_left (fun '(a, b, c) o => match o with
                                 | OEnq _ recs => (a + length recs, b, c)
                                 | ODeq _ _ got => (a, b + length got, c + (if Nat.eqb (length got) 0 then 1 else 0))
                                 | OSize _ _ => (a, b, c) end)%nat (qc_ops k) (0, 0, 0)%nat.
Definition cov3_sum (l : list (nat * nat * nat)) : nat * nat * nat :=
  fold_left (fun '(a, b, c) '(x, y, z) => (a + x, b + y, c + z)%nat) l (0, 0, 0)%nat.
