(* Model of the proposal queue (pkg/v3/stores/proposal_queue.go): Enqueue / Dequeue with the
   removed flag, the first-seen time, the 20 s window, an explicit clock and an explicit
   map-iteration oracle; the add-to-proposalq hook; the property as a specification over
   observed traces, checker K, case records.  No proofs in this file. *)
From Verif Require Export Base.Util Model.Metadata Model.ResultStore.
Open Scope Z_scope.

Record qrec := mkQRec { q_prop : prop; q_removed : bool; q_at : Z }.   (* proposalQueueRecord *)
Definition queue := list (N * qrec).                                    (* map work id -> record *)

Definition qget (k : N) (q : queue) : option qrec := option_map snd (find (fun kv => N.eqb (fst kv) k) q).
Definition qdel (k : N) (q : queue) : queue := filter (fun kv => negb (N.eqb (fst kv) k)) q.
Definition qset (k : N) (v : qrec) (q : queue) : queue := qdel k q ++ [(k, v)].

(* record.expired(now, proposalExpiry) *)
Definition q_expired (exp now : Z) (r : qrec) : bool := now - q_at r >? exp.

(* one iteration of the loop in Enqueue *)
Definition enqueue1 (now : Z) (q : queue) (p : prop) : queue :=
  match qget (p_wid p) q with
  | Some r => if (p_blk p <=? p_blk (q_prop r))%N then q else qset (p_wid p) (mkQRec p false now) q
  | None => qset (p_wid p) (mkQRec p false now) q
  end.
Definition enqueue (now : Z) (q : queue) (ps : list prop) : queue := fold_left (enqueue1 now) ps q.

Definition set_removed (r : qrec) : qrec := mkQRec (q_prop r) true (q_at r).
Definition mark (ws : list N) (q : queue) : queue :=
  map (fun kv => if memN (fst kv) ws then (fst kv, set_removed (snd kv)) else kv) q.

(* Dequeue(t, n): ranges over the map in the order [pi q]; expired records are deleted, removed
   ones skipped, the first n of the matching type are returned and marked.  Returns the records
   handed out (the caller sees their proposals). *)
Definition dequeue (exp : Z) (pi : queue -> queue) (typ : N) (n : nat) (now : Z) (q : queue) : queue * list qrec :=
  let cands := filter (fun kv => negb (q_expired exp now (snd kv)) && negb (q_removed (snd kv))
                                 && N.eqb (p_typ (q_prop (snd kv))) typ) (pi q) in
  let chosen := firstn n (map snd cands) in
  let alive := filter (fun kv => negb (q_expired exp now (snd kv))) q in
  (mark (map (fun r => p_wid (q_prop r)) chosen) alive, chosen).

Inductive qop := QEnq (ps : list prop) | QDeq (typ : N) (n : nat).
Definition qtrace := list (Z * qop).

Definition q_step (exp : Z) (pi : queue -> queue) (q : queue) (x : Z * qop) : queue * list qrec :=
  match snd x with
  | QEnq ps => (enqueue (fst x) q ps, [])
  | QDeq typ n => dequeue exp pi typ n (fst x) q
  end.

(* [pi k] is the iteration order used by the k-th operation *)
Fixpoint q_outs_from (exp : Z) (pi : nat -> queue -> queue) (k : nat) (q : queue) (tr : qtrace) : list (list qrec) :=
  match tr with
  | [] => []
  | x :: tr' => let '(q', out) := q_step exp (pi k) q x in out :: q_outs_from exp pi (S k) q' tr'
  end.
Fixpoint q_run_from (exp : Z) (pi : nat -> queue -> queue) (k : nat) (q : queue) (tr : qtrace) : queue :=
  match tr with
  | [] => q
  | x :: tr' => q_run_from exp pi (S k) (fst (q_step exp (pi k) q x)) tr'
  end.
Definition q_outs exp pi tr := q_outs_from exp pi 0 [] tr.
Definition q_run exp pi tr := q_run_from exp pi 0 [] tr.

(* AddToProposalQHook.RunHook: one Enqueue per round of the outcome's surfaced-proposal history *)
Definition hook_ops (t : Z) (rounds : list (list prop)) : qtrace := map (fun r => (t, QEnq r)) rounds.

(* ------------------------------------------------------------------------------ *)
(* Specification on an observed trace (what each Dequeue returned; [] for Enqueue) *)

Definition qotrace := list (Z * qop * list prop).
Definition qo_time (x : Z * qop * list prop) : Z := fst (fst x).
Definition qo_op (x : Z * qop * list prop) : qop := snd (fst x).

Definition same_wb (w b : N) (p : prop) : bool := N.eqb (p_wid p) w && N.eqb (p_blk p) b.
Definition enq_has (w b : N) (x : Z * qop * list prop) : bool :=
  match qo_op x with QEnq ps => existsb (same_wb w b) ps | _ => false end.
Definition is_deq (x : Z * qop * list prop) : bool := match qo_op x with QDeq _ _ => true | _ => false end.
Definition deq_of (typ : N) (x : Z * qop * list prop) : bool :=
  match qo_op x with QDeq typ' _ => N.eqb typ' typ | _ => false end.

(* (2) a handed-out proposal was enqueued, as that very value, within the window *)
Definition q_justified_b (exp : Z) (pre : qotrace) (t : Z) (p : prop) : bool :=
  existsb (fun y => match qo_op y with
                    | QEnq ps => if existsb (prop_eqb p) ps then t - qo_time y <=? exp else false
                    | _ => false
                    end) pre.

(* (a) a second hand-out of the same (work id, block) needs: an enqueue e1 within the window of
   the first hand-out, a later Dequeue that ran after e1's window closed, and a fresh enqueue e2
   after that, within the window of the second hand-out *)
Definition q_again_ok_b (exp : Z) (q1 : qotrace) (ti : Z) (q2 : qotrace) (tj : Z) (w b : N) : bool :=
  existsb (fun e1 =>
     if enq_has w b e1 then
       if ti - qo_time e1 <=? exp then
         existsb (fun '(_, k, after) =>
            if is_deq k then
              if qo_time k - qo_time e1 >? exp
              then existsb (fun e2 => if enq_has w b e2 then tj - qo_time e2 <=? exp else false) after
              else false
            else false) (splits q2)
       else false
     else false) q1.

(* an enqueued proposal is certainly accepted: every proposal enqueued earlier for the same work
   id with an equal or higher block has been purged, i.e. some Dequeue ran after it when its
   window had closed (with non-decreasing time the latest Dequeue after it is the one to look at).
   [rp1] is the prefix before the enqueue, REVERSED. *)
Definition dominates (p : prop) (p' : prop) : bool := N.eqb (p_wid p') (p_wid p) && (p_blk p <=? p_blk p')%N.

Fixpoint q_undominated_go (exp : Z) (p : prop) (rp1 : qotrace) (lastdeq : option Z) : bool :=
  match rp1 with
  | [] => true
  | y :: l =>
      match qo_op y with
      | QDeq _ _ => q_undominated_go exp p l (match lastdeq with None => Some (qo_time y) | Some _ => lastdeq end)
      | QEnq ps =>
          if existsb (dominates p) ps
          then match lastdeq with
               | Some tk => if tk - qo_time y >? exp then q_undominated_go exp p l lastdeq else false
               | None => false
               end
          else q_undominated_go exp p l lastdeq
      end
  end.

Definition q_undominated_b (exp : Z) (rp1 : qotrace) (earlier_same_call : list prop) (p : prop) : bool :=
  if existsb (dominates p) earlier_same_call then false else q_undominated_go exp p rp1 None.

Definition q_supersedes_b (p p' : prop) : bool :=
  N.eqb (p_wid p') (p_wid p) && (prop_eqb p' p || (p_blk p <? p_blk p')%N).

(* number of distinct work ids ever enqueued: an upper bound on the queue's size *)
Definition enq_wids (pre : qotrace) : list N :=
  fold_left (fun a y => match qo_op y with
                        | QEnq ps => fold_left (fun a p => if memN (p_wid p) a then a else p_wid p :: a) ps a
                        | _ => a
                        end) pre [].

(* (b) the first Dequeue of its type after an accepted enqueue, within the window and with room
   for everything, hands the proposal out (or a higher block for the same work id).
   [rpre] is the prefix before the Dequeue, REVERSED; the walk stops at the previous Dequeue of
   that type. *)
Fixpoint q_live_go (exp : Z) (t : Z) (typ : N) (V : list prop) (rpre : qotrace) : bool :=
  match rpre with
  | [] => true
  | e :: l =>
      if deq_of typ e then true
      else match qo_op e with
           | QEnq ps =>
               if t - qo_time e <=? exp then
                 if forallb (fun '(before, p, _) =>
                      if N.eqb (p_typ p) typ then
                        if q_undominated_b exp l before p then existsb (q_supersedes_b p) V else true
                      else true) (splits ps)
                 then q_live_go exp t typ V l else false
               else q_live_go exp t typ V l
           | _ => q_live_go exp t typ V l
           end
  end.

Definition q_live_b (exp : Z) (pre : qotrace) (t : Z) (typ : N) (n : nat) (V : list prop) : bool :=
  if Nat.leb (length (enq_wids pre)) n then q_live_go exp t typ V (rev pre) else true.

(* (a) over all earlier Dequeues; [rq1] is the part before the earlier Dequeue, REVERSED *)
Fixpoint q_once_go (exp : Z) (t : Z) (V : list prop) (rq1 : qotrace) (rest : qotrace) : bool :=
  match rest with
  | [] => true
  | y :: q2 =>
      if (if is_deq y then
            forallb (fun p' => forallb (fun p =>
              if same_wb (p_wid p') (p_blk p') p then q_again_ok_b exp rq1 (qo_time y) q2 t (p_wid p') (p_blk p') else true) V) (snd y)
          else true)
      then q_once_go exp t V (y :: rq1) q2 else false
  end.
Definition q_once_b (exp : Z) (pre : qotrace) (t : Z) (V : list prop) : bool := q_once_go exp t V [] pre.

Definition q_deq_ok_b (exp : Z) (pre : qotrace) (t : Z) (typ : N) (n : nat) (V : list prop) : bool :=
  nodupb (map p_wid V) && forallb (fun p => N.eqb (p_typ p) typ) V && Nat.leb (length V) n
  && forallb (q_justified_b exp pre t) V
  && q_once_b exp pre t V
  && q_live_b exp pre t typ n V.

Definition C11_queue_check (exp : Z) (ot : qotrace) : bool :=
  forallb (fun '(pre, x, _) =>
    match qo_op x with QDeq typ n => q_deq_ok_b exp pre (qo_time x) typ n (snd x) | _ => true end) (splits ot).

(* the same as propositions *)
Definition q_justified (exp : Z) (pre : qotrace) (t : Z) (p : prop) : Prop :=
  exists y ps, In y pre /\ qo_op y = QEnq ps /\ In p ps /\ t - qo_time y <= exp.
Definition q_again_ok (exp : Z) (q1 : qotrace) (ti : Z) (q2 : qotrace) (tj : Z) (w b : N) : Prop :=
  exists e1 a k after e2, In e1 q1 /\ enq_has w b e1 = true /\ ti - qo_time e1 <= exp /\
    q2 = a ++ k :: after /\ is_deq k = true /\ qo_time k - qo_time e1 > exp /\
    In e2 after /\ enq_has w b e2 = true /\ tj - qo_time e2 <= exp.

Definition C11_queue_spec (exp : Z) (ot : qotrace) : Prop :=
  forall pre t typ n V post, ot = pre ++ (t, QDeq typ n, V) :: post ->
    NoDup (map p_wid V) /\ (forall p, In p V -> p_typ p = typ) /\ (length V <= n)%nat /\
    (forall p, In p V -> q_justified exp pre t p) /\
    (forall q1 ti typ' n' V' q2 p' p, pre = q1 ++ (ti, QDeq typ' n', V') :: q2 -> In p' V' -> In p V ->
       p_wid p = p_wid p' -> p_blk p = p_blk p' -> q_again_ok exp q1 ti q2 t (p_wid p') (p_blk p')) /\
    q_live_b exp pre t typ n V = true.

(* ------------------------------------------------------------------------------ *)
(* Case record written by the harness *)

Inductive qaop := QAEnq (ps : list prop) | QAHook (rounds : list (list prop)) | QADeq (typ : N) (n : nat).
Definition qexpand1 (x : Z * qaop) : qtrace :=
  match snd x with
  | QAEnq ps => [(fst x, QEnq ps)]
  | QAHook rounds => hook_ops (fst x) rounds
  | QADeq typ n => [(fst x, QDeq typ n)]
  end.
Definition qexpand (l : list (Z * qaop)) : qtrace := flat_map qexpand1 l.

Record pq_case := mkPqCase { qc_ops : list (Z * qaop); qc_obs : list (list prop) }.  (* obs: one per Dequeue *)

(* iteration order that visits the records of the observed work ids first, in observed order *)
Definition pi_of_obs (obs : list prop) (q : queue) : queue :=
  flat_map (fun p => filter (fun kv => N.eqb (fst kv) (p_wid p)) q) obs
  ++ filter (fun kv => negb (memN (fst kv) (map p_wid obs))) q.

(* run the model, steering every Dequeue's map order by what was observed *)
Fixpoint q_model (exp : Z) (q : queue) (tr : qtrace) (obs : list (list prop)) : list (list prop) :=
  match tr with
  | [] => []
  | x :: tr' =>
      match snd x with
      | QEnq ps => q_model exp (enqueue (fst x) q ps) tr' obs
      | QDeq typ n =>
          let o := match obs with v :: _ => v | [] => [] end in
          let '(q', out) := dequeue exp (pi_of_obs o) typ n (fst x) q in
          map q_prop out :: q_model exp q' tr' (tl obs)
      end
  end.

Fixpoint qattach (tr : qtrace) (obs : list (list prop)) : option qotrace :=
  match tr with
  | [] => match obs with [] => Some [] | _ => None end
  | x :: tr' =>
      match snd x with
      | QDeq _ _ => match obs with
                    | V :: obs' => option_map (cons (x, V)) (qattach tr' obs')
                    | [] => None
                    end
      | _ => option_map (cons (x, [])) (qattach tr' obs)
      end
  end.

Definition pq_mism (exp : Z) (k : pq_case) : bool :=
  negb (list_eqb (list_eqb prop_eqb) (q_model exp [] (qexpand (qc_ops k)) (qc_obs k)) (qc_obs k)).
Definition pq_bad (exp : Z) (k : pq_case) : bool :=
  match qattach (qexpand (qc_ops k)) (qc_obs k) with
  | Some ot => negb (C11_queue_check exp ot)
  | None => true
  end.
Definition pq_nontriv (k : pq_case) : bool :=
  Nat.ltb 1 (length (filter (fun v => negb (Nat.eqb (length v) 0)) (qc_obs k))).
(* coverage: some (work id, block) was handed out twice in the case (window re-opened) *)
Definition pq_cov_rehanded (k : pq_case) : bool :=
  let all := concat (qc_obs k) in
  negb (nodupb (map (fun p => (p_wid p * 1000000 + p_blk p)%N) all)).
