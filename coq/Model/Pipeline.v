(* Model of result routing: Observer.Process (pkg/v3/observer.go), the post-processors
   (pkg/v3/postprocessors/{eligible,ineligible,metadata,retry,combine}.go) as they are wired
   in the flows (pkg/v3/flows/{logtrigger,retry,recovery,conditional}.go), on top of the
   runner model (Model/Runner.v) and the retry queue model (Model/RetryQueue.v).
   No proofs in this file. *)
From Verif Require Export Base.Util Model.Runner Model.RetryQueue.
Open Scope N_scope.

(* the six observers the flows build *)
Inductive kind := KLog | KRetry | KRecFinal | KCondFinal | KRecProp | KSample.

Definition kind_eqb (a b : kind) : bool :=
  match a, b with
  | KLog, KLog | KRetry, KRetry | KRecFinal, KRecFinal | KCondFinal, KCondFinal
  | KRecProp, KRecProp | KSample, KSample => true
  | _, _ => false
  end.

(* which post-processors the flow's NewCombinedPostprocessor holds *)
Definition has_stage (k : kind) : bool :=      (* NewEligiblePostProcessor(resultStore) *)
  match k with KLog | KRetry | KRecFinal | KCondFinal => true | _ => false end.
Definition has_retry (k : kind) : bool :=      (* NewRetryablePostProcessor(retryQ) *)
  match k with KLog | KRetry | KRecFinal | KCondFinal => true | _ => false end.
Definition has_inelig (k : kind) : bool :=     (* NewIneligiblePostProcessor(stateUpdater) *)
  match k with KLog | KRetry | KRecFinal | KRecProp => true | _ => false end.
Definition has_prop (k : kind) : bool :=       (* NewAddProposalToMetadataStorePostprocessor *)
  match k with KRecProp | KSample => true | _ => false end.

Definition elig_ok (r : result) : bool := N.eqb (r_state r) 0 && r_elig r.
Definition inelig_ok (r : result) : bool := N.eqb (r_state r) 0 && negb (r_elig r).
Definition retry_fail (r : result) : bool := negb (N.eqb (r_state r) 0) && r_retry r.

(* ------------------------------------------------------------------------------ *)
(* retryablePostProcessor: which payload a retryable failure is paired with.
   fixed = false: the code at the pinned commit, payloads[i] (None = index out of range, a panic).
   fixed = true : payloadOf — a result that carries a work id is matched on work id, block and
   hash, else on work id alone; only a result without work id is paired by position. *)

Fixpoint find_exact (r : result) (pls : list payload) : option payload :=
  match pls with
  | [] => None
  | p :: t => if key3_eqb (pl_key p) (r_key r) then Some p else find_exact r t
  end.

Fixpoint find_wid (r : result) (pls : list payload) : option payload :=
  match pls with
  | [] => None
  | p :: t => if N.eqb (pl_wid p) (r_wid r) then Some p else find_wid r t
  end.

Definition payload_of (fixed : bool) (r : result) (pos : nat) (pls : list payload) : option payload :=
  if fixed then
    if N.eqb (r_wid r) 0 then nth_error pls pos
    else match find_exact r pls with
         | Some p => Some p
         | None => find_wid r pls
         end
  else nth_error pls pos.

Inductive rp_out :=
| RpOk (enq : list (payload * Z)) (err : bool)   (* Enqueue calls made, an error was joined *)
| RpPanic (enq : list (payload * Z)).            (* index out of range after these Enqueue calls *)

Fixpoint retry_pp (fixed : bool) (rs : list result) (pos : nat) (pls : list payload)
         (acc : list (payload * Z)) (err : bool) : rp_out :=
  match rs with
  | [] => RpOk (rev acc) err
  | r :: t =>
      if retry_fail r then
        match payload_of fixed r pos pls with
        | Some p => retry_pp fixed t (S pos) pls ((p, r_ivl r) :: acc) err
        | None => if fixed then retry_pp fixed t (S pos) pls acc true else RpPanic (rev acc)
        end
      else retry_pp fixed t (S pos) pls acc err
  end.

(* ------------------------------------------------------------------------------ *)
(* What one Process call hands to the sinks *)

Record sinks := mkSinks {
  sk_staged : list result;        (* ResultStore.Add *)
  sk_inelig : list result;        (* UpkeepStateUpdater.SetUpkeepState(_, Ineligible) *)
  sk_props  : list result;        (* MetadataStore.AddProposals (upkeep, trigger, work id of) *)
  sk_enq    : list (payload * Z); (* RetryQueue.Enqueue *)
  sk_err    : bool;               (* PostProcess returned an error *)
  sk_panic  : bool }.

(* Sinks that can refuse: UpkeepStateUpdater.SetUpkeepState returns an error for the work ids in
   [ufail]; RetryQueue.Enqueue returns an error for the work ids in [qfail] (the real queue never
   does, the interface allows it).  The call is made all the same; the error is joined. *)
Definition sink_err (ufail qfail : list N) (k : kind) (rs : list result) (enq : list (payload * Z)) : bool :=
  existsb (fun e => memN (pl_wid (fst e)) qfail) enq
  || (has_inelig k && existsb (fun r => memN (r_wid r) ufail) (filter inelig_ok rs)).

(* the records the queue accepted *)
Definition accepted (qfail : list N) (enq : list (payload * Z)) : list (payload * Z) :=
  filter (fun e => negb (memN (pl_wid (fst e)) qfail)) enq.

(* CombinedPostprocessor.PostProcess: every post-processor of the chain runs on the whole result
   list whatever the earlier ones returned; the errors are joined *)
Definition postprocess (fixed : bool) (ufail qfail : list N) (k : kind) (rs : list result) (pls : list payload) : sinks :=
  let staged := if has_stage k then filter elig_ok rs else [] in
  let inel := if has_inelig k then filter inelig_ok rs else [] in
  let props := if has_prop k then filter elig_ok rs else [] in
  if has_retry k then
    match retry_pp fixed rs 0 pls [] false with
    | RpOk enq err => mkSinks staged inel props enq (err || sink_err ufail qfail k rs enq) false
    | RpPanic enq => mkSinks staged [] [] enq false true   (* eligible ran before, the rest never runs *)
    end
  else mkSinks staged inel props [] (sink_err ufail qfail k rs []) false.

Section Process.
  Variable pipe  : list job -> list result.
  Variable bfail : list job -> bool.
  Variable cexp  : Z.
  Variable wlimit : nat.
  Variable ufail qfail : list N.

  (* Observer.Process after the pre-processors: check pipeline, then the post-processor; a
     runner error ends the call before any post-processing *)
  Definition process (fixed : bool) (k : kind) (c : cache) (cnt : counters) (t : Z) (pls : list payload)
             (ord : list (list job) -> list (list job * Z)) : cache * counters * option sinks :=
    let '(c', cnt', o) := check pipe bfail cexp wlimit c cnt t pls ord in
    match o with
    | Ok rs => (c', cnt', Some (postprocess fixed ufail qfail k rs pls))
    | _ => (c', cnt', None)
    end.
End Process.

(* ------------------------------------------------------------------------------ *)
(* Checker K for routing: decides, on the results the real runner returned to the observer and
   on what the real post-processors did, that each result went to the right sink with its own
   payload.  Independent of the runner and queue models. *)

Definition results_eqb (a b : list result) : bool := list_eqb result_eqb a b.

Fixpoint own_payload (r : result) (pls : list payload) : option payload :=
  match pls with
  | [] => None
  | p :: t => if N.eqb (pl_tag p) (r_tag r) then Some p else own_payload r t
  end.

(* every retryable failure that carries its work id is retried with a payload of the call that has
   the work id, block and hash of the payload it was produced from (two payloads of one call
   that agree on those are the same unit of work on the same check block) and with its own
   interval, in order; a result without work id may be retried with some payload of the call or
   not at all; nothing else *)
Fixpoint enq_ok (pls : list payload) (rs : list result) (enq : list (payload * Z)) : bool :=
  match rs with
  | [] => match enq with [] => true | _ => false end
  | r :: t =>
      if retry_fail r then
        if N.eqb (r_wid r) 0 then
          enq_ok pls t enq
          || match enq with
             | (p, i) :: e' => existsb (payload_eqb p) pls && Z.eqb i (r_ivl r) && enq_ok pls t e'
             | [] => false
             end
        else
          match enq with
          | (p, i) :: e' =>
              match own_payload r pls with
              | Some o => existsb (payload_eqb p) pls && key3_eqb (pl_key p) (pl_key o)
                          && key3_eqb (pl_key p) (r_key r) && Z.eqb i (r_ivl r) && enq_ok pls t e'
              | None => false
              end
          | [] => false
          end
      else enq_ok pls t enq
  end.

Record step_obs := mkSO {
  so_err : N;                     (* 0 ok; 1 the runner returned an error; 2 PostProcess error; 3 panic *)
  so_results : list result;       (* what the runner returned to the observer *)
  so_staged : list result;
  so_inelig : list result;
  so_props : list key3;           (* (work id, block, hash) of the proposals added *)
  so_enq : list (payload * Z);
  so_tq : Z }.                    (* instant of the post-processing (Enqueue) *)

Definition C12_route_check (k : kind) (pls : list payload) (o : step_obs) : bool :=
  if N.eqb (so_err o) 1 then
    (* no results: nothing may reach any sink *)
    match so_staged o, so_inelig o, so_props o, so_enq o with [], [], [], [] => true | _, _, _, _ => false end
  else
    negb (N.eqb (so_err o) 3)
    && results_eqb (so_staged o) (if has_stage k then filter elig_ok (so_results o) else [])
    && results_eqb (so_inelig o) (if has_inelig k then filter inelig_ok (so_results o) else [])
    && list_eqb key3_eqb (so_props o) (map r_key (if has_prop k then filter elig_ok (so_results o) else []))
    && (if has_retry k then enq_ok pls (so_results o) (so_enq o)
        else match so_enq o with [] => true | _ => false end).

(* Known-finding predicate (finding 5, repaired in /repo by a fix: commit; kept for the historic
   behaviour): the only failing clause is the retry pairing, and what was enqueued is exactly what
   positional pairing yields while matching on the work id would have paired differently. *)
Definition kf_result_payload_misaligned (k : kind) (pls : list payload) (o : step_obs) : bool :=
  negb (C12_route_check k pls o)
  && has_retry k
  && match retry_pp false (so_results o) 0 pls [] false with
     | RpOk enq _ => list_eqb (fun a b => payload_eqb (fst a) (fst b) && Z.eqb (snd a) (snd b)) enq (so_enq o)
     | RpPanic enq => N.eqb (so_err o) 3
     end
  && C12_route_check k pls
       (mkSO (if N.eqb (so_err o) 3 then 0 else so_err o) (so_results o) (so_staged o)
             (if N.eqb (so_err o) 3 then (if has_inelig k then filter inelig_ok (so_results o) else []) else so_inelig o)
             (so_props o)
             (match retry_pp true (so_results o) 0 pls [] false with RpOk e _ => e | RpPanic e => e end)
             (so_tq o)).

(* ------------------------------------------------------------------------------ *)
(* Case record: a history of observer calls and queue probes against one runner, one retry
   queue, with what was observed at each step. *)

Inductive pstep :=
| SProc (k : kind) (t : Z) (pls : list payload) (done : list (N * Z)) (o : step_obs)
    (* observer of flow k processes pls (what reached the runner) at time t; done = first tag and
       instant of each pipeline invocation in completion order *)
| SDeq (t : Z) (n : Z) (got : list payload).
    (* RetryQueue.Dequeue(n) at time t returned got (the retry flow's tick, or a probe) *)

Record pl_case := mkPlCase { pc_cexp : Z; pc_divl : Z; pc_dexp : Z; pc_script : script;
                             pc_ufail : list N; pc_qfail : list N;   (* work ids the updater / the queue refuses *)
                             pc_steps : list pstep }.

(* completion order oracle from the observation *)
Fixpoint ord_of (done : list (N * Z)) (bs : list (list job)) : list (list job * Z) :=
  match done with
  | [] => []
  | (first, t) :: d => match take_batch first bs with
                       | Some (b, rest) => (b, t) :: ord_of d rest
                       | None => []
                       end
  end.

Definition enq_eqb (a b : list (payload * Z)) : bool :=
  list_eqb (fun x y => payload_eqb (fst x) (fst y) && Z.eqb (snd x) (snd y)) a b.

Definition last_time (t : Z) (done : list (N * Z)) : Z := fold_left (fun _ d => snd d) done t.

Record pstate := mkPS { ps_cache : cache; ps_cnt : counters; ps_q : rq; ps_mis : bool; ps_und : bool }.

Definition pl_model_step (wl : nat) (k : pl_case) (s : pstate) (st : pstep) : pstate :=
  match st with
  | SProc kd t pls done o =>
      let sc := pc_script k in
      let '(c', cnt', res) := process (spipe sc) (sfail sc) (pc_cexp k) wl (pc_ufail k) (pc_qfail k) true kd (ps_cache s) (ps_cnt s) t pls (ord_of done) in
      (* every observed invocation must have been used *)
      let nb := match unflatten (jobs_of (ps_cache s) (ps_cnt s) t pls) wl with Some bs => length bs | None => O end in
      let okord := Nat.eqb nb (length done) && Nat.eqb (length (ord_of done (match unflatten (jobs_of (ps_cache s) (ps_cnt s) t pls) wl with Some bs => bs | None => [] end))) nb in
      match res with
      | None => mkPS c' cnt' (ps_q s) (ps_mis s || negb okord || negb (N.eqb (so_err o) 1)) (ps_und s)
      | Some sk =>
          let q' := if has_retry kd then enqueue (pc_divl k) (so_tq o) (ps_q s) (accepted (pc_qfail k) (sk_enq sk)) else ps_q s in
          let same :=
            okord
            && N.eqb (so_err o) (if sk_panic sk then 3 else if sk_err sk then 2 else 0)
            && results_eqb (sk_staged sk) (so_staged o) && results_eqb (sk_inelig sk) (so_inelig o)
            && list_eqb key3_eqb (map r_key (sk_props sk)) (so_props o) && enq_eqb (sk_enq sk) (so_enq o)
            (* the post-processors run after the last batch has completed; their sinks may take time (a slow store) *)
            && (match sk_enq sk with [] => true | _ => Z.leb (last_time t done) (so_tq o) end) in
          mkPS c' cnt' q' (ps_mis s || negb same) (ps_und s)
      end
  | SDeq t n got =>
      let '(q', out) := dequeue (pc_dexp k) (map pl_wid got) (ps_q s) t n in
      mkPS (ps_cache s) (ps_cnt s) q' (ps_mis s || negb (payloads_eqb out got))
           (ps_und s || deq_undetermined (pc_dexp k) (ps_q s) t n got)
  end.

Definition ps0 : pstate := mkPS [] [] [] false false.

Definition pl_run (wl : nat) (k : pl_case) : pstate := fold_left (pl_model_step wl k) (pc_steps k) ps0.

Definition pl_mism (wl : nat) (k : pl_case) : bool := let s := pl_run wl k in ps_mis s && negb (ps_und s).

(* checker K over a history: routing of every step, and every Dequeue against the records as
   they stand after the enqueues that were observed *)
Definition pl_check_step (k : pl_case) (s : rq * bool * bool) (st : pstep) : rq * bool * bool :=
  let '(q, ok, kf) := s in
  match st with
  | SProc kd t pls _ o =>
      (enqueue (pc_divl k) (so_tq o) q (accepted (pc_qfail k) (so_enq o)),
       ok && (C12_route_check kd pls o || kf_result_payload_misaligned kd pls o),
       kf || kf_result_payload_misaligned kd pls o)
  | SDeq t n got =>
      (deq_advance (pc_dexp k) q t got,
       ok && (deq_ok (pc_dexp k) q t n got || deq_undetermined (pc_dexp k) q t n got), kf)
  end.

Definition pl_checked (k : pl_case) : rq * bool * bool := fold_left (pl_check_step k) (pc_steps k) ([], true, false).

(* K fails on the case (a step matched by the known-finding predicate counts as failing, so that
   the driver reports it under that finding and nothing else) *)
Definition pl_bad (k : pl_case) : bool :=
  let '(_, ok, kf) := pl_checked k in negb ok || kf.
Definition pl_kf_misaligned (k : pl_case) : bool :=
  let '(_, ok, kf) := pl_checked k in ok && kf.

Definition step_routes (st : pstep) : nat * nat * nat * nat :=
  match st with
  | SProc _ _ _ _ o => (length (so_staged o) + length (so_props o), length (so_inelig o), length (so_enq o), 0)%nat
  | SDeq _ _ got => (0, 0, 0, length got)%nat
  end.

(* coverage: (results staged or proposed, recorded ineligible, retries enqueued, payloads dequeued) *)
Definition pl_cov (k : pl_case) : nat * nat * nat * nat := cov4_sum (map step_routes (pc_steps k)).

(* non-trivial: some retry was enqueued and something was staged or recorded in the same history *)
Definition pl_nontriv (k : pl_case) : bool :=
  let '(a, b, c, _) := pl_cov k in negb (Nat.eqb c 0) && negb (Nat.eqb (a + b) 0).
