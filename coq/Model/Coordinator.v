(* Model of the OCR3 transmit coordinator (pkg/v3/coordinator/coordinator.go) on top of the
   cache-with-expiry of pkg/util/cache.go, and of the any-of aggregation in
   ShouldAcceptAttestedReport / ShouldTransmitAcceptedReport (pkg/v3/plugin/ocr3.go).
   Time is an explicit Z (nanoseconds) argument of every operation.  No proofs in this file. *)
From Verif Require Export Base.Util.
Open Scope Z_scope.

(* ------------------------------------------------------------------ util.Cache[T] *)

(* A cache maps a key to (item, Expires); Expires = 0 means "never". *)
Definition cache (K A : Type) := K -> option (A * Z).
Definition cempty {K A} : cache K A := fun _ => None.

(* Set(key, v, DefaultCacheExpiration): expire := defaultExpiration; if expire > 0 then
   Expires := now + expire else Expires := 0 *)
Definition cexp (window now : Z) : Z := if 0 <? window then now + window else 0.

Definition cset {K A} (eqb : K -> K -> bool) (window now : Z) (k : K) (v : A) (c : cache K A) : cache K A :=
  fun k' => if eqb k' k then Some (v, cexp window now) else c k'.

(* Get: an item whose Expires is > 0 and strictly before now is reported as absent *)
Definition live (now exp : Z) : bool := negb ((0 <? exp) && (exp <? now)).

Definition cget {K A} (now : Z) (k : K) (c : cache K A) : option A :=
  match c k with
  | Some (v, exp) => if live now exp then Some v else None
  | None => None
  end.

(* ClearExpired *)
Definition cgc {K A} (now : Z) (c : cache K A) : cache K A :=
  fun k => match c k with
           | Some (v, exp) => if live now exp then Some (v, exp) else None
           | None => None
           end.

(* ClearExpired in two phases, as the code does it: under the read lock the expired keys are
   collected ([marked]); later, under the write lock, they are deleted.  [recheck] says whether
   the second phase deletes only items that are still expired (the repaired code) or every
   marked key (the code at the pinned commit).  A Set may happen between the two phases. *)
Definition gc_mark {K A} (now : Z) (c : cache K A) : K -> bool :=
  fun k => match c k with Some (_, exp) => negb (live now exp) | None => false end.
Definition gc_sweep {K A} (recheck : bool) (now : Z) (marked : K -> bool) (c : cache K A) : cache K A :=
  fun k => if marked k
           then (if recheck then match c k with
                                 | Some (v, exp) => if live now exp then Some (v, exp) else None
                                 | None => None
                                 end
                 else None)
           else c k.

(* ------------------------------------------------------------------ coordinator state *)

Record event := mkEv { ev_w : N;       (* interned WorkID *)
                       ev_tx : N;      (* interned TransactionHash *)
                       ev_type : N;    (* TransmitEventType: 0 unknown, 1 perform, 2 stale, 3 reorg, 4 insufficient funds *)
                       ev_tb : N;      (* TransmitBlock *)
                       ev_conf : Z;    (* Confirmations, int64 *)
                       ev_check : N }. (* CheckBlock *)

Record entry := mkE { e_check : N;     (* checkBlockNumber: the awaited check block *)
                      e_pend : bool;   (* isTransmissionPending *)
                      e_tt : N;        (* transmitType *)
                      e_tb : N }.      (* transmitBlockNumber *)

Record ccfg := mkCC { c_window : Z;    (* performLockoutWindow in ns (config value is in ms) *)
                      c_minconf : Z }. (* minimumConfirmations *)

(* visitedID = "<workID>_<txHash>_<transmitBlock>" *)
Definition vid := (N * N * N)%type.
Definition vid_eqb (a b : vid) : bool :=
  let '(a1, a2, a3) := a in let '(b1, b2, b3) := b in N.eqb a1 b1 && N.eqb a2 b2 && N.eqb a3 b3.
Definition ev_id (e : event) : vid := (ev_w e, ev_tx e, ev_tb e).

Record state := mkS { s_cache : cache N entry; s_vis : cache vid bool }.
Definition s0 : state := mkS cempty cempty.

Definition PERFORM : N := 1%N.
Definition UT_COND : N := 0%N.
Definition UT_LOG : N := 1%N.

Definition put (c : ccfg) (t : Z) (w : N) (v : entry) (s : state) : state :=
  mkS (cset N.eqb (c_window c) t w v (s_cache s)) (s_vis s).

(* Accept *)
Definition accept (c : ccfg) (t : Z) (w b : N) (s : state) : state * bool :=
  match cget t w (s_cache s) with
  | None => (put c t w (mkE b true 0 0) s, true)
  | Some v => if (e_check v <? b)%N then (put c t w (mkE b true 0 0) s, true) else (s, false)
  end.

(* ShouldTransmit *)
Definition st_of (r : option entry) (b : N) : bool :=
  match r with
  | None => false
  | Some v => if (b <? e_check v)%N then false else if (b =? e_check v)%N then e_pend v else false
  end.
Definition should_transmit (t : Z) (w b : N) (s : state) : bool := st_of (cget t w (s_cache s)) b.

(* one iteration of the checkEvents loop *)
Definition step_event (c : ccfg) (t : Z) (s : state) (e : event) : state :=
  if ev_conf e <? c_minconf c then s else
  match cget t (ev_id e) (s_vis s) with
  | Some _ => s
  | None =>
    match cget t (ev_w e) (s_cache s) with
    | None => s
    | Some v =>
      let s1 := mkS (s_cache s) (cset vid_eqb (c_window c) t (ev_id e) true (s_vis s)) in
      if (ev_check e =? e_check v)%N then put c t (ev_w e) (mkE (e_check v) false (ev_type e) (ev_tb e)) s1
      else if (e_check v <? ev_check e)%N then put c t (ev_w e) (mkE (ev_check e) false (ev_type e) (ev_tb e)) s1
      else s1
    end
  end.

Definition check_events (c : ccfg) (t : Z) (evs : list event) (s : state) : state :=
  fold_left (step_event c t) evs s.

(* ShouldProcess / FilterProposals as functions of the record found by Get *)
Definition item := (N * N * N)%type.     (* work id, upkeep type (0 conditional, 1 log, else unknown), trigger block *)
Definition mkItem (w ut blk : N) : item := (w, ut, blk).
Definition mkWB (w b : N) : N * N := (w, b).
Definition it_w (i : item) : N := fst (fst i).
Definition it_ut (i : item) : N := snd (fst i).
Definition it_blk (i : item) : N := snd i.

Definition sp_of (r : option entry) (ut blk : N) : bool :=
  match r with
  | None => true
  | Some v =>
    if e_pend v then false
    else if (ut =? UT_LOG)%N then negb (e_tt v =? PERFORM)%N
    else if (ut =? UT_COND)%N then (if (e_tt v =? PERFORM)%N then (e_tb v <=? blk)%N else true)
    else true
  end.

Definition fp_of (r : option entry) (ut : N) : bool :=
  match r with
  | None => true
  | Some v => if e_pend v then false else negb ((ut =? UT_LOG)%N && (e_tt v =? PERFORM)%N)
  end.

Definition should_process (t : Z) (i : item) (s : state) : bool := sp_of (cget t (it_w i) (s_cache s)) (it_ut i) (it_blk i).
Definition keep_proposal (t : Z) (i : item) (s : state) : bool := fp_of (cget t (it_w i) (s_cache s)) (it_ut i).

(* report-level folds: every upkeep is visited (side effects on every element) *)
Fixpoint accept_all (c : ccfg) (t : Z) (l : list (N * N)) (s : state) : state * list bool :=
  match l with
  | [] => (s, [])
  | (w, b) :: l' => let '(s1, r) := accept c t w b s in
                    let '(s2, rs) := accept_all c t l' s1 in (s2, r :: rs)
  end.

(* ------------------------------------------------------------------ histories *)

Inductive op :=
| OAccept (w b : N)
| OTransmit (w b : N)
| OEvents (evs : list event)             (* one poll: GetLatestEvents returned evs *)
| OShould (i : item)                     (* ShouldProcess *)
| OPre (l : list item)                   (* PreProcess *)
| OFRes (l : list item)                  (* FilterResults *)
| OFProp (l : list item)                 (* FilterProposals *)
| OAcceptRep (l : list (N * N))          (* ShouldAcceptAttestedReport over the report's upkeeps *)
| OTransmitRep (l : list (N * N))        (* ShouldTransmitAcceptedReport *)
| OGC                                    (* ClearExpired on both caches *)
| ORestart.                              (* new coordinator: empty state *)

Inductive ret :=
| RB (b : bool)
| RL (l : list item)
| RBL (b : bool) (l : list bool)         (* report verdict, per-upkeep verdicts *)
| RU.

Definition step (c : ccfg) (s : state) (t : Z) (o : op) : state * ret :=
  match o with
  | OAccept w b => let '(s', r) := accept c t w b s in (s', RB r)
  | OTransmit w b => (s, RB (should_transmit t w b s))
  | OEvents evs => (check_events c t evs s, RU)
  | OShould i => (s, RB (should_process t i s))
  | OPre l => (s, RL (filter (fun i => should_process t i s) l))
  | OFRes l => (s, RL (filter (fun i => should_process t i s) l))
  | OFProp l => (s, RL (filter (fun i => keep_proposal t i s) l))
  | OAcceptRep l => let '(s', rs) := accept_all c t l s in (s', RBL (existsb (fun x => x) rs) rs)
  | OTransmitRep l => let rs := map (fun '(w, b) => should_transmit t w b s) l in (s, RBL (existsb (fun x => x) rs) rs)
  | OGC => (mkS (cgc t (s_cache s)) (cgc t (s_vis s)), RU)
  | ORestart => (s0, RU)
  end.

Fixpoint run_from (c : ccfg) (s : state) (h : list (Z * op)) : list ret :=
  match h with
  | [] => []
  | (t, o) :: h' => let '(s', r) := step c s t o in r :: run_from c s' h'
  end.
Definition run (c : ccfg) (h : list (Z * op)) : list ret := run_from c s0 h.

(* ------------------------------------------------------------------ spec-level log *)

(* What the property talks about: the sequence of acceptances (with the verdict that was
   returned), delivered transmit events and restarts, most recent first. *)
Inductive lent :=
| LAcc (t : Z) (w b : N) (r : bool)
| LEv (t : Z) (e : event)
| LRestart.
Definition log := list lent.

Definition confirmed (c : ccfg) (e : event) : bool := c_minconf c <=? ev_conf e.

(* now is within the lockout window that started at t0 (a window <= 0 never closes) *)
Definition within (c : ccfg) (t0 now : Z) : bool := (c_window c <=? 0) || (now <=? t0 + c_window c).

(* touch w l: the time of the most recent thing that can have (re)written the record of w --
   the last successful acceptance since the last restart or a sufficiently confirmed event for w
   delivered after it; None when nothing was accepted since the last restart. *)
Fixpoint touch (c : ccfg) (w : N) (l : log) : option Z :=
  match l with
  | [] => None
  | LRestart :: _ => None
  | LAcc t w' _ r :: l' => if (w' =? w)%N && r then Some t else touch c w l'
  | LEv t e :: l' =>
    match touch c w l' with
    | None => None
    | Some t0 => if (ev_w e =? w)%N && confirmed c e then Some t else Some t0
    end
  end.

(* the node certainly holds no record for w at time t: never accepted since the last restart, or
   the window of the last possible write has closed *)
Definition absent (c : ccfg) (l : log) (t : Z) (w : N) : bool :=
  match touch c w l with
  | None => true
  | Some t0 => (0 <? c_window c) && (t0 + c_window c <? t)
  end.

(* Has a sufficiently confirmed event with this identity been seen since the last restart?  A
   delivery that arrived while the node certainly held no record for the work id (before the
   report was accepted, or after the window closed) does not count: such an event concerns no
   report the node is waiting for, and every later poll that still returns it is a sighting again. *)
Fixpoint delivered (c : ccfg) (id : vid) (l : log) : bool :=
  match l with
  | [] => false
  | LRestart :: _ => false
  | LAcc _ _ _ _ :: l' => delivered c id l'
  | LEv t e :: l' => (confirmed c e && vid_eqb (ev_id e) id && negb (absent c l' t (ev_w e))) || delivered c id l'
  end.

(* a delivery: time, event, and whether it was the first delivery of that identity *)
Definition deliv := (Z * event * bool)%type.
Definition d_t (d : deliv) : Z := fst (fst d).
Definition d_ev (d : deliv) : event := snd (fst d).
Definition d_new (d : deliv) : bool := snd d.

(* scan w l = Some (tj, b, D): since the last restart the most recent successful acceptance for
   w happened at tj for check block b, and D are the sufficiently confirmed events for w
   delivered after it (most recent first).  None: nothing accepted since the last restart. *)
Fixpoint scan (c : ccfg) (w : N) (l : log) : option (Z * N * list deliv) :=
  match l with
  | [] => None
  | LRestart :: _ => None
  | LAcc t w' b r :: l' => if (w' =? w)%N && r then Some (t, b, []) else scan c w l'
  | LEv t e :: l' =>
    match scan c w l' with
    | None => None
    | Some (tj, b, D) =>
      if (ev_w e =? w)%N && confirmed c e
      then Some (tj, b, (t, e, negb (delivered c (ev_id e) l')) :: D)
      else Some (tj, b, D)
    end
  end.

Definition dlow (b : N) (D : list deliv) : bool := forallb (fun d => (ev_check (d_ev d) <? b)%N) D.
Definition nonew (b : N) (D : list deliv) : bool :=
  forallb (fun d => negb (d_new d && (b <=? ev_check (d_ev d))%N)) D.
Definition same_ev (a b : event) : bool :=
  vid_eqb (ev_id a) (ev_id b) && (ev_type a =? ev_type b)%N && (ev_check a =? ev_check b)%N.

(* the events at or above the awaited block form a chain of new events, each first seen inside the
   window of its predecessor (the first one inside the window of the acceptance) and each for a check
   block at least that of its predecessor; re-deliveries of the current last event and events for lower
   check blocks do not matter.  The result is the last event of the chain and its first delivery time.
   An event with the same work id and transaction hash but another transmit block is a different
   event (the transaction was mined again after a re-org). *)
Fixpoint settledD (c : ccfg) (tj : Z) (b : N) (D : list deliv) : option (Z * event) :=
  match D with
  | [] => None
  | d :: D' =>
    if (b <=? ev_check (d_ev d))%N then
      match settledD c tj b D' with
      | Some (tp, e0) =>
          if same_ev e0 (d_ev d) then Some (tp, e0)                                   (* the same event again *)
          else if (ev_check (d_ev d) <? ev_check e0)%N then Some (tp, e0)             (* for an older report: no effect *)
          else if d_new d && within c tp (d_t d) then Some (d_t d, d_ev d) else None  (* a different, new event takes over *)
      | None => if dlow b D' && d_new d && within c tj (d_t d) then Some (d_t d, d_ev d) else None
      end
    else settledD c tj b D'
  end.

Definition tmax (tj : Z) (D : list deliv) : Z := match D with [] => tj | d :: _ => d_t d end.

(* What the log determines about the record of w at time now:
   Some (Some v): certainly v;  Some None: certainly absent/expired;  None: not determined. *)
Definition known (c : ccfg) (l : log) (now : Z) (w : N) : option (option entry) :=
  match scan c w l with
  | None => Some None
  | Some (tj, b, D) =>
    if dlow b D then Some (if within c tj now then Some (mkE b true 0 0) else None)
    else match settledD c tj b D with
         | Some (tp, e0) => Some (if within c tp now then Some (mkE (ev_check e0) false (ev_type e0) (ev_tb e0)) else None)
         | None => if (0 <? c_window c) && (tmax tj D + c_window c <? now) then Some None else None
         end
  end.

(* ------------------------------------------------------------------ property, per answer *)

(* C06, ShouldTransmit answered r for (w, b) at time t *)
Definition st_rule (k : option entry) (b : N) (r : bool) : Prop :=
  match k with
  | None => r = false                                       (* never accepted / expired / restarted *)
  | Some v => r = ((b =? e_check v)%N && e_pend v)          (* exactly the awaited block, unconfirmed *)
  end.
Definition judge_transmitP (c : ccfg) (l : log) (t : Z) (w b : N) (r : bool) : Prop :=
  (r = true -> exists tj D, scan c w l = Some (tj, b, D) /\ nonew b D = true /\ within c tj t = true)
  /\ (forall k, known c l t w = Some k -> st_rule k b r).

(* C06, Accept answered r *)
Definition acc_rule (k : option entry) (b : N) (r : bool) : Prop :=
  match k with
  | None => r = true
  | Some v => r = (e_check v <? b)%N
  end.
Definition judge_acceptP (c : ccfg) (l : log) (t : Z) (w b : N) (r : bool) : Prop :=
  (r = true -> forall tj bj D, scan c w l = Some (tj, bj, D) -> within c tj t = true -> (bj < b)%N)
  /\ (forall k, known c l t w = Some k -> acc_rule k b r).

(* C07, ShouldProcess / PreProcess / FilterResults answered r for an item *)
Definition sp_rule (k : option entry) (ut blk : N) (r : bool) : Prop :=
  match k with
  | None => r = true                                                          (* unknown or expired: processed *)
  | Some v =>
    (e_pend v = true -> r = false)                                            (* in flight: withheld *)
    /\ (e_pend v = false -> e_tt v = PERFORM -> ut = UT_LOG -> r = false)     (* performed log work: never again *)
    /\ (e_pend v = false -> e_tt v = PERFORM -> ut = UT_COND -> r = (e_tb v <=? blk)%N)
    /\ (e_pend v = false -> e_tt v <> PERFORM -> (ut = UT_LOG \/ ut = UT_COND) -> r = true)
  end.
(* C07, FilterProposals kept (r = true) or dropped the proposal *)
Definition fp_rule (k : option entry) (ut : N) (r : bool) : Prop :=
  match k with
  | None => r = true
  | Some v =>
    (e_pend v = true -> r = false)
    /\ (e_pend v = false -> e_tt v = PERFORM -> ut = UT_LOG -> r = false)
    /\ (e_pend v = false -> (e_tt v <> PERFORM \/ ut <> UT_LOG) -> r = true)
  end.

(* boolean versions *)
Definition st_chk (k : option entry) (b : N) (r : bool) : bool :=
  match k with
  | None => negb r
  | Some v => Bool.eqb r ((b =? e_check v)%N && e_pend v)
  end.
Definition acc_chk (k : option entry) (b : N) (r : bool) : bool :=
  match k with
  | None => r
  | Some v => Bool.eqb r (e_check v <? b)%N
  end.
Definition sp_chk (k : option entry) (ut blk : N) (r : bool) : bool :=
  match k with
  | None => r
  | Some v =>
    if e_pend v then negb r
    else if (e_tt v =? PERFORM)%N then
      (if (ut =? UT_LOG)%N then negb r else if (ut =? UT_COND)%N then Bool.eqb r (e_tb v <=? blk)%N else true)
    else (if (ut =? UT_LOG)%N || (ut =? UT_COND)%N then r else true)
  end.
Definition fp_chk (k : option entry) (ut : N) (r : bool) : bool :=
  match k with
  | None => r
  | Some v => if e_pend v then negb r else Bool.eqb r (negb ((e_tt v =? PERFORM)%N && (ut =? UT_LOG)%N))
  end.

Definition judge_transmit (c : ccfg) (l : log) (t : Z) (w b : N) (r : bool) : bool :=
  (if r then match scan c w l with
             | Some (tj, b', D) => (b' =? b)%N && nonew b D && within c tj t
             | None => false
             end
   else true)
  && match known c l t w with Some k => st_chk k b r | None => true end.

Definition judge_accept (c : ccfg) (l : log) (t : Z) (w b : N) (r : bool) : bool :=
  (if r then match scan c w l with
             | Some (tj, bj, _) => if within c tj t then (bj <? b)%N else true
             | None => true
             end
   else true)
  && match known c l t w with Some k => acc_chk k b r | None => true end.

(* a filter call: the output must be an order-preserving sublist of the input that keeps every
   item the log determines as "keep" and drops every item it determines as "drop" *)
Definition item_eqb (a b : item) : bool :=
  N.eqb (it_w a) (it_w b) && N.eqb (it_ut a) (it_ut b) && N.eqb (it_blk a) (it_blk b).

Fixpoint filt_ok (dec : item -> option bool) (l out : list item) : bool :=
  match l with
  | [] => match out with [] => true | _ => false end
  | x :: l' =>
    let take := match out with y :: out' => item_eqb x y && filt_ok dec l' out' | [] => false end in
    match dec x with
    | Some true => take
    | Some false => filt_ok dec l' out
    | None => take || filt_ok dec l' out
    end
  end.

(* select mask l: the elements of l whose mask bit is set *)
Fixpoint select (mask : list bool) (l : list item) : list item :=
  match mask, l with
  | m :: mask', x :: l' => if m then x :: select mask' l' else select mask' l'
  | _, _ => []
  end.

Definition filt_okP (dec : item -> option bool) (l out : list item) : Prop :=
  exists mask, length mask = length l /\ out = select mask l
               /\ forall i x d, nth_error l i = Some x -> dec x = Some d -> nth_error mask i = Some d.

(* decision the property makes for an item, if the log determines the record *)
Definition sp_dec (c : ccfg) (l : log) (t : Z) (i : item) : option bool :=
  match known c l t (it_w i) with
  | None => None
  | Some None => Some true
  | Some (Some v) =>
    if e_pend v then Some false
    else if (e_tt v =? PERFORM)%N then
      (if (it_ut i =? UT_LOG)%N then Some false
       else if (it_ut i =? UT_COND)%N then Some (e_tb v <=? it_blk i)%N else None)
    else (if (it_ut i =? UT_LOG)%N || (it_ut i =? UT_COND)%N then Some true else None)
  end.
Definition fp_dec (c : ccfg) (l : log) (t : Z) (i : item) : option bool :=
  match known c l t (it_w i) with
  | None => None
  | Some None => Some true
  | Some (Some v) => if e_pend v then Some false else Some (negb ((e_tt v =? PERFORM)%N && (it_ut i =? UT_LOG)%N))
  end.

(* ------------------------------------------------------------------ observed histories, checker K *)

Definition hist := list (Z * op * ret).

(* how an answered operation extends the log *)
Fixpoint log_accs (t : Z) (l : list (N * N)) (rs : list bool) (lg : log) : log :=
  match l, rs with
  | (w, b) :: l', r :: rs' => log_accs t l' rs' (LAcc t w b r :: lg)
  | _, _ => lg
  end.
Definition log_step (lg : log) (t : Z) (o : op) (r : ret) : log :=
  match o, r with
  | OAccept w b, RB x => LAcc t w b x :: lg
  | OEvents evs, _ => fold_left (fun l e => LEv t e :: l) evs lg
  | OAcceptRep l, RBL _ rs => log_accs t l rs lg
  | ORestart, _ => LRestart :: lg
  | _, _ => lg
  end.

(* per-upkeep judgement of a report *)
Fixpoint judge_accs (c : ccfg) (lg : log) (t : Z) (l : list (N * N)) (rs : list bool) : bool :=
  match l, rs with
  | [], [] => true
  | (w, b) :: l', r :: rs' => judge_accept c lg t w b r && judge_accs c (LAcc t w b r :: lg) t l' rs'
  | _, _ => false
  end.
Fixpoint judge_trs (c : ccfg) (lg : log) (t : Z) (l : list (N * N)) (rs : list bool) : bool :=
  match l, rs with
  | [], [] => true
  | (w, b) :: l', r :: rs' => judge_transmit c lg t w b r && judge_trs c lg t l' rs'
  | _, _ => false
  end.

(* C06: acceptance / transmit answers *)
Definition judge06 (c : ccfg) (lg : log) (t : Z) (o : op) (r : ret) : bool :=
  match o, r with
  | OAccept w b, RB x => judge_accept c lg t w b x
  | OAccept _ _, _ => false
  | OTransmit w b, RB x => judge_transmit c lg t w b x
  | OTransmit _ _, _ => false
  | OAcceptRep l, RBL x rs => Bool.eqb x (existsb (fun y => y) rs) && judge_accs c lg t l rs
  | OAcceptRep _, _ => false
  | OTransmitRep l, RBL x rs => Bool.eqb x (existsb (fun y => y) rs) && judge_trs c lg t l rs
  | OTransmitRep _, _ => false
  | _, _ => true
  end.

(* C07: the four filters *)
Definition judge07 (c : ccfg) (lg : log) (t : Z) (o : op) (r : ret) : bool :=
  match o, r with
  | OShould i, RB x => match sp_dec c lg t i with Some d => Bool.eqb x d | None => true end
  | OShould _, _ => false
  | OPre l, RL out => filt_ok (sp_dec c lg t) l out
  | OPre _, _ => false
  | OFRes l, RL out => filt_ok (sp_dec c lg t) l out
  | OFRes _, _ => false
  | OFProp l, RL out => filt_ok (fp_dec c lg t) l out
  | OFProp _, _ => false
  | _, _ => true
  end.

Fixpoint check_from (judge : log -> Z -> op -> ret -> bool) (lg : log) (h : hist) : bool :=
  match h with
  | [] => true
  | (t, o, r) :: h' => judge lg t o r && check_from judge (log_step lg t o r) h'
  end.

Definition C06_check (c : ccfg) (h : hist) : bool := check_from (judge06 c) [] h.
Definition C07_check (c : ccfg) (h : hist) : bool := check_from (judge07 c) [] h.

(* Prop-level judgements *)
Fixpoint judge_accsP (c : ccfg) (lg : log) (t : Z) (l : list (N * N)) (rs : list bool) : Prop :=
  match l, rs with
  | [], [] => True
  | (w, b) :: l', r :: rs' => judge_acceptP c lg t w b r /\ judge_accsP c (LAcc t w b r :: lg) t l' rs'
  | _, _ => False
  end.
Fixpoint judge_trsP (c : ccfg) (lg : log) (t : Z) (l : list (N * N)) (rs : list bool) : Prop :=
  match l, rs with
  | [], [] => True
  | (w, b) :: l', r :: rs' => judge_transmitP c lg t w b r /\ judge_trsP c lg t l' rs'
  | _, _ => False
  end.

Definition judge06P (c : ccfg) (lg : log) (t : Z) (o : op) (r : ret) : Prop :=
  match o, r with
  | OAccept w b, RB x => judge_acceptP c lg t w b x
  | OAccept _ _, _ => False
  | OTransmit w b, RB x => judge_transmitP c lg t w b x
  | OTransmit _ _, _ => False
  | OAcceptRep l, RBL x rs => (x = true <-> In true rs) /\ judge_accsP c lg t l rs
  | OAcceptRep _, _ => False
  | OTransmitRep l, RBL x rs => (x = true <-> In true rs) /\ judge_trsP c lg t l rs
  | OTransmitRep _, _ => False
  | _, _ => True
  end.

Definition judge07P (c : ccfg) (lg : log) (t : Z) (o : op) (r : ret) : Prop :=
  match o, r with
  | OShould i, RB x => forall k, known c lg t (it_w i) = Some k -> sp_rule k (it_ut i) (it_blk i) x
  | OShould _, _ => False
  | OPre l, RL out | OFRes l, RL out =>
      exists mask, length mask = length l /\ out = select mask l
        /\ forall n i m k, nth_error l n = Some i -> nth_error mask n = Some m ->
                           known c lg t (it_w i) = Some k -> sp_rule k (it_ut i) (it_blk i) m
  | OPre _, _ | OFRes _, _ => False
  | OFProp l, RL out =>
      exists mask, length mask = length l /\ out = select mask l
        /\ forall n i m k, nth_error l n = Some i -> nth_error mask n = Some m ->
                           known c lg t (it_w i) = Some k -> fp_rule k (it_ut i) m
  | OFProp _, _ => False
  | _, _ => True
  end.

Fixpoint spec_from (judge : log -> Z -> op -> ret -> Prop) (lg : log) (h : hist) : Prop :=
  match h with
  | [] => True
  | (t, o, r) :: h' => judge lg t o r /\ spec_from judge (log_step lg t o r) h'
  end.

Definition C06_spec (c : ccfg) (h : hist) : Prop := spec_from (judge06P c) [] h.
Definition C07_spec (c : ccfg) (h : hist) : Prop := spec_from (judge07P c) [] h.

(* histories the theorems quantify over: times are non-negative (UnixNano) and never decrease *)
Fixpoint times_from (t0 : Z) (h : list (Z * op)) : Prop :=
  match h with
  | [] => True
  | (t, _) :: h' => t0 <= t /\ times_from t h'
  end.
Definition wf_times (h : list (Z * op)) : Prop := times_from 0 h.

Fixpoint times_fromb (t0 : Z) (h : list (Z * op)) : bool :=
  match h with
  | [] => true
  | (t, _) :: h' => (t0 <=? t) && times_fromb t h'
  end.

Fixpoint zip3 (h : list (Z * op)) (rs : list ret) : hist :=
  match h, rs with
  | (t, o) :: h', r :: rs' => (t, o, r) :: zip3 h' rs'
  | _, _ => []
  end.

(* ------------------------------------------------------------------ racing poller: fine-grained model *)

(* One work id, one instant inside the lockout window.  Each thread executes a list of
   operations; an operation is split into its cache Get and its cache Set.  With [locked] the
   two are bracketed by the coordinator's mutex (the repaired code); without it they are not
   (the code at the pinned commit).  Events here are sufficiently confirmed and not yet visited. *)
Inductive aop := AAcc (b : N) | AEv (e : event).
Inductive phase := PIdle | PLocked | PRead (rd : option entry).
Record thread := mkT { th_todo : list aop; th_ph : phase; th_acc : list (N * bool) }.
Record fstate := mkF { f_cell : option entry; f_lock : option bool; f_ta : thread; f_tb : thread }.

Definition awrite (o : aop) (rd cell : option entry) : option entry * list (N * bool) :=
  match o with
  | AAcc b =>
    match rd with
    | None => (Some (mkE b true 0 0), [(b, true)])
    | Some v => if (e_check v <? b)%N then (Some (mkE b true 0 0), [(b, true)]) else (cell, [(b, false)])
    end
  | AEv e =>
    match rd with
    | None => (cell, [])
    | Some v =>
      if (ev_check e =? e_check v)%N then (Some (mkE (e_check v) false (ev_type e) (ev_tb e)), [])
      else if (e_check v <? ev_check e)%N then (Some (mkE (ev_check e) false (ev_type e) (ev_tb e)), [])
      else (cell, [])
    end
  end.

Definition get_th (st : fstate) (tid : bool) : thread := if tid then f_ta st else f_tb st.
Definition set_th (st : fstate) (tid : bool) (th : thread) (cell : option entry) (lk : option bool) : fstate :=
  if tid then mkF cell lk th (f_tb st) else mkF cell lk (f_ta st) th.

Definition fstep (locked : bool) (st : fstate) (tid : bool) : fstate :=
  let th := get_th st tid in
  match th_todo th with
  | [] => st
  | o :: rest =>
    match th_ph th with
    | PIdle =>
      if locked then
        match f_lock st with
        | None => set_th st tid (mkT (th_todo th) PLocked (th_acc th)) (f_cell st) (Some tid)
        | Some _ => st                                   (* blocked on the mutex *)
        end
      else set_th st tid (mkT (th_todo th) (PRead (f_cell st)) (th_acc th)) (f_cell st) (f_lock st)
    | PLocked => set_th st tid (mkT (th_todo th) (PRead (f_cell st)) (th_acc th)) (f_cell st) (f_lock st)
    | PRead rd =>
      let '(cell', a) := awrite o rd (f_cell st) in
      set_th st tid (mkT rest PIdle (th_acc th ++ a)) cell' (if locked then None else f_lock st)
    end
  end.

Definition frun (locked : bool) (sched : list bool) (st : fstate) : fstate := fold_left (fstep locked) sched st.
Definition finit (cell : option entry) (pa pb : list aop) : fstate :=
  mkF cell None (mkT pa PIdle []) (mkT pb PIdle []).

(* awaited block of a cell; monotone = present stays present and the block does not decrease *)
Definition cle (a b : option entry) : Prop :=
  match a with
  | None => True
  | Some v => exists v', b = Some v' /\ (e_check v <= e_check v')%N
  end.
Definition cleb (a b : option entry) : bool :=
  match a, b with
  | None, _ => true
  | Some v, Some v' => (e_check v <=? e_check v')%N
  | Some _, None => false
  end.

(* every acceptance that answered true is still covered by the awaited block *)
Definition kept (cell : option entry) (acc : list (N * bool)) : Prop :=
  forall b, In (b, true) acc -> exists v, cell = Some v /\ (b <= e_check v)%N.
Definition keptb (cell : option entry) (acc : list (N * bool)) : bool :=
  forallb (fun '(b, r) => negb r || match cell with Some v => (b <=? e_check v)%N | None => false end) acc.

Fixpoint all_scheds (n : nat) : list (list bool) :=
  match n with
  | O => [[]]
  | S n' => flat_map (fun s => [true :: s; false :: s]) (all_scheds n')
  end.

Definition fdone (st : fstate) : bool :=
  match th_todo (f_ta st), th_todo (f_tb st) with [], [] => true | _, _ => false end.

(* ------------------------------------------------------------------ case records (harness) *)

Record c_case := mkCCase {
  cc_cfg : ccfg;
  cc_hist : hist                   (* operations with the answers of the real coordinator *)
}.

Definition ret_eqb (a b : ret) : bool :=
  match a, b with
  | RB x, RB y => Bool.eqb x y
  | RL x, RL y => list_eqb item_eqb x y
  | RBL x xs, RBL y ys => Bool.eqb x y && list_eqb Bool.eqb xs ys
  | RU, RU => true
  | _, _ => false
  end.

Definition hist_ops (h : hist) : list (Z * op) := map fst h.
Definition hist_rets (h : hist) : list ret := map snd h.

Definition cc_mism (k : c_case) : bool :=
  negb (list_eqb ret_eqb (run (cc_cfg k) (hist_ops (cc_hist k))) (hist_rets (cc_hist k))
        && times_fromb 0 (hist_ops (cc_hist k))).
Definition cc_bad06 (k : c_case) : bool := negb (C06_check (cc_cfg k) (cc_hist k)).
Definition cc_bad07 (k : c_case) : bool := negb (C07_check (cc_cfg k) (cc_hist k)).

(* coverage: how many answers of each kind the log determined / left open *)
Fixpoint cov_from (c : ccfg) (lg : log) (h : hist) (acc : N * N * N * N) : N * N * N * N :=
  match h with
  | [] => acc
  | (t, o, r) :: h' =>
    let '(a_det, a_open, f_det, f_open) := acc in
    let kn w := match known c lg t w with Some _ => true | None => false end in
    let acc' :=
      match o with
      | OAccept w _ | OTransmit w _ => if kn w then (a_det + 1, a_open, f_det, f_open)%N else (a_det, a_open + 1, f_det, f_open)%N
      | OShould i => if kn (it_w i) then (a_det, a_open, f_det + 1, f_open)%N else (a_det, a_open, f_det, f_open + 1)%N
      | OPre l | OFRes l | OFProp l =>
          let n := N.of_nat (length (filter (fun i => kn (it_w i)) l)) in
          (a_det, a_open, f_det + n, f_open + (N.of_nat (length l) - n))%N
      | _ => acc
      end in
    cov_from c (log_step lg t o r) h' acc'
  end.
Definition cc_cov (k : c_case) : N * N * N * N := cov_from (cc_cfg k) [] (cc_hist k) (0, 0, 0, 0)%N.
Definition cov4_sum (l : list (N * N * N * N)) : N * N * N * N :=
  fold_left (fun '(a, b, c, d) '(x, y, z, u) => (a + x, b + y, c + z, d + u)%N) l (0, 0, 0, 0)%N.

(* how many transmit answers were true, accept answers true / false *)
Definition cc_nontriv (k : c_case) : bool :=
  existsb (fun x => match x with (_, OTransmit _ _, RB true) => true | _ => false end) (cc_hist k)
  && existsb (fun x => match x with (_, OEvents (_ :: _), _) => true | _ => false end) (cc_hist k).
Definition cc_nontriv07 (k : c_case) : bool :=
  existsb (fun x => match x with
                    | (_, OShould _, RB false) => true
                    | (_, OPre l, RL o) | (_, OFRes l, RL o) | (_, OFProp l, RL o) => Nat.ltb (length o) (length l)
                    | _ => false end) (cc_hist k).

(* A race case: the acceptance of (w, b2) ran while the poller was between its Get and its Set
   for event e; the answers observed afterwards must be explained by one of the two serial
   orders (h_ea: event first, h_ae: acceptance first) -- both carry the same observed answers. *)
Record race_case := mkRace {
  rc_cfg : ccfg;
  rc_ea : hist;
  rc_ae : hist;
  rc_cell : option entry;        (* record before the race *)
  rc_ev : event;
  rc_b2 : N;
  rc_acc : bool;                 (* answer of the racing Accept *)
  rc_probe : bool                (* answer of a later Accept(w, b2): true iff the awaited block is below b2 *)
}.

Definition ser_ok (c : ccfg) (h : hist) : bool :=
  list_eqb ret_eqb (run c (hist_ops h)) (hist_rets h).
Definition race_mism (k : race_case) : bool :=
  negb (ser_ok (rc_cfg k) (rc_ea k) || ser_ok (rc_cfg k) (rc_ae k)).
Definition race_bad (k : race_case) : bool :=
  negb (C06_check (rc_cfg k) (rc_ea k) || C06_check (rc_cfg k) (rc_ae k)).
(* outcome-set inclusion in the fine-grained locked model: (answer, probe) over all schedules *)
Definition race_outcomes (locked : bool) (k : race_case) : list (bool * bool) :=
  flat_map (fun sch =>
    let st := frun locked sch (finit (rc_cell k) [AAcc (rc_b2 k)] [AEv (rc_ev k)]) in
    if fdone st then
      [(existsb (fun x => snd x) (th_acc (f_ta st)),
        match f_cell st with Some v => (e_check v <? rc_b2 k)%N | None => true end)]
    else []) (all_scheds 8).
Definition race_fine_mism (k : race_case) : bool :=
  negb (existsb (fun o => Bool.eqb (fst o) (rc_acc k) && Bool.eqb (snd o) (rc_probe k)) (race_outcomes true k)).
(* the pinned (unlocked) code's extra outcome: accepted, yet the awaited block is below b2 *)
Definition race_lost (k : race_case) : bool := rc_acc k && rc_probe k.
