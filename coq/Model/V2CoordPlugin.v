(* Plug-in level of the OCR2 (v2) coordinator property (C17): pkg/v2/ocr.go
   ShouldAcceptFinalizedReport / ShouldTransmitAcceptedReport over reports that carry several keys,
   on top of the coordinator model of Model/V2Coord.v.  No proofs in this file. *)
From Verif Require Export Model.V2Coord.
Open Scope N_scope.

(* a report as the plug-in sees it: zero bytes; bytes KeysFromReport rejects; or the decoded keys,
   None = a key string that SplitUpkeepKey rejects (not exactly one separator) *)
Inductive rpt := REmpty | RUndec | RKeys (ks : list (option key)).

Definition is_some {A} (o : option A) : bool := match o with Some _ => true | None => false end.

Fixpoint wf_prefix (ks : list (option key)) : list key :=
  match ks with Some k :: t => k :: wf_prefix t | _ => [] end.

(* ShouldAcceptFinalizedReport: (accepted, error).  Keys are accepted in order until the first one
   that does not split; the earlier ones stay accepted. *)
Definition accept_ans (r : rpt) : bool * bool :=
  match r with
  | REmpty => (false, false)
  | RUndec => (false, true)
  | RKeys [] => (false, true)
  | RKeys ks => if forallb is_some ks then (true, false) else (false, true)
  end.

Definition accepted_keys (r : rpt) : list key :=
  match r with RKeys ks => wf_prefix ks | _ => [] end.

Inductive pop := PAccept (t : Z) (r : rpt) | PLog (o : op).

(* the coordinator-level history a plug-in level history amounts to *)
Definition flatten (h : list pop) : list op :=
  flat_map (fun p => match p with
                     | PAccept t r => map (fun k => (t, EAccept k)) (accepted_keys r)
                     | PLog o => [o]
                     end) h.

(* ShouldTransmitAcceptedReport: (transmit, error).  A key that does not split is never in
   activeKeys, hence "confirmed".  (Zero bytes: the harness' report codec rejects them.) *)
Definition unconf_in (f : key -> bool) (ks : list (option key)) : bool :=
  existsb (fun k => match k with Some k => f k | None => false end) ks.

Definition transmit_ans (now : Z) (s : st) (r : rpt) : bool * bool :=
  match r with
  | RKeys (k :: ks) => (unconf_in (fun k => negb (is_confirmed now s k)) (k :: ks), false)
  | _ => (false, true)
  end.

(* ---- case record written by the harness ---- *)
Record pl_case := mkPlCase {
  pl_cfg : cfg;
  pl_h : list pop;
  pl_acc : list (bool * bool);      (* observed answer of each PAccept of pl_h, in order *)
  pl_qt : Z;
  pl_q : list rpt;                  (* ShouldTransmitAcceptedReport queries after the history *)
  pl_obs : list (bool * bool)       (* observed (transmit, error) *)
}.

Definition bb_eqb (a b : bool * bool) : bool := Bool.eqb (fst a) (fst b) && Bool.eqb (snd a) (snd b).

Definition accepts_of (h : list pop) : list rpt :=
  flat_map (fun p => match p with PAccept _ r => [r] | PLog _ => [] end) h.

Definition pl_model (k : pl_case) : list (bool * bool) * list (bool * bool) :=
  let s := run (pl_cfg k) (flatten (pl_h k)) init in
  (map accept_ans (accepts_of (pl_h k)), map (transmit_ans (pl_qt k) s) (pl_q k)).

Definition pl_mism (k : pl_case) : bool :=
  let '(a, q) := pl_model k in
  negb (list_eqb bb_eqb a (pl_acc k) && list_eqb bb_eqb q (pl_obs k)).

(* ---- checker K: the expected answers straight from the history ---- *)
(* a report is worth transmitting iff it decodes to at least one key and SOME key of it — at any
   position — was accepted and has seen no perform / stale log with enough confirmations since *)
Definition check_transmit (c : cfg) (h : list op) (qt : Z) (r : rpt) (a : bool * bool) : bool :=
  match r with
  | RKeys (k :: ks) =>
      negb (snd a)
      && (negb (no_expiryb c h qt)
          || Bool.eqb (fst a) (unconf_in (fun k => spec_unconf (minc c) k (map snd h)) (k :: ks)))
  | _ => negb (fst a) && snd a
  end.

Fixpoint check_all {A B} (f : A -> B -> bool) (l : list A) (o : list B) : bool :=
  match l, o with
  | [], [] => true
  | x :: l', y :: o' => f x y && check_all f l' o'
  | _, _ => false
  end.

Definition C17_plugin_check (k : pl_case) : bool :=
  check_all (fun r a => bb_eqb (accept_ans r) a) (accepts_of (pl_h k)) (pl_acc k)
  && check_all (check_transmit (pl_cfg k) (flatten (pl_h k)) (pl_qt k)) (pl_q k) (pl_obs k).

Definition pl_bad (k : pl_case) : bool := negb (C17_plugin_check k).

(* non-trivial: some query mixes a confirmed and an unconfirmed key *)
Definition mixed (c : cfg) (h : list op) (r : rpt) : bool :=
  match r with
  | RKeys ks =>
      unconf_in (fun k => spec_unconf (minc c) k (map snd h)) ks
      && unconf_in (fun k => negb (spec_unconf (minc c) k (map snd h))) ks
  | _ => false
  end.
Definition pl_nontriv (k : pl_case) : bool := existsb (mixed (pl_cfg k) (flatten (pl_h k))) (pl_q k).

(* coverage: (queries answered transmit, queries answered do-not-transmit, error answers, mixed queries) *)
Definition pl_cov (k : pl_case) : nat * nat * nat * nat :=
  (length (filter (fun a => fst a) (pl_obs k)),
   length (filter (fun a => negb (fst a) && negb (snd a)) (pl_obs k)),
   length (filter (fun a => snd a) (pl_obs k)),
   length (filter (mixed (pl_cfg k) (flatten (pl_h k))) (pl_q k)))%nat.
Definition pl_cov_sum (l : list (nat * nat * nat * nat)) : nat * nat * nat * nat :=
  fold_left (fun '(a, b, c, d) '(x, y, z, w) => (a + x, b + y, c + z, d + w)%nat) l (0, 0, 0, 0)%nat.
