(* Model of the check runner (pkg/v3/runner/runner.go, runner/result.go, pkg/util/cache.go,
   internal/util/array.go Unflatten).  The worker group (pkg/util/worker.go, property C14) is a
   black box that runs every batch exactly once and hands the batch results to the aggregator
   one at a time, in completion order; that order and the completion instants are oracle
   arguments.  Time is an explicit Z (nanoseconds).  No proofs in this file. *)
From Verif Require Export Base.Util.
Open Scope N_scope.

(* ------------------------------------------------------------------------------ *)
(* Data.  Work ids, block hashes and payload identities are interned to small numbers by the
   harness; wid 0 stands for the empty work id. *)

Record payload := mkPl { pl_wid : N; pl_blk : N; pl_hash : N;
                         pl_tag : N }.   (* identity of this payload instance (its check data) *)

Record result := mkRes { r_wid : N; r_blk : N; r_hash : N;
                         r_state : N;      (* PipelineExecutionState, 0 = success *)
                         r_retry : bool; r_elig : bool;
                         r_ivl : Z;        (* RetryInterval *)
                         r_tag : N;        (* payload instance the pipeline produced it for *)
                         r_att : N }.      (* ordinal of that pipeline invocation for the instance *)

(* a job is a payload together with the ordinal of this pipeline invocation for it *)
Definition job := (payload * N)%type.

(* boolean equalities; the identifying fields are compared first and the rest only on a match
   (vm_compute is strict, so a plain conjunction would always compare every field) *)
Definition payload_eqb (a b : payload) : bool :=
  if N.eqb (pl_tag a) (pl_tag b)
  then N.eqb (pl_wid a) (pl_wid b) && N.eqb (pl_blk a) (pl_blk b) && N.eqb (pl_hash a) (pl_hash b)
  else false.

Definition result_eqb (a b : result) : bool :=
  if N.eqb (r_tag a) (r_tag b) then
    if N.eqb (r_att a) (r_att b) then
      N.eqb (r_wid a) (r_wid b) && N.eqb (r_blk a) (r_blk b) && N.eqb (r_hash a) (r_hash b)
      && N.eqb (r_state a) (r_state b) && Bool.eqb (r_retry a) (r_retry b) && Bool.eqb (r_elig a) (r_elig b)
      && Z.eqb (r_ivl a) (r_ivl b)
    else false
  else false.

(* ------------------------------------------------------------------------------ *)
(* util.Cache: key -> (item, expires); expires = 0 means "never".  Keys are unique. *)

Definition centry := (result * Z)%type.
Definition cache := list (N * centry).

Fixpoint cache_find (c : cache) (k : N) : option centry :=
  match c with
  | [] => None
  | (k', e) :: t => if N.eqb k k' then Some e else cache_find t k
  end.

(* Cache.Get at time [now] *)
Definition cache_get (c : cache) (now : Z) (k : N) : option result :=
  match cache_find c k with
  | Some (r, e) => if (0 <? e)%Z && (e <? now)%Z then None else Some r
  | None => None
  end.

Fixpoint cache_remove (c : cache) (k : N) : cache :=
  match c with
  | [] => []
  | (k', e) :: t => if N.eqb k k' then cache_remove t k else (k', e) :: cache_remove t k
  end.

(* Cache.Set(key, value, DefaultCacheExpiration) at time [now] with default expiration [cexp] *)
Definition cache_set (cexp : Z) (c : cache) (now : Z) (k : N) (r : result) : cache :=
  (k, (r, if (0 <? cexp)%Z then (now + cexp)%Z else 0%Z)) :: cache_remove c k.

(* ------------------------------------------------------------------------------ *)
(* util.Unflatten(b, size): `for i := 0; i < len(b); i += size`.  The loop does not terminate
   for size = 0 on a non-empty slice; that is the distinct value None (fuel = len(b) is enough
   for every size >= 1). *)

Fixpoint unflatten_fuel {A} (fuel : nat) (l : list A) (size : nat) : option (list (list A)) :=
  match l with
  | [] => Some []
  | _ => match fuel with
         | O => None
         | S f => match unflatten_fuel f (skipn size l) size with
                  | Some gs => Some (firstn size l :: gs)
                  | None => None
                  end
         end
  end.

Definition unflatten {A} (l : list A) (size : nat) : option (list (list A)) :=
  unflatten_fuel (length l) l size.

(* ------------------------------------------------------------------------------ *)
(* Invocation counters of the scripted pipeline: payload instance -> invocations so far. *)

Definition counters := list (N * N).

Fixpoint cnt_get (c : counters) (k : N) : N :=
  match c with [] => 0 | (k', n) :: t => if N.eqb k k' then n else cnt_get t k end.

Fixpoint cnt_bump (c : counters) (k : N) : counters :=
  match c with
  | [] => [(k, 1)]
  | (k', n) :: t => if N.eqb k k' then (k', n + 1) :: t else (k', n) :: cnt_bump t k
  end.

Fixpoint assign (cnt : counters) (run : list payload) : counters * list job :=
  match run with
  | [] => (cnt, [])
  | p :: t => let a := cnt_get cnt (pl_tag p) in
              let '(cnt', js) := assign (cnt_bump cnt (pl_tag p)) t in
              (cnt', (p, a) :: js)
  end.

(* ------------------------------------------------------------------------------ *)
(* The runner proper. *)

Inductive outcome := Ok (rs : list result) | ErrAll | Diverge.

Section Runner.
  Variable pipe  : list job -> list result.   (* the wrapped Runnable on one batch *)
  Variable bfail : list job -> bool.          (* ... returns an error for this batch *)
  Variable cexp  : Z.                         (* RunnerConfig.CacheExpire *)
  Variable wlimit : nat.                      (* WorkerBatchLimit *)

  (* parallelCheck, first loop: a payload is served from the cache iff Get finds an unexpired
     entry for its work id whose trigger block number and hash equal the payload's. *)
  Definition hit (c : cache) (now : Z) (p : payload) : option result :=
    match cache_get c now (pl_wid p) with
    | Some r => if N.eqb (r_blk r) (pl_blk p) && N.eqb (r_hash r) (pl_hash p) then Some r else None
    | None => None
    end.

  Fixpoint lookup (c : cache) (now : Z) (pls : list payload) : list (payload * result) * list payload :=
    match pls with
    | [] => ([], [])
    | p :: t => let '(hs, run) := lookup c now t in
                match hit c now p with
                | Some r => ((p, r) :: hs, run)
                | None => (hs, p :: run)
                end
    end.

  (* wrapAggregate, per result of a successful batch, at time [now] *)
  Definition fill1 (c : cache) (now : Z) (r : result) : cache :=
    if N.eqb (r_state r) 0 then
      match cache_get c now (r_wid r) with
      | Some old => if N.ltb (r_blk old) (r_blk r) then cache_set cexp c now (r_wid r) r else c
      | None => cache_set cexp c now (r_wid r) r
      end
    else c.

  Definition agg (c : cache) (now : Z) (rs : list result) : cache :=
    fold_left (fun c r => fill1 c now r) rs c.

  Definition batch_done (c : cache) (bt : list job * Z) : cache :=
    if bfail (fst bt) then c else agg c (snd bt) (pipe (fst bt)).

  (* what CheckUpkeeps returns once every batch has reported; [done] = batches in completion order *)
  Definition finish (hits : list result) (done : list (list job)) : outcome :=
    match done with
    | [] => Ok hits
    | _ => let ok := filter (fun b => negb (bfail b)) done in
           match ok with
           | [] => ErrAll
           | _ => Ok (hits ++ flat_map pipe ok)
           end
    end.

  (* the jobs a call hands to the worker group *)
  Definition jobs_of (c : cache) (cnt : counters) (t : Z) (pls : list payload) : list job :=
    snd (assign cnt (snd (lookup c t pls))).

  (* One CheckUpkeeps call with no other caller in between.  [ord] is the worker group's
     completion order together with the completion instants. *)
  Definition check (c : cache) (cnt : counters) (t : Z) (pls : list payload)
             (ord : list (list job) -> list (list job * Z)) : cache * counters * outcome :=
    let '(hs, run) := lookup c t pls in
    let '(cnt', jobs) := assign cnt run in
    match unflatten jobs wlimit with
    | None => (c, cnt', Diverge)
    | Some bs => let done := ord bs in
                 (fold_left batch_done done c, cnt', finish (map snd hs) (map fst done))
    end.

  (* ---------------------------------------------------------------------------- *)
  (* Several callers sharing one runner: a history is a list of events in the order in which
     they happened.  EvCall = a caller enters CheckUpkeeps (cache look-ups, batching);
     EvDone = the aggregator of call [id] receives the batch whose first job has tag [first]. *)

  Inductive ev :=
  | EvCall (id : nat) (t : Z) (pls : list payload)
  | EvDone (id : nat) (first : N) (t : Z).

  Record ocall := mkOC { oc_id : nat; oc_hits : list result; oc_rem : list (list job);
                         oc_done : list (list job) (* reversed completion order *) }.

  Record rstate := mkRS { rs_cache : cache; rs_cnt : counters; rs_open : list ocall;
                          rs_out : list (nat * outcome);   (* finished calls, latest first *)
                          rs_bad : bool }.                  (* an event did not apply *)

  Definition head_tag (b : list job) : N :=
    match b with [] => 0 | (p, _) :: _ => pl_tag p end.

  Fixpoint take_batch (first : N) (bs : list (list job)) : option (list job * list (list job)) :=
    match bs with
    | [] => None
    | b :: t => if N.eqb (head_tag b) first then Some (b, t)
                else match take_batch first t with
                     | Some (x, t') => Some (x, b :: t')
                     | None => None
                     end
    end.

  Fixpoint take_call (id : nat) (os : list ocall) : option (ocall * list ocall) :=
    match os with
    | [] => None
    | o :: t => if Nat.eqb (oc_id o) id then Some (o, t)
                else match take_call id t with
                     | Some (x, t') => Some (x, o :: t')
                     | None => None
                     end
    end.

  Definition ev_step (s : rstate) (e : ev) : rstate :=
    match e with
    | EvCall id t pls =>
        let '(hs, run) := lookup (rs_cache s) t pls in
        let '(cnt', jobs) := assign (rs_cnt s) run in
        match unflatten jobs wlimit with
        | None => mkRS (rs_cache s) cnt' (rs_open s) ((id, Diverge) :: rs_out s) (rs_bad s)
        | Some [] => mkRS (rs_cache s) cnt' (rs_open s) ((id, Ok (map snd hs)) :: rs_out s) (rs_bad s)
        | Some bs => mkRS (rs_cache s) cnt' (mkOC id (map snd hs) bs [] :: rs_open s) (rs_out s) (rs_bad s)
        end
    | EvDone id first t =>
        match take_call id (rs_open s) with
        | None => mkRS (rs_cache s) (rs_cnt s) (rs_open s) (rs_out s) true
        | Some (o, others) =>
            match take_batch first (oc_rem o) with
            | None => mkRS (rs_cache s) (rs_cnt s) (rs_open s) (rs_out s) true
            | Some (b, rem) =>
                let c' := batch_done (rs_cache s) (b, t) in
                let done := b :: oc_done o in
                match rem with
                | [] => mkRS c' (rs_cnt s) others ((id, finish (oc_hits o) (rev done)) :: rs_out s) (rs_bad s)
                | _ => mkRS c' (rs_cnt s) (mkOC id (oc_hits o) rem done :: others) (rs_out s) (rs_bad s)
                end
            end
        end
    end.

  Definition run_events (s : rstate) (evs : list ev) : rstate := fold_left ev_step evs s.

  (* ---------------------------------------------------------------------------- *)
  (* Fine-grained view of two (or more) aggregators: the read (Get + decision) and the write
     (Set) of wrapAggregate are separate steps that may interleave arbitrarily. *)

  Inductive fstep :=
  | FRead (who : nat) (r : result) (t : Z)   (* caller [who] looks at the cache for result r *)
  | FWrite (who : nat) (t : Z).               (* caller [who] performs the Set it decided on *)

  Definition fpending := list (nat * option result).

  Fixpoint fp_get (p : fpending) (who : nat) : option result :=
    match p with [] => None | (w, x) :: t => if Nat.eqb w who then x else fp_get t who end.

  Definition fp_set (p : fpending) (who : nat) (x : option result) : fpending :=
    (who, x) :: filter (fun wx => negb (Nat.eqb (fst wx) who)) p.

  Definition wants_set (c : cache) (now : Z) (r : result) : bool :=
    N.eqb (r_state r) 0 &&
    match cache_get c now (r_wid r) with
    | Some old => N.ltb (r_blk old) (r_blk r)
    | None => true
    end.

  Definition f_step (s : cache * fpending) (st : fstep) : cache * fpending :=
    let '(c, p) := s in
    match st with
    | FRead who r t => (c, fp_set p who (if wants_set c t r then Some r else None))
    | FWrite who t => match fp_get p who with
                      | Some r => (cache_set cexp c t (r_wid r) r, fp_set p who None)
                      | None => (c, p)
                      end
    end.

  Definition f_run (s : cache * fpending) (sch : list fstep) : cache * fpending := fold_left f_step sch s.
End Runner.

(* ------------------------------------------------------------------------------ *)
(* The scripted pipeline used by the harness: what it does with a payload instance on its
   k-th invocation is tabulated per tag. *)

Record spec := mkSpec { s_state : N; s_retry : bool; s_elig : bool; s_ivl : Z;
                        s_mode : N }.   (* 0 one result; 1 the whole batch errors; 2 no result;
                                           3 the result twice; 4 a result without work id *)

Definition script := list (N * list spec).

Fixpoint script_find (sc : script) (tag : N) : list spec :=
  match sc with [] => [] | (k, l) :: t => if N.eqb k tag then l else script_find t tag end.

Definition default_spec : spec := mkSpec 0 false false 0 0.

(* attempts beyond the end of the list repeat the last entry *)
Fixpoint nth_or_last (l : list spec) (n : nat) : spec :=
  match l with
  | [] => default_spec
  | [x] => x
  | x :: t => match n with O => x | S m => nth_or_last t m end
  end.

Definition spec_of (sc : script) (tag att : N) : spec := nth_or_last (script_find sc tag) (N.to_nat att).

Definition res_of (sp : spec) (p : payload) (att : N) : result :=
  mkRes (if N.eqb (s_mode sp) 4 then 0 else pl_wid p) (pl_blk p) (pl_hash p)
        (s_state sp) (s_retry sp) (s_elig sp) (s_ivl sp) (pl_tag p) att.

Definition pipe1 (sc : script) (j : job) : list result :=
  let sp := spec_of sc (pl_tag (fst j)) (snd j) in
  let r := res_of sp (fst j) (snd j) in
  if N.eqb (s_mode sp) 2 then [] else if N.eqb (s_mode sp) 3 then [r; r] else [r].

Definition spipe (sc : script) (b : list job) : list result := flat_map (pipe1 sc) b.
Definition sfail (sc : script) (b : list job) : bool :=
  existsb (fun j => N.eqb (s_mode (spec_of sc (pl_tag (fst j)) (snd j))) 1) b.

(* ------------------------------------------------------------------------------ *)
(* Checker K for C13: decides the property on what was observed of the real runner (the
   results it returned and the pipeline invocations it made), without running the model. *)

Fixpoint count_by {A} (e : A -> A -> bool) (x : A) (l : list A) : nat :=
  match l with [] => O | y :: t => if e x y then S (count_by e x t) else count_by e x t end.

Definition perm_by {A} (e : A -> A -> bool) (l1 l2 : list A) : bool :=
  forallb (fun x => Nat.eqb (count_by e x l1) (count_by e x l2)) (l1 ++ l2).

Record inv_obs := mkInv { io_in : list job;     (* jobs handed to the pipeline in one invocation *)
                          io_fail : bool;       (* the pipeline returned an error *)
                          io_t : Z }.           (* instant at which it returned *)

Record call_obs := mkCall { co_id : nat; co_t : Z; co_pls : list payload;
                            co_inv : list inv_obs;     (* in completion order *)
                            co_err : bool; co_res : list result }.

Definition key3 := (N * N * N)%type.
Definition key3_eqb (a b : key3) : bool :=
  let '(a1, a2, a3) := a in let '(b1, b2, b3) := b in
  if N.eqb a1 b1 then N.eqb a2 b2 && N.eqb a3 b3 else false.
Definition pl_key (p : payload) : key3 := (pl_wid p, pl_blk p, pl_hash p).
Definition r_key (r : result) : key3 := (r_wid r, r_blk r, r_hash r).
Definition job_eqb (a b : job) : bool := payload_eqb (fst a) (fst b) && N.eqb (snd a) (snd b).

Definition ran_tags (c : call_obs) : list N := map (fun j => pl_tag (fst j)) (flat_map io_in (co_inv c)).
Definition unran (c : call_obs) : list payload :=
  filter (fun p => negb (memN (pl_tag p) (ran_tags c))) (co_pls c).
Definition ok_invs (c : call_obs) : list inv_obs := filter (fun i => negb (io_fail i)) (co_inv c).

(* what the successful invocations of the other calls returned, with the instant of the return *)
Definition filled_by (sc : script) (invs : list inv_obs) : list (result * Z) :=
  flat_map (fun i => if io_fail i then [] else map (fun r => (r, io_t i)) (spipe sc (io_in i))) invs.

(* a cached result served at time [t] is justified by an earlier successful invocation that
   returned exactly this result, with state 0, and whose fill has not expired *)
Definition justified (cexp : Z) (filled : list (result * Z)) (t : Z) (r : result) : bool :=
  N.eqb (r_state r) 0 &&
  existsb (fun rt => if result_eqb r (fst rt)
                     then (snd rt <=? t)%Z && ((cexp <=? 0)%Z || (t <=? snd rt + cexp)%Z)
                     else false) filled.

Definition call_check (sc : script) (cexp : Z) (wlimit : nat) (all : list call_obs) (c : call_obs) : bool :=
  let ran := flat_map io_in (co_inv c) in
  let fresh := flat_map (fun i => spipe sc (io_in i)) (ok_invs c) in
  let served := unran c in
  let filled := filled_by sc (flat_map co_inv (filter (fun d => negb (Nat.eqb (co_id d) (co_id c))) all)) in
  (* every payload was either handed to the pipeline exactly once or served from the cache *)
  nodupb (ran_tags c)
  && forallb (fun j => existsb (payload_eqb (fst j)) (co_pls c)) ran
  && nodupb (map pl_tag (co_pls c))
  (* batches hold 1..limit jobs *)
  && forallb (fun i => negb (Nat.eqb (length (io_in i)) 0) && Nat.leb (length (io_in i)) wlimit) (co_inv c)
  (* error iff there was at least one batch and every batch failed *)
  && Bool.eqb (co_err c) (negb (Nat.eqb (length (co_inv c)) 0) && Nat.eqb (length (ok_invs c)) 0)
  && (if co_err c then Nat.eqb (length (co_res c)) 0
      else
        (* the results are, as a multiset, one cached result per served payload plus what the
           successful invocations returned *)
        let cachedr := filter (fun r => negb (existsb (result_eqb r) fresh)) (co_res c) in
        let freshr := filter (fun r => existsb (result_eqb r) fresh) (co_res c) in
        perm_by result_eqb freshr fresh
        && perm_by key3_eqb (map r_key cachedr) (map pl_key served)
        && forallb (justified cexp filled (co_t c)) cachedr).

Definition C13_check (sc : script) (cexp : Z) (wlimit : nat) (all : list call_obs) : bool :=
  nodupb (map (fun c => N.of_nat (co_id c)) all) && forallb (call_check sc cexp wlimit all) all.

(* ------------------------------------------------------------------------------ *)
(* Case record written by the harness and its evaluators. *)

Record rn_case := mkRnCase {
  rn_cexp : Z;
  rn_script : script;
  rn_events : list ev;            (* observed order of entries and batch completions *)
  rn_calls : list call_obs        (* observed, in order of entry *)
}.

Definition rs0 : rstate := mkRS [] [] [] [] false.

Definition outcome_eqb (o : outcome) (err : bool) (rs : list result) : bool :=
  match o with
  | Ok l => negb err && list_eqb result_eqb l rs
  | ErrAll => err && Nat.eqb (length rs) 0
  | Diverge => false
  end.

Fixpoint out_find (l : list (nat * outcome)) (id : nat) : option outcome :=
  match l with [] => None | (i, o) :: t => if Nat.eqb i id then Some o else out_find t id end.

Definition rn_model (wlimit : nat) (k : rn_case) : rstate :=
  run_events (spipe (rn_script k)) (sfail (rn_script k)) (rn_cexp k) wlimit rs0 (rn_events k).

Definition rn_mism (wlimit : nat) (k : rn_case) : bool :=
  let s := rn_model wlimit k in
  rs_bad s || negb (Nat.eqb (length (rs_open s)) 0)
  || negb (forallb (fun c => match out_find (rs_out s) (co_id c) with
                             | Some o => outcome_eqb o (co_err c) (co_res c)
                             | None => false
                             end) (rn_calls k)).

Definition rn_bad (wlimit : nat) (k : rn_case) : bool :=
  negb (C13_check (rn_script k) (rn_cexp k) wlimit (rn_calls k)).

(* non-trivial: some call was served from the cache and also ran a batch, or a batch failed
   while another succeeded *)
Definition rn_nontriv (k : rn_case) : bool :=
  existsb (fun c => (negb (Nat.eqb (length (unran c)) 0) && negb (Nat.eqb (length (co_inv c)) 0))
                    || (negb (Nat.eqb (length (ok_invs c)) 0)
                        && negb (Nat.eqb (length (ok_invs c)) (length (co_inv c))))) (rn_calls k).

(* coverage: (cache hits, pipeline invocations, failed invocations, calls that returned an error) *)
Definition rn_cov (k : rn_case) : nat * nat * nat * nat :=
  fold_left (fun '(a, b, c, d) co =>
               (a + length (unran co), b + length (co_inv co),
                c + (length (co_inv co) - length (ok_invs co)), d + (if co_err co then 1 else 0))%nat)
            (rn_calls k) (0, 0, 0, 0)%nat.
Definition cov4_sum (l : list (nat * nat * nat * nat)) : nat * nat * nat * nat :=
  fold_left (fun '(a, b, c, d) '(x, y, z, w) => (a + x, b + y, c + z, d + w)%nat) l (0, 0, 0, 0)%nat.
