(* Rule-by-rule model of the validation that DecodeAutomationObservation /
   DecodeAutomationOutcome run after the JSON decode (pkg/v3/observation.go, pkg/v3/outcome.go):
     validateTriggerExtensionType, validateCheckResult, validateUpkeepProposal,
     validateAutomationObservation, validateAutomationOutcome.
   The functions follow the Go code statement by statement and return the FIRST error the Go
   code returns (as a small enum), so that the harness can compare the error kind, not only
   accept/reject.  Oracles:
     utg : N -> N              UpkeepTypeGetter on interned upkeep ids (0 = condition, 1 = log,
                               anything else = another type: no extension rule applies)
     wg  : N -> trigger -> N   WorkIDGenerator on interned ids
   Limits come from Gen/Generated.v (read from the source on every run).
   No proofs in this file. *)
From Verif Require Export Model.Types Gen.Generated.
Open Scope N_scope.

Inductive verr :=
| ok
| e_hist_len        (* block history length cannot be greater than 256 *)
| e_hist_dup        (* block history cannot have duplicate block numbers *)
| e_perf_len        (* performable length cannot be greater than 100 / outcome performable length *)
| e_failed          (* check result cannot have failed execution state *)
| e_ineligible      (* check result cannot be ineligible *)
| e_ext_cond        (* log trigger extension cannot be present for condition upkeep *)
| e_ext_log         (* log trigger extension cannot be empty for log upkeep *)
| e_workid          (* incorrect workID within result / proposal *)
| e_gas             (* gas allocated cannot be zero *)
| e_fgw_nil         (* fast gas wei must be present *)
| e_fgw_range       (* fast gas wei must be in uint256 range *)
| e_ln_nil          (* link native must be present *)
| e_ln_range        (* link native must be in uint256 range *)
| e_perf_dup        (* performable cannot have duplicate workIDs *)
| e_props_len       (* upkeep proposals length cannot be greater than 10 *)
| e_prop_dup        (* proposals cannot have duplicate workIDs *)
| e_cond_len        (* conditional upkeep proposals length cannot be greater than 5 *)
| e_log_len         (* log upkeep proposals length cannot be greater than 5 *)
| e_rounds_len      (* number of rounds for surfaced proposals cannot be greater than 20 *)
| e_round_len.      (* number of surfaced proposals in a round cannot be greater than 50 *)

Definition verr_code (e : verr) : N :=
  match e with
  | ok => 0 | e_hist_len => 1 | e_hist_dup => 2 | e_perf_len => 3 | e_failed => 4
  | e_ineligible => 5 | e_ext_cond => 6 | e_ext_log => 7 | e_workid => 8 | e_gas => 9
  | e_fgw_nil => 10 | e_fgw_range => 11 | e_ln_nil => 12 | e_ln_range => 13 | e_perf_dup => 14
  | e_props_len => 15 | e_prop_dup => 16 | e_cond_len => 17 | e_log_len => 18
  | e_rounds_len => 19 | e_round_len => 20
  end.

Definition is_ok (e : verr) : bool := match e with ok => true | _ => false end.

(* `if err := a; err != nil { return err }; b` *)
Definition seq_err (a b : verr) : verr := match a with ok => b | _ => a end.
Local Notation "a ;; b" := (seq_err a b) (at level 61, right associativity).

Definition uint256_max : Z := (2 ^ 256 - 1)%Z.

(* The documented limits (DESIGN C15: 100/5/5/10/256 for observations, 100/20/50 for outcomes).
   The specification [obs_rules]/[outcome_rules] and checker K use these literals; the model of
   the code uses the constants read from the source (Gen/Generated.v); the proofs need them equal. *)
Definition doc_hist_limit : Z := 256%Z.
Definition doc_perf_limit : Z := 100%Z.
Definition doc_props_limit : Z := 10%Z.
Definition doc_cond_limit : Z := 5%Z.
Definition doc_log_limit : Z := 5%Z.
Definition doc_agreed_limit : Z := 100%Z.
Definition doc_rounds_limit : Z := 20%Z.
Definition doc_round_limit : Z := 50%Z.

(* len(l) > limit, with Go's int length *)
Definition len_gt {A} (l : list A) (limit : Z) : bool := (limit <? Z.of_nat (length l))%Z.

Section Validate.
  Variable utg : N -> N.
  Variable wg : N -> trigger -> N.

  (* validateTriggerExtensionType(t, ut) *)
  Definition check_ext (t : trigger) (ut : N) : verr :=
    if ut =? ut_cond then match t_ext t with Some _ => e_ext_cond | None => ok end
    else if ut =? ut_log then match t_ext t with None => e_ext_log | Some _ => ok end
    else ok.

  (* nil check followed by Cmp(0) < 0 || Cmp(uint256Max) > 0 *)
  Definition check_price (e_nil e_range : verr) (p : option Z) : verr :=
    match p with
    | None => e_nil
    | Some v => if (v <? 0)%Z || (uint256_max <? v)%Z then e_range else ok
    end.

  (* validateCheckResult *)
  Definition check_result (r : result) : verr :=
    (if negb (r_state r =? 0) || r_retryable r then e_failed else ok) ;;
    (if negb (r_eligible r) || negb (r_reason r =? 0) then e_ineligible else ok) ;;
    check_ext (r_trig r) (utg (r_upk r)) ;;
    (if wg (r_upk r) (r_trig r) =? r_wid r then ok else e_workid) ;;
    (if r_gas r =? 0 then e_gas else ok) ;;
    check_price e_fgw_nil e_fgw_range (r_fgw r) ;;
    check_price e_ln_nil e_ln_range (r_ln r).

  (* validateUpkeepProposal *)
  Definition check_proposal (p : proposal) : verr :=
    check_ext (p_trig p) (utg (p_upk p)) ;;
    (if wg (p_upk p) (p_trig p) =? p_wid p then ok else e_workid).

  (* the loop over block history with its `seen` map *)
  Fixpoint check_hist (seen : list N) (h : list blockkey) : verr :=
    match h with
    | [] => ok
    | b :: t => if memN (bk_num b) seen then e_hist_dup else check_hist (bk_num b :: seen) t
    end.

  (* the loop over performables with its `seenPerformables` map *)
  Fixpoint check_results (seen : list N) (rs : list result) : verr :=
    match rs with
    | [] => ok
    | r :: t =>
        check_result r ;;
        (if memN (r_wid r) seen then e_perf_dup else check_results (r_wid r :: seen) t)
    end.

  (* the loop over proposals with its `seenProposals` map (shared across rounds in an outcome) *)
  Fixpoint check_proposals (seen : list N) (ps : list proposal) : verr :=
    match ps with
    | [] => ok
    | p :: t =>
        check_proposal p ;;
        (if memN (p_wid p) seen then e_prop_dup else check_proposals (p_wid p :: seen) t)
    end.

  Definition count_type (ut : N) (ps : list proposal) : nat :=
    length (filter (fun p => utg (p_upk p) =? ut) ps).

  (* validateAutomationObservation *)
  Definition obs_err (o : observation) : verr :=
    (if len_gt (o_hist o) ObservationBlockHistoryLimit then e_hist_len else ok) ;;
    check_hist [] (o_hist o) ;;
    (if len_gt (o_perf o) ObservationPerformablesLimit then e_perf_len else ok) ;;
    check_results [] (o_perf o) ;;
    (if len_gt (o_props o) (ObservationConditionalsProposalsLimit + ObservationLogRecoveryProposalsLimit)
     then e_props_len else ok) ;;
    check_proposals [] (o_props o) ;;
    (if (ObservationConditionalsProposalsLimit <? Z.of_nat (count_type ut_cond (o_props o)))%Z
     then e_cond_len else ok) ;;
    (if (ObservationLogRecoveryProposalsLimit <? Z.of_nat (count_type ut_log (o_props o)))%Z
     then e_log_len else ok).

  (* the loop over rounds; `seen` is the map shared by all rounds *)
  Fixpoint check_rounds (seen : list N) (rounds : list (list proposal)) : verr :=
    match rounds with
    | [] => ok
    | rd :: t =>
        (if len_gt rd OutcomeSurfacedProposalsLimit then e_round_len else ok) ;;
        check_proposals seen rd ;;
        check_rounds (rev (map p_wid rd) ++ seen) t
    end.

  (* validateAutomationOutcome *)
  Definition outcome_err (o : outcome) : verr :=
    (if len_gt (oc_agreed o) OutcomeAgreedPerformablesLimit then e_perf_len else ok) ;;
    check_results [] (oc_agreed o) ;;
    (if len_gt (oc_surfaced o) OutcomeSurfacedProposalsRoundHistoryLimit then e_rounds_len else ok) ;;
    check_rounds [] (oc_surfaced o).

  (* boolean faces *)
  Definition valid_ext (t : trigger) (ut : N) : bool := is_ok (check_ext t ut).
  Definition valid_result (r : result) : bool := is_ok (check_result r).
  Definition valid_proposal (p : proposal) : bool := is_ok (check_proposal p).
  Definition valid_obs (o : observation) : bool := is_ok (obs_err o).
  Definition valid_outcome (o : outcome) : bool := is_ok (outcome_err o).

  (* ------------------------------------------------------------------------------ *)
  (* The documented rules, as propositions (the specification the theorems relate to). *)

  Definition price_rule (p : option Z) : Prop :=
    exists v, p = Some v /\ (0 <= v <= uint256_max)%Z.

  Definition ext_rule (t : trigger) (ut : N) : Prop :=
    (ut = ut_cond -> t_ext t = None) /\ (ut = ut_log -> t_ext t <> None).

  Definition result_rules (r : result) : Prop :=
    r_state r = 0 /\ r_retryable r = false /\ r_eligible r = true /\ r_reason r = 0 /\
    ext_rule (r_trig r) (utg (r_upk r)) /\
    wg (r_upk r) (r_trig r) = r_wid r /\
    r_gas r <> 0 /\
    price_rule (r_fgw r) /\ price_rule (r_ln r).

  Definition proposal_rules (p : proposal) : Prop :=
    ext_rule (p_trig p) (utg (p_upk p)) /\ wg (p_upk p) (p_trig p) = p_wid p.

  Definition obs_rules (o : observation) : Prop :=
    (Z.of_nat (length (o_hist o)) <= doc_hist_limit)%Z /\
    NoDup (map bk_num (o_hist o)) /\
    (Z.of_nat (length (o_perf o)) <= doc_perf_limit)%Z /\
    Forall result_rules (o_perf o) /\
    NoDup (map r_wid (o_perf o)) /\
    (Z.of_nat (length (o_props o)) <= doc_props_limit)%Z /\
    Forall proposal_rules (o_props o) /\
    NoDup (map p_wid (o_props o)) /\
    (Z.of_nat (count_type ut_cond (o_props o)) <= doc_cond_limit)%Z /\
    (Z.of_nat (count_type ut_log (o_props o)) <= doc_log_limit)%Z.

  Definition outcome_rules (o : outcome) : Prop :=
    (Z.of_nat (length (oc_agreed o)) <= doc_agreed_limit)%Z /\
    Forall result_rules (oc_agreed o) /\
    NoDup (map r_wid (oc_agreed o)) /\
    (Z.of_nat (length (oc_surfaced o)) <= doc_rounds_limit)%Z /\
    Forall (fun rd => (Z.of_nat (length rd) <= doc_round_limit)%Z) (oc_surfaced o) /\
    Forall proposal_rules (concat (oc_surfaced o)) /\
    NoDup (map p_wid (concat (oc_surfaced o))).
End Validate.

(* ------------------------------------------------------------------------------ *)
(* Oracle tables for correspondence runs: the harness tabulates the real utg / wg on the
   values occurring in a case. *)

(* utg table: interned upkeep id -> type; ids not in the table have type 0 *)
Definition utg_of (tab : list (N * N)) (u : N) : N :=
  match find (fun kv => fst kv =? u) tab with Some kv => snd kv | None => 0 end.

(* wg table: (interned upkeep id, extension) -> interned work id.  The real generator reads
   only the upkeep id and the extension's TxHash/Index/BlockHash (LogIdentifier); the harness
   tabulates it on (id, option (txhash, index, blockhash)) and checks on the real function that
   the remaining trigger fields do not matter.  Missing entries give 0 (never a real id: the
   harness interns from 1). *)
Definition wg_key := (N * option (N * N * N))%type.
Definition ext_key (t : trigger) : option (N * N * N) :=
  match t_ext t with Some e => Some (le_txhash e, le_index e, le_blockhash e) | None => None end.
Definition wg_key_eqb (a b : wg_key) : bool :=
  (fst a =? fst b) &&
  match snd a, snd b with
  | None, None => true
  | Some (x1, y1, z1), Some (x2, y2, z2) => (x1 =? x2) && (y1 =? y2) && (z1 =? z2)
  | _, _ => false
  end.
Definition wg_of (tab : list (wg_key * N)) (u : N) (t : trigger) : N :=
  match find (fun kv => wg_key_eqb (fst kv) (u, ext_key t)) tab with Some kv => snd kv | None => 0 end.

(* ------------------------------------------------------------------------------ *)
(* Checker K: the documented rules decided directly (spec-shaped, no sequencing, no early
   exit), used to judge the implementation's accept/reject independently of the model above. *)
Section RulesB.
  Variable utg : N -> N.
  Variable wg : N -> trigger -> N.

  Definition price_rule_b (p : option Z) : bool :=
    match p with Some v => (0 <=? v)%Z && (v <=? uint256_max)%Z | None => false end.

  Definition ext_rule_b (t : trigger) (ut : N) : bool :=
    (negb (ut =? ut_cond) || match t_ext t with None => true | Some _ => false end)
    && (negb (ut =? ut_log) || match t_ext t with None => false | Some _ => true end).

  Definition result_rules_b (r : result) : bool :=
    (r_state r =? 0) && negb (r_retryable r) && r_eligible r && (r_reason r =? 0)
    && ext_rule_b (r_trig r) (utg (r_upk r))
    && (wg (r_upk r) (r_trig r) =? r_wid r)
    && negb (r_gas r =? 0)
    && price_rule_b (r_fgw r) && price_rule_b (r_ln r).

  Definition proposal_rules_b (p : proposal) : bool :=
    ext_rule_b (p_trig p) (utg (p_upk p)) && (wg (p_upk p) (p_trig p) =? p_wid p).

  Definition len_le {A} (l : list A) (limit : Z) : bool := (Z.of_nat (length l) <=? limit)%Z.

  Definition obs_rules_b (o : observation) : bool :=
    len_le (o_hist o) doc_hist_limit
    && nodupb (map bk_num (o_hist o))
    && len_le (o_perf o) doc_perf_limit
    && forallb result_rules_b (o_perf o)
    && nodupb (map r_wid (o_perf o))
    && len_le (o_props o) doc_props_limit
    && forallb proposal_rules_b (o_props o)
    && nodupb (map p_wid (o_props o))
    && (Z.of_nat (count_type utg ut_cond (o_props o)) <=? doc_cond_limit)%Z
    && (Z.of_nat (count_type utg ut_log (o_props o)) <=? doc_log_limit)%Z.

  Definition outcome_rules_b (o : outcome) : bool :=
    len_le (oc_agreed o) doc_agreed_limit
    && forallb result_rules_b (oc_agreed o)
    && nodupb (map r_wid (oc_agreed o))
    && len_le (oc_surfaced o) doc_rounds_limit
    && forallb (fun rd => len_le rd doc_round_limit) (oc_surfaced o)
    && forallb proposal_rules_b (concat (oc_surfaced o))
    && nodupb (map p_wid (concat (oc_surfaced o))).
End RulesB.

(* C15 checker on one observed decode: [accepted] is whether Decode... returned no error,
   [same] whether the decoded value equals the encoded one field by field (only meaningful
   when accepted).  The property: a value is accepted iff it meets the rules, and accepted
   values come back unchanged. *)
Definition C15_check_obs utg wg (o : observation) (accepted same : bool) : bool :=
  if obs_rules_b utg wg o then accepted && same else negb accepted.
Definition C15_check_outcome utg wg (o : outcome) (accepted same : bool) : bool :=
  if outcome_rules_b utg wg o then accepted && same else negb accepted.

(* ------------------------------------------------------------------------------ *)
(* Case records written by the harness (validation level, interned ids).
   [code]: what the real DecodeAutomationObservation / DecodeAutomationOutcome answered on the
   real encoding of the value: 0 = accepted, 1..20 = the error kind ([verr_code]), 99 = any other
   error (JSON syntax).  [same]: the accepted value equals the encoded one, field by field. *)
Record vo_case := mkVO { vo_utg : list (N * N); vo_wg : list (wg_key * N); vo_val : observation;
                         vo_code : N; vo_same : bool }.
Record vc_case := mkVC { vc_utg : list (N * N); vc_wg : list (wg_key * N); vc_val : outcome;
                         vc_code : N; vc_same : bool }.

Definition vo_mism (k : vo_case) : bool :=
  negb (verr_code (obs_err (utg_of (vo_utg k)) (wg_of (vo_wg k)) (vo_val k)) =? vo_code k).
Definition vo_bad (k : vo_case) : bool :=
  negb (C15_check_obs (utg_of (vo_utg k)) (wg_of (vo_wg k)) (vo_val k) (vo_code k =? 0) (vo_same k)).
Definition vc_mism (k : vc_case) : bool :=
  negb (verr_code (outcome_err (utg_of (vc_utg k)) (wg_of (vc_wg k)) (vc_val k)) =? vc_code k).
Definition vc_bad (k : vc_case) : bool :=
  negb (C15_check_outcome (utg_of (vc_utg k)) (wg_of (vc_wg k)) (vc_val k) (vc_code k =? 0) (vc_same k)).

(* coverage: how many cases ended with each verdict code 0..20 according to the model *)
Definition code_hist (codes : list N) : list nat :=
  map (fun c => length (filter (N.eqb (N.of_nat c)) codes)) (seq 0 21).
