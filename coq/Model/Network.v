(* Round-level model of a network of n plug-in instances with up to f Byzantine members
   (property C09).  It composes the Outcome model (Model/Outcome.v), the Reports model
   (Model/Reports.v is about gas/batch limits; here only its partition property matters, so a
   report is any sub-list of the agreed performables) and an abstract per-node state:
     checked i  : every result node i's own check pipeline ever found eligible (monotone log)
     staged  i  : what node i currently holds for observation (a subset of checked i)
     accepted i : reports node i accepted and is still willing to transmit
   No proofs in this file. *)
From Verif Require Export Model.Types Model.Outcome.
Open Scope N_scope.

Record nstate := mkNS {
  ns_checked  : list result;
  ns_staged   : list result;
  ns_accepted : list (list result)
}.

Definition net := list (nat * nstate).          (* honest nodes only: (oracle id, state) *)

Fixpoint nget (s : net) (i : nat) : nstate :=
  match s with
  | [] => mkNS [] [] []
  | (j, st) :: t => if Nat.eqb i j then st else nget t i
  end.
Fixpoint nset (s : net) (i : nat) (st : nstate) : net :=
  match s with
  | [] => [(i, st)]
  | (j, st0) :: t => if Nat.eqb i j then (j, st) :: t else (j, st0) :: nset t i st
  end.

(* one observation as delivered to the leader: from an honest node (its performables are taken
   from its staging: the list [picked] of positions abstracts which ones build_obs selected), or
   arbitrary bytes from a Byzantine member *)
Inductive member :=
| Honest (i : nat) (picked : list nat)
| Byz (a : aobs).

Definition sublist_at {A} (l : list A) (idx : list nat) : list A :=
  flat_map (fun i => match nth_error l i with Some x => [x] | None => [] end) idx.

Definition member_obs (s : net) (m : member) : aobs :=
  match m with
  | Honest i picked => Decoded (mkObs (sublist_at (ns_staged (nget s i)) picked) [] [])
  | Byz a => a
  end.

Definition is_byz (m : member) : bool := match m with Byz _ => true | _ => false end.

Inductive nop :=
| Stage (i : nat) (rs : list result)            (* node i's pipeline found rs eligible *)
| Round (ms : list member) (split : list nat)   (* a round; [split]: report sizes chosen by Reports *)
| Accept (i : nat) (rep : list result)          (* node i is handed an attested report of an earlier round *)
| Restart (i : nat)                             (* state loss *)
| Unstage (i : nat) (ws : list N).              (* agreed / expired results leave staging *)

Section Net.
  Variable uid : result -> N.
  Variable shuf : N -> N.
  Variable valid : observation -> bool.
  Variables (thr limit : nat).

  Definition round_agreed (s : net) (ms : list member) : list result :=
    oc_agreed (outcome_of uid shuf valid true id_perm id_perm thr thr (mkLim limit 0 0) (mkOut [] [])
                 (map (member_obs s) ms)).

  (* reports of a round: consecutive chunks of the agreed list (what Reports produces: C04_partition) *)
  Fixpoint chunks {A} (l : list A) (sizes : list nat) : list (list A) :=
    match sizes with
    | [] => match l with [] => [] | _ => [l] end
    | k :: t => firstn k l :: chunks (skipn k l) t
    end.

  (* global state: honest nodes + every report produced by some round so far, with the round's
     valid observations (ghost, for the statement) *)
  Record gstate := mkGS { g_net : net; g_reports : list (list result * list observation) }.

  Definition gstep (g : gstate) (o : nop) : gstate :=
    let s := g_net g in
    match o with
    | Stage i rs =>
        let st := nget s i in
        mkGS (nset s i (mkNS (rs ++ ns_checked st) (rs ++ ns_staged st) (ns_accepted st))) (g_reports g)
    | Round ms split =>
        let ag := round_agreed s ms in
        let obs := valid_obs_list valid (map (member_obs s) ms) in
        mkGS s (map (fun rep => (rep, obs)) (chunks ag split) ++ g_reports g)
    | Accept i rep =>
        if existsb (fun x => list_eqb result_eqb (fst x) rep) (g_reports g)
        then let st := nget s i in
             mkGS (nset s i (mkNS (ns_checked st) (ns_staged st) (rep :: ns_accepted st))) (g_reports g)
        else g
    | Restart i =>
        let st := nget s i in mkGS (nset s i (mkNS (ns_checked st) [] [])) (g_reports g)
    | Unstage i ws =>
        let st := nget s i in
        mkGS (nset s i (mkNS (ns_checked st) (filter (fun r => negb (memN (r_wid r) ws)) (ns_staged st)) (ns_accepted st)))
             (g_reports g)
    end.

  Definition grun (ops : list nop) : gstate := fold_left gstep ops (mkGS [] []).
End Net.

(* ------------------------------------------------------------------------------------- *)
(* Case record for correspondence runs of a real n-node network (harness plays libocr) and the
   checker K09, decided on the implementation's own log. Results are row indices into nc_rows. *)
Record n_round := mkNRound {
  nr_obs : list (bool * list nat);        (* VALID observations of the round: (from a Byzantine member?, performable rows) *)
  nr_agreed : list nat;                   (* rows agreed by the round's outcome *)
  nr_reports : list (list nat);           (* reports built from it *)
  nr_inflight : list N                    (* work ids in flight on EVERY honest node when the round started: in a report all of
                                             them accepted, no restart / transmit event / lockout expiry since *)
}.

Record n_case := mkNCase {
  nc_f : nat;
  nc_wids : list N;                       (* row -> interned work id *)
  nc_checked : list (nat * list nat);     (* honest node -> rows its own pipeline found eligible (whole run) *)
  nc_rounds : list n_round;
  nc_honest_obs : list (nat * list nat);  (* every (honest node, performable rows) observation it produced *)
  nc_accepts : list (nat * list nat);     (* (honest node, report) for which ShouldAccept returned true *)
  nc_transmit : list (nat * list (list nat)); (* snapshots: (honest node, all reports it was willing to transmit at that instant) *)
  nc_live : list (N * (nat * nat))        (* liveness obligations (work id, first round, last round): the work was eligible on
                                             >= 2f+1 honest members of each of these rounds and in flight on none of them *)
}.

Definition rows_eqb (a b : list nat) : bool := list_eqb Nat.eqb a b.
Definition mem_nat (x : nat) (l : list nat) : bool := existsb (Nat.eqb x) l.

Definition checked_by_honest (k : n_case) (r : nat) : bool :=
  existsb (fun c => mem_nat r (snd c)) (nc_checked k).

Definition round_support (rd : n_round) (r : nat) : nat :=
  length (filter (fun o => mem_nat r (snd o)) (nr_obs rd)).

Definition quorum_somewhere (k : n_case) (r : nat) : bool :=
  existsb (fun rd => Nat.leb (S (nc_f k)) (round_support rd r)) (nc_rounds k).

Definition produced (k : n_case) (rep : list nat) : bool :=
  existsb (fun rd => existsb (rows_eqb rep) (nr_reports rd)) (nc_rounds k).

Definition wid_of (k : n_case) (r : nat) : N := nth r (nc_wids k) 0.

(* conformance with the network model (R_mism): honest observations come from what the node itself
   checked (staged is a subset of checked); accepted / transmittable reports were produced by a round;
   reports are sub-lists of the agreed performables; at most f Byzantine observations per round *)
Definition n_conforms (k : n_case) : bool :=
  forallb (fun ho => forallb (fun r => existsb (fun c => Nat.eqb (fst c) (fst ho) &&& mem_nat r (snd c)) (nc_checked k)) (snd ho))
          (nc_honest_obs k)
  &&& forallb (fun a => produced k (snd a)) (nc_accepts k)
  &&& forallb (fun t => forallb (produced k) (snd t)) (nc_transmit k)
  &&& forallb (fun rd => forallb (fun rep => forallb (fun r => mem_nat r (nr_agreed rd)) rep) (nr_reports rd)
                         &&& Nat.leb (length (filter fst (nr_obs rd))) (nc_f k)) (nc_rounds k).

(* K09: safety on everything an honest node was willing to transmit, and "not two different reports
   for one unit of work at once" on every snapshot *)
Definition K09_safety (k : n_case) : bool :=
  forallb (fun t => forallb (fun rep => forallb (fun r => checked_by_honest k r &&& quorum_somewhere k r) rep) (snd t))
          (nc_transmit k).

Definition share_wid (k : n_case) (a b : list nat) : bool :=
  existsb (fun r => existsb (fun r' => wid_of k r =? wid_of k r') b) a.

Definition K09_single (k : n_case) : bool :=
  forallb (fun t => forallb (fun a => forallb (fun b => rows_eqb a b || negb (share_wid k a b)) (snd t)) (snd t))
          (nc_transmit k).

(* "not reported again while it is in flight on every honest node" *)
Definition K09_not_again (k : n_case) : bool :=
  forallb (fun rd => forallb (fun r => negb (memN (wid_of k r) (nr_inflight rd))) (nr_agreed rd)) (nc_rounds k).

(* "reported within a bounded number of rounds": some round of the obligation's window agrees a result of that work *)
Definition rounds_between {A} (l : list A) (from to : nat) : list A :=
  firstn (S to - from) (skipn from l).
Definition K09_live (k : n_case) : bool :=
  forallb (fun ob => let '(w, (from, to)) := ob in
             Nat.leb (length (nc_rounds k)) to ||   (* window not completely run: no obligation *)
             existsb (fun rd => existsb (fun r => wid_of k r =? w) (nr_agreed rd)) (rounds_between (nc_rounds k) from to))
          (nc_live k).

Definition K09 (k : n_case) : bool := K09_safety k &&& K09_not_again k &&& K09_single k &&& K09_live k.

Definition n_nontriv (k : n_case) : bool :=
  existsb (fun t => negb (Nat.eqb (length (snd t)) 0)) (nc_transmit k).

(* known finding: the same result (same row: identical fields, same check block) agreed again in a
   later round — after a restart wiped an honest node's in-flight knowledge — and batched into a
   different report; a node that still awaits the first report is willing to transmit both *)
Definition K09_single_masked (k : n_case) : bool :=
  forallb (fun t => forallb (fun a => forallb (fun b =>
             rows_eqb a b || negb (share_wid k a b)
             || forallb (fun r => forallb (fun r' => negb (wid_of k r =? wid_of k r') || Nat.eqb r r') b) a) (snd t)) (snd t))
          (nc_transmit k).
Definition n_kf_rebatch (k : n_case) : bool :=
  negb (K09 k) &&& K09_safety k &&& K09_not_again k &&& K09_live k &&& K09_single_masked k.
