(* Byte-exact model of CheckResult.UniqueID() (chainlink-common v0.3.0,
   pkg/types/automation/basetypes.go).  The Go function returns fmt.Sprintf("%x", resultBytes);
   hex encoding is injective, so the model is the byte list itself.  No proofs here. *)
From Verif Require Export Base.Util.
Open Scope N_scope.

Record bext := mkBExt { e_tx : list N; e_idx : N; e_bh : list N; e_bn : N }.

Record bres := mkBRes {
  b_state : N; b_retry : bool; b_elig : bool; b_reason : N;
  b_upk : list N;            (* 32 bytes *)
  b_num : N;                 (* Trigger.BlockNumber, uint64 *)
  b_hash : list N;           (* Trigger.BlockHash, 32 bytes *)
  b_ext : option bext;
  b_wid : list N;            (* bytes of the work-id string *)
  b_gas : N;                 (* uint64 *)
  b_pd : list N;
  b_fgw : option Z; b_ln : option Z }.

(* big.Int.Bytes(): big-endian magnitude, empty for zero *)
Fixpoint be_bytes_fuel (fuel : nat) (n : N) (acc : list N) : list N :=
  match fuel with
  | O => acc
  | S f => if n =? 0 then acc else be_bytes_fuel f (n / 256) ((n mod 256) :: acc)
  end.
Definition be_bytes (n : N) : list N := be_bytes_fuel (S (N.to_nat (N.size n))) n [].

Definition two63 : N := 9223372036854775808.
Definition two64u : N := 18446744073709551616.
(* big.NewInt(int64(x)).Bytes() for a uint64 x: the cast wraps, Bytes() drops the sign *)
Definition int64_cast_bytes (x : N) : list N :=
  be_bytes (if x <? two63 then x else two64u - x).

Definition zabs_bytes (v : option Z) : list N :=
  match v with None => [] | Some z => be_bytes (Z.to_N (Z.abs z)) end.

(* ASCII helpers *)
Fixpoint dec_digits_fuel (fuel : nat) (n : N) (acc : list N) : list N :=
  match fuel with
  | O => acc
  | S f => let acc' := (48 + n mod 10) :: acc in
           if n / 10 =? 0 then acc' else dec_digits_fuel f (n / 10) acc'
  end.
Definition dec_ascii (n : N) : list N := dec_digits_fuel (S (N.to_nat (N.size n))) n [].

Definition hex_digit (d : N) : N := if d <? 10 then 48 + d else 87 + d.     (* lower case *)
Definition hex_ascii (bs : list N) : list N := flat_map (fun b => [hex_digit (b / 16); hex_digit (b mod 16)]) bs.

Definition ascii_true : list N := [116; 114; 117; 101].
Definition ascii_false : list N := [102; 97; 108; 115; 101].
Definition bool_ascii (b : bool) : list N := if b then ascii_true else ascii_false.

(* LogTriggerExtension.String(): an object with the keys BlockHash (hex), BlockNumber, Index, TxHash (hex), in that order *)
Definition s_blockhash : list N := [123; 34; 66; 108; 111; 99; 107; 72; 97; 115; 104; 34; 58; 34].
Definition s_blocknumber : list N := [34; 44; 34; 66; 108; 111; 99; 107; 78; 117; 109; 98; 101; 114; 34; 58].
Definition s_index : list N := [44; 34; 73; 110; 100; 101; 120; 34; 58].
Definition s_txhash : list N := [44; 34; 84; 120; 72; 97; 115; 104; 34; 58; 34].
Definition s_end : list N := [34; 125].
Definition ext_ascii (e : bext) : list N :=
  s_blockhash ++ hex_ascii (e_bh e) ++ s_blocknumber ++ dec_ascii (e_bn e) ++ s_index ++ dec_ascii (e_idx e)
  ++ s_txhash ++ hex_ascii (e_tx e) ++ s_end.

Definition D : list N := [9].   (* checkResultDelimiter *)

Definition uid_bytes (r : bres) : list N :=
  [b_state r] ++ D ++ bool_ascii (b_retry r) ++ D ++ bool_ascii (b_elig r) ++ D ++ [b_reason r] ++ D
  ++ b_upk r ++ D ++ b_hash r ++ D ++ int64_cast_bytes (b_num r) ++ D
  ++ (match b_ext r with Some e => ext_ascii e | None => [] end) ++ D
  ++ b_wid r ++ D ++ int64_cast_bytes (b_gas r) ++ D ++ b_pd r ++ D
  ++ zabs_bytes (b_fgw r) ++ D ++ zabs_bytes (b_ln r) ++ D.

(* boolean equality of byte-level results, for the witnesses *)
Definition bext_eqb (a b : bext) : bool :=
  list_eqb N.eqb (e_tx a) (e_tx b) && (e_idx a =? e_idx b) && list_eqb N.eqb (e_bh a) (e_bh b) && (e_bn a =? e_bn b).
Definition optz_eqb (a b : option Z) : bool :=
  match a, b with None, None => true | Some x, Some y => Z.eqb x y | _, _ => false end.
Definition bres_eqb (a b : bres) : bool :=
  (b_state a =? b_state b) && Bool.eqb (b_retry a) (b_retry b) && Bool.eqb (b_elig a) (b_elig b)
  && (b_reason a =? b_reason b) && list_eqb N.eqb (b_upk a) (b_upk b) && (b_num a =? b_num b)
  && list_eqb N.eqb (b_hash a) (b_hash b)
  && match b_ext a, b_ext b with None, None => true | Some x, Some y => bext_eqb x y | _, _ => false end
  && list_eqb N.eqb (b_wid a) (b_wid b) && (b_gas a =? b_gas b) && list_eqb N.eqb (b_pd a) (b_pd b)
  && optz_eqb (b_fgw a) (b_fgw b) && optz_eqb (b_ln a) (b_ln b).

(* the fields validation looks at, at byte level (work-id correctness is checked by the harness) *)
Definition bres_valid_shape (r : bres) : bool :=
  (b_state r =? 0) && negb (b_retry r) && b_elig r && (b_reason r =? 0) && negb (b_gas r =? 0)
  && match b_fgw r with Some v => (0 <=? v)%Z && (v <? 2 ^ 256)%Z | None => false end
  && match b_ln r with Some v => (0 <=? v)%Z && (v <? 2 ^ 256)%Z | None => false end.

(* case record: a byte-level result and the bytes the real UniqueID() hex-decodes to *)
Record u_case := mkUCase { uc_res : bres; uc_obs : list N }.
Definition u_mism (k : u_case) : bool := negb (list_eqb N.eqb (uid_bytes (uc_res k)) (uc_obs k)).
