(* Model of the staging result store (pkg/v3/stores/result_store.go): Add / Remove / View / gc
   over an association list with addedAt, explicit clock, explicit map-iteration oracle for
   View.  Also: the property as a declarative specification over observed traces, its boolean
   checker K, a generic fuelled linearizability search, and the case records the harness
   emits.  No proofs in this file. *)
From Verif Require Export Base.Util.
Open Scope Z_scope.

(* A check result as far as the store is concerned: interned work id, check block
   (Trigger.BlockNumber, uint64), interned identity of the whole CheckResult value. *)
Record res := mkRes { r_wid : N; r_blk : N; r_uid : N }.
Record entry := mkEnt { e_res : res; e_at : Z }.     (* result{data, addedAt}; time in ns *)
Definition store := list entry.                      (* map[string]result: at most one entry per work id *)

Definition res_eqb (a b : res) : bool :=
  N.eqb (r_wid a) (r_wid b) && N.eqb (r_blk a) (r_blk b) && N.eqb (r_uid a) (r_uid b).

Definition has_wid (w : N) (e : entry) : bool := N.eqb (r_wid (e_res e)) w.

(* time.Since(addedAt) > storeTTL *)
Definition expired (ttl now : Z) (e : entry) : bool := now - e_at e >? ttl.

Definition lookup (w : N) (s : store) : option entry := find (has_wid w) s.
Definition remove1 (w : N) (s : store) : store := filter (fun e => negb (has_wid w e)) s.

(* One iteration of the loop in Add.  [fixed = false] is the code of the pinned commit: the
   stored entry is compared even when it is expired but not yet collected.  [fixed = true] is
   the repaired code (an expired entry counts as absent). *)
Definition add1 (fixed : bool) (ttl now : Z) (s : store) (r : res) : store :=
  let put := remove1 (r_wid r) s ++ [mkEnt r now] in
  match lookup (r_wid r) s with
  | None => put
  | Some e => if (if fixed then expired ttl now e else false) then put
              else if (r_blk (e_res e) <? r_blk r)%N then put else s
  end.

Definition gc (ttl now : Z) (s : store) : store := filter (fun e => negb (expired ttl now e)) s.

(* View ranges over the map: [pi] is the iteration order oracle (any permutation). *)
Definition view (ttl : Z) (pi : store -> store) (now : Z) (s : store) : list res :=
  map e_res (filter (fun e => negb (expired ttl now e)) (pi s)).

(* core operations (one result / one id at a time) *)
Inductive op := Add1 (r : res) | Rem1 (w : N) | View | GC.
Definition trace := list (Z * op).

Definition step (fixed : bool) (ttl : Z) (s : store) (x : Z * op) : store :=
  match snd x with
  | Add1 r => add1 fixed ttl (fst x) s r
  | Rem1 w => remove1 w s
  | View => s
  | GC => gc ttl (fst x) s
  end.

Definition run_from (fixed : bool) (ttl : Z) (s : store) (tr : trace) : store :=
  fold_left (step fixed ttl) tr s.
Definition run (fixed : bool) (ttl : Z) (tr : trace) : store := run_from fixed ttl [] tr.

(* the views a trace produces; [pi k] is the iteration order used by the k-th operation *)
Fixpoint views_from (fixed : bool) (ttl : Z) (pi : nat -> store -> store) (k : nat) (s : store) (tr : trace)
  : list (list res) :=
  match tr with
  | [] => []
  | x :: tr' =>
      let s' := step fixed ttl s x in
      match snd x with
      | View => view ttl (pi k) (fst x) s :: views_from fixed ttl pi (S k) s' tr'
      | _ => views_from fixed ttl pi (S k) s' tr'
      end
  end.
Definition views fixed ttl pi tr := views_from fixed ttl pi 0 [] tr.

Definition is_gc (x : Z * op) : bool := match snd x with GC => true | _ => false end.
Definition strip_gc (tr : trace) : trace := filter (fun x => negb (is_gc x)) tr.

Fixpoint sorted_time (last : Z) (tr : trace) : bool :=
  match tr with
  | [] => true
  | x :: tr' => if last <=? fst x then sorted_time (fst x) tr' else false
  end.

(* API-level operations: Add(results...), Remove(ids...), View(), gc() *)
Inductive aop := AAdd (rs : list res) | ARemove (ids : list N) | AView | AGC.
Definition expand1 (x : Z * aop) : trace :=
  match snd x with
  | AAdd rs => map (fun r => (fst x, Add1 r)) rs
  | ARemove ids => map (fun w => (fst x, Rem1 w)) ids
  | AView => [(fst x, View)]
  | AGC => [(fst x, GC)]
  end.
Definition expand (l : list (Z * aop)) : trace := flat_map expand1 l.

(* ------------------------------------------------------------------------------ *)
(* The property, stated on an observed trace: every operation carries what the
   implementation returned ([] for anything but View). *)

Definition otrace := list (Z * op * list res).
Definition o_time (x : Z * op * list res) : Z := fst (fst x).
Definition o_op (x : Z * op * list res) : op := snd (fst x).
Definition forget (ot : otrace) : trace := map fst ot.

Definition removes (w : N) (o : op) : bool := match o with Rem1 w' => N.eqb w' w | _ => false end.
(* no Remove of w in the segment *)
Definition not_removed (w : N) (p : otrace) : bool := forallb (fun x => negb (removes w (o_op x))) p.

(* all ways of writing l = p1 ++ x :: p2 *)
Fixpoint splits_from {A} (p1 : list A) (l : list A) : list (list A * A * list A) :=
  match l with
  | [] => []
  | x :: p2 => (p1, x, p2) :: splits_from (p1 ++ [x]) p2
  end.
Definition splits {A} (l : list A) := splits_from (@nil A) l.

(* A result handed over at t0 after prefix p1 is certainly stored when every result handed over
   earlier for the same work id has a lower block, or was removed since, or had outlived the
   TTL by t0. *)
Definition undominated_b (ttl : Z) (p1 : otrace) (t0 : Z) (r : res) : bool :=
  forallb (fun '(a1, x, a2) =>
     match o_op x with
     | Add1 rk => if N.eqb (r_wid rk) (r_wid r)
                  then if (r_blk rk <? r_blk r)%N then true
                       else if negb (not_removed (r_wid r) a2) then true
                       else t0 - o_time x >? ttl
                  else true
     | _ => true
     end) (splits p1).

Definition undominated (ttl : Z) (p1 : otrace) (t0 : Z) (r : res) : Prop :=
  forall a1 tk rk ok a2, p1 = a1 ++ (tk, Add1 rk, ok) :: a2 -> r_wid rk = r_wid r ->
    (r_blk rk < r_blk r)%N \/ not_removed (r_wid r) a2 = false \/ t0 - tk > ttl.

Definition supersedes (r r' : res) : Prop := r_wid r' = r_wid r /\ (r' = r \/ (r_blk r < r_blk r')%N).
Definition supersedes_b (r r' : res) : bool :=
  N.eqb (r_wid r') (r_wid r) && (res_eqb r' r || (r_blk r <? r_blk r')%N).

(* clauses for one view V observed at time t after prefix pre *)
Definition view_sound_at (ttl : Z) (pre : otrace) (t : Z) (V : list res) : Prop :=
  forall r, In r V -> exists p1 t0 o0 p2,
    pre = p1 ++ (t0, Add1 r, o0) :: p2 /\ t - t0 <= ttl /\ not_removed (r_wid r) p2 = true.
Definition view_kept_at (ttl : Z) (pre : otrace) (t : Z) (V : list res) : Prop :=
  forall p1 t0 r o0 p2, pre = p1 ++ (t0, Add1 r, o0) :: p2 -> t - t0 <= ttl ->
    not_removed (r_wid r) p2 = true -> undominated ttl p1 t0 r ->
    exists r', In r' V /\ supersedes r r'.
(* every way the earlier-viewed r1 can have been stored is still within the TTL at t *)
Definition all_witnesses_live (ttl : Z) (q1 : otrace) (t : Z) (r1 : res) : Prop :=
  forall a1 t0 o0 a2, q1 = a1 ++ (t0, Add1 r1, o0) :: a2 -> not_removed (r_wid r1) a2 = true -> t - t0 <= ttl.
Definition view_mono_at (ttl : Z) (pre : otrace) (t : Z) (V : list res) : Prop :=
  forall q1 t' V' q2 r1, pre = q1 ++ (t', View, V') :: q2 -> In r1 V' ->
    not_removed (r_wid r1) q2 = true -> all_witnesses_live ttl q1 t r1 ->
    exists r2, In r2 V /\ supersedes r1 r2.

Definition C10_spec (ttl : Z) (ot : otrace) : Prop :=
  forall pre t V post, ot = pre ++ (t, View, V) :: post ->
    NoDup (map r_wid V) /\ view_sound_at ttl pre t V /\ view_kept_at ttl pre t V /\ view_mono_at ttl pre t V.

(* ------------------------------------------------------------------------------ *)
(* Checker K *)

Definition sound_b (ttl : Z) (pre : otrace) (t : Z) (V : list res) : bool :=
  forallb (fun r =>
    existsb (fun '(p1, x, p2) =>
      match o_op x with
      | Add1 r0 => if res_eqb r0 r then if t - o_time x <=? ttl then not_removed (r_wid r) p2 else false else false
      | _ => false
      end) (splits pre)) V.

Definition kept_b (ttl : Z) (pre : otrace) (t : Z) (V : list res) : bool :=
  forallb (fun '(p1, x, p2) =>
    match o_op x with
    | Add1 r => if t - o_time x <=? ttl
                then if not_removed (r_wid r) p2
                     then if undominated_b ttl p1 (o_time x) r then existsb (supersedes_b r) V else true
                     else true
                else true
    | _ => true
    end) (splits pre).

Definition all_witnesses_live_b (ttl : Z) (q1 : otrace) (t : Z) (r1 : res) : bool :=
  forallb (fun '(a1, x, a2) =>
    match o_op x with
    | Add1 r0 => if res_eqb r0 r1 then if not_removed (r_wid r1) a2 then t - o_time x <=? ttl else true else true
    | _ => true
    end) (splits q1).

Definition mono_b (ttl : Z) (pre : otrace) (t : Z) (V : list res) : bool :=
  forallb (fun '(q1, x, q2) =>
    match o_op x with
    | View => forallb (fun r1 =>
                if not_removed (r_wid r1) q2
                then if all_witnesses_live_b ttl q1 t r1 then existsb (supersedes_b r1) V else true
                else true) (snd x)
    | _ => true
    end) (splits pre).

Definition view_ok_b (ttl : Z) (pre : otrace) (t : Z) (V : list res) : bool :=
  if nodupb (map r_wid V) then if sound_b ttl pre t V then if kept_b ttl pre t V then mono_b ttl pre t V
  else false else false else false.

Definition C10_check (ttl : Z) (ot : otrace) : bool :=
  forallb (fun '(pre, x, post) =>
    match o_op x with View => view_ok_b ttl pre (o_time x) (snd x) | _ => true end) (splits ot).

(* attach observed views (in order) to a trace; None when the counts differ *)
Fixpoint attach (tr : trace) (obs : list (list res)) : option otrace :=
  match tr with
  | [] => match obs with [] => Some [] | _ => None end
  | x :: tr' =>
      match snd x with
      | View => match obs with
                | V :: obs' => option_map (cons (x, V)) (attach tr' obs')
                | [] => None
                end
      | _ => option_map (cons (x, [])) (attach tr' obs)
      end
  end.

(* the model's own observed trace *)
Definition observe fixed ttl pi (tr : trace) : option otrace := attach tr (views fixed ttl pi tr).

(* ------------------------------------------------------------------------------ *)
(* Linearizability: fuelled Wing-Gong/Lowe search over a recorded concurrent history.
   Generic in the sequential specification. *)

Section Lin.
  Variables (St Op Ret : Type).
  Variable lstep : St -> Op -> option (St * Ret).   (* None: the operation is not enabled in this state *)
  Variable ret_ok : Ret -> Ret -> bool.             (* specified return vs recorded return *)

  Record ev := mkEv { ev_op : Op; ev_ret : Ret; ev_inv : N; ev_res : N }.

  (* all ways of taking one event out of the pending list *)
  Fixpoint picks_from (l1 l : list ev) : list (ev * list ev) :=
    match l with
    | [] => []
    | e :: l2 => (e, l1 ++ l2) :: picks_from (l1 ++ [e]) l2
    end.
  Definition picks (l : list ev) := picks_from [] l.

  (* e may be linearized first: nothing still pending had responded before e was invoked *)
  Definition minimal (e : ev) (rest : list ev) : bool :=
    forallb (fun b => negb (ev_res b <? ev_inv e)%N) rest.

  Inductive verdict := Lin | NotLin | OutOfFuel.

  (* [d] bounds the depth (structural), [budget] the number of nodes expanded *)
  Fixpoint lin_search (d : nat) (s : St) (pend : list ev) (budget : N) : verdict * N :=
    match pend with
    | [] => (Lin, budget)
    | _ :: _ =>
      match d with
      | O => (OutOfFuel, budget)
      | S d' =>
        (fix try (cs : list (ev * list ev)) (budget : N) {struct cs} : verdict * N :=
           match cs with
           | [] => (NotLin, budget)
           | (e, rest) :: cs' =>
               if (budget =? 0)%N then (OutOfFuel, 0%N)
               else if minimal e rest then
                 match lstep s (ev_op e) with
                 | Some (s', r) =>
                     if ret_ok r (ev_ret e) then
                       match lin_search d' s' rest (budget - 1)%N with
                       | (Lin, b) => (Lin, b)
                       | (OutOfFuel, b) => (OutOfFuel, b)
                       | (NotLin, b) => try cs' b
                       end
                     else try cs' budget
                 | None => try cs' budget
                 end
               else try cs' budget
           end) (picks pend) budget
      end
    end.

  Definition lin_verdict (budget : N) (s0 : St) (h : list ev) : verdict :=
    fst (lin_search (S (length h)) s0 h budget).
  Definition lin_check (budget : N) (s0 : St) (h : list ev) : bool :=
    match lin_verdict budget s0 h with Lin => true | _ => false end.

  (* the sequential specification accepts the events in this order *)
  Fixpoint seq_accepts (s : St) (order : list ev) : Prop :=
    match order with
    | [] => True
    | e :: order' => exists s' r, lstep s (ev_op e) = Some (s', r) /\ ret_ok r (ev_ret e) = true /\ seq_accepts s' order'
    end.

  (* real-time order respected: nothing is placed before an event that had already responded
     before it was invoked *)
  Definition respects_rt (order : list ev) : Prop :=
    forall l1 a l2 b l3, order = l1 ++ a :: l2 ++ b :: l3 -> ~ (ev_res b < ev_inv a)%N.

  Definition linearizable (s0 : St) (h : list ev) : Prop :=
    exists order, Permutation order h /\ respects_rt order /\ seq_accepts s0 order.
End Lin.
Arguments mkEv {Op Ret}.
Arguments ev_op {Op Ret}.
Arguments ev_ret {Op Ret}.
Arguments ev_inv {Op Ret}.
Arguments ev_res {Op Ret}.

(* ------------------------------------------------------------------------------ *)
(* Sequential specification of the store for the linearizability check: state = store and
   the clock of the last linearized operation (time never runs backwards along the order);
   gc is not part of the recorded history (C10_gc_invisible: it changes no view). *)

Fixpoint insert_res (r : res) (l : list res) : list res :=
  match l with
  | [] => [r]
  | x :: l' => if (r_wid r <=? r_wid x)%N then r :: l else x :: insert_res r l'
  end.
Definition sort_res (l : list res) : list res := fold_right insert_res [] l.
(* views are compared as sets of results keyed by work id *)
Definition views_eqb (a b : list res) : bool := list_eqb res_eqb (sort_res a) (sort_res b).

Definition rs_lstep (ttl : Z) (st : store * Z) (o : Z * aop) : option (store * Z * list res) :=
  let '(s, last) := st in
  if fst o <? last then None
  else let s' := run_from true ttl s (expand1 o) in
       Some (s', fst o, match snd o with AView => view ttl (fun l => l) (fst o) s | _ => [] end).

Definition rs_ev := ev (Z * aop) (list res).
Definition rs_lin_verdict (ttl : Z) (budget : N) (h : list rs_ev) :=
  lin_verdict (store * Z) (Z * aop) (list res) (rs_lstep ttl) views_eqb budget ([], 0) h.

(* ------------------------------------------------------------------------------ *)
(* Case records written by the harness *)

(* sequential case: API-level operations with virtual time stamps (ns since the store was
   created), gc ticks included where they fall strictly between two operations; observed
   views in order *)
Record rs_case := mkRsCase { rc_ops : list (Z * aop); rc_obs : list (list res) }.

Definition rs_mism (ttl : Z) (k : rs_case) : bool :=
  negb (list_eqb views_eqb (views true ttl (fun _ l => l) (expand (rc_ops k))) (rc_obs k)).

Definition rs_bad (ttl : Z) (k : rs_case) : bool :=
  match attach (expand (rc_ops k)) (rc_obs k) with
  | Some ot => negb (C10_check ttl ot)
  | None => true
  end.

(* historic known-finding predicate (finding 12, repaired): K fails, and the observed views
   are exactly those of the pinned commit's Add, which compared against expired entries *)
Definition rs_kf_expired_blocks (ttl : Z) (k : rs_case) : bool :=
  rs_bad ttl k && list_eqb views_eqb (views false ttl (fun _ l => l) (expand (rc_ops k))) (rc_obs k).

(* non-trivial: some view returned a result and some entry expired or was replaced/removed *)
Definition rs_nontriv (k : rs_case) : bool :=
  existsb (fun v => negb (Nat.eqb (length v) 0)) (rc_obs k) && Nat.ltb 3 (length (rc_ops k)).

(* coverage: (#adds stored fresh, #adds replacing a live lower block, #adds replacing an expired
   entry, #adds dropped, #entries collected by gc, #expired entries hidden from a view) *)
Definition rs_cov1 (ttl : Z) (k : rs_case) : list nat :=
  let '(_, c) := fold_left (fun '(s, c) x =>
      let s' := step true ttl s x in
      let bump i := map (fun '(j, v) => if Nat.eqb i j then (j, S v) else (j, v)) c in
      (s', match snd x with
           | Add1 r => match lookup (r_wid r) s with
                       | None => bump 0%nat
                       | Some e => if expired ttl (fst x) e then bump 2%nat
                                   else if (r_blk (e_res e) <? r_blk r)%N then bump 1%nat else bump 3%nat
                       end
           | GC => if Nat.ltb (length s') (length s) then bump 4%nat else c
           | View => if existsb (expired ttl (fst x)) s then bump 5%nat else c
           | Rem1 _ => c
           end)) (expand (rc_ops k)) ([], [(0, 0); (1, 0); (2, 0); (3, 0); (4, 0); (5, 0)]%nat) in
  map snd c.
Definition cov_add (a b : list nat) : list nat := map (fun '(x, y) => (x + y)%nat) (combine a b).
Definition rs_cov (ttl : Z) (ks : list rs_case) : list nat :=
  fold_left (fun a k => cov_add a (rs_cov1 ttl k)) ks [0; 0; 0; 0; 0; 0]%nat.

(* concurrent case: recorded history *)
Record rs_hist := mkRsHist { rh_evs : list rs_ev }.
Definition rs_hist_bad (ttl : Z) (budget : N) (k : rs_hist) : bool :=
  match rs_lin_verdict ttl budget (rh_evs k) with NotLin => true | _ => false end.
Definition rs_hist_nofuel (ttl : Z) (budget : N) (k : rs_hist) : bool :=
  match rs_lin_verdict ttl budget (rh_evs k) with OutOfFuel => true | _ => false end.
(* overlapping operations present: the real-time order is not total *)
Definition rs_hist_overlap (k : rs_hist) : bool :=
  existsb (fun a => existsb (fun b =>
     (ev_inv a <? ev_inv b)%N && (ev_inv b <? ev_res a)%N) (rh_evs k)) (rh_evs k).
