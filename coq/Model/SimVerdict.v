(* Model of the simulator's verdict and summary (tools/simulator): summary statistics
   (node/statistics.go, node/stats.go, node/report.go) with Go's run-time panics as explicit
   error values, the expected-performs computation (simulate/loader/ocr3transmit.go), the
   progress/verdict state machine (telemetry/progress.go + go-pretty's Tracker) and the plan
   codec at event-list level (config/simulation.go).  No proofs in this file. *)
From Verif Require Export Base.Util Model.SimChain.
Open Scope Z_scope.

(* ------------------------------------------------------------------------------ *)
(* Go panics as values *)

Inductive err := EIndex      (* index out of range *)
               | ESlice      (* slice bounds out of range *)
               | ENil.       (* nil pointer dereference *)
Inductive res (A : Type) := Ok (a : A) | Err (e : err).
Arguments Ok {A}. Arguments Err {A}.

Definition bind {A B} (r : res A) (f : A -> res B) : res B :=
  match r with Ok a => f a | Err e => Err e end.
Notation "x <- r ;; k" := (bind r (fun x => k)) (at level 61, r at next level, right associativity).
Notation "' p <- r ;; k" := (bind r (fun p => k)) (at level 61, p pattern, r at next level, right associativity).

Definition is_err {A} (r : res A) : bool := match r with Ok _ => false | Err _ => true end.

Definition zlen {A} (l : list A) : Z := Z.of_nat (length l).

(* values[i] *)
Definition zget (l : list Z) (i : Z) : res Z :=
  if (i <? 0) || (zlen l <=? i) then Err EIndex else Ok (nth (Z.to_nat i) l 0).

(* values[lo:hi] on a slice whose capacity equals its length *)
Definition zslice (l : list Z) (lo hi : Z) : res (list Z) :=
  if (lo <? 0) || (hi <? lo) || (zlen l <? hi) then Err ESlice
  else Ok (firstn (Z.to_nat (hi - lo)) (skipn (Z.to_nat lo) l)).

(* ------------------------------------------------------------------------------ *)
(* findMedianAndSplitData.  The median is kept doubled (an integer): median = m2 / 2.
   [fixed = false] is the code at the pinned commit, [fixed = true] the repaired code. *)

Definition fms (fixed : bool) (v : list Z) : res (Z * list Z * list Z) :=
  let n := zlen v in
  if fixed && (n =? 0) then Ok (0, [], [])
  else if n mod 2 =? 0 then
    let idx := n / 2 in
    m2 <- (if fixed then x <- zget v (idx - 1) ;; y <- zget v idx ;; Ok (x + y)
           else x <- zget v idx ;; y <- zget v (idx + 1) ;; Ok (x + y)) ;;
    a <- zslice v 0 idx ;;
    b <- zslice v idx n ;;
    Ok (m2, a, b)
  else
    let idx := if fixed then n / 2 else n / 2 + 1 in
    x <- zget v idx ;;
    a <- zslice v 0 idx ;;
    b <- zslice v (idx + 1) n ;;
    Ok (2 * x, a, b).

(* findLowestAndOutliers / findHighestAndOutliers; the fence is given in quarters (fence = f4/4),
   int(fence) truncates toward zero *)
Definition lowest_outliers (f4 : Z) (set : list Z) : Z * Z :=
  let f := Z.quot f4 4 in
  let out := filter (fun x => x <? f) set in
  (match out with [] => -1 | x :: t => fold_left Z.min t x end, zlen out).

Definition highest_outliers (f4 : Z) (set : list Z) : Z * Z :=
  let f := Z.quot f4 4 in
  let out := filter (fun x => f <? x) set in
  (fold_left Z.max out (-1), zlen out).

Fixpoint insertZ (x : Z) (l : list Z) : list Z :=
  match l with [] => [x] | y :: t => if x <=? y then x :: l else y :: insertZ x t end.
Definition sortZ (l : list Z) : list Z := fold_right insertZ [] l.

(* the "Statistics / Checks per ID" block of ReportResults; all values in quarters *)
Record summary := mkSum { s_med4 : Z; s_q1_4 : Z; s_q3_4 : Z; s_iqr4 : Z; s_lf4 : Z; s_uf4 : Z;
                          s_in_iqr : Z; s_low : Z * Z; s_high : Z * Z }.

Definition stats_summary (fixed : bool) (data : list Z) : res summary :=
  let s := sortZ data in
  '(m2, q1d, q3d) <- fms fixed s ;;
  '(q1, lo, _) <- fms fixed q1d ;;
  '(q3, _, hi) <- fms fixed q3d ;;
  let iqr := q3 - q1 in
  let lf4 := 2 * q1 - 3 * iqr in
  let uf4 := 2 * q3 + 3 * iqr in
  Ok (mkSum (2 * m2) (2 * q1) (2 * q3) (2 * iqr) lf4 uf4
            (zlen (filter (fun x => (q1 <=? 2 * x) && (2 * x <=? q3)) s))
            (lowest_outliers lf4 lo) (highest_outliers uf4 hi)).

(* ------------------------------------------------------------------------------ *)
(* upkeepStatsBuilder / UpkeepStats: block numbers travel as strings; a transmit that never
   reached a block has a nil BlockNumber whose String() is "<nil>". *)

Definition nil_str : str := [60; 110; 105; 108; 62]%N.
Definition blk_str (b : option N) : str := match b with Some n => key_of n | None => nil_str end.

(* new(big.Int).SetString(s, 10): the number for a decimal numeral, a nil *Int otherwise *)
Definition is_digit (c : N) : bool := (48 <=? c)%N && (c <=? 57)%N.
Definition parse_dec (s : str) : option N :=
  match s with
  | [] => None
  | _ => if forallb is_digit s then Some (fold_left (fun a c => 10 * a + (c - 48))%N s 0%N) else None
  end.

Fixpoint insert_str (x : str) (l : list str) : list str :=
  match l with [] => [x] | y :: t => if str_ltb y x then y :: insert_str x t else x :: l end.
Definition sort_strs (l : list str) : list str := fold_right insert_str [] l.

(* first element of [l] greater than [e] (Go string >) and what follows it; None: none found *)
Fixpoint scan_gt (e : str) (l : list str) : option (str * list str) :=
  match l with
  | [] => None
  | x :: t => if str_ltb e x then Some (x, t) else scan_gt e t
  end.

(* new(big.Int).Sub(a, b) with a, b from SetString *)
Definition sub_parsed (a b : str) : res Z :=
  match parse_dec a, parse_dec b with
  | Some x, Some y => Ok (Z.of_N x - Z.of_N y)
  | _, _ => Err ENil
  end.

(* the loop over `eligible`: only its control flow and the big.Int arithmetic are modelled (the
   float averages are not); [ps]/[cs] are the not yet consumed tails of performed/checked *)
Fixpoint stats_loop (eligible ps cs : list str) : res unit :=
  match eligible with
  | [] => Ok tt
  | e :: rest =>
      ps' <- match ps with
             | [] => Ok ps
             | _ => match scan_gt e ps with
                    | Some (x, t) => _ <- sub_parsed x e ;; Ok t
                    | None => Ok ps
                    end
             end ;;
      cs' <- match cs with
             | [] => Ok cs
             | _ => match scan_gt e cs with
                    | Some (x, t) => _ <- sub_parsed x e ;; Ok t
                    | None => Ok cs
                    end
             end ;;
      stats_loop rest ps' cs'
  end.

(* UpkeepStats: (Eligible, Missed) *)
Definition upkeep_stats (eligible performed checked : list str) : res (Z * Z) :=
  _ <- stats_loop (sort_strs eligible) (sort_strs performed) (sort_strs checked) ;;
  Ok (zlen eligible, zlen eligible - zlen performed).

Record s_upkeep := mkSU { su_id : N; su_elig : list N }.                  (* SimulatedUpkeep: id, EligibleAt *)
Record s_transmit := mkST { st_block : option N; st_ids : list N }.      (* TransmitEvent: BlockNumber, reported upkeep ids *)

(* performsByID[id]; [skip_nil] is the repaired builder that ignores transmits without a block *)
Definition performs_of (skip_nil : bool) (trs : list s_transmit) (id : N) : list str :=
  flat_map (fun t => match st_block t, skip_nil with
                     | None, true => []
                     | _, _ => map (fun _ => blk_str (st_block t)) (filter (N.eqb id) (st_ids t))
                     end) trs.

Fixpoint assocN {A} (k : N) (l : list (N * A)) : option A :=
  match l with [] => None | (k', v) :: t => if N.eqb k k' then Some v else assocN k t end.

(* UpkeepIDs(): distinct ids in order of first occurrence *)
Fixpoint first_ids (l : list N) (seen : list N) : list N :=
  match l with
  | [] => []
  | x :: t => if memN x seen then first_ids t seen else x :: first_ids t (x :: seen)
  end.

Fixpoint res_map {A B} (f : A -> res B) (l : list A) : res (list B) :=
  match l with
  | [] => Ok []
  | x :: t => y <- f x ;; r <- res_map f t ;; Ok (y :: r)
  end.

(* ReportResults: per-id stats, then the checks-per-id summary.
   [checks]: keyIDLookup (upkeep id -> blocks it was checked at, network-wide). *)
Definition report_results (fix_nil fix_median : bool) (ups : list s_upkeep) (trs : list s_transmit)
           (checks : list (N * list N)) : res (list (Z * Z) * summary) :=
  let ids := first_ids (map su_id ups) [] in
  let elig id := match assocN id (map (fun u => (su_id u, su_elig u)) (rev ups)) with Some e => e | None => [] end in
  let chk id := match assocN id checks with Some c => c | None => [] end in
  per <- res_map (fun id => upkeep_stats (map key_of (elig id)) (performs_of fix_nil trs id) (map key_of (chk id))) ids ;;
  s <- stats_summary fix_median (map (fun id => zlen (chk id)) ids) ;;
  Ok (per, s).

(* ------------------------------------------------------------------------------ *)
(* calculateExpectedPerformEvents on the generated upkeeps and logs *)

Record g_upkeep := mkGU { gu_type : N;            (* 0 conditional, 1 log trigger *)
                          gu_expected : bool;
                          gu_create : N;          (* CreateInBlock *)
                          gu_always : bool;
                          gu_elig : list N;       (* EligibleAt *)
                          gu_trig : N }.          (* TriggeredBy, interned *)
Record g_log := mkGL { gl_at : N; gl_val : N }.   (* TriggerAt, TriggerValue interned *)

Definition log_triggers (l : g_log) (u : g_upkeep) : bool :=
  (gu_create u <=? gl_at l)%N && N.eqb (gl_val l) (gu_trig u)
  && (gu_always u || existsb (fun b => (gl_at l <=? b)%N) (gu_elig u)).

Definition expected_performs (ups : list g_upkeep) (logs : list g_log) : Z :=
  fold_left (fun count u =>
    if negb (gu_expected u) then count
    else if N.eqb (gu_type u) 0 then count + zlen (gu_elig u)
    else if N.eqb (gu_type u) 1 then fold_left (fun c l => if log_triggers l u then c + 1 else c) logs count
    else count) ups 0.

(* namespace registered by NewOCR3TransmitLoader: true = "No upkeep perform events expected" *)
Definition negative_namespace (ups : list g_upkeep) (logs : list g_log) : bool :=
  expected_performs ups logs =? 0.

(* ------------------------------------------------------------------------------ *)
(* ProgressTelemetry.track + go-pretty Tracker, as seen by the tracker's own goroutine:
   the messages it takes from its increment channel, then the closed done channel. *)

Record trk := mkTrk { k_total : Z; k_value : Z; k_done : bool; k_failed : bool }.
Definition trk_init (total : Z) : trk := mkTrk total 0 false false.

Inductive tmsg := MInc (k : Z) | MClose.

Definition trk_step (t : trk) (m : tmsg) : trk :=
  if k_done t then t                      (* loop `for !tracker.IsDone()` has ended *)
  else match m with
       | MInc k =>
           if k_total t =? 0 then mkTrk (k_total t) (k_value t) true true     (* negative assertion broken *)
           else let v := k_value t + k in
                mkTrk (k_total t) v ((0 <? k_total t) && (k_total t <=? v)) false
       | MClose =>
           if k_total t =? 0 then mkTrk (k_total t) (k_value t) true (negb (k_value t =? k_total t))
           else mkTrk (k_total t) (k_value t) true (negb (k_value t =? k_total t))
       end.

Definition trk_run (total : Z) (msgs : list tmsg) : trk := fold_left trk_step msgs (trk_init total).
Definition trk_success (total : Z) (msgs : list tmsg) : bool :=
  let t := trk_run total msgs in k_done t && negb (k_failed t).

(* AllProgressComplete: every tracker done and none failed (the renderer moves every done
   tracker to its done list before Stop returns: assumption, observed by the harness) *)
Definition verdict (ts : list (Z * list tmsg)) : bool :=
  forallb (fun p => trk_success (fst p) (snd p)) ts.

(* a whole run of one namespace: increments, then Close *)
Definition run_msgs (incs : list Z) : list tmsg := map MInc incs ++ [MClose].

Definition sumZ (l : list Z) : Z := fold_right Z.add 0 l.

(* ------------------------------------------------------------------------------ *)
(* SimulationPlan.Encode / DecodeSimulationPlan at event-list level.  An event is reduced to its
   type tag, the `expected` field of generate events and an interned rest. *)

Record ev := mkEv { e_type : N;       (* 0 "", 1 ocr3config, 2 generateUpkeeps, 3 logTrigger, other: unknown *)
                    e_expected : N;   (* 0 "", 1 "all", 2 "none", other strings *)
                    e_data : N }.
Record plan := mkPlan { p_confs : list ev; p_gens : list ev; p_logs : list ev }.

Definition set_type (ty : N) (e : ev) : ev := mkEv ty (e_expected e) (e_data e).
Definition default_expected (e : ev) : ev :=
  mkEv (e_type e) (if N.eqb (e_expected e) 0 then 1%N else e_expected e) (e_data e).

(* [presized = true]: make([]interface{}, n) then append (pinned commit);
   [presized = false]: make([]interface{}, 0, n) then append (repaired) *)
Definition encode (presized : bool) (p : plan) : list (option ev) :=
  (if presized then repeat None (length (p_confs p) + length (p_gens p)) else [])
  ++ map (fun e => Some (set_type 1 e)) (p_confs p)
  ++ map (fun e => Some (set_type 2 e)) (p_gens p)
  ++ map (fun e => Some (set_type 3 e)) (p_logs p).

Definition decode_step (acc : option plan) (w : option ev) : option plan :=
  match acc, w with
  | Some p, Some e =>
      if N.eqb (e_type e) 1 then Some (mkPlan (p_confs p ++ [e]) (p_gens p) (p_logs p))
      else if N.eqb (e_type e) 2 then Some (mkPlan (p_confs p) (p_gens p ++ [default_expected e]) (p_logs p))
      else if N.eqb (e_type e) 3 then Some (mkPlan (p_confs p) (p_gens p) (p_logs p ++ [e]))
      else None                                  (* unrecognized event *)
  | Some _, None => None                         (* JSON null: Type "" is unrecognized *)
  | None, _ => None
  end.
Definition decode (w : list (option ev)) : option plan := fold_left decode_step w (Some (mkPlan [] [] [])).

Definition normalize (p : plan) : plan :=
  mkPlan (map (set_type 1) (p_confs p)) (map (fun e => default_expected (set_type 2 e)) (p_gens p))
         (map (set_type 3) (p_logs p)).

(* ------------------------------------------------------------------------------ *)
(* Checkers K *)

Definition Zlist_eqb := list_eqb Z.eqb.

(* m2/2 is a median of [data]: at least half of the values are <= it and at least half are >= it *)
Definition is_median2 (data : list Z) (m2 : Z) : bool :=
  (zlen data <=? 2 * zlen (filter (fun x => 2 * x <=? m2) data))
  && (zlen data <=? 2 * zlen (filter (fun x => m2 <=? 2 * x) data)).

Fixpoint sortedZ (l : list Z) : bool :=
  match l with
  | [] => true
  | x :: t => match t with [] => true | y :: _ => (x <=? y) && sortedZ t end
  end.

(* the conventional median of sorted data, doubled: the middle value twice, or the sum of the two
   middle values; 0 for no data *)
Definition conv_median2 (l : list Z) : Z :=
  match l with [] => 0 | _ => nth ((length l - 1) / 2) l 0 + nth (length l / 2) l 0 end.

(* observed result of one findMedianAndSplitData call: None = it panicked *)
Definition C20_fms_check (data : list Z) (obs : option (Z * list Z * list Z)) : bool :=
  match obs with
  | None => false
  | Some (m2, a, b) =>
      let n := length data in
      Zlist_eqb a (firstn (n / 2) data) && Zlist_eqb b (skipn (n - n / 2) data)
      && (negb (sortedZ data) || (m2 =? conv_median2 data))
  end.

Definition summary_eqb (a b : summary) : bool :=
  (s_med4 a =? s_med4 b) && (s_q1_4 a =? s_q1_4 b) && (s_q3_4 a =? s_q3_4 b) && (s_iqr4 a =? s_iqr4 b)
  && (s_lf4 a =? s_lf4 b) && (s_uf4 a =? s_uf4 b) && (s_in_iqr a =? s_in_iqr b)
  && (fst (s_low a) =? fst (s_low b)) && (snd (s_low a) =? snd (s_low b))
  && (fst (s_high a) =? fst (s_high b)) && (snd (s_high a) =? snd (s_high b)).

(* observed summary of a ReportResults call: None = it panicked.  Median and quartiles are the
   conventional ones of the sorted data and of its lower / upper half (middle value excluded) *)
Definition C20_summary_check (data : list Z) (obs : option summary) : bool :=
  match obs with
  | None => false
  | Some s =>
      let d := sortZ data in
      let n := length d in
      (s_med4 s =? 2 * conv_median2 d)
      && (s_q1_4 s =? 2 * conv_median2 (firstn (n / 2) d))
      && (s_q3_4 s =? 2 * conv_median2 (skipn (n - n / 2) d))
      && (s_iqr4 s =? s_q3_4 s - s_q1_4 s)
      && (2 * s_lf4 s =? 2 * s_q1_4 s - 3 * s_iqr4 s) && (2 * s_uf4 s =? 2 * s_q3_4 s + 3 * s_iqr4 s)
  end.

(* expected performs, computed per (upkeep, log) pair instead of by the nested folds *)
Definition expected_spec (ups : list g_upkeep) (logs : list g_log) : Z :=
  sumZ (map (fun u => if negb (gu_expected u) then 0
                      else if N.eqb (gu_type u) 0 then zlen (gu_elig u)
                      else if N.eqb (gu_type u) 1 then zlen (filter (fun l => log_triggers l u) logs)
                      else 0) ups).

Definition C20_expected_check (ups : list g_upkeep) (logs : list g_log) (obs_negative : bool) (obs_total : Z) : bool :=
  (obs_total =? expected_spec ups logs) && Bool.eqb obs_negative (expected_spec ups logs =? 0).

(* verdict of one run: per namespace the registered total and the increments in the order the
   tracker took them; success iff every positive total is reached and no negative one is touched *)
Definition verdict_spec (ts : list (Z * list Z)) : bool :=
  forallb (fun p => if fst p =? 0 then match snd p with [] => true | _ => false end
                    else fst p <=? sumZ (snd p)) ts.

Definition C20_verdict_check (ts : list (Z * list Z)) (obs_success : bool) : bool :=
  Bool.eqb obs_success (verdict_spec ts).

Definition ev_eqb (a b : ev) : bool :=
  N.eqb (e_type a) (e_type b) && N.eqb (e_expected a) (e_expected b) && N.eqb (e_data a) (e_data b).
Definition plan_eqb (a b : plan) : bool :=
  list_eqb ev_eqb (p_confs a) (p_confs b) && list_eqb ev_eqb (p_gens a) (p_gens b)
  && list_eqb ev_eqb (p_logs a) (p_logs b).

(* a saved plan loads back unchanged (up to what Encode/Decode normalise: type tags, default
   `expected`), including the non-event part ([rest_ok] is computed by the harness) *)
Definition C20_plan_check (p : plan) (decoded : option plan) (rest_ok : bool) : bool :=
  match decoded with
  | None => false
  | Some q => plan_eqb q (normalize p) && rest_ok
  end.

(* ------------------------------------------------------------------------------ *)
(* Case records written by the harness. *)

Record f_case := mkFCase { fc_data : list Z; fc_obs : option (Z * list Z * list Z) }.
Definition fms_obs_eqb (a b : option (Z * list Z * list Z)) : bool :=
  match a, b with
  | None, None => true
  | Some (m, x, y), Some (m', x', y') => (m =? m') && Zlist_eqb x x' && Zlist_eqb y y'
  | _, _ => false
  end.
Definition res_opt {A} (r : res A) : option A := match r with Ok a => Some a | Err _ => None end.
Definition fc_mism (c : f_case) : bool := negb (fms_obs_eqb (res_opt (fms true (fc_data c))) (fc_obs c)).
Definition fc_bad (c : f_case) : bool := negb (C20_fms_check (fc_data c) (fc_obs c)).
(* coverage: the pinned commit's code would have panicked on this input *)
Definition fc_old_panics (c : f_case) : bool := is_err (fms false (fc_data c)).

(* a ReportResults call *)
Record r_case := mkRCase { rc_ups : list s_upkeep; rc_trs : list s_transmit; rc_checks : list (N * list N);
                           rc_obs : option summary;              (* None: panicked *)
                           rc_obs_per : list (Z * Z) }.          (* missed counts are not logged for all ids; unused *)
Definition rc_data (c : r_case) : list Z :=
  map (fun id => zlen (match assocN id (rc_checks c) with Some l => l | None => [] end))
      (first_ids (map su_id (rc_ups c)) []).
Definition rc_mism (c : r_case) : bool :=
  match report_results true true (rc_ups c) (rc_trs c) (rc_checks c), rc_obs c with
  | Ok (_, s), Some o => negb (summary_eqb s o)
  | Err _, None => false
  | _, _ => true
  end.
Definition rc_bad (c : r_case) : bool := negb (C20_summary_check (rc_data c) (rc_obs c)).
Definition rc_old_median_panics (c : r_case) : bool :=
  is_err (report_results true false (rc_ups c) (rc_trs c) (rc_checks c)).
Definition rc_old_nil_panics (c : r_case) : bool :=
  is_err (report_results false true (rc_ups c) (rc_trs c) (rc_checks c)).

Record e_case := mkECase { ec_ups : list g_upkeep; ec_logs : list g_log; ec_neg : bool; ec_total : Z }.
Definition ec_mism (c : e_case) : bool :=
  negb ((expected_performs (ec_ups c) (ec_logs c) =? ec_total c)
        && Bool.eqb (negative_namespace (ec_ups c) (ec_logs c)) (ec_neg c)).
Definition ec_bad (c : e_case) : bool := negb (C20_expected_check (ec_ups c) (ec_logs c) (ec_neg c) (ec_total c)).

Record v_case := mkVCase { vc_trackers : list (Z * list Z); vc_obs : bool }.
Definition vc_mism (c : v_case) : bool :=
  negb (Bool.eqb (verdict (map (fun p => (fst p, run_msgs (snd p))) (vc_trackers c))) (vc_obs c)).
Definition vc_bad (c : v_case) : bool := negb (C20_verdict_check (vc_trackers c) (vc_obs c)).

Record p_case := mkPCase { pc_plan : plan;
                           pc_wire : list N;               (* observed "events": 0 = null, else the type tag *)
                           pc_dec : option plan;           (* observed DecodeSimulationPlan(Encode(plan)); None = error *)
                           pc_rest : bool }.               (* node/network/rpc/blocks parts equal after the round trip *)
Definition wire_tags (w : list (option ev)) : list N :=
  map (fun o => match o with None => 0%N | Some e => e_type e end) w.
Definition opt_plan_eqb (a b : option plan) : bool :=
  match a, b with Some x, Some y => plan_eqb x y | None, None => true | _, _ => false end.
Definition pc_mism (c : p_case) : bool :=
  negb (list_eqb N.eqb (wire_tags (encode false (pc_plan c))) (pc_wire c)
        && opt_plan_eqb (decode (encode false (pc_plan c))) (pc_dec c)).
Definition pc_bad (c : p_case) : bool := negb (C20_plan_check (pc_plan c) (pc_dec c) (pc_rest c)).
Definition pc_old_fails (c : p_case) : bool :=
  match decode (encode true (pc_plan c)) with None => true | Some _ => false end.

(* ------------------------------------------------------------------------------ *)
(* The transmit loader wired to the progress telemetry, as in a run: the count registered for the
   plan, then one increment per Load that carried transmits (the number of upkeeps in them). *)
Definition wired_verdict (ups : list g_upkeep) (logs : list g_log) (loads : list Z) : bool :=
  verdict [(expected_performs ups logs, run_msgs loads)].

Definition C20_wired_check (ups : list g_upkeep) (logs : list g_log) (loads : list Z) (obs_success : bool) : bool :=
  Bool.eqb obs_success (verdict_spec [(expected_spec ups logs, loads)]).

Record w_case := mkWCase { wc_ups : list g_upkeep; wc_logs : list g_log;
                           wc_loads : list Z;        (* upkeeps put on chain by each non-empty Load *)
                           wc_obs : bool }.          (* AllProgressComplete() *)
Definition wc_mism (c : w_case) : bool :=
  negb (Bool.eqb (wired_verdict (wc_ups c) (wc_logs c) (wc_loads c)) (wc_obs c)).
Definition wc_bad (c : w_case) : bool := negb (C20_wired_check (wc_ups c) (wc_logs c) (wc_loads c) (wc_obs c)).
(* coverage: nothing expected, yet something performed *)
Definition wc_negative_broken (c : w_case) : bool :=
  (expected_performs (wc_ups c) (wc_logs c) =? 0) && negb (Nat.eqb (length (wc_loads c)) 0).
