(* Model of the proposal part of the metadata store (pkg/v3/stores/metadata_store.go):
   orderedMap WITH its slice aliasing, AddProposals / RemoveProposals / ViewProposals with an
   explicit clock; the property as a specification over observed traces, checker K, case
   records.  No proofs in this file. *)
From Verif Require Export Base.Util.
Open Scope Z_scope.

(* A coordinated block proposal: upkeep type as the UpkeepTypeGetter sees it (0 condition,
   1 log trigger, anything else: ignored by the store), interned work id (the interning keeps
   Go's string order), check block, interned identity of the whole value. *)
Record prop := mkProp { p_typ : N; p_wid : N; p_blk : N; p_uid : N }.
Definition prop_eqb (a b : prop) : bool :=
  N.eqb (p_typ a) (p_typ b) && N.eqb (p_wid a) (p_wid b) && N.eqb (p_blk a) (p_blk b) && N.eqb (p_uid a) (p_uid b).

Record mrec := mkMRec { m_at : Z; m_prop : prop }.            (* expiringRecord *)
Record omap := mkOM { om_keys : list N; om_vals : list (N * mrec) }.   (* keys slice, values map *)
Definition om_empty : omap := mkOM [] [].

Definition vget (k : N) (vals : list (N * mrec)) : option mrec :=
  option_map snd (find (fun kv => N.eqb (fst kv) k) vals).
Definition vdel (k : N) (vals : list (N * mrec)) : list (N * mrec) :=
  filter (fun kv => negb (N.eqb (fst kv) k)) vals.
Definition vset (k : N) (v : mrec) (vals : list (N * mrec)) : list (N * mrec) := vdel k vals ++ [(k, v)].

Fixpoint remove_first (k : N) (l : list N) : list N :=
  match l with
  | [] => []
  | x :: l' => if N.eqb x k then l' else x :: remove_first k l'
  end.

Fixpoint index_of (k : N) (l : list N) : option nat :=
  match l with
  | [] => None
  | x :: l' => if N.eqb x k then Some 0%nat else option_map S (index_of k l')
  end.

(* orderedMap.Add *)
Definition om_add (k : N) (v : mrec) (m : omap) : omap :=
  match vget k (om_vals m) with
  | Some _ => mkOM (om_keys m) (vset k v (om_vals m))
  | None => mkOM (om_keys m ++ [k]) (vset k v (om_vals m))
  end.

(* orderedMap.Delete, seen from outside a range loop *)
Definition om_delete (k : N) (m : omap) : omap := mkOM (remove_first k (om_keys m)) (vdel k (om_vals m)).

(* sort.Strings on distinct keys *)
Fixpoint insertN (x : N) (l : list N) : list N :=
  match l with
  | [] => [x]
  | y :: l' => if (x <=? y)%N then x :: l else y :: insertN x l'
  end.
Definition isort (l : list N) : list N := fold_right insertN [] l.

(* record.expired(expiry); Get of a missing key is the zero record, whose age saturates *)
Definition rec_expired (expiry now : Z) (o : option mrec) : bool :=
  match o with None => true | Some r => now - m_at r >? expiry end.

(* ---- the view loop of the repaired code: Keys() returns a copy; Delete works on m.keys *)
Definition vbody (expiry now : Z) (st : omap * list prop) (k : N) : omap * list prop :=
  let '(m, out) := st in
  match vget k (om_vals m) with
  | Some r => if now - m_at r >? expiry then (om_delete k m, out) else (m, out ++ [m_prop r])
  | None => (om_delete k m, out)
  end.
Definition view_copy (expiry now : Z) (m : omap) : omap * list prop :=
  let ks := isort (om_keys m) in
  fold_left (vbody expiry now) ks (mkOM ks (om_vals m), []).

(* ---- the view loop of the pinned commit: `for _, key := range m.Keys()` evaluates the slice
   header once (backing array [arr], fixed length L); Delete re-slices m.keys to length n-1
   after shifting the SAME backing array left in place; the loop goes on reading arr[j]. *)
Definition alias_delete (key : N) (arr : list N) (n : nat) : list N * nat :=
  match index_of key (firstn n arr) with
  | Some i => (firstn i arr ++ skipn (S i) (firstn n arr) ++ skipn (n - 1) arr, (n - 1)%nat)
  | None => (arr, n)
  end.

Definition view_alias (expiry now : Z) (m : omap) : omap * list prop :=
  let arr0 := isort (om_keys m) in
  let L := length arr0 in
  let '(arr, n, vals, out) :=
    fold_left (fun '(arr, n, vals, out) j =>
       let key := nth j arr 0%N in
       match vget key vals with
       | Some r => if now - m_at r >? expiry
                   then let '(arr', n') := alias_delete key arr n in (arr', n', vdel key vals, out)
                   else (arr, n, vals, out ++ [m_prop r])
       | None => let '(arr', n') := alias_delete key arr n in (arr', n', vdel key vals, out)
       end) (seq 0 L) (arr0, L, om_vals m, []) in
  (mkOM (firstn n arr) vals, out).

Definition om_view (fixed : bool) (expiry now : Z) (m : omap) : omap * list prop :=
  if fixed then view_copy expiry now m else view_alias expiry now m.

(* ---- the store: conditional and log-recovery maps *)
Record mstore := mkMS { ms_cond : omap; ms_log : omap }.
Definition ms_empty : mstore := mkMS om_empty om_empty.

Inductive mop := MAdd1 (p : prop) | MRem1 (p : prop) | MView (typ : N).
Definition mtrace := list (Z * mop).

Definition ms_add (now : Z) (s : mstore) (p : prop) : mstore :=
  match p_typ p with
  | 1%N => mkMS (ms_cond s) (om_add (p_wid p) (mkMRec now p) (ms_log s))
  | 0%N => mkMS (om_add (p_wid p) (mkMRec now p) (ms_cond s)) (ms_log s)
  | _ => s
  end.
Definition ms_rem (s : mstore) (p : prop) : mstore :=
  match p_typ p with
  | 1%N => mkMS (ms_cond s) (om_delete (p_wid p) (ms_log s))
  | 0%N => mkMS (om_delete (p_wid p) (ms_cond s)) (ms_log s)
  | _ => s
  end.
(* expiries: (conditional, log recovery) *)
Definition ms_view (fixed : bool) (ex : Z * Z) (now : Z) (s : mstore) (typ : N) : mstore * list prop :=
  match typ with
  | 1%N => let '(m, out) := om_view fixed (snd ex) now (ms_log s) in (mkMS (ms_cond s) m, out)
  | 0%N => let '(m, out) := om_view fixed (fst ex) now (ms_cond s) in (mkMS m (ms_log s), out)
  | _ => (s, [])
  end.

Definition ms_step (fixed : bool) (ex : Z * Z) (s : mstore) (x : Z * mop) : mstore * list prop :=
  match snd x with
  | MAdd1 p => (ms_add (fst x) s p, [])
  | MRem1 p => (ms_rem s p, [])
  | MView typ => ms_view fixed ex (fst x) s typ
  end.

Definition ms_run_from (fixed : bool) (ex : Z * Z) (s : mstore) (tr : mtrace) : mstore :=
  fold_left (fun s x => fst (ms_step fixed ex s x)) tr s.
Definition ms_run fixed ex tr := ms_run_from fixed ex ms_empty tr.

(* everything the trace returns, one entry per operation *)
Fixpoint ms_outs_from (fixed : bool) (ex : Z * Z) (s : mstore) (tr : mtrace) : list (list prop) :=
  match tr with
  | [] => []
  | x :: tr' => let '(s', out) := ms_step fixed ex s x in out :: ms_outs_from fixed ex s' tr'
  end.
Definition ms_outs fixed ex tr := ms_outs_from fixed ex ms_empty tr.

(* API level: AddProposals(ps...), RemoveProposals(ps...) (the remove-from-metadata hook calls it
   once per surfaced proposal of every round), ViewProposals(typ) *)
Inductive maop := MAAdd (ps : list prop) | MARemove (ps : list prop) | MAView (typ : N).
Definition mexpand1 (x : Z * maop) : mtrace :=
  match snd x with
  | MAAdd ps => map (fun p => (fst x, MAdd1 p)) ps
  | MARemove ps => map (fun p => (fst x, MRem1 p)) ps
  | MAView typ => [(fst x, MView typ)]
  end.
Definition mexpand (l : list (Z * maop)) : mtrace := flat_map mexpand1 l.

(* ------------------------------------------------------------------------------ *)
(* Specification on an observed trace *)

Definition motrace := list (Z * mop * list prop).
Definition mforget (ot : motrace) : mtrace := map fst ot.

Definition stored_typ (t : N) : bool := N.eqb t 0 || N.eqb t 1.

(* the latest AddProposals for (typ, k) not followed by a RemoveProposals for it *)
Definition last_add (typ k : N) (pre : mtrace) : option (Z * prop) :=
  fold_left (fun acc x =>
    match snd x with
    | MAdd1 p => if N.eqb (p_typ p) typ && N.eqb (p_wid p) k then Some (fst x, p) else acc
    | MRem1 p => if N.eqb (p_typ p) typ && N.eqb (p_wid p) k then None else acc
    | MView _ => acc
    end) pre None.

Definition pending (ex : Z * Z) (typ : N) (pre : mtrace) (t : Z) (p : prop) : Prop :=
  stored_typ typ = true /\ p_typ p = typ /\
  exists t0, last_add typ (p_wid p) pre = Some (t0, p) /\ t - t0 <= (if N.eqb typ 0 then fst ex else snd ex).

Definition pending_b (ex : Z * Z) (typ : N) (pre : mtrace) (t : Z) (p : prop) : bool :=
  stored_typ typ && N.eqb (p_typ p) typ &&
  match last_add typ (p_wid p) pre with
  | Some (t0, q) => prop_eqb q p && (t - t0 <=? (if N.eqb typ 0 then fst ex else snd ex))
  | None => false
  end.

Fixpoint strictly_sorted (l : list N) : bool :=
  match l with
  | [] => true
  | x :: l' => match l' with [] => true | y :: _ => (x <? y)%N && strictly_sorted l' end
  end.

(* every view returns exactly the pending, unexpired proposals, each once, in key order *)
Definition C11_view_spec (ex : Z * Z) (ot : motrace) : Prop :=
  forall pre t typ V post, ot = pre ++ (t, MView typ, V) :: post ->
    strictly_sorted (map p_wid V) = true /\ forall p, In p V <-> pending ex typ (mforget pre) t p.

Definition added_props (pre : mtrace) : list prop :=
  flat_map (fun x => match snd x with MAdd1 p => [p] | _ => [] end) pre.

Definition mview_ok_b (ex : Z * Z) (pre : mtrace) (t : Z) (typ : N) (V : list prop) : bool :=
  strictly_sorted (map p_wid V)
  && forallb (pending_b ex typ pre t) V
  && forallb (fun p => if pending_b ex typ pre t p then existsb (prop_eqb p) V else true) (added_props pre).

Fixpoint C11_view_check_from (ex : Z * Z) (pre : mtrace) (ot : motrace) : bool :=
  match ot with
  | [] => true
  | x :: ot' =>
      (match snd (fst x) with
       | MView typ => mview_ok_b ex pre (fst (fst x)) typ (snd x)
       | _ => true
       end) && C11_view_check_from ex (pre ++ [fst x]) ot'
  end.
Definition C11_view_check (ex : Z * Z) (ot : motrace) : bool := C11_view_check_from ex [] ot.

Fixpoint mattach (tr : mtrace) (obs : list (list prop)) : option motrace :=
  match tr with
  | [] => match obs with [] => Some [] | _ => None end
  | x :: tr' =>
      match snd x with
      | MView _ => match obs with
                   | V :: obs' => option_map (cons (x, V)) (mattach tr' obs')
                   | [] => None
                   end
      | _ => option_map (cons (x, [])) (mattach tr' obs)
      end
  end.

Definition is_mview (x : Z * mop) : bool := match snd x with MView _ => true | _ => false end.
(* outputs of the view operations only *)
Definition ms_views fixed ex (tr : mtrace) : list (list prop) :=
  map snd (filter (fun xo => is_mview (fst xo)) (combine tr (ms_outs fixed ex tr))).

(* ------------------------------------------------------------------------------ *)
(* Case record written by the harness: API-level operations with virtual time stamps (ns),
   observed views in order. *)
Record ms_case := mkMsCase { mc_ops : list (Z * maop); mc_obs : list (list prop) }.

Definition ms_mism (ex : Z * Z) (k : ms_case) : bool :=
  negb (list_eqb (list_eqb prop_eqb) (ms_views true ex (mexpand (mc_ops k))) (mc_obs k)).

Definition ms_bad (ex : Z * Z) (k : ms_case) : bool :=
  match mattach (mexpand (mc_ops k)) (mc_obs k) with
  | Some ot => negb (C11_view_check ex ot)
  | None => true
  end.

(* historic known-finding predicate (finding 4, repaired): K fails and the views are exactly
   those of the aliased loop of the pinned commit *)
Definition ms_kf_view_aliasing (ex : Z * Z) (k : ms_case) : bool :=
  ms_bad ex k && list_eqb (list_eqb prop_eqb) (ms_views false ex (mexpand (mc_ops k))) (mc_obs k).

(* the aliased loop would have answered differently: the case exercises the repaired defect *)
Definition ms_cov_alias_differs (ex : Z * Z) (k : ms_case) : bool :=
  negb (list_eqb (list_eqb prop_eqb) (ms_views false ex (mexpand (mc_ops k))) (ms_views true ex (mexpand (mc_ops k)))).

Definition ms_nontriv (k : ms_case) : bool :=
  existsb (fun v => Nat.ltb 1 (length v)) (mc_obs k).
