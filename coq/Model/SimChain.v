(* Model of the simulated chain (tools/simulator): util.SortedKeyMap, the block history
   tracker (simulate/chain/history.go), the transmit loader's de-duplication
   (simulate/loader/ocr3transmit.go) and the report tracker's look-back
   (simulate/ocr/report.go).  No proofs in this file. *)
From Verif Require Export Base.Util.
Open Scope N_scope.

(* ------------------------------------------------------------------------------ *)
(* Go strings: byte sequences; `a < b` is byte-wise lexicographic with a proper prefix
   being smaller. *)

Definition str := list N.

Fixpoint str_ltb (a b : str) : bool :=
  match a, b with
  | [], [] => false
  | [], _ :: _ => true
  | _ :: _, [] => false
  | x :: a', y :: b' => if x <? y then true else if y <? x then false else str_ltb a' b'
  end.

Definition str_eqb (a b : str) : bool := list_eqb N.eqb a b.

(* keyLess of the repaired util/sort.go: length first, then lexicographic *)
Definition keyless (a b : str) : bool :=
  if Nat.eqb (length a) (length b) then str_ltb a b else Nat.ltb (length a) (length b).

(* big.Int.String() of a non-negative number: decimal digits, most significant first, no
   leading zero.  Recursion on fuel; [N.size_nat n] (binary length) always suffices
   (Proofs/SimChainProofs.v, digits_value), so the out-of-fuel value [] never appears. *)
Fixpoint digits_fuel (fuel : nat) (n : N) : list N :=
  match fuel with
  | O => []
  | S f => if n <? 10 then [n] else digits_fuel f (n / 10) ++ [n mod 10]
  end.
Definition digits (n : N) : list N := digits_fuel (S (N.size_nat n)) n.
Definition key_of (n : N) : str := map (fun d => 48 + d) (digits n).

(* ------------------------------------------------------------------------------ *)
(* util.SortedKeyMap[T]: `keys` kept sorted ascending by the comparison [lt]
   (sort.Strings at the pinned commit = str_ltb; keyLess after the repair), `values` a map. *)

Section SKM.
  Variable V : Type.
  Variable lt : str -> str -> bool.

  Record skm := mkSkm { sk_keys : list str; sk_vals : list (str * V) }.
  Definition skm_empty : skm := mkSkm [] [].

  (* sort.Strings / sort.Slice on pairwise distinct keys == insertion sort *)
  Fixpoint insert (k : str) (l : list str) : list str :=
    match l with
    | [] => [k]
    | x :: t => if lt k x then k :: l else x :: insert k t
    end.
  Definition sort_keys (l : list str) : list str := fold_right insert [] l.

  Fixpoint lookup (k : str) (vals : list (str * V)) : option V :=
    match vals with
    | [] => None
    | (k', v) :: t => if str_eqb k k' then Some v else lookup k t
    end.

  Fixpoint update (k : str) (v : V) (vals : list (str * V)) : list (str * V) :=
    match vals with
    | [] => [(k, v)]
    | (k', v') :: t => if str_eqb k k' then (k, v) :: t else (k', v') :: update k v t
    end.

  Definition skm_set (m : skm) (k : str) (v : V) : skm :=
    let keys' := match lookup k (sk_vals m) with
                 | Some _ => sk_keys m
                 | None => sort_keys (sk_keys m ++ [k])
                 end in
    mkSkm keys' (update k v (sk_vals m)).

  Definition skm_get (m : skm) (k : str) : option V := lookup k (sk_vals m).

  (* Keys(count): the last `count` keys, highest first *)
  Definition skm_keys (m : skm) (count : nat) : list str := firstn count (rev (sk_keys m)).
End SKM.

Arguments mkSkm {V}. Arguments sk_keys {V}. Arguments sk_vals {V}. Arguments skm_empty {V}.
Arguments lookup {V}. Arguments update {V}. Arguments skm_set {V}. Arguments skm_get {V}.
Arguments skm_keys {V}.

(* ------------------------------------------------------------------------------ *)
(* BlockHistoryTracker: every received block is Set under Number.String(); the history
   broadcast after each block is the lookup of Keys(256). *)

Record block := mkBlock { b_num : N; b_hash : N }.      (* hash interned by the harness *)

Definition history_depth : nat := 256.                   (* defaultHistoryDepth *)

Definition tracker_recv (lt : str -> str -> bool) (m : skm block) (b : block) : skm block :=
  skm_set lt m (key_of (b_num b)) b.

Definition history_at (m : skm block) : list (N * N) :=
  map (fun k => match skm_get m k with
                | Some b => (b_num b, b_hash b)
                | None => (0, 0)      (* Get's zero value; unreachable: keys and values agree *)
                end) (skm_keys m history_depth).

Definition tracker_state (lt : str -> str -> bool) (arrival : list block) : skm block :=
  fold_left (tracker_recv lt) arrival skm_empty.

Definition history_of (lt : str -> str -> bool) (arrival : list block) : list (N * N) :=
  history_at (tracker_state lt arrival).

(* ------------------------------------------------------------------------------ *)
(* OCR3TransmitLoader: Transmit de-duplicates on the hash of gob(TransmitEvent{Report, Round})
   (an injective image of the pair); Load moves the queue into the block. *)

Record tx := mkTx { tx_from : N; tx_report : N; tx_round : N }.   (* sender / report interned *)
Definition tx_key (t : tx) : N * N := (tx_report t, tx_round t).
Definition key_eqb (a b : N * N) : bool := N.eqb (fst a) (fst b) && N.eqb (snd a) (snd b).
Definition key_mem (k : N * N) (l : list (N * N)) : bool := existsb (key_eqb k) l.

Record tl_state := mkTl { tl_queue : list tx; tl_done : list tx }.   (* queue; `transmitted` *)
Definition tl_init : tl_state := mkTl [] [].

Definition tl_transmit (s : tl_state) (t : tx) : tl_state * bool :=
  if key_mem (tx_key t) (map tx_key (tl_done s)) then (s, false)
  else (mkTl (tl_queue s ++ [t]) (tl_done s ++ [t]), true).

Definition tl_load (s : tl_state) : tl_state * list tx := (mkTl [] (tl_done s), tl_queue s).

Inductive tl_op := OTransmit (t : tx) | OLoad.

(* run: per-op results (accepted flags), the transmits put on chain by each Load, final state *)
Fixpoint tl_run (s : tl_state) (ops : list tl_op) : list bool * list (list tx) * tl_state :=
  match ops with
  | [] => ([], [], s)
  | OTransmit t :: r =>
      let '(s1, ok) := tl_transmit s t in
      let '(oks, loads, sf) := tl_run s1 r in (ok :: oks, loads, sf)
  | OLoad :: r =>
      let '(s1, l) := tl_load s in
      let '(oks, loads, sf) := tl_run s1 r in (oks, l :: loads, sf)
  end.

Definition tl_onchain (ops : list tl_op) : list tx :=
  let '(_, loads, sf) := tl_run tl_init ops in concat loads ++ tl_queue sf.
Definition tl_results (ops : list tl_op) : list tx :=
  let '(_, _, sf) := tl_run tl_init ops in tl_done sf.
Definition tl_accepted (ops : list tl_op) : list bool :=
  let '(oks, _, _) := tl_run tl_init ops in oks.

(* ------------------------------------------------------------------------------ *)
(* ReportTracker: a delivered block updates `latest`; a PerformUpkeepTransaction in it is Set
   under the block number; GetLatestEvents walks Keys(100) and emits one event per reported
   upkeep with Confirmations = latest - event block. *)

Definition report_range : nat := 100.                    (* ReportTrackerBlockRange *)

Record tev := mkTev { te_block : N;                       (* TransmitEvent.BlockNumber *)
                      te_hash : N;                        (* interned tx hash *)
                      te_results : list (N * N) }.        (* (upkeep id, check block) per result *)

Record delivery := mkDel { d_num : N; d_transmits : option (list tev) }.

Record rt_state := mkRt { rt_events : skm (list tev); rt_latest : option N }.
Definition rt_init : rt_state := mkRt skm_empty None.

Definition rt_deliver (lt : str -> str -> bool) (s : rt_state) (d : delivery) : rt_state :=
  mkRt (match d_transmits d with
        | Some ts => skm_set lt (rt_events s) (key_of (d_num d)) ts
        | None => rt_events s
        end) (Some (d_num d)).

(* observable projection of one ocr2keepers.TransmitEvent *)
Record pev := mkPev { pe_block : N; pe_conf : Z; pe_hash : N; pe_upkeep : N; pe_check : N }.

Definition events_of (latest : N) (t : tev) : list pev :=
  map (fun r => mkPev (te_block t) (Z.of_N latest - Z.of_N (te_block t)) (te_hash t) (fst r) (snd r))
      (te_results t).

Definition rt_latest_events (s : rt_state) : list pev :=
  match rt_latest s with
  | None => []
  | Some latest =>
      concat (map (fun k => match skm_get (rt_events s) k with
                            | Some ts => concat (map (events_of latest) ts)
                            | None => []
                            end) (skm_keys (rt_events s) report_range))
  end.

Definition rt_run (lt : str -> str -> bool) (ds : list delivery) : list pev :=
  rt_latest_events (fold_left (rt_deliver lt) ds rt_init).

(* ------------------------------------------------------------------------------ *)
(* Checker K (independent of the string-keyed model: works on numbers only). *)

Definition pairNN_eqb (a b : N * N) : bool := key_eqb a b.

Fixpoint strictly_desc (l : list N) : bool :=
  match l with
  | [] => true
  | x :: t => match t with [] => true | y :: _ => (y <? x) && strictly_desc t end
  end.

(* hash of the last received block with number n *)
Fixpoint last_hash (n : N) (arrival : list block) (acc : option N) : option N :=
  match arrival with
  | [] => acc
  | b :: t => last_hash n t (if N.eqb (b_num b) n then Some (b_hash b) else acc)
  end.

Fixpoint distinctN (l : list N) : list N :=
  match l with [] => [] | x :: t => if memN x t then distinctN t else x :: distinctN t end.

Definition C19_hist_check (arrival : list block) (obs : list (N * N)) : bool :=
  let nums := map b_num arrival in
  let onums := map fst obs in
  strictly_desc onums
  && forallb (fun e => match last_hash (fst e) arrival None with
                       | Some h => N.eqb h (snd e) | None => false end) obs
  && Nat.eqb (length obs) (Nat.min history_depth (length (distinctN nums)))
  && forallb (fun n => memN n onums || forallb (fun o => n <? o) onums) nums.

(* transmit waves: each wave is submitted concurrently, then one Load *)
Record tx_wave := mkWave { w_txs : list tx;
                           w_ok : list bool;          (* observed: Transmit returned nil *)
                           w_loaded : list tx }.      (* observed: transmits in the loaded block *)
Record tx_case := mkTxCase { tc_waves : list tx_wave;
                             tc_results : list tx }.  (* observed Results() *)

Definition tx_eqb (a b : tx) : bool :=
  N.eqb (tx_from a) (tx_from b) && N.eqb (tx_report a) (tx_report b) && N.eqb (tx_round a) (tx_round b).
Definition tx_mem (t : tx) (l : list tx) : bool := existsb (tx_eqb t) l.

Fixpoint accepted_of (txs : list tx) (oks : list bool) : list tx :=
  match txs, oks with
  | t :: r, true :: o => t :: accepted_of r o
  | _ :: r, false :: o => accepted_of r o
  | _, _ => []
  end.

Fixpoint nodup_keys (l : list (N * N)) : bool :=
  match l with [] => true | k :: t => negb (key_mem k t) && nodup_keys t end.

Definition count_key (k : N * N) (l : list tx) : nat :=
  length (filter (fun t => key_eqb k (tx_key t)) l).

(* one wave, given the keys recorded by earlier waves: every key not seen before is accepted
   exactly once, every key seen before never; the Load carries exactly the accepted ones *)
Definition wave_ok (seen : list (N * N)) (w : tx_wave) : bool :=
  let acc := accepted_of (w_txs w) (w_ok w) in
  Nat.eqb (length (w_ok w)) (length (w_txs w))
  && forallb (fun t => Nat.eqb (count_key (tx_key t) acc)
                               (if key_mem (tx_key t) seen then 0 else 1)%nat) (w_txs w)
  && Nat.eqb (length (w_loaded w)) (length acc)
  && forallb (fun t => tx_mem t (w_loaded w)) acc.

Fixpoint waves_ok (seen : list (N * N)) (ws : list tx_wave) : bool :=
  match ws with
  | [] => true
  | w :: r => wave_ok seen w && waves_ok (seen ++ map tx_key (w_txs w)) r
  end.

Definition C19_tx_check (c : tx_case) : bool :=
  let all := concat (map w_txs (tc_waves c)) in
  let onchain := concat (map w_loaded (tc_waves c)) in
  waves_ok [] (tc_waves c)
  && nodup_keys (map tx_key (tc_results c))
  && nodup_keys (map tx_key onchain)
  && forallb (fun t => key_mem (tx_key t) (map tx_key (tc_results c))) all
  && forallb (fun t => tx_mem t onchain) (tc_results c)
  && Nat.eqb (length onchain) (length (tc_results c)).

(* model answer for a wave case: sequential submission in the listed order *)
Fixpoint wave_ops (ws : list tx_wave) : list tl_op :=
  match ws with
  | [] => []
  | w :: r => map OTransmit (w_txs w) ++ OLoad :: wave_ops r
  end.

(* schedule-independent projection of a wave's outcome: the keys accepted (in order of first
   submission) and the number of acceptances *)
Fixpoint first_keys (l : list (N * N)) (seen : list (N * N)) : list (N * N) :=
  match l with
  | [] => []
  | k :: t => if key_mem k seen then first_keys t seen else k :: first_keys t (k :: seen)
  end.
Definition proj_wave (txs acc : list tx) : list (N * N) * nat :=
  (filter (fun k => key_mem k (map tx_key acc)) (first_keys (map tx_key txs) []), length acc).

Fixpoint model_waves (s : tl_state) (ws : list tx_wave) : list (list (N * N) * nat) * tl_state :=
  match ws with
  | [] => ([], s)
  | w :: r =>
      let '(oks, _, s1) := tl_run s (map OTransmit (w_txs w)) in
      let '(s2, loaded) := tl_load s1 in
      let '(rest, sf) := model_waves s2 r in
      (proj_wave (w_txs w) loaded :: rest, sf)
  end.

Definition tx_mism (c : tx_case) : bool :=
  let '(mw, sf) := model_waves tl_init (tc_waves c) in
  let ow := map (fun w => proj_wave (w_txs w) (w_loaded w)) (tc_waves c) in
  negb (list_eqb (fun a b => list_eqb key_eqb (fst a) (fst b) && Nat.eqb (snd a) (snd b)) mw ow
        && list_eqb key_eqb (first_keys (map tx_key (tl_done sf)) [])
                            (first_keys (map tx_key (concat (map w_txs (tc_waves c)))) [])
        && Nat.eqb (length (tl_done sf)) (length (tc_results c))).

(* report tracker: expected events computed on numbers *)
Fixpoint insert_desc (n : N) (l : list N) : list N :=
  match l with
  | [] => [n]
  | x :: t => if x <? n then n :: l else x :: insert_desc n t
  end.
Definition sort_desc (l : list N) : list N := fold_right insert_desc [] l.

Fixpoint last_transmits (n : N) (ds : list delivery) (acc : option (list tev)) : option (list tev) :=
  match ds with
  | [] => acc
  | d :: t => last_transmits n t
                (if N.eqb (d_num d) n then match d_transmits d with Some ts => Some ts | None => acc end
                 else acc)
  end.

Definition transmit_blocks (ds : list delivery) : list N :=
  distinctN (map d_num (filter (fun d => match d_transmits d with Some _ => true | None => false end) ds)).

Definition pev_eqb (a b : pev) : bool :=
  N.eqb (pe_block a) (pe_block b) && Z.eqb (pe_conf a) (pe_conf b) && N.eqb (pe_hash a) (pe_hash b)
  && N.eqb (pe_upkeep a) (pe_upkeep b) && N.eqb (pe_check a) (pe_check b).

Definition expected_events (ds : list delivery) : list pev :=
  match rev ds with
  | [] => []
  | dl :: _ =>
      let latest := d_num dl in
      concat (map (fun n => match last_transmits n ds None with
                            | Some ts => concat (map (events_of latest) ts)
                            | None => [] end)
                  (firstn report_range (sort_desc (transmit_blocks ds))))
  end.

Definition C19_conf_check (ds : list delivery) (obs : list pev) : bool :=
  list_eqb pev_eqb obs (expected_events ds)
  && match rev ds with
     | [] => true
     | dl :: _ => forallb (fun e => Z.eqb (pe_conf e) (Z.of_N (d_num dl) - Z.of_N (pe_block e))) obs
     end.

(* ------------------------------------------------------------------------------ *)
(* Case records written by the harness. *)

Record h_case := mkHCase { hc_arrival : list block;          (* blocks in the order the tracker got them *)
                           hc_obs : list (N * N) }.          (* last BlockHistory received: (number, hash) *)

Definition hc_mism (c : h_case) : bool :=
  negb (list_eqb pairNN_eqb (history_of keyless (hc_arrival c)) (hc_obs c)).
Definition hc_bad (c : h_case) : bool := negb (C19_hist_check (hc_arrival c) (hc_obs c)).
(* coverage: does the plain string order give a different history on this case (defect 9)? *)
Definition hc_string_order_differs (c : h_case) : bool :=
  negb (list_eqb pairNN_eqb (history_of str_ltb (hc_arrival c)) (history_of keyless (hc_arrival c))).
Definition hc_nontriv (c : h_case) : bool := Nat.ltb 1 (length (hc_obs c)).

Record c_case := mkCCase { cc_deliveries : list delivery; cc_obs : list pev }.
Definition cc_mism (c : c_case) : bool :=
  negb (list_eqb pev_eqb (rt_run keyless (cc_deliveries c)) (cc_obs c)).
Definition cc_bad (c : c_case) : bool := negb (C19_conf_check (cc_deliveries c) (cc_obs c)).
Definition cc_nontriv (c : c_case) : bool := Nat.ltb 0 (length (cc_obs c)).

Definition tc_bad (c : tx_case) : bool := negb (C19_tx_check c).
Definition tc_nontriv (c : tx_case) : bool :=
  Nat.ltb (length (tc_results c)) (length (concat (map w_txs (tc_waves c)))).
