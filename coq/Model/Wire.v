(* Byte-level model of the observation / outcome wire format (pkg/v3/observation.go Encode /
   DecodeAutomationObservation, pkg/v3/outcome.go Encode / DecodeAutomationOutcome):
   the JSON text that goccy/go-json (outer structs, proposals, block keys) and encoding/json
   (CheckResult.MarshalJSON through checkResultMsg) emit for exactly this schema, and a parser
   for that text.  Characters and bytes are N.  Here ids, hashes and work ids are real byte
   lists; Go's nil-vs-empty distinction for slices is kept (option (list _): None = nil slice,
   printed `null`; Some [] = empty slice, printed `[]` or `""`), because the codec keeps it.
   No proofs in this file. *)
From Verif Require Export Base.Util Model.Types Model.Validate.
From Coq Require Import String Ascii Decimal DecimalN DecimalZ.
Open Scope N_scope.

(* ---------------------------------------------------------------- wire-level values *)
Record wext := mkWExt {
  we_txhash : list N; we_index : N; we_blockhash : list N; we_blocknum : N }.
Record wtrig := mkWTrig {
  wt_num : N; wt_hash : list N; wt_ext : option wext }.
Record wres := mkWRes {
  wr_state : N; wr_retryable : bool; wr_eligible : bool; wr_reason : N;
  wr_upk : list N; wr_trig : wtrig;
  wr_wid : list N;                  (* bytes of the Go string *)
  wr_gas : N;
  wr_pdata : option (list N);       (* None = nil []byte *)
  wr_fgw : option Z; wr_ln : option Z }.
Record wprop := mkWProp { wp_upk : list N; wp_trig : wtrig; wp_wid : list N }.
Record wbk := mkWBK { wb_num : N; wb_hash : list N }.
Record wobs := mkWObs {
  wo_perf : option (list wres); wo_props : option (list wprop); wo_hist : option (list wbk) }.
Record wout := mkWOut {
  wc_agreed : option (list wres); wc_surfaced : option (list (option (list wprop))) }.

(* ---------------------------------------------------------------- text helpers *)
Fixpoint s2l (s : string) : list N :=
  match s with EmptyString => [] | String a r => N_of_ascii a :: s2l r end.

Definition null : list N := s2l "null".

(* ---------------------------------------------------------------- printer *)
Fixpoint pr_uint (u : uint) : list N :=
  match u with
  | Nil => []
  | D0 u => 48 :: pr_uint u | D1 u => 49 :: pr_uint u | D2 u => 50 :: pr_uint u
  | D3 u => 51 :: pr_uint u | D4 u => 52 :: pr_uint u | D5 u => 53 :: pr_uint u
  | D6 u => 54 :: pr_uint u | D7 u => 55 :: pr_uint u | D8 u => 56 :: pr_uint u
  | D9 u => 57 :: pr_uint u
  end.

(* decimal, no leading zeros, "0" for zero (strconv.AppendUint / big.Int.String) *)
Definition pr_N (n : N) : list N := pr_uint (N.to_uint n).
Definition pr_Z (z : Z) : list N :=
  match Z.to_int z with Pos u => pr_uint u | Neg u => 45 :: pr_uint u end.

Definition pr_bool (b : bool) : list N := if b then s2l "true" else s2l "false".

Definition pr_opt {A} (f : A -> list N) (o : option A) : list N :=
  match o with None => null | Some x => f x end.

Fixpoint sep {A} (f : A -> list N) (l : list A) : list N :=
  match l with
  | [] => []
  | x :: t => match t with [] => f x | _ => f x ++ 44 :: sep f t end
  end.
Definition pr_list {A} (f : A -> list N) (l : list A) : list N := 91 :: sep f l ++ [93].

(* [32]byte (any Go byte array): array of numbers *)
Definition pr_arr (l : list N) : list N := pr_list pr_N l.

Definition hexd (n : N) : N := if n <? 10 then 48 + n else 87 + n.
Definition esc_u (c : N) : list N := [92; 117; 48; 48; hexd (c / 16); hexd (c mod 16)].

(* encoding/json (Go >= 1.22) string escaping with HTML escaping on, for bytes < 128 *)
Definition esc_std (c : N) : list N :=
  if c =? 34 then [92; 34] else if c =? 92 then [92; 92]
  else if c =? 10 then [92; 110] else if c =? 13 then [92; 114] else if c =? 9 then [92; 116]
  else if c =? 8 then [92; 98] else if c =? 12 then [92; 102]
  else if (c <? 32) || (c =? 60) || (c =? 62) || (c =? 38) then esc_u c
  else [c].

(* goccy/go-json v0.10.2 string escaping with HTML escaping on, for bytes < 128 *)
Definition esc_goccy (c : N) : list N :=
  if c =? 34 then [92; 34] else if c =? 92 then [92; 92]
  else if c =? 10 then [92; 110] else if c =? 13 then [92; 114] else if c =? 9 then [92; 116]
  else if (c <? 32) || (c =? 60) || (c =? 62) || (c =? 38) then esc_u c
  else [c].

Definition pr_str (esc : N -> list N) (l : list N) : list N := 34 :: flat_map esc l ++ [34].

(* base64.StdEncoding *)
Definition b64c (n : N) : N :=
  if n <? 26 then 65 + n else if n <? 52 then 71 + n else if n <? 62 then n - 4
  else if n =? 62 then 43 else 47.

Fixpoint b64enc (l : list N) : list N :=
  match l with
  | [] => []
  | a :: t =>
    match t with
    | [] => [b64c (a / 4); b64c ((a mod 4) * 16); 61; 61]
    | b :: t2 =>
      match t2 with
      | [] => [b64c (a / 4); b64c ((a mod 4) * 16 + b / 16); b64c ((b mod 16) * 4); 61]
      | c :: t3 =>
          b64c (a / 4) :: b64c ((a mod 4) * 16 + b / 16) :: b64c ((b mod 16) * 4 + c / 64)
          :: b64c (c mod 64) :: b64enc t3
      end
    end
  end.

(* []byte: base64 string, nil -> null *)
Definition pr_bytes (o : option (list N)) : list N :=
  match o with None => null | Some l => 34 :: b64enc l ++ [34] end.

Definition pr_ext (e : wext) : list N :=
  s2l "{""TxHash"":" ++ pr_arr (we_txhash e) ++
  s2l ",""Index"":" ++ pr_N (we_index e) ++
  s2l ",""BlockHash"":" ++ pr_arr (we_blockhash e) ++
  s2l ",""BlockNumber"":" ++ pr_N (we_blocknum e) ++ s2l "}".

Definition pr_trig (t : wtrig) : list N :=
  s2l "{""BlockNumber"":" ++ pr_N (wt_num t) ++
  s2l ",""BlockHash"":" ++ pr_arr (wt_hash t) ++
  s2l ",""LogTriggerExtension"":" ++ pr_opt pr_ext (wt_ext t) ++ s2l "}".

(* checkResultMsg through encoding/json *)
Definition pr_res (r : wres) : list N :=
  s2l "{""PipelineExecutionState"":" ++ pr_N (wr_state r) ++
  s2l ",""Retryable"":" ++ pr_bool (wr_retryable r) ++
  s2l ",""Eligible"":" ++ pr_bool (wr_eligible r) ++
  s2l ",""IneligibilityReason"":" ++ pr_N (wr_reason r) ++
  s2l ",""UpkeepID"":" ++ pr_arr (wr_upk r) ++
  s2l ",""Trigger"":" ++ pr_trig (wr_trig r) ++
  s2l ",""WorkID"":" ++ pr_str esc_std (wr_wid r) ++
  s2l ",""GasAllocated"":" ++ pr_N (wr_gas r) ++
  s2l ",""PerformData"":" ++ pr_bytes (wr_pdata r) ++
  s2l ",""FastGasWei"":" ++ pr_opt pr_Z (wr_fgw r) ++
  s2l ",""LinkNative"":" ++ pr_opt pr_Z (wr_ln r) ++ s2l "}".

(* CoordinatedBlockProposal through goccy *)
Definition pr_prop (p : wprop) : list N :=
  s2l "{""UpkeepID"":" ++ pr_arr (wp_upk p) ++
  s2l ",""Trigger"":" ++ pr_trig (wp_trig p) ++
  s2l ",""WorkID"":" ++ pr_str esc_goccy (wp_wid p) ++ s2l "}".

Definition pr_bk (b : wbk) : list N :=
  s2l "{""Number"":" ++ pr_N (wb_num b) ++ s2l ",""Hash"":" ++ pr_arr (wb_hash b) ++ s2l "}".

Definition enc_obs (o : wobs) : list N :=
  s2l "{""Performable"":" ++ pr_opt (pr_list pr_res) (wo_perf o) ++
  s2l ",""UpkeepProposals"":" ++ pr_opt (pr_list pr_prop) (wo_props o) ++
  s2l ",""BlockHistory"":" ++ pr_opt (pr_list pr_bk) (wo_hist o) ++ s2l "}".

Definition enc_outcome (o : wout) : list N :=
  s2l "{""AgreedPerformables"":" ++ pr_opt (pr_list pr_res) (wc_agreed o) ++
  s2l ",""SurfacedProposals"":" ++ pr_opt (pr_list (pr_opt (pr_list pr_prop))) (wc_surfaced o) ++ s2l "}".

(* ---------------------------------------------------------------- parser *)
Definition parser (A : Type) := list N -> option (A * list N).

Definition bind {A B} (p : parser A) (f : A -> parser B) : parser B :=
  fun s => match p s with Some (a, r) => f a r | None => None end.
Definition ret {A} (a : A) : parser A := fun s => Some (a, s).

Fixpoint strip (l s : list N) : option (list N) :=
  match l with
  | [] => Some s
  | c :: l' => match s with d :: s' => if c =? d then strip l' s' else None | [] => None end
  end.
Definition lit (l : list N) : parser unit :=
  fun s => match strip l s with Some r => Some (tt, r) | None => None end.

Local Notation "x <~ p ;; q" := (bind p (fun x => q)) (at level 61, p at next level, right associativity).
Local Notation "p ;;; q" := (bind p (fun _ => q)) (at level 61, right associativity).

Definition is_digit (c : N) : bool := (48 <=? c) && (c <=? 57).

Definition dcons (c : N) (u : uint) : uint :=
  if c =? 48 then D0 u else if c =? 49 then D1 u else if c =? 50 then D2 u
  else if c =? 51 then D3 u else if c =? 52 then D4 u else if c =? 53 then D5 u
  else if c =? 54 then D6 u else if c =? 55 then D7 u else if c =? 56 then D8 u else D9 u.

(* greedy digit run *)
Fixpoint ps_uint (s : list N) : uint * list N :=
  match s with
  | [] => (Nil, [])
  | c :: t => if is_digit c then let (u, r) := ps_uint t in (dcons c u, r) else (Nil, s)
  end.

Definition ps_N : parser N :=
  fun s => match ps_uint s with (Nil, _) => None | (u, r) => Some (N.of_uint u, r) end.

Definition ps_Z : parser Z :=
  fun s => match s with
           | [] => None
           | c :: t =>
               if c =? 45
               then match ps_uint t with (Nil, _) => None | (u, r) => Some (Z.of_int (Neg u), r) end
               else match ps_uint s with (Nil, _) => None | (u, r) => Some (Z.of_int (Pos u), r) end
           end.

Definition ps_bool : parser bool :=
  fun s => match strip (s2l "true") s with
           | Some r => Some (true, r)
           | None => match strip (s2l "false") s with Some r => Some (false, r) | None => None end
           end.

Definition ps_opt {A} (p : parser A) : parser (option A) :=
  fun s => match strip null s with
           | Some r => Some (None, r)
           | None => match p s with Some (x, r) => Some (Some x, r) | None => None end
           end.

(* elements separated by ',' up to the closing ']' ; fuel = an upper bound on their number *)
Fixpoint ps_elems {A} (p : parser A) (fuel : nat) (s : list N) : option (list A * list N) :=
  match fuel with
  | O => None
  | S k =>
    match p s with
    | Some (x, c :: r) =>
        if c =? 44 then match ps_elems p k r with Some (xs, r') => Some (x :: xs, r') | None => None end
        else if c =? 93 then Some ([x], r) else None
    | _ => None
    end
  end.

Definition ps_list {A} (p : parser A) : parser (list A) :=
  fun s => match s with
           | c :: r =>
               if c =? 91
               then match r with
                    | d :: r2 => if d =? 93 then Some ([], r2) else ps_elems p (List.length r) r
                    | [] => None
                    end
               else None
           | [] => None
           end.

Definition ps_arr : parser (list N) := ps_list ps_N.

Definition hexv (c : N) : option N :=
  if is_digit c then Some (c - 48)
  else if (97 <=? c) && (c <=? 102) then Some (c - 87)
  else if (65 <=? c) && (c <=? 70) then Some (c - 55) else None.

Definition unesc (e : N) : option N :=
  if e =? 34 then Some 34 else if e =? 92 then Some 92 else if e =? 47 then Some 47
  else if e =? 98 then Some 8 else if e =? 102 then Some 12 else if e =? 110 then Some 10
  else if e =? 114 then Some 13 else if e =? 116 then Some 9 else None.

Definition consr {A} (x : A) (o : option (list A * list N)) : option (list A * list N) :=
  match o with Some (l, r) => Some (x :: l, r) | None => None end.

(* string body after the opening quote, up to and including the closing quote (ASCII only) *)
Fixpoint ps_chars (s : list N) : option (list N * list N) :=
  match s with
  | [] => None
  | c :: r =>
    if c =? 34 then Some ([], r)
    else if c =? 92 then
      match r with
      | [] => None
      | e :: r2 =>
        if e =? 117 then
          match r2 with
          | a :: b :: c2 :: d :: r3 =>
            match hexv a, hexv b, hexv c2, hexv d with
            | Some x1, Some x2, Some x3, Some x4 =>
                let v := ((x1 * 16 + x2) * 16 + x3) * 16 + x4 in
                if v <? 128 then consr v (ps_chars r3) else None
            | _, _, _, _ => None
            end
          | _ => None
          end
        else match unesc e with Some v => consr v (ps_chars r2) | None => None end
      end
    else if (c <? 32) || (127 <? c) then None
    else consr c (ps_chars r)
  end.

Definition ps_str : parser (list N) :=
  fun s => match s with c :: r => if c =? 34 then ps_chars r else None | [] => None end.

Definition b64d (c : N) : option N :=
  if (65 <=? c) && (c <=? 90) then Some (c - 65)
  else if (97 <=? c) && (c <=? 122) then Some (c - 71)
  else if is_digit c then Some (c + 4)
  else if c =? 43 then Some 62 else if c =? 47 then Some 63 else None.

Fixpoint b64dec (s : list N) : option (list N) :=
  match s with
  | [] => Some []
  | a :: b :: c :: d :: t =>
    match b64d a, b64d b with
    | Some x, Some y =>
      if c =? 61 then
        (if d =? 61 then match t with [] => Some [x * 4 + y / 16] | _ => None end else None)
      else match b64d c with
           | Some z =>
             if d =? 61 then
               match t with [] => Some [x * 4 + y / 16; (y mod 16) * 16 + z / 4] | _ => None end
             else match b64d d with
                  | Some w =>
                    match b64dec t with
                    | Some l => Some ((x * 4 + y / 16) :: ((y mod 16) * 16 + z / 4) :: ((z mod 4) * 64 + w) :: l)
                    | None => None
                    end
                  | None => None
                  end
           | None => None
           end
    | _, _ => None
    end
  | _ => None
  end.

(* everything up to the next quote *)
Fixpoint span_quote (s : list N) : option (list N * list N) :=
  match s with
  | [] => None
  | c :: r => if c =? 34 then Some ([], r) else consr c (span_quote r)
  end.

Definition ps_bytes : parser (option (list N)) :=
  fun s => match strip null s with
           | Some r => Some (None, r)
           | None =>
             match s with
             | c :: r =>
               if c =? 34 then
                 match span_quote r with
                 | Some (b, r') => match b64dec b with Some l => Some (Some l, r') | None => None end
                 | None => None
                 end
               else None
             | [] => None
             end
           end.

Definition ps_ext : parser wext :=
  lit (s2l "{""TxHash"":") ;;; tx <~ ps_arr ;;
  lit (s2l ",""Index"":") ;;; ix <~ ps_N ;;
  lit (s2l ",""BlockHash"":") ;;; bh <~ ps_arr ;;
  lit (s2l ",""BlockNumber"":") ;;; bn <~ ps_N ;;
  lit (s2l "}") ;;; ret (mkWExt tx ix bh bn).

Definition ps_trig : parser wtrig :=
  lit (s2l "{""BlockNumber"":") ;;; n <~ ps_N ;;
  lit (s2l ",""BlockHash"":") ;;; h <~ ps_arr ;;
  lit (s2l ",""LogTriggerExtension"":") ;;; e <~ ps_opt ps_ext ;;
  lit (s2l "}") ;;; ret (mkWTrig n h e).

Definition ps_res : parser wres :=
  lit (s2l "{""PipelineExecutionState"":") ;;; st <~ ps_N ;;
  lit (s2l ",""Retryable"":") ;;; rt <~ ps_bool ;;
  lit (s2l ",""Eligible"":") ;;; el <~ ps_bool ;;
  lit (s2l ",""IneligibilityReason"":") ;;; rs <~ ps_N ;;
  lit (s2l ",""UpkeepID"":") ;;; u <~ ps_arr ;;
  lit (s2l ",""Trigger"":") ;;; t <~ ps_trig ;;
  lit (s2l ",""WorkID"":") ;;; w <~ ps_str ;;
  lit (s2l ",""GasAllocated"":") ;;; g <~ ps_N ;;
  lit (s2l ",""PerformData"":") ;;; pd <~ ps_bytes ;;
  lit (s2l ",""FastGasWei"":") ;;; fg <~ ps_opt ps_Z ;;
  lit (s2l ",""LinkNative"":") ;;; ln <~ ps_opt ps_Z ;;
  lit (s2l "}") ;;; ret (mkWRes st rt el rs u t w g pd fg ln).

Definition ps_prop : parser wprop :=
  lit (s2l "{""UpkeepID"":") ;;; u <~ ps_arr ;;
  lit (s2l ",""Trigger"":") ;;; t <~ ps_trig ;;
  lit (s2l ",""WorkID"":") ;;; w <~ ps_str ;;
  lit (s2l "}") ;;; ret (mkWProp u t w).

Definition ps_bk : parser wbk :=
  lit (s2l "{""Number"":") ;;; n <~ ps_N ;;
  lit (s2l ",""Hash"":") ;;; h <~ ps_arr ;;
  lit (s2l "}") ;;; ret (mkWBK n h).

Definition ps_obs : parser wobs :=
  lit (s2l "{""Performable"":") ;;; pf <~ ps_opt (ps_list ps_res) ;;
  lit (s2l ",""UpkeepProposals"":") ;;; pp <~ ps_opt (ps_list ps_prop) ;;
  lit (s2l ",""BlockHistory"":") ;;; bh <~ ps_opt (ps_list ps_bk) ;;
  lit (s2l "}") ;;; ret (mkWObs pf pp bh).

Definition ps_outcome : parser wout :=
  lit (s2l "{""AgreedPerformables"":") ;;; ag <~ ps_opt (ps_list ps_res) ;;
  lit (s2l ",""SurfacedProposals"":") ;;; sp <~ ps_opt (ps_list (ps_opt (ps_list ps_prop))) ;;
  lit (s2l "}") ;;; ret (mkWOut ag sp).

Definition whole {A} (p : parser A) (s : list N) : option A :=
  match p s with Some (x, []) => Some x | _ => None end.

Definition dec_obs : list N -> option wobs := whole ps_obs.
Definition dec_outcome : list N -> option wout := whole ps_outcome.

(* ---------------------------------------------------------------- well-formed wire values *)
(* what the round trip needs: perform data are bytes, work ids are ASCII (Go strings with
   bytes >= 128 are out of the model: the codecs treat them as UTF-8 and replace invalid
   sequences, which is lossy) *)
Definition bytes_ok (l : list N) : Prop := Forall (fun b => b < 256) l.
Definition ascii_ok (l : list N) : Prop := Forall (fun b => b < 128) l.
Definition wf_res (r : wres) : Prop :=
  ascii_ok (wr_wid r) /\ match wr_pdata r with Some l => bytes_ok l | None => True end.
Definition wf_prop (p : wprop) : Prop := ascii_ok (wp_wid p).
Definition wf_olist {A} (P : A -> Prop) (o : option (list A)) : Prop :=
  match o with Some l => Forall P l | None => True end.
Definition wf_obs (o : wobs) : Prop := wf_olist wf_res (wo_perf o) /\ wf_olist wf_prop (wo_props o).
Definition wf_outcome (o : wout) : Prop :=
  wf_olist wf_res (wc_agreed o) /\ wf_olist (wf_olist wf_prop) (wc_surfaced o).

(* boolean versions for case evaluation *)
Definition bytes_okb (l : list N) : bool := forallb (fun b => b <? 256) l.
Definition ascii_okb (l : list N) : bool := forallb (fun b => b <? 128) l.

(* ---------------------------------------------------------------- abstraction to Model/Types *)
(* [iota] interns byte lists (upkeep ids, hashes, work ids) to N; the theorems ask it to be
   injective, the harness supplies a table. nil and empty slices are identified here. *)
Definition olist {A} (o : option (list A)) : list A := match o with Some l => l | None => [] end.

Section Abs.
  Variable iota : list N -> N.
  Definition abs_ext (e : wext) : logext :=
    mkExt (iota (we_txhash e)) (we_index e) (iota (we_blockhash e)) (we_blocknum e).
  Definition abs_trig (t : wtrig) : trigger :=
    mkTrig (wt_num t) (iota (wt_hash t)) (option_map abs_ext (wt_ext t)).
  Definition abs_res (r : wres) : result :=
    mkRes (wr_state r) (wr_retryable r) (wr_eligible r) (wr_reason r) (iota (wr_upk r))
          (abs_trig (wr_trig r)) (iota (wr_wid r)) (wr_gas r) (olist (wr_pdata r)) (wr_fgw r) (wr_ln r).
  Definition abs_prop (p : wprop) : proposal :=
    mkProp (iota (wp_upk p)) (abs_trig (wp_trig p)) (iota (wp_wid p)).
  Definition abs_bk (b : wbk) : blockkey := mkBK (wb_num b) (iota (wb_hash b)).
  Definition abs_obs (o : wobs) : observation :=
    mkObs (map abs_res (olist (wo_perf o))) (map abs_prop (olist (wo_props o))) (map abs_bk (olist (wo_hist o))).
  Definition abs_outcome (o : wout) : outcome :=
    mkOut (map abs_res (olist (wc_agreed o)))
          (map (fun rd => map abs_prop (olist rd)) (olist (wc_surfaced o))).
End Abs.

(* ---------------------------------------------------------------- the whole decode *)
Inductive dres (A : Type) := D_syntax | D_invalid (e : verr) | D_ok (x : A).
Arguments D_syntax {A}. Arguments D_invalid {A} e. Arguments D_ok {A} x.

Definition decode_obs (iota : list N -> N) (utg : N -> N) (wg : N -> trigger -> N) (s : list N) : dres wobs :=
  match dec_obs s with
  | None => D_syntax
  | Some w => match obs_err utg wg (abs_obs iota w) with ok => D_ok w | e => D_invalid e end
  end.

Definition decode_outcome (iota : list N -> N) (utg : N -> N) (wg : N -> trigger -> N) (s : list N) : dres wout :=
  match dec_outcome s with
  | None => D_syntax
  | Some w => match outcome_err utg wg (abs_outcome iota w) with ok => D_ok w | e => D_invalid e end
  end.

(* interning table given by the harness; byte lists not in the table map to 0 *)
Definition intern (tab : list (list N * N)) (k : list N) : N :=
  match find (fun kv => list_eqb N.eqb (fst kv) k) tab with Some kv => snd kv | None => 0 end.

(* ---------------------------------------------------------------- equality on wire values *)
Definition lN_eqb := list_eqb N.eqb.
Definition wext_eqb (a b : wext) : bool :=
  lN_eqb (we_txhash a) (we_txhash b) && (we_index a =? we_index b)
  && lN_eqb (we_blockhash a) (we_blockhash b) && (we_blocknum a =? we_blocknum b).
Definition wtrig_eqb (a b : wtrig) : bool :=
  (wt_num a =? wt_num b) && lN_eqb (wt_hash a) (wt_hash b) && opt_eqb wext_eqb (wt_ext a) (wt_ext b).
Definition wres_eqb (a b : wres) : bool :=
  (wr_state a =? wr_state b) && Bool.eqb (wr_retryable a) (wr_retryable b)
  && Bool.eqb (wr_eligible a) (wr_eligible b) && (wr_reason a =? wr_reason b)
  && lN_eqb (wr_upk a) (wr_upk b) && wtrig_eqb (wr_trig a) (wr_trig b)
  && lN_eqb (wr_wid a) (wr_wid b) && (wr_gas a =? wr_gas b)
  && opt_eqb lN_eqb (wr_pdata a) (wr_pdata b)
  && opt_eqb Z.eqb (wr_fgw a) (wr_fgw b) && opt_eqb Z.eqb (wr_ln a) (wr_ln b).
Definition wprop_eqb (a b : wprop) : bool :=
  lN_eqb (wp_upk a) (wp_upk b) && wtrig_eqb (wp_trig a) (wp_trig b) && lN_eqb (wp_wid a) (wp_wid b).
Definition wbk_eqb (a b : wbk) : bool := (wb_num a =? wb_num b) && lN_eqb (wb_hash a) (wb_hash b).
Definition wobs_eqb (a b : wobs) : bool :=
  opt_eqb (list_eqb wres_eqb) (wo_perf a) (wo_perf b)
  && opt_eqb (list_eqb wprop_eqb) (wo_props a) (wo_props b)
  && opt_eqb (list_eqb wbk_eqb) (wo_hist a) (wo_hist b).
Definition wout_eqb (a b : wout) : bool :=
  opt_eqb (list_eqb wres_eqb) (wc_agreed a) (wc_agreed b)
  && opt_eqb (list_eqb (opt_eqb (list_eqb wprop_eqb))) (wc_surfaced a) (wc_surfaced b).

(* ---------------------------------------------------------------- case records (byte level) *)
(* [bytes]: what the real Encode() produced for the value; [code]/[same]: the real Decode's
   answer on those bytes (as in Model/Validate.v); [ids]: interning of every byte list in the
   value, so that the validation model can run on its abstraction. *)
Record wo_case := mkWO { wo_val : wobs; wo_bytes : list N; wo_ids : list (list N * N);
                         wo_utg : list (N * N); wo_wg : list (wg_key * N); wo_code : N; wo_same : bool }.
Record wc_case := mkWC { wc_val : wout; wc_bytes : list N; wc_ids : list (list N * N);
                         wc_utg : list (N * N); wc_wg : list (wg_key * N); wc_code : N; wc_same : bool }.

Definition dres_matches {A} (eqb : A -> A -> bool) (d : dres A) (v : A) (code : N) : bool :=
  match d with
  | D_syntax => code =? 99
  | D_invalid e => verr_code e =? code
  | D_ok w => (code =? 0) && eqb w v
  end.

(* model vs implementation: the printer gives the implementation's bytes, the parser reads them
   back to the value, and the whole decode model gives the implementation's verdict *)
Definition wo_mism (k : wo_case) : bool :=
  negb (lN_eqb (enc_obs (wo_val k)) (wo_bytes k)
        && opt_eqb wobs_eqb (dec_obs (wo_bytes k)) (Some (wo_val k))
        && dres_matches wobs_eqb
             (decode_obs (intern (wo_ids k)) (utg_of (wo_utg k)) (wg_of (wo_wg k)) (wo_bytes k))
             (wo_val k) (wo_code k)).
Definition wo_bad (k : wo_case) : bool :=
  negb (C15_check_obs (utg_of (wo_utg k)) (wg_of (wo_wg k)) (abs_obs (intern (wo_ids k)) (wo_val k))
          (wo_code k =? 0) (wo_same k)).
Definition wc_mism (k : wc_case) : bool :=
  negb (lN_eqb (enc_outcome (wc_val k)) (wc_bytes k)
        && opt_eqb wout_eqb (dec_outcome (wc_bytes k)) (Some (wc_val k))
        && dres_matches wout_eqb
             (decode_outcome (intern (wc_ids k)) (utg_of (wc_utg k)) (wg_of (wc_wg k)) (wc_bytes k))
             (wc_val k) (wc_code k)).
Definition wc_bad (k : wc_case) : bool :=
  negb (C15_check_outcome (utg_of (wc_utg k)) (wg_of (wc_wg k)) (abs_outcome (intern (wc_ids k)) (wc_val k))
          (wc_code k =? 0) (wc_same k)).
