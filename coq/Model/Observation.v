(* Model of ocr3Plugin.Observation's build hooks (pkg/v3/plugin/ocr3.go, hooks/add_block_history.go,
   add_log_proposals.go, add_conditional_proposals.go, add_from_staging.go).  No proofs here.

   A staged result is represented by its interned work id, the rank of its shuffled work id in
   the round's order (oracle, tabulated from the real ShuffleString with key (digest, seq/10)) and
   the byte length of its JSON encoding (measured on the real encoder by the harness).          *)
From Verif Require Export Base.Util Model.Outcome Gen.Generated.
Open Scope N_scope.

Record sres := mkSRes { s_wid : N; s_shuf : N; s_size : Z }.

(* ---- addByPercentageExceeded ----
   size of the encoded observation holding the first k results: the base encoding has
   "Performable":null (4 bytes); with k >= 1 results it is '[' r1 ',' ... ',' rk ']'. *)
Definition sum_sizes (l : list sres) : Z := fold_right (fun r a => (s_size r + a)%Z) 0%Z l.

Definition obs_size (base : Z) (l : list sres) (k : nat) : Z :=
  match k with
  | O => base
  | S _ => (base - 4 + 2 + sum_sizes (firstn k l) + Z.of_nat (k - 1))%Z
  end.

(* result: (number of performables left in the observation, whether the recursion ended in the
   `limit <= 0` branch that leaves an over-sized list in place) *)
(* limit -= avgPerformablesExceeded + 1 *)
Definition next_limit (size base maxlen limit : Z) : Z :=
  let perf := (size - base)%Z in
  let avg := (perf / limit)%Z in
  let exceeded := (size - maxlen)%Z in
  let drop := if (avg =? 0)%Z then 0%Z else ((exceeded + avg - 1) / avg)%Z in  (* ceil, operands < 2^53 *)
  (limit - (drop + 1))%Z.
Arguments next_limit : simpl never.

Fixpoint trim (fuel : nat) (maxlen base : Z) (l : list sres) (limit : Z) (cur : nat) : nat * bool :=
  match fuel with
  | O => (cur, true)
  | S fuel' =>
      let limit := if (Z.of_nat (length l) <? limit)%Z then Z.of_nat (length l) else limit in
      if (limit <=? 0)%Z then (cur, false)
      else
        let k := Z.to_nat limit in
        let size := obs_size base l k in
        if (maxlen <? size)%Z then
          let limit' := next_limit size base maxlen limit in
          if (limit' <=? 0)%Z then (k, true) else trim fuel' maxlen base l limit' k
        else (k, false)
  end.

Definition add_from_staging (maxlen base : Z) (limit : Z) (blocked : list N) (staged : list sres) : list sres * bool :=
  let cands := sort_by s_shuf (filter (fun r => negb (memN (s_wid r) blocked)) staged) in
  let '(k, over) := trim (S (length cands)) maxlen base cands limit 0 in
  (firstn k cands, over).

(* ---- proposals: view -> coordinator filter -> keyed shuffle -> first `limit` ---- *)
(* the keyed Fisher-Yates shuffle depends on (key, length) only: the harness tabulates it as the
   list of source positions *)
Definition apply_perm {A} (perm : list nat) (l : list A) : list A :=
  flat_map (fun i => match nth_error l i with Some x => [x] | None => [] end) perm.

Definition add_proposals (limit : nat) (blocked : list N) (perm : list nat) (view : list (N * N)) : list (N * N) :=
  firstn limit (apply_perm perm (filter (fun p => negb (memN (fst p) blocked)) view)).

(* ---- block history ---- *)
Definition add_history {A} (limit : nat) (view : list A) : list A := firstn limit view.

(* ------------------------------------------------------------------------------------ *)
(* Case record and checker K for C08 (and the observation clauses of C03). *)
Record b_case := mkBCase {
  b_base    : Z;                   (* len(encoding) before performables are added *)
  b_staged  : list sres;           (* what the staging store's View returned (any order) *)
  b_blocked : list N;              (* work ids the coordinator filters (in flight / performed) *)
  b_logv    : list (N * N);        (* ViewProposals(log): (work id, tag) in view order *)
  b_logperm : list nat;            (* keyed shuffle for len(filtered log view) *)
  b_condv   : list (N * N);
  b_condperm : list nat;
  b_histlen : nat;                 (* length of the node's block-history view *)
  (* observed *)
  b_perf    : list N;              (* work ids of the observation's performables, in order *)
  b_props   : list (N * N);        (* proposals, log first then conditional *)
  b_hist    : nat;                 (* number of block keys sent; the harness checks they are the leading ones *)
  b_histok  : bool;
  b_len     : Z;                   (* len(observation bytes) *)
  b_peer_ok : bool;                (* a second instance's ValidateObservation accepted the bytes *)
  b_twin_ok : bool                 (* a second instance holding the same candidates inserted in another order sent the same performables *)
}.

Definition lim_perf : Z := ObservationPerformablesLimit.
Definition lim_logp : nat := Z.to_nat ObservationLogRecoveryProposalsLimit.
Definition lim_condp : nat := Z.to_nat ObservationConditionalsProposalsLimit.
Definition lim_hist : nat := Z.to_nat ObservationBlockHistoryLimit.

Definition model_perf (k : b_case) : list N * bool :=
  let '(l, over) := add_from_staging MaxObservationLength (b_base k) lim_perf (b_blocked k) (b_staged k) in
  (map s_wid l, over).
Definition model_props (k : b_case) : list (N * N) :=
  add_proposals lim_logp (b_blocked k) (b_logperm k) (b_logv k)
  ++ add_proposals lim_condp (b_blocked k) (b_condperm k) (b_condv k).

Definition pair_eqb (a b : N * N) : bool := (fst a =? fst b) &&& (snd a =? snd b).

Definition b_mism (k : b_case) : bool :=
  negb (list_eqb N.eqb (fst (model_perf k)) (b_perf k)
        &&& list_eqb pair_eqb (model_props k) (b_props k)
        &&& Nat.eqb (b_hist k) (Nat.min lim_hist (b_histlen k))).

(* K for C08: decided on the observed observation only *)
Fixpoint is_prefixN (a b : list N) : bool :=
  match a, b with
  | [], _ => true
  | x :: a', y :: b' => (x =? y) &&& is_prefixN a' b'
  | _, [] => false
  end.

Fixpoint sublistb (a b : list (N * N)) : bool :=   (* a is a sub-multiset of b: every element of a occurs in b *)
  match a with
  | [] => true
  | x :: a' => existsb (pair_eqb x) b &&& sublistb a' b
  end.

Definition canonical (k : b_case) : list sres :=
  sort_by s_shuf (filter (fun r => negb (memN (s_wid r) (b_blocked k))) (b_staged k)).

Definition K08 (k : b_case) : bool :=
  let can := canonical k in
  let canw := map s_wid can in
  let full := firstn (Z.to_nat lim_perf) can in
  (* performables: a prefix of the canonical order ... *)
  is_prefixN (b_perf k) canw
  (* ... cut only by the 100 cap and the byte limit: if the capped list fits, it is sent whole;
     otherwise what is sent fits and one more would not have been needed to stay under the cap *)
  &&& (if (obs_size (b_base k) can (length full) <=? MaxObservationLength)%Z
       then Nat.eqb (length (b_perf k)) (length full)
       else (obs_size (b_base k) can (length (b_perf k)) <=? MaxObservationLength)%Z
            &&& Nat.ltb 0 (length (b_perf k)))
  (* proposals: at most five per type, from the node's own unfiltered views, nothing twice *)
  &&& sublistb (b_props k) (filter (fun p => negb (memN (fst p) (b_blocked k))) (b_logv k ++ b_condv k))
  &&& nodupb (map fst (b_props k))
  &&& Nat.leb (length (filter (fun p => existsb (pair_eqb p) (b_logv k)) (b_props k))) lim_logp
  &&& Nat.leb (length (filter (fun p => existsb (pair_eqb p) (b_condv k)) (b_props k))) lim_condp
  (* as many as available up to the cap *)
  &&& Nat.eqb (length (b_props k))
        (Nat.min lim_logp (length (filter (fun p => negb (memN (fst p) (b_blocked k))) (b_logv k)))
         + Nat.min lim_condp (length (filter (fun p => negb (memN (fst p) (b_blocked k))) (b_condv k))))
  (* block history: the leading 256 entries of the view *)
  &&& Nat.eqb (b_hist k) (Nat.min lim_hist (b_histlen k)) &&& b_histok k
  &&& nodupb (b_perf k)
  &&& b_twin_ok k.

(* C03, observation clauses: accepted by a peer's validation and within the advertised length *)
Definition K03obs (k : b_case) : bool :=
  b_peer_ok k &&& (b_len k <=? MaxObservationLength)%Z.

Definition b_nontriv (k : b_case) : bool := Nat.ltb 0 (length (b_perf k)) || Nat.ltb 0 (length (b_props k)).
Definition b_cov (k : b_case) : list nat :=
  [length (b_staged k); length (b_blocked k); length (b_perf k); length (b_props k);
   if snd (model_perf k) then 1 else 0;
   if (obs_size (b_base k) (canonical k) (length (firstn (Z.to_nat lim_perf) (canonical k))) <=? MaxObservationLength)%Z then 0 else 1]%nat.
