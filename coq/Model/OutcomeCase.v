(* Case record for correspondence runs of ocr3Plugin.Outcome, the model evaluation on a case,
   and the boolean checkers K for C01, C02, C03 (outcome clauses) and C05.  No proofs here. *)
From Verif Require Export Model.Types Model.Outcome Model.Validate Gen.Generated.
Open Scope N_scope.

Inductive prev_in := PrevNil | PrevBad | PrevOk (o : outcome).

(* observation as the harness saw it: None = bytes that do not even JSON-decode *)
Record o_case := mkOCase {
  k_f     : nat;                         (* F *)
  k_utg   : list (N * N);                (* tabulated UpkeepTypeGetter *)
  k_wg    : list (wg_key * N);           (* tabulated WorkIDGenerator *)
  k_rows  : list (result * N);           (* distinct results of the round with the rank of UniqueID() *)
  k_shuf  : list (N * N);                (* work id -> rank of ShuffleString(work id, key(digest, seq)) *)
  k_obs   : list (option (list nat * list proposal * list blockkey));  (* performables as row indices *)
  k_prev  : prev_in;
  k_out   : option (list nat * list (list proposal));   (* observed outcome; None = Outcome returned an error *)
  k_len   : N;                           (* len(outcome bytes) *)
  k_nrep  : N;                           (* number of reports a fresh instance (default off-chain config) builds from the outcome *)
  k_det   : bool                         (* all evaluations (instances x repetitions) byte-identical *)
}.

Definition dummy_result : result :=
  mkRes 255 true false 255 0 (mkTrig 0 0 None) 0 0 [] None None.

Definition row (k : o_case) (i : nat) : result := fst (nth i (k_rows k) (dummy_result, 0)).

Definition uid_of (k : o_case) (r : result) : N :=
  match find (fun rr => result_eqb (fst rr) r) (k_rows k) with Some rr => snd rr | None => 0 end.

Definition shuf_of (k : o_case) (w : N) : N :=
  match find (fun kv => fst kv =? w) (k_shuf k) with Some kv => snd kv | None => 0 end.

Definition decode_aobs (k : o_case) (a : option (list nat * list proposal * list blockkey)) : aobs :=
  match a with
  | None => Undecodable
  | Some (ps, pr, h) => Decoded (mkObs (map (row k) ps) pr h)
  end.

Definition k_utgf (k : o_case) := utg_of (k_utg k).
Definition k_wgf (k : o_case) := wg_of (k_wg k).

Definition lim_of_gen : limits :=
  mkLim (Z.to_nat OutcomeAgreedPerformablesLimit) (Z.to_nat OutcomeSurfacedProposalsRoundHistoryLimit)
        (Z.to_nat OutcomeSurfacedProposalsLimit).

Definition thr_p (k : o_case) : nat := Z.to_nat (Z.of_nat (k_f k) + QuorumPerformablesAdd).
Definition thr_b (k : o_case) : nat := Z.to_nat (Z.of_nat (k_f k) + QuorumBlocksAdd).

(* the model's answer for the case (None = error) *)
Definition model_outcome (k : o_case) : option outcome :=
  let prev := match k_prev k with
              | PrevNil => Some (mkOut [] [])
              | PrevBad => None
              | PrevOk o => if valid_outcome (k_utgf k) (k_wgf k) o then Some o else None
              end in
  match prev with
  | None => None
  | Some p =>
      Some (outcome_of (uid_of k) (shuf_of k) (valid_obs (k_utgf k) (k_wgf k)) true id_perm id_perm
              (thr_p k) (thr_b k) lim_of_gen p (map (decode_aobs k) (k_obs k)))
  end.

Definition observed_outcome (k : o_case) : option outcome :=
  match k_out k with
  | None => None
  | Some (ag, sf) => Some (mkOut (map (row k) ag) sf)
  end.

Definition outcome_eqb (a b : outcome) : bool :=
  list_eqb result_eqb (oc_agreed a) (oc_agreed b)
  && list_eqb (list_eqb prop_eqb) (oc_surfaced a) (oc_surfaced b).

Definition k_mism (k : o_case) : bool :=
  negb (opt_eqb outcome_eqb (model_outcome k) (observed_outcome k)).
Definition k_mism_agreed (k : o_case) : bool :=
  negb (opt_eqb (list_eqb result_eqb) (option_map oc_agreed (model_outcome k)) (option_map oc_agreed (observed_outcome k))).
Definition k_mism_surfaced (k : o_case) : bool :=
  negb (opt_eqb (list_eqb (list_eqb prop_eqb)) (option_map oc_surfaced (model_outcome k)) (option_map oc_surfaced (observed_outcome k))).

(* ------------------------------------------------------------------------------------- *)
(* Checkers: decide the properties on the implementation's output, with validity of the
   observations judged by the rule-shaped checker obs_rules_b (not by the sequential model). *)

Definition vobs (k : o_case) : list observation :=
  flat_map (fun a => match decode_aobs k a with
                     | Undecodable => []
                     | Decoded o => if obs_rules_b (k_utgf k) (k_wgf k) o then [o] else []
                     end) (k_obs k).

Definition supportb (eq : result -> result -> bool) (r : result) (obs : list observation) : nat :=
  length (filter (fun o => existsb (eq r) (o_perf o)) obs).

(* C01 with equality [eq] on results (result_eqb = the property; uid equality = what the code counts) *)
Definition K01_with (eq : result -> result -> bool) (thr limit : nat) (shuf : N -> N)
           (obs : list observation) (agreed : list result) : bool :=
  forallb (fun r => Nat.leb thr (supportb eq r obs)) agreed
  && nodupb (map r_wid agreed)
  && Nat.leb (length agreed) limit
  && forallb (fun r =>
        if Nat.leb thr (supportb eq r obs) then
          existsb (fun a => (r_wid a =? r_wid r) &&& Nat.leb thr (supportb eq a obs)) agreed
          || (Nat.leb limit (length agreed)
              &&& forallb (fun y => shuf (r_wid y) <? shuf (r_wid r)) agreed)
        else true) (flat_map o_perf obs).

Definition prev_valid (k : o_case) : option outcome :=
  match k_prev k with
  | PrevNil => Some (mkOut [] [])
  | PrevBad => None
  | PrevOk o => if outcome_rules_b (k_utgf k) (k_wgf k) o then Some o else None
  end.

Definition K01 (k : o_case) : bool :=
  match prev_valid k, observed_outcome k with
  | None, None => true                       (* undecodable previous outcome: error, nothing agreed *)
  | None, Some _ => false
  | Some _, None => false                    (* valid inputs must not produce an error *)
  | Some _, Some o =>
      K01_with result_eqb (thr_p k) (l_agreed lim_of_gen) (shuf_of k) (vobs k) (oc_agreed o)
  end.

(* known finding 1: UniqueID() is not injective; the failing clause disappears when support is
   counted per uid, and the case does contain two field-distinct results with one uid *)
Definition has_uid_collision (k : o_case) : bool :=
  existsb (fun a => existsb (fun b => (snd a =? snd b) &&& negb (result_eqb (fst a) (fst b))) (k_rows k)) (k_rows k).

(* the same clauses with results identified by a precomputed key (key, work id) *)
Definition ksupport (u : N) (kobs : list (list (N * N))) : nat :=
  length (filter (fun ks => existsb (fun kw => fst kw =? u) ks) kobs).
Definition K01_keys (thr limit : nat) (shuf : N -> N) (kobs : list (list (N * N))) (agreed : list (N * N)) : bool :=
  forallb (fun a => Nat.leb thr (ksupport (fst a) kobs)) agreed
  && nodupb (map snd agreed)
  && Nat.leb (length agreed) limit
  && forallb (fun r =>
        if Nat.leb thr (ksupport (fst r) kobs) then
          existsb (fun a => (snd a =? snd r) &&& Nat.leb thr (ksupport (fst a) kobs)) agreed
          || (Nat.leb limit (length agreed) &&& forallb (fun y => shuf (snd y) <? shuf (snd r)) agreed)
        else true) (concat kobs).
Definition k_kf_uid_collision (k : o_case) : bool :=
  negb (K01 k) &&& has_uid_collision k &&&
  match prev_valid k, observed_outcome k with
  | Some _, Some o =>
      let kw := fun r => (uid_of k r, r_wid r) in
      K01_keys (thr_p k) (l_agreed lim_of_gen) (shuf_of k) (map (fun ob => map kw (o_perf ob)) (vobs k)) (map kw (oc_agreed o))
  | _, _ => false
  end.

(* C03 (outcome clauses): the outcome of valid inputs passes the network's own validation and
   fits the advertised length *)
Definition K03 (k : o_case) : bool :=
  match prev_valid k, observed_outcome k with
  | None, _ => true
  | Some _, None => false
  | Some _, Some o => outcome_rules_b (k_utgf k) (k_wgf k) o && (Z.of_N (k_len k) <=? MaxOutcomeLength)%Z
                      && (Z.of_N (k_nrep k) <=? MaxReportCount)%Z
  end.

(* C05 *)
Definition bsupportb (b : blockkey) (obs : list observation) : nat :=
  length (filter (fun o => existsb (bk_eqb b) (o_hist o)) obs).
Definition all_blocks (obs : list observation) : list blockkey := flat_map o_hist obs.
Definition qblocks (thr : nat) (obs : list observation) : list blockkey :=
  filter (fun b => Nat.leb thr (bsupportb b obs)) (all_blocks obs).

Definition carried (agreed : list result) (prev : list (list proposal)) : list (list proposal) :=
  map (filter (fun p => negb (existsb (fun r => r_wid r =? p_wid p) agreed))) prev.

(* C02: every evaluation on every instance gave the same bytes, and the orderings used for
   tie-breaking / truncation are the ones determined by (config digest, sequence number) alone: the
   harness computes the shuffle ranks outside any plug-in instance from exactly those two inputs *)
Fixpoint sorted_strict (l : list N) : bool :=
  match l with
  | a :: ((b :: _) as t) => (a <? b) &&& sorted_strict t
  | _ => true
  end.
Definition K02 (k : o_case) : bool :=
  k_det k &&&
  match observed_outcome k with
  | None => true
  | Some o =>
      sorted_strict (map (fun r => shuf_of k (r_wid r)) (oc_agreed o))
      &&& match prev_valid k, oc_surfaced o with
          | Some p, new :: rest =>
              (* a freshly added round (recognised by not being the carried-over head) is in shuffle order *)
              if list_eqb (list_eqb prop_eqb) (oc_surfaced o) (carried (oc_agreed o) (oc_surfaced p)) then true
              else sorted_strict (map (fun q => shuf_of k (p_wid q)) new)
                   (* ... and truncation follows that order alone: a proposed unit that is neither surfaced, nor in
                      the history, nor agreed was cut by the per-round cap BEHIND everything that was kept *)
                   &&& forallb (fun q =>
                         memN (p_wid q) (map p_wid (concat rest)) || memN (p_wid q) (map r_wid (oc_agreed o))
                         || memN (p_wid q) (map p_wid new)
                         || (Nat.leb (l_perround lim_of_gen) (length new)
                             &&& forallb (fun y => shuf_of k (p_wid y) <? shuf_of k (p_wid q)) new))
                       (flat_map o_props (vobs k))
          | _, _ => true
          end
  end.

Definition same_unit (p q : proposal) : bool :=
  (p_upk p =? p_upk q) && (p_wid p =? p_wid q) &&
  match t_ext (p_trig p), t_ext (p_trig q) with
  | None, None => true
  | Some a, Some b => (le_txhash a =? le_txhash b) && (le_index a =? le_index b) && (le_blockhash a =? le_blockhash b)
  | _, _ => false
  end.

(* [strict_zero] = true: a supported block with the all-zero hash also counts as "a block with
   that support" (the property as stated); false masks known finding 2b *)
Definition K05_with (strict_zero : bool) (thr histL perRound : nat) (shuf : N -> N)
           (obs : list observation) (agreed : list result)
           (prev out : list (list proposal)) : bool :=
  let car := carried agreed prev in
  let qb_all := qblocks thr obs in
  let qb_nz := filter (fun b => negb (bk_hash b =? 0)) qb_all in
  let wids := map p_wid (concat out) in
  let props := flat_map o_props obs in
  (* once / never together with an agreed performable *)
  nodupb wids
  && forallb (fun w => negb (memN w (map r_wid agreed))) wids
  && Nat.leb (length out) histL
  && forallb (fun rd => Nat.leb (length rd) perRound) out
  &&
  (if list_eqb (list_eqb prop_eqb) out car then
     (* no new round: allowed only if no (non-zero-hash) block has quorum support *)
     match qb_nz with [] => true | _ => false end
   else
     match out with
     | [] => false
     | new :: rest =>
         (* earlier rounds carried over, oldest dropped first *)
         list_eqb (list_eqb prop_eqb) rest
           (if Nat.leb histL (length car) then firstn (histL - 1) car else car)
         &&
         (* one block, with quorum support, and no higher block with that support *)
         (match qb_nz with
          | [] => false
          | _ =>
            existsb (fun qb =>
                forallb (fun p => (t_num (p_trig p) =? bk_num qb) && (t_hash (p_trig p) =? bk_hash qb)
                                  && match t_ext (p_trig p) with Some e => le_blocknum e =? 0 | None => true end) new
                && forallb (fun b => bk_num b <=? bk_num qb) (if strict_zero then qb_all else qb_nz)
                && forallb (fun b => negb (bk_num b =? bk_num qb) || (bk_hash b <=? bk_hash qb)) qb_nz) qb_nz
          end)
         (* every new proposal was proposed by a valid observation this round *)
         && forallb (fun p => existsb (same_unit p) props) new
         (* every proposed unit not already in history / agreed is surfaced, unless cut by the cap *)
         && forallb (fun q =>
              memN (p_wid q) (map p_wid (concat rest)) || memN (p_wid q) (map r_wid agreed)
              || memN (p_wid q) (map p_wid new)
              || (Nat.leb perRound (length new) && forallb (fun y => shuf (p_wid y) <? shuf (p_wid q)) new)) props
     end).

Definition K05_gen (strict_zero : bool) (k : o_case) : bool :=
  match prev_valid k, observed_outcome k with
  | None, None => true
  | None, Some _ => false
  | Some _, None => false
  | Some p, Some o =>
      K05_with strict_zero (thr_b k) (l_rounds lim_of_gen) (l_perround lim_of_gen) (shuf_of k) (vobs k)
               (oc_agreed o) (oc_surfaced p) (oc_surfaced o)
  end.
Definition K05 := K05_gen true.

(* known finding 2b: a zero-hash block key with quorum support and a higher number than the
   stamped block (the code cannot select an all-zero hash) *)
Definition k_kf_zero_hash_quorum (k : o_case) : bool :=
  negb (K05 k) &&& K05_gen false k
  &&& existsb (fun b => bk_hash b =? 0) (qblocks (thr_b k) (vobs k)).

(* non-triviality: some result or block reached quorum, or history was carried *)
Definition k_nontriv (k : o_case) : bool :=
  match observed_outcome k with
  | Some o => negb (Nat.eqb (length (oc_agreed o)) 0) || negb (Nat.eqb (length (concat (oc_surfaced o))) 0)
  | None => false
  end.

(* coverage counters: (undecodable, invalid, valid observations), agreed, new-round?, prev kind *)
Definition k_cov (k : o_case) : list nat :=
  let und := length (filter (fun a => match a with None => true | _ => false end) (k_obs k)) in
  let val := length (vobs k) in
  [und; (length (k_obs k) - und - val)%nat; val;
   match observed_outcome k with Some o => length (oc_agreed o) | None => 0%nat end;
   match qblocks (thr_b k) (vobs k) with [] => 0%nat | _ => 1%nat end;
   match k_prev k with PrevNil => 0%nat | PrevBad => 1%nat | PrevOk _ => 2%nat end].
Fixpoint sum_cov (l : list (list nat)) : list nat :=
  match l with
  | [] => [0; 0; 0; 0; 0; 0]%nat
  | c :: t => map (fun '(a, b) => (a + b)%nat) (combine c (sum_cov t))
  end.
