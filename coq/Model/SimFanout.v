(* Fan-out of the simulated chain (tools/simulator/simulate/chain/broadcaster.go, listener.go): a broadcast block is
   handed to every current subscriber on a goroutine of its own, which may be delayed arbitrarily before it sends.
   State: the deliveries still in flight and what each subscriber has received so far.  No proofs in this file. *)
From Coq Require Import List Arith PeanoNat.
Import ListNotations.

Definition sub := nat.
Definition blk := nat.          (* block number; hash and content are a function of it (one chain: C19_history_exact) *)

Record fstate := mkF {
  f_subs : list sub;                    (* subscriptions, in subscription order *)
  f_flight : list (sub * blk);          (* delivery goroutines that have not sent yet *)
  f_recv : list (sub * blk);            (* (subscriber, block) in the order the sends completed *)
  f_sent : list blk                     (* blocks broadcast so far, in order *)
}.

Inductive fop :=
| FSubscribe (s : sub)                  (* Subscribe: from now on s gets every broadcast *)
| FBroadcast (b : blk)                  (* broadcast(): one delivery goroutine per current subscription *)
| FDeliver (i : nat).                   (* the i-th goroutine in flight completes its send *)

Fixpoint remove_nth {A} (i : nat) (l : list A) : list A :=
  match l, i with
  | [], _ => []
  | _ :: t, O => t
  | x :: t, S j => x :: remove_nth j t
  end.

Definition fstep (s : fstate) (o : fop) : fstate :=
  match o with
  | FSubscribe x => mkF (f_subs s ++ [x]) (f_flight s) (f_recv s) (f_sent s)
  | FBroadcast b => mkF (f_subs s) (f_flight s ++ map (fun x => (x, b)) (f_subs s)) (f_recv s) (f_sent s ++ [b])
  | FDeliver i =>
      match nth_error (f_flight s) i with
      | Some d => mkF (f_subs s) (remove_nth i (f_flight s)) (f_recv s ++ [d]) (f_sent s)
      | None => s
      end
  end.

Definition finit (subs : list sub) : fstate := mkF subs [] [] [].
Definition frun (subs : list sub) (ops : list fop) : fstate := fold_left fstep ops (finit subs).

(* what subscriber x has received / is still owed *)
Definition recv_of (s : fstate) (x : sub) : list blk := map snd (filter (fun d => Nat.eqb (fst d) x) (f_recv s)).
Definition owed_to (s : fstate) (x : sub) : list blk := map snd (filter (fun d => Nat.eqb (fst d) x) (f_flight s)).
