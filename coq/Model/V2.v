(* Model of the OCR2 ("v2") plug-in: pkg/v2/observation.go (ObservationsToUpkeepKeys),
   pkg/v2/encoding/basic.go (validation, GetMedian), pkg/v2/shuffle.go (filterAndDedupe, keyed
   shuffle as an oracle), pkg/v2/ocr.go (Report: cap of ten keys, eligibility / gas / batch loop;
   Observation), pkg/v2/encode.go (limitedLengthEncode), pkg/v2/observer/polling/observer.go
   (stager, Observe).  Strings are modelled only where the code validates them (block keys and
   upkeep identifiers must be canonical decimal numerals); after validation a block key / an
   identifier IS its number (canonical numerals are in bijection with numbers), and an upkeep
   key "block|id" is the pair.  No proofs in this file. *)
From Verif Require Export Base.Util.
From Verif Require Import Gen.Generated.
From Coq Require String Ascii.
Open Scope N_scope.

Definition str := String.string.

(* ------------------------------------------------------------------------------ *)
(* canonical decimal numerals: what big.Int.SetString(s, 10) followed by
   `x.String() == s` and `x >= 0` accepts ("+5", "05", "-0", "", " 5", "5x" are rejected) *)

Definition digit_of (a : Ascii.ascii) : option N :=
  let n := Ascii.N_of_ascii a in
  if (48 <=? n) && (n <=? 57) then Some (n - 48) else None.

Fixpoint dec_acc (s : str) (acc : N) : option N :=
  match s with
  | String.EmptyString => Some acc
  | String.String a s' =>
      match digit_of a with
      | Some d => dec_acc s' (10 * acc + d)
      | None => None
      end
  end.

Definition canon_dec (s : str) : option N :=
  match s with
  | String.EmptyString => None
  | String.String a s' =>
      match digit_of a with
      | None => None
      | Some d =>
          if d =? 0
          then match s' with String.EmptyString => Some 0 | _ => None end
          else dec_acc s' d
      end
  end.

Fixpoint str_of_codes (l : list N) : str :=
  match l with
  | [] => String.EmptyString
  | c :: t => String.String (Ascii.ascii_of_N c) (str_of_codes t)
  end.

Definition max_u64 : N := 18446744073709551615.
Definition max_u256 : N :=
  115792089237316195423570985008687907853269984665640564039457584007913129639935.

Definition valid_num (mx : N) (s : str) : option N :=
  match canon_dec s with
  | Some v => if v <=? mx then Some v else None
  | None => None
  end.

Definition valid_block : str -> option N := valid_num max_u64.     (* ValidateBlockKey *)
Definition valid_id : str -> option N := valid_num max_u256.       (* ValidateUpkeepIdentifier *)

Fixpoint valid_ids (l : list str) : option (list N) :=
  match l with
  | [] => Some []
  | s :: t =>
      match valid_id s, valid_ids t with
      | Some v, Some vs => Some (v :: vs)
      | _, _ => None
      end
  end.

(* an attributed observation as the plug-in receives it: bytes that do not JSON-decode into
   Observation{BlockKey, UpkeepIdentifiers}, or the decoded pair of strings *)
Inductive raw_obs := RawBad | RawObs (b : str) (ids : list str).

(* Observation.Validate: block key first, then EVERY identifier (also those beyond the limit) *)
Definition validate (o : raw_obs) : option (N * list N) :=
  match o with
  | RawBad => None
  | RawObs b ids =>
      match valid_block b, valid_ids ids with
      | Some bv, Some vs => Some (bv, vs)
      | _, _ => None
      end
  end.

Fixpoint valid_obs (obs : list raw_obs) : list (N * list N) :=
  match obs with
  | [] => []
  | o :: t => match validate o with Some v => v :: valid_obs t | None => valid_obs t end
  end.

(* ------------------------------------------------------------------------------ *)
(* GetMedian: sort.Slice by big.Int.Cmp, then index len/2 (0 for an empty list).  Equal numbers
   are the same canonical string, so the unstable sort cannot be observed. *)

Fixpoint ins (x : N) (l : list N) : list N :=
  match l with
  | [] => [x]
  | y :: t => if x <=? y then x :: l else y :: ins x t
  end.

Fixpoint isort (l : list N) : list N :=
  match l with [] => [] | x :: t => ins x (isort t) end.

(* [lower] = false is the code; [lower] = true is the mutation "(len-1)/2" kept for comparison *)
Definition median_at (lower : bool) (l : list N) : N :=
  nth (if lower then (List.length l - 1) / 2 else List.length l / 2)%nat (isort l) 0.

Definition median : list N -> N := median_at false.

(* ------------------------------------------------------------------------------ *)
(* keys *)

Definition key := (N * N)%type.                 (* (block, upkeep id) = "block|id" *)
Definition key_eqb (a b : key) : bool := (fst a =? fst b) && (snd a =? snd b).
Definition memk (k : key) (l : list key) : bool := existsb (key_eqb k) l.

Definition obs_limit : nat := Z.to_nat V2ObservationUpkeepsLimit.
Definition keys_limit : nat := Z.to_nat V2ReportKeysLimit.
Definition max_obs_len : nat := Z.to_nat V2MaxObservationLength.

Definition is_nil {A} (l : list A) : bool := match l with [] => true | _ => false end.

(* ObservationsToUpkeepKeys: None = "all observations failed" (ErrTooManyErrors) *)
Definition obs_to_keys (obs : list raw_obs) : option (list (list key)) :=
  let vs := valid_obs obs in
  if is_nil vs then None
  else
    let m := median (map fst vs) in
    Some (map (fun ids => map (fun i => (m, i)) (firstn obs_limit ids))
              (filter (fun ids => negb (is_nil ids)) (map snd vs))).

(* filterAndDedupe: one pass, `matched` set, first occurrence kept.  The output order of the code is
   the slice order (the map is only probed, never ranged over); [pi] stands for any re-ordering a
   different container could introduce: theorems hold for every permutation, the code is [pi] = id. *)
Fixpoint dd (matched : list key) (l : list key) : list key :=
  match l with
  | [] => []
  | k :: t => if memk k matched then dd matched t else k :: dd (k :: matched) t
  end.

Definition filter_dedupe (pi : list key -> list key) (pend : key -> bool) (inputs : list (list key)) : list key :=
  pi (dd [] (filter (fun k => negb (pend k)) (concat inputs))).

Definition id_order (l : list key) : list key := l.

(* ------------------------------------------------------------------------------ *)
(* report-time check results and the eligibility / gas / batch loop *)

Record res := mkRes {
  r_key : key;          (* Detail: key *)
  r_elig : bool;        (* Eligible: ok *)
  r_eligerr : bool;     (* Eligible: err != nil *)
  r_gas : N;            (* Detail: gas, uint32 *)
  r_deterr : bool       (* Detail: err != nil *)
}.

Record v2cfg := mkV2Cfg {
  v_batch : Z;          (* MaxUpkeepBatchSize, Go int (>= 1 after DecodeOffchainConfig) *)
  v_limit : N;          (* GasLimitPerReport, uint32 *)
  v_over : N            (* GasOverheadPerUpkeep, uint32 *)
}.

Definition two32 : N := 4294967296.
Definition two64 : N := 18446744073709551616.

(* [wide] = true: the sums are uint64 (current tree); false: uint32 (pinned commit) *)
Definition addw (wide : bool) (a b : N) : N := (a + b) mod (if wide then two64 else two32).

(* [fixed] = true: `err != nil || !ok` (current tree); false: `err != nil && ok` (pinned commit) *)
Definition skip_elig (fixed : bool) (r : res) : bool :=
  if fixed then r_eligerr r || negb (r_elig r) else r_eligerr r && r_elig r.

Fixpoint loop (fixed wide : bool) (c : v2cfg) (rs : list res) (total : N) (acc : list res) : list res :=
  match rs with
  | [] => acc
  | r :: rs' =>
      if skip_elig fixed r then loop fixed wide c rs' total acc
      else if r_deterr r then loop fixed wide c rs' total acc
      else
        let mx := addw wide (r_gas r) (v_over c) in
        if v_limit c <? addw wide total mx then loop fixed wide c rs' total acc
        else
          let acc' := acc ++ [r] in
          if (v_batch c <=? Z.of_nat (List.length acc'))%Z then acc'
          else loop fixed wide c rs' (addw wide total mx) acc'
  end.

Definition gas_total (c : v2cfg) (rep : list res) : N :=
  fold_right (fun r a => r_gas r + v_over c + a) 0 rep.

(* ------------------------------------------------------------------------------ *)
(* Report *)

Inductive run_out := RunErr | RunRes (rs : list res).

Inductive rerr := EOk | ENotEnough | ETooMany | ERunner | ETooManyResults | EEncode.

Record rout := mkROut {
  o_checked : option (list key);     (* keys handed to the runner; None = runner not called *)
  o_should : bool;
  o_report : list res;
  o_err : rerr
}.

Definition checked_keys (pend : key -> bool) (shuf : list key -> list key) (ks : list (list key)) : list key :=
  firstn keys_limit (shuf (filter_dedupe id_order pend ks)).

Definition report (fixed wide : bool) (c : v2cfg) (pend : key -> bool) (shuf : list key -> list key)
           (runner : list key -> run_out) (encfail : bool) (obs : list raw_obs) : rout :=
  match obs with
  | [] => mkROut None false [] ENotEnough
  | _ =>
    match obs_to_keys obs with
    | None => mkROut None false [] ETooMany
    | Some ks =>
      let chk := checked_keys pend shuf ks in
      match chk with
      | [] => mkROut None false [] EOk
      | _ =>
        match runner chk with
        | RunErr => mkROut (Some chk) false [] ERunner
        | RunRes rs =>
          if is_nil rs then mkROut (Some chk) false [] EOk
          else if (List.length chk <? List.length rs)%nat then mkROut (Some chk) false [] ETooManyResults
          else
            match loop fixed wide c rs 0 [] with
            | [] => mkROut (Some chk) false [] EOk
            | tp => if encfail then mkROut (Some chk) false [] EEncode
                    else mkROut (Some chk) true tp EOk
            end
        end
      end
    end
  end.

(* ------------------------------------------------------------------------------ *)
(* Observation: polling observer (stager + Observe), keyed shuffle, cap, limited encode *)

(* number of decimal digits *)
Fixpoint ndigits_fuel (fuel : nat) (n : N) : nat :=
  match fuel with
  | O => 1
  | S f => if n <? 10 then 1%nat else S (ndigits_fuel f (n / 10))
  end.
Definition ndigits (n : N) : nat := ndigits_fuel (S (N.to_nat (N.log2 n))) n.

Definition b64len (n : nat) : nat := (4 * ((n + 2) / 3))%nat.

(* byte length of json.Encoder output for Observation{BlockKey, UpkeepIdentifiers} with a non-nil
   id slice:  {"1":"<block>","2":["<b64>",...]}\n  *)
Definition ids_len (ids : list N) : nat :=
  (fold_right (fun i a => b64len (ndigits i) + 2 + a) 0 ids + (List.length ids - 1))%nat.
Definition enc_len (blk : option N) (ids : list N) : nat :=
  (6 + match blk with Some b => ndigits b | None => 0 end + 7 + ids_len ids + 3)%nat.

Fixpoint lim_loop (blk : option N) (limit : nat) (pre rest : list N) (best : option (list N)) : option (list N) :=
  match rest with
  | [] => best
  | i :: rest' =>
      let p := pre ++ [i] in
      if (limit <? enc_len blk p)%nat then best else lim_loop blk limit p rest' (Some p)
  end.

(* limitedLengthEncode: None = empty byte string (nothing fitted) *)
Definition limited_encode (blk : option N) (ids : list N) (limit : nat) : option (list N) :=
  match ids with
  | [] => Some []
  | _ => lim_loop blk limit [] ids None
  end.

(* processLatestHead: ids staged from the sampling results (eligibility error, not eligible, or
   detail error => not staged).  Assumes Detail returns a key that splits. *)
Definition stage (rs : list res) : list N :=
  map (fun r => snd (r_key r))
      (filter (fun r => negb (r_eligerr r) && r_elig r && negb (r_deterr r)) rs).

(* one head: None = sampling did not complete (registry error, nothing to sample, runner error):
   the stager is not advanced *)
Definition stager_step (st : option (N * list N)) (h : option (N * list res)) : option (N * list N) :=
  match h with
  | None => st
  | Some (b, rs) => Some (b, stage rs)
  end.

(* PollingObserver.Observe *)
Definition observe (pend : key -> bool) (st : option (N * list N)) : option N * list N :=
  match st with
  | None => (None, [])
  | Some (b, ids) => (Some b, filter (fun i => negb (pend (b, i))) ids)
  end.

Record oout := mkOOut { oo_blk : option N; oo_ids : option (list N); oo_len : nat }.

Definition v2_observation (pend : key -> bool) (shuf : list N -> list N) (heads : list (option (N * list res))) : oout :=
  let '(blk, ids) := observe pend (fold_left stager_step heads None) in
  let ids1 := firstn obs_limit (shuf ids) in
  match limited_encode blk ids1 max_obs_len with
  | Some e => mkOOut blk (Some e) (enc_len blk e)
  | None => mkOOut blk None 0
  end.

(* ============================================================================== *)
(* Checker K for Report: decides the property on the observed checked keys and report,
   independently of [report]. *)

Definition count (f : N -> bool) (l : list N) : nat := List.length (filter f l).

(* m is the upper median of l (characterised by ranks, no sorting) *)
Definition count_lt (m : N) (l : list N) : nat := count (fun x => x <? m) l.
Definition count_le (m : N) (l : list N) : nat := count (fun x => x <=? m) l.
Definition is_upper_median (m : N) (l : list N) : bool :=
  memN m l
  && (count_lt m l <=? List.length l / 2)%nat
  && (List.length l / 2 <? count_le m l)%nat.

Definition allowed_ids (obs : list raw_obs) : list N :=
  flat_map (fun v => firstn obs_limit (snd v)) (valid_obs obs).

Fixpoint nodupk (l : list key) : bool :=
  match l with [] => true | k :: t => negb (memk k t) && nodupk t end.

Definition res_ok (r : res) : bool := r_elig r && negb (r_eligerr r) && negb (r_deterr r).

Definition checked_ok (obs : list raw_obs) (pend : key -> bool) (chk : list key) : bool :=
  forallb (fun k => is_upper_median (fst k) (map fst (valid_obs obs))
                    && memN (snd k) (allowed_ids obs)
                    && negb (pend k)) chk
  && nodupk chk
  && (List.length chk <=? 10)%nat.

Definition report_ok (c : v2cfg) (chk : list key) (rep : list res) : bool :=
  forallb (fun r => memk (r_key r) chk && res_ok r) rep
  && nodupk (map r_key rep)
  && (Z.of_nat (List.length rep) <=? v_batch c)%Z
  && (gas_total c rep <=? v_limit c).

Definition C16_check (c : v2cfg) (obs : list raw_obs) (pend : key -> bool) (chk : list key) (rep : list res) : bool :=
  checked_ok obs pend chk && report_ok c chk rep.

(* ------------------------------------------------------------------------------ *)
(* Case record for Report, written by the harness *)

Definition scr := (bool * bool * N * bool * bool)%type.     (* elig, eligerr, gas, deterr, drop *)
Definition default_scr : scr := (true, false, 100000, false, false).

Fixpoint lookup {A} (i : N) (t : list (N * A)) : option A :=
  match t with
  | [] => None
  | (j, a) :: t' => if i =? j then Some a else lookup i t'
  end.

Definition scr_of (t : list (N * scr)) (i : N) : scr :=
  match lookup i t with Some s => s | None => default_scr end.

Definition res_of_key (t : list (N * scr)) (k : key) : res :=
  let '(e, ee, g, de, _) := scr_of t (snd k) in mkRes k e ee g de.

Definition dropped (t : list (N * scr)) (k : key) : bool :=
  let '(_, _, _, _, d) := scr_of t (snd k) in d.

(* the harness' scripted runner: 0 normal, 1 error, 2 one result too many, 3 empty, 4 reversed *)
Definition case_runner (t : list (N * scr)) (mode : nat) (ks : list key) : run_out :=
  match mode with
  | 1%nat => RunErr
  | 3%nat => RunRes []
  | _ =>
    let ks' := if Nat.eqb mode 4 then rev ks else ks in
    let rs := map (res_of_key t) (filter (fun k => negb (dropped t k)) ks') in
    if Nat.eqb mode 2
    then RunRes (rs ++ repeat (mkRes (1, 1) true false 100000 false) (S (List.length ks) - List.length rs))
    else RunRes rs
  end.

Definition pend_of (t : list (N * list N)) (k : key) : bool :=
  match lookup (fst k) t with Some l => memN (snd k) l | None => false end.

(* the keyed shuffle is an oracle constrained only to be a permutation; for a correspondence run it
   is read off the implementation's own output: the observed keys first (in observed order), then
   the remaining ones *)
Definition shuf_from (seen : list key) (l : list key) : list key :=
  filter (fun k => memk k l) (dd [] seen) ++ filter (fun k => negb (memk k seen)) l.

Record rep_case := mkRepCase {
  pc_cfg : v2cfg;
  pc_obs : list raw_obs;
  pc_pend : list (N * list N);          (* block -> ids the real coordinator reports pending *)
  pc_script : list (N * scr);
  pc_mode : nat;
  pc_encfail : bool;
  (* observed *)
  pc_checked : option (list key);       (* keys of the single CheckUpkeep call, None = no call *)
  pc_should : bool;
  pc_report : list key;                 (* keys of the results handed to EncodeReport / decoded from the report *)
  pc_err : nat                          (* 0 ok, 1 not enough inputs, 2 too many errors, 3 runner, 4 other, 5 encoder *)
}.

Definition err_code (e : rerr) : nat :=
  match e with EOk => 0 | ENotEnough => 1 | ETooMany => 2 | ERunner => 3 | ETooManyResults => 4 | EEncode => 5 end%nat.

Definition opt_keys_eqb (a b : option (list key)) : bool :=
  match a, b with
  | None, None => true
  | Some x, Some y => list_eqb key_eqb x y
  | _, _ => false
  end.

Definition pc_model (fixed wide : bool) (k : rep_case) : rout :=
  report fixed wide (pc_cfg k) (pend_of (pc_pend k))
         (shuf_from (match pc_checked k with Some l => l | None => [] end))
         (case_runner (pc_script k) (pc_mode k)) (pc_encfail k) (pc_obs k).

Definition pc_mism (k : rep_case) : bool :=
  let o := pc_model true true k in
  negb (opt_keys_eqb (o_checked o) (pc_checked k)
        && Bool.eqb (o_should o) (pc_should k)
        && list_eqb key_eqb (map r_key (o_report o)) (pc_report k)
        && Nat.eqb (err_code (o_err o)) (pc_err k)).

Definition pc_bad (k : rep_case) : bool :=
  let chk := match pc_checked k with Some l => l | None => [] end in
  negb (C16_check (pc_cfg k) (pc_obs k) (pend_of (pc_pend k)) chk (map (res_of_key (pc_script k)) (pc_report k))
        && forallb (fun q => negb (dropped (pc_script k) q)) (pc_report k)
        && (pc_should k || is_nil (pc_report k))
        && (Nat.eqb (pc_err k) 0 || negb (pc_should k))).

(* individual clauses, for diagnosis *)
Definition pc_bad_checked (k : rep_case) : bool :=
  negb (checked_ok (pc_obs k) (pend_of (pc_pend k)) (match pc_checked k with Some l => l | None => [] end)).

Definition pc_nontriv (k : rep_case) : bool :=
  (2 <=? List.length (valid_obs (pc_obs k)))%nat && negb (is_nil (pc_report k)).

(* coverage: which loop arms the model takes on the case's results *)
Fixpoint loop_cov (c : v2cfg) (rs : list res) (total : N) (n : nat) (acc : nat * nat * nat * nat) : nat * nat * nat * nat :=
  let '(a, b, g, br) := acc in
  match rs with
  | [] => acc
  | r :: rs' =>
      if skip_elig true r then loop_cov c rs' total n (S a, b, g, br)
      else if r_deterr r then loop_cov c rs' total n (a, S b, g, br)
      else
        let mx := addw true (r_gas r) (v_over c) in
        if v_limit c <? addw true total mx then loop_cov c rs' total n (a, b, S g, br)
        else if (v_batch c <=? Z.of_nat (S n))%Z then (a, b, g, S br)
        else loop_cov c rs' (addw true total mx) (S n) acc
  end.

Definition pc_cov (k : rep_case) : nat * nat * nat * nat :=
  match pc_checked k with
  | Some chk =>
      match case_runner (pc_script k) (pc_mode k) chk with
      | RunRes rs => loop_cov (pc_cfg k) rs 0 0 (0, 0, 0, 0)%nat
      | RunErr => (0, 0, 0, 0)%nat
      end
  | None => (0, 0, 0, 0)%nat
  end.

Definition cov4_sum (l : list (nat * nat * nat * nat)) : nat * nat * nat * nat :=
  fold_left (fun '(a, b, c, d) '(x, y, z, w) => (a + x, b + y, c + z, d + w)%nat) l (0, 0, 0, 0)%nat.

(* observations skipped / valid, over a case *)
Definition pc_cov_obs (k : rep_case) : nat * nat :=
  (List.length (pc_obs k) - List.length (valid_obs (pc_obs k)), List.length (valid_obs (pc_obs k)))%nat.
Definition cov2_sum (l : list (nat * nat)) : nat * nat :=
  fold_left (fun '(a, b) '(x, y) => (a + x, b + y)%nat) l (0, 0)%nat.

(* ============================================================================== *)
(* Checker K for Observation *)

(* the last head whose sampling completed *)
Definition last_sample (heads : list (option (N * list res))) : option (N * list res) :=
  fold_left (fun st h => match h with Some x => Some x | None => st end) heads None.

Definition obs_ok (pend : key -> bool) (heads : list (option (N * list res)))
           (blk : option N) (ids : list N) (len : nat) : bool :=
  (len <=? 1000)%nat
  && (List.length ids <=? 1)%nat
  && match last_sample heads, blk with
     | None, None => is_nil ids
     | Some (b, rs), Some b' =>
         (b =? b')
         && forallb (fun i => existsb (fun r => (snd (r_key r) =? i) && res_ok r) rs && negb (pend (b, i))) ids
     | _, _ => false
     end.

(* observed: None = the bytes do not decode *)
Definition C16_check_obs (pend : key -> bool) (heads : list (option (N * list res)))
           (dec : option (option N * list N)) (len : nat) : bool :=
  match dec with
  | Some (blk, ids) => obs_ok pend heads blk ids len
  | None => false
  end.

Record hd := mkHd {
  h_blk : N;
  h_called : option (list N);       (* ids in the order the sampling run handed them to the runner; None = runner not called *)
  h_script : list (N * scr);
  h_mode : nat
}.

Definition head_of (h : hd) : option (N * list res) :=
  match h_called h with
  | None => None
  | Some ids =>
      match case_runner (h_script h) (h_mode h) (map (fun i => (h_blk h, i)) ids) with
      | RunErr => None
      | RunRes rs => Some (h_blk h, rs)
      end
  end.

Definition shufN_from (seen : list N) (l : list N) : list N :=
  filter (fun i => memN i l) seen ++ filter (fun i => negb (memN i seen)) l.

Record obs_case := mkObsCase {
  oc_heads : list hd;
  oc_pend : list (N * list N);
  (* observed *)
  oc_len : nat;                               (* byte length of the observation *)
  oc_dec : option (option N * list N);        (* decoded (block, ids); block None = empty string *)
  oc_err : bool
}.

Definition oc_model (k : obs_case) : oout :=
  v2_observation (pend_of (oc_pend k))
                 (shufN_from (match oc_dec k with Some (_, ids) => ids | None => [] end))
                 (map head_of (oc_heads k)).

Definition optN_eqb (a b : option N) : bool :=
  match a, b with None, None => true | Some x, Some y => x =? y | _, _ => false end.

Definition oc_mism (k : obs_case) : bool :=
  let o := oc_model k in
  negb (negb (oc_err k)
        && match oo_ids o, oc_dec k with
           | Some ids, Some (b, ids') => optN_eqb (oo_blk o) b && list_eqb N.eqb ids ids' && Nat.eqb (oo_len o) (oc_len k)
           | None, None => Nat.eqb (oc_len k) 0
           | _, _ => false
           end).

Definition oc_bad (k : obs_case) : bool :=
  negb (negb (oc_err k)
        && C16_check_obs (pend_of (oc_pend k)) (map head_of (oc_heads k)) (oc_dec k) (oc_len k)).

Definition oc_nontriv (k : obs_case) : bool :=
  match oc_dec k with Some (_, _ :: _) => true | _ => false end.

(* coverage: (cases whose last sample staged >= 2 ids, cases where a pending id was filtered) *)
Definition oc_cov (k : obs_case) : nat * nat :=
  match fold_left stager_step (map head_of (oc_heads k)) None with
  | Some (b, ids) =>
      ((if (2 <=? List.length ids)%nat then 1 else 0),
       (if existsb (fun i => pend_of (oc_pend k) (b, i)) ids then 1 else 0))%nat
  | None => (0, 0)%nat
  end.
