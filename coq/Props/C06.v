(* C06 — a node transmits only the newest accepted, unconfirmed report per unit of work.
   Property theorems only; proofs live in Proofs/CoordinatorProofs.v.

   Reading guide.  [run c h] are the answers of the model (Model/Coordinator.v) on the history h
   of timed operations; [reach c s0 [] pre] is the state and the spec-level log (acceptances with
   their verdicts, delivered events, restarts; most recent first) after the prefix pre.
   [scan c w log = Some (tj, b, D)]: since the last restart the most recent successful acceptance
   for w was at time tj for check block b, and D are the sufficiently confirmed events for w
   delivered after it, each flagged "new" when no confirmed event with the same identity
   (work id, tx hash, transmit block) had been delivered before while the node could hold a record
   for the work id (a delivery that arrived before the report was accepted, or after the window of
   the last possible write had closed, does not count: a later poll returning the event again is a
   new sighting).  [within c tj t]: t is inside the
   lockout window that started at tj.  Histories: any length, any work ids, any configuration;
   times non-negative and non-decreasing (wf_times). *)
From Verif Require Import Base.Util Model.Coordinator Proofs.CoordinatorProofs.
From Verif Require Import Base.GenIR Gen.GeneratedTr Proofs.GenTrCoordinator.
From Verif Require Import Base.GenIR Gen.GeneratedTr Proofs.GenTrObs.
Open Scope Z_scope.

(* Every answer the model gives to Accept / ShouldTransmit / the report-level calls, in every
   history, satisfies the per-answer statement of the property (C06_spec). *)
Theorem C06_all_histories : forall c h, wf_times h -> C06_spec c (zip3 h (run c h)).
Proof. exact model_C06_spec. Qed.
Print Assumptions C06_all_histories.

(* ShouldTransmit (w, b) = true only if the most recent successful acceptance for w since the
   last restart was for exactly block b (hence none with a higher block succeeded since), no new
   sufficiently confirmed event for w with check block >= b was delivered since, and the
   lockout window of that acceptance is still open. *)
Theorem C06_transmit_sound :
  forall c pre t w b,
    wf_times (pre ++ [(t, OTransmit w b)]) ->
    should_transmit t w b (fst (reach c s0 [] pre)) = true ->
    exists tj D, scan c w (snd (reach c s0 [] pre)) = Some (tj, b, D) /\ nonew b D = true /\ within c tj t = true.
Proof. exact transmit_sound. Qed.
Print Assumptions C06_transmit_sound.

(* what scan computes, in terms of the log itself *)
Theorem C06_scan_reads_log :
  forall c w lg tj b D, scan c w lg = Some (tj, b, D) ->
    exists l1 l2, lg = l1 ++ LAcc tj w b true :: l2
      /\ forallb (fun x => negb (is_restart x) && negb (is_acc_of w x)) l1 = true
      /\ length D = length (filter (fun x => match x with LEv _ e => (ev_w e =? w)%N && confirmed c e | _ => false end) l1).
Proof. exact scan_last_accept. Qed.
Print Assumptions C06_scan_reads_log.

(* Atomic-operation model: no operation other than a restart lowers the awaited block of a
   record that is unexpired at the time of the operation (Accept, every event of a poll, report
   folds, garbage collection). *)
Theorem C06_check_monotone :
  forall c s t o w v, 0 <= t -> o <> ORestart -> cget t w (s_cache s) = Some v ->
    exists v', cget t w (s_cache (fst (step c s t o))) = Some v' /\ (e_check v <= e_check v')%N.
Proof. exact step_monotone. Qed.
Print Assumptions C06_check_monotone.

(* Observable form: a second acceptance inside the window of an earlier successful one
   succeeds only for a strictly higher check block. *)
Theorem C06_accept_strict :
  forall c pre t w b tj bj D,
    wf_times (pre ++ [(t, OAccept w b)]) ->
    snd (accept c t w b (fst (reach c s0 [] pre))) = true ->
    scan c w (snd (reach c s0 [] pre)) = Some (tj, bj, D) -> within c tj t = true -> (bj < b)%N.
Proof. exact accept_strict. Qed.
Print Assumptions C06_accept_strict.

(* A report is accepted exactly when at least one of its upkeeps is, every upkeep is visited, and
   verdicts and final state are those of accepting the upkeeps one after the other. *)
Theorem C06_anyof :
  forall c s t l,
    step c s t (OAcceptRep l) =
      (fst (accept_all c t l s), RBL (existsb (fun x => x) (snd (accept_all c t l s))) (snd (accept_all c t l s)))
    /\ (existsb (fun x => x) (snd (accept_all c t l s)) = true <-> In true (snd (accept_all c t l s)))
    /\ run_from c s (accept_ops t l) = map RB (snd (accept_all c t l s))
    /\ fst (reach c s [] (accept_ops t l)) = fst (accept_all c t l s).
Proof. exact accept_report_anyof. Qed.
Print Assumptions C06_anyof.

Theorem C06_anyof_transmit :
  forall c s t l,
    let rs := map (fun wb => should_transmit t (fst wb) (snd wb) s) l in
    step c s t (OTransmitRep l) = (s, RBL (existsb (fun x => x) rs) rs)
    /\ (existsb (fun x => x) rs = true <-> In true rs).
Proof. exact transmit_report_anyof. Qed.
Print Assumptions C06_anyof_transmit.

(* After a restart nothing is offered for transmission for w until w is accepted again. *)
Theorem C06_restart :
  forall c pre tr mid t w b,
    forallb (fun x => negb (accepts_w w (snd x))) mid = true ->
    run c (pre ++ (tr, ORestart) :: mid ++ [(t, OTransmit w b)]) = run c (pre ++ (tr, ORestart) :: mid) ++ [RB false].
Proof. exact restart_no_transmit. Qed.
Print Assumptions C06_restart.

(* Inserting a garbage collection anywhere changes no answer. *)
Theorem C06_gc_invisible :
  forall c h1 tg h2, times_from tg h2 ->
    exists r1 r2, length r1 = length h1 /\ run c (h1 ++ h2) = r1 ++ r2 /\ run c (h1 ++ (tg, OGC) :: h2) = r1 ++ RU :: r2.
Proof. exact gc_invisible. Qed.
Print Assumptions C06_gc_invisible.

(* The garbage collector itself runs in two phases (collect under the read lock, delete under the
   write lock).  Deleting every collected key (the code at the pinned commit) can delete an item
   that was set in between: a fresh acceptance vanishes.  Found while building this check,
   reproduced on the real cache (269 of 300 000 races), repaired by a fix: commit. *)
Theorem C06_gc_race_refuted :
  exists (c0 : cache N entry) (W now : Z) (k : N) (v : entry),
    let marked := gc_mark now c0 in
    let c1 := cset N.eqb W now k v c0 in
    cget now k c1 = Some v /\ cget now k (gc_sweep false now marked c1) = None.
Proof. exact gc_sweep_norecheck_refuted. Qed.
Print Assumptions C06_gc_race_refuted.

(* Re-checking expiry in the second phase (the current code) makes the sweep invisible whatever
   was collected and whatever was set in between. *)
Theorem C06_gc_recheck_invisible :
  forall (now now' : Z) (marked : N -> bool) (c : cache N entry) (k : N),
    now <= now' -> cget now' k (gc_sweep true now marked c) = cget now' k c.
Proof. exact (@gc_sweep_recheck_invisible N entry). Qed.
Print Assumptions C06_gc_recheck_invisible.

(* Racing poller, fine-grained model (Get and Set are separate steps, two threads).
   Without the mutex (the code at the pinned commit) the four-step schedule
   poller-Get, accept-Get, accept-Set, poller-Set loses the acceptance: Accept(w, 20) answered
   true and afterwards the awaited block is 10 again.  Finding 11, repaired by a fix: commit. *)
Theorem C06_race_refuted :
  let st3 := frun false (firstn 3 race_sched) (finit race_cell [AAcc 20] [AEv race_ev]) in
  let st4 := frun false race_sched (finit race_cell [AAcc 20] [AEv race_ev]) in
  fdone st4 = true /\ In (20%N, true) (accs st4)
  /\ ~ cle (f_cell st3) (f_cell st4) /\ ~ kept (f_cell st4) (accs st4).
Proof. exact race_refuted. Qed.
Print Assumptions C06_race_refuted.

(* With the mutex held across each read-modify-write (the current code): for every start record,
   every pair of operation lists and EVERY schedule, between any two points of the execution
   the awaited block does not go down, and every acceptance that answered true stays covered. *)
Theorem C06_locked_monotone :
  forall cell pa pb s1 s2,
    cle (f_cell (frun true s1 (finit cell pa pb))) (f_cell (frun true (s1 ++ s2) (finit cell pa pb)))
    /\ kept (f_cell (frun true (s1 ++ s2) (finit cell pa pb))) (accs (frun true (s1 ++ s2) (finit cell pa pb))).
Proof. exact locked_monotone. Qed.
Print Assumptions C06_locked_monotone.

(* The boolean checker applied to the implementation's observed answers decides the spec. *)
Theorem C06_checker_sound : forall c h, C06_check c h = true -> C06_spec c h.
Proof. exact C06_check_sound. Qed.
Print Assumptions C06_checker_sound.

(* ---- Tie to the source by translation (regenerated from /repo on every run, Gen/GeneratedTr.v) ----
   g_coord_Accept / g_coord_ShouldTransmit / g_coord_checkEvents_body are the decision terms /verif/gen
   translated from the CURRENT coordinator.go: every condition, the branch structure, which white-listed
   effect runs on which path.  The model's accept / should_transmit / step_event (about which all the
   theorems above speak) take exactly these decisions, for every state, time, work id, block and event.
   [opt_ok r] / [getv r] are Go's (ok, v) of cache.Get, v being the zero record when absent. *)
Theorem C06_gen_Accept_decisions : forall c t w b s,
  let r := cget t w (s_cache s) in
  run_accept c t w b s (g_coord_Accept (opt_ok r) (Z.of_N (e_check (getv r))) (Z.of_N b)) = Some (accept c t w b s).
Proof. exact gen_coord_Accept. Qed.
Print Assumptions C06_gen_Accept_decisions.

Theorem C06_gen_ShouldTransmit_decisions : forall t w b s,
  let r := cget t w (s_cache s) in
  g_coord_ShouldTransmit (opt_ok r) (Z.of_N (e_check (getv r))) (e_pend (getv r)) (Z.of_N b)
  = ([], RetB (should_transmit t w b s)).
Proof. exact gen_coord_ShouldTransmit. Qed.
Print Assumptions C06_gen_ShouldTransmit_decisions.

Theorem C06_gen_checkEvents_decisions : forall c t s e,
  let rv := cget t (ev_id e) (s_vis s) in
  let rc := cget t (ev_w e) (s_cache s) in
  run_event c t s e (getv rc)
    (g_coord_checkEvents_body (ev_conf e) (c_minconf c) (opt_ok rv) (opt_ok rc)
                              (Z.of_N (ev_check e)) (Z.of_N (e_check (getv rc))))
  = Some (step_event c t s e).
Proof. exact gen_coord_checkEvents. Qed.
Print Assumptions C06_gen_checkEvents_decisions.

Section GenTie.
Local Open Scope Z_scope.
(* ---- Tie to the source by translation (Gen/GeneratedTr.v, regenerated from /repo on every run by gen/translate.go) ----
   g_* are the decision terms translated from the CURRENT Go code: every condition, the branch structure and which
   white-listed effect statement runs on which path.  The theorems below state that the model's functions - about
   which every theorem above speaks - are the interpretation of these terms. *)
(* ShouldAcceptAttestedReport / ShouldTransmitAcceptedReport, loop bodies: every upkeep is handed to the coordinator, the verdict is true when one answers true *)
Theorem C06_gen_report_anyof_loops :
  forall v : bool,
  g_accept_report_body v = (if v then ([1; 2], Fall) else ([1], Fall)) /\
  g_transmit_report_body v = (if v then ([1; 2], Fall) else ([1], Fall)).
Proof. exact gen_report_anyof. Qed.
Print Assumptions C06_gen_report_anyof_loops.

(* util.Cache.Get: absent when missing or expired (expiry set and strictly before now): the model's live *)
Theorem C06_gen_cache_Get_decisions :
  forall (found : bool) exp now,
  g_cache_get found exp now = if found && live now exp then ([], RetO 1) else ([], RetO 0).
Proof. exact gen_cache_get. Qed.
Print Assumptions C06_gen_cache_Get_decisions.

(* util.Cache.ClearExpired: scan collects exactly the expired keys, the sweep re-checks under the write lock *)
Theorem C06_gen_cache_ClearExpired_decisions :
  forall (found : bool) exp now,
  g_cache_gc_scan_body exp now = (if live now exp then ([], Fall) else ([1], Fall)) /\
  g_cache_gc_sweep_body found exp now = (if found && negb (live now exp) then ([1], Fall) else ([], Fall)).
Proof. exact gen_cache_gc. Qed.
Print Assumptions C06_gen_cache_ClearExpired_decisions.

End GenTie.

(* Non-vacuity: a history with two work ids, an acceptance, a higher acceptance, a perform event,
   an expiry and a restart is well-formed; the model answers true to a transmit query, and the
   checker accepts the model's own answers. *)
Example C06_nonvacuous :
  let c := mkCC 5000 1 in
  let h := [(100, OAccept 1 10); (200, OTransmit 1 10); (300, OAccept 1 20); (400, OTransmit 1 10);
            (500, OTransmit 1 20); (1000, OEvents [mkEv 1 7 1 21 3 20]); (1100, OTransmit 1 20);
            (1200, OAcceptRep [(1%N, 20%N); (2%N, 5%N)]); (7000, OAccept 1 5); (7100, ORestart); (7200, OTransmit 1 5)] in
  wf_times h
  /\ run c h = [RB true; RB true; RB true; RB false; RB true; RU; RB false; RBL true [false; true]; RB true; RU; RB false]
  /\ C06_check c (zip3 h (run c h)) = true.
Proof.
  split; [|split].
  - unfold wf_times; simpl; lia.
  - vm_compute. reflexivity.
  - vm_compute. reflexivity.
Qed.
