(* C04 — reports partition agreed performables within batch, gas and upkeep limits.
   Property theorems only; proofs live in Proofs/ReportsProofs.v. *)
From Verif Require Import Base.Util Model.Reports Proofs.ReportsProofs Gen.Generated.
From Verif Require Import Base.GenIR Gen.GeneratedTr Proofs.GenTrReports.
Open Scope N_scope.

(* Full statement: for every off-chain configuration with batch size >= 1 (gas limit and
   overhead are uint32) and every list of agreed performables with gas allocations below
   2^62 (any length, repeated upkeep ids allowed), the reports of the current code
     - concatenate to exactly the performables, in order (each exactly once, nothing else),
     - are each non-empty, at most batch-size long, free of repeated upkeep ids, and within
       the gas limit (allocated gas + per-upkeep overhead) unless they hold a single upkeep. *)
Theorem C04_reports_partition_and_limits :
  forall c ps, wf_cfg c -> wf_perfs ps -> C04_spec c ps (reports true c ps).
Proof. exact reports_spec. Qed.
Print Assumptions C04_reports_partition_and_limits.

(* The same for every configuration an operator can write: DecodeOffchainConfig applies
   ensureMinimumDefaults (batch size <= 0 -> 1, gas limit 0 -> 5,300,000, overhead 0 -> 300,000),
   so no hypothesis on the configuration is left beyond the uint32 width of the two gas fields. *)
Theorem C04_any_operator_config :
  forall r ps, rw_limit r < two32 -> rw_over r < two32 -> wf_perfs ps ->
  C04_spec (cfg_of_raw r) ps (reports true (cfg_of_raw r) ps).
Proof. exact reports_spec_any_config. Qed.
Print Assumptions C04_any_operator_config.

(* The defaults guarantee batch size >= 1 and non-zero gas figures, and leave in-range values alone. *)
Theorem C04_defaults_nonzero :
  forall r, (1 <= c_batch (cfg_of_raw r))%Z /\ 0 < c_limit (cfg_of_raw r) /\ 0 < c_over (cfg_of_raw r).
Proof. exact defaults_nonzero. Qed.
Print Assumptions C04_defaults_nonzero.

Theorem C04_defaults_keep_valid_values :
  forall r, (1 <= rw_batch r)%Z -> 0 < rw_limit r -> 0 < rw_over r ->
  cfg_of_raw r = mkCfg (rw_batch r) (rw_limit r) (rw_over r).
Proof. exact defaults_keep. Qed.
Print Assumptions C04_defaults_keep_valid_values.

Theorem C04_defaults_idempotent :
  forall r, ensure_defaults (ensure_defaults r) = ensure_defaults r.
Proof. exact defaults_idempotent. Qed.
Print Assumptions C04_defaults_idempotent.

(* The partition clause needs no hypothesis at all (any configuration, any gas values). *)
Theorem C04_partition_unconditional :
  forall g c ps, concat (reports g c ps) = ps.
Proof. exact reports_partition_any. Qed.
Print Assumptions C04_partition_unconditional.

(* The boolean checker applied to the implementation's observed reports decides the spec. *)
Theorem C04_checker_sound :
  forall c ps obs, C04_check c ps obs = true -> C04_spec c ps obs.
Proof. exact C04_check_sound. Qed.
Print Assumptions C04_checker_sound.

Theorem C04_checker_complete :
  forall c ps obs, C04_spec c ps obs -> C04_check c ps obs = true.
Proof. exact C04_check_complete. Qed.
Print Assumptions C04_checker_complete.

(* Report count never exceeds the number of performables. *)
Theorem C04_report_count :
  forall c ps, wf_cfg c -> wf_perfs ps -> (length (reports true c ps) <= length ps)%nat.
Proof. exact reports_count. Qed.
Print Assumptions C04_report_count.

(* The pinned commit's code (gas clause not guarded by a non-empty batch) violated the
   non-emptiness clause; this is finding 3, repaired by a fix: commit in /repo. *)
Theorem C04_unguarded_refuted :
  exists c ps, wf_cfg c /\ wf_perfs ps /\ ~ C04_spec c ps (reports false c ps).
Proof. exact reports_unguarded_refuted. Qed.
Print Assumptions C04_unguarded_refuted.

(* An encoder error on call k returns a prefix of the reports. *)
Theorem C04_encoder_error_prefix :
  forall g c ps k, exists rest, reports g c ps = fst (reports_err g c ps k) ++ rest.
Proof. exact reports_err_prefix. Qed.
Print Assumptions C04_encoder_error_prefix.

(* Obligation against the regenerated constants: the advertised MaxReportCount is at least
   the cap on agreed performables, hence (C04_report_count) at least the number of reports. *)
Theorem C04_gen_report_count_covers_agreed :
  (OutcomeAgreedPerformablesLimit <= MaxReportCount)%Z.
Proof. vm_compute. discriminate. Qed.
Print Assumptions C04_gen_report_count_covers_agreed.

Section GenTie.
Local Open Scope Z_scope.
(* ---- Tie to the source by translation (Gen/GeneratedTr.v, regenerated from /repo on every run by gen/translate.go) ----
   g_* are the decision terms translated from the CURRENT Go code: every condition, the branch structure and which
   white-listed effect statement runs on which path.  The theorems below state that the model's functions - about
   which every theorem above speaks - are the interpretation of these terms (Z scope inside the generated terms). *)
(* Reports, loop body: the generated term flushes exactly when the model's flush_cond holds (batch full, or non-empty batch and gas + overhead over the limit with uint64 wrap-around, or upkeep id already in the batch) *)
Theorem C04_gen_flush_condition :
  forall c s p e,
  reports_body_atoms c s p e =
  if flush_cond true c s p then (if e then ([], RetO 1) else ([1; 2; 3; 4; 5; 6; 7], Fall)) else ([5; 6; 7], Fall).
Proof. exact reports_flush_cond_gen. Qed.
Print Assumptions C04_gen_flush_condition.

(* Reports, loop body with the encoder succeeding: the model's rstep is the interpretation of the generated body *)
Theorem C04_gen_loop_decisions :
  forall c s p,
  rstep true c s p =
  match reports_body_atoms c s p false with
  | ([1; 2; 3; 4; 5; 6; 7], Fall) => radd c (mkR [] 0 [] (r_acc s ++ [r_cur s])) p
  | ([5; 6; 7], Fall) => radd c s p
  | _ => s
  end.
Proof. exact gen_reports_body. Qed.
Print Assumptions C04_gen_loop_decisions.

(* Reports, loop body with the encoder failing: (reports so far, error) is returned exactly when a flush is due *)
Theorem C04_gen_loop_encoder_error :
  forall c s p,
  reports_body_atoms c s p true = if flush_cond true c s p then ([], RetO 1) else ([5; 6; 7], Fall).
Proof. exact gen_reports_body_encoder_error. Qed.
Print Assumptions C04_gen_loop_encoder_error.

(* Reports, after the loop: a non-empty running batch is emitted - the model's rfinish *)
Theorem C04_gen_final_flush :
  forall s,
  rfinish s =
  match g_reports false (Z.of_nat (length (r_cur s))) false with
  | ([1; 2], RetO 3) => r_acc s ++ [r_cur s]
  | _ => r_acc s
  end.
Proof. exact gen_reports_finish. Qed.
Print Assumptions C04_gen_final_flush.

(* Reports, whole function: decode error returns (nil, err); an encoder error at the final flush returns (reports, err) *)
Theorem C04_gen_error_returns :
  forall n (e : bool),
  g_reports true n e = ([], RetO 1) /\
  (0 < n -> g_reports false n true = ([1], RetO 2)).
Proof. exact gen_reports_errors. Qed.
Print Assumptions C04_gen_error_returns.

(* ensureMinimumDefaults: the model's ensure_defaults is the translated function - the assignments it performs, in
   order, applied to the configuration (1 lockout, 2 probability, 3 rounds, 4 confirmations, 5 gas limit 5,300,000,
   6 overhead 300,000, 7 batch size 1) *)
Theorem C04_gen_config_defaults :
  forall r,
  ensure_defaults r = fold_left cfg_action (fst (cfg_defaults_atoms r)) r /\ snd (cfg_defaults_atoms r) = Fall.
Proof. exact gen_cfg_defaults. Qed.
Print Assumptions C04_gen_config_defaults.

(* DecodeOffchainConfig: every configuration returned without error went through the defaults *)
Theorem C04_gen_config_decode :
  g_cfg_decode false = ([1], RetO 2) /\ g_cfg_decode true = ([], RetO 1).
Proof. exact gen_cfg_decode. Qed.
Print Assumptions C04_gen_config_decode.

End GenTie.

(* Non-vacuity: a concrete configuration and a 5-element list with a repeated upkeep id and
   an over-limit gas allocation satisfy the hypotheses, and the model produces 4 reports. *)
Example C04_any_operator_config_nonvacuous :
  let r := mkRaw 0 0 0 (-1) 0 0 (-3) in
  rw_limit r < two32 /\ rw_over r < two32 /\ cfg_of_raw r = mkCfg 1 5300000 300000.
Proof. vm_compute. repeat split; reflexivity. Qed.

Example C04_nonvacuous :
  let c := mkCfg 2 1000 10 in
  let ps := [mkPerf 1 100 1; mkPerf 1 100 2; mkPerf 2 5000 3; mkPerf 3 400 4; mkPerf 4 500 5] in
  wf_cfg c /\ wf_perfs ps /\ length (reports true c ps) = 4%nat.
Proof.
  split; [|split].
  - unfold wf_cfg, two32; simpl; lia.
  - unfold wf_perfs, two62; repeat constructor.
  - vm_compute. reflexivity.
Qed.
