(* C04 — reports partition agreed performables within batch, gas and upkeep limits.
   Property theorems only; proofs live in Proofs/ReportsProofs.v. *)
From Verif Require Import Base.Util Model.Reports Proofs.ReportsProofs Gen.Generated.
Open Scope N_scope.

(* Full statement: for every off-chain configuration with batch size >= 1 (gas limit and
   overhead are uint32) and every list of agreed performables with gas allocations below
   2^62 (any length, repeated upkeep ids allowed), the reports of the current code
     - concatenate to exactly the performables, in order (each exactly once, nothing else),
     - are each non-empty, at most batch-size long, free of repeated upkeep ids, and within
       the gas limit (allocated gas + per-upkeep overhead) unless they hold a single upkeep. *)
Theorem C04_reports_partition_and_limits :
  forall c ps, wf_cfg c -> wf_perfs ps -> C04_spec c ps (reports true c ps).
Proof. exact reports_spec. Qed.
Print Assumptions C04_reports_partition_and_limits.

(* The partition clause needs no hypothesis at all (any configuration, any gas values). *)
Theorem C04_partition_unconditional :
  forall g c ps, concat (reports g c ps) = ps.
Proof. exact reports_partition_any. Qed.
Print Assumptions C04_partition_unconditional.

(* The boolean checker applied to the implementation's observed reports decides the spec. *)
Theorem C04_checker_sound :
  forall c ps obs, C04_check c ps obs = true -> C04_spec c ps obs.
Proof. exact C04_check_sound. Qed.
Print Assumptions C04_checker_sound.

Theorem C04_checker_complete :
  forall c ps obs, C04_spec c ps obs -> C04_check c ps obs = true.
Proof. exact C04_check_complete. Qed.
Print Assumptions C04_checker_complete.

(* Report count never exceeds the number of performables. *)
Theorem C04_report_count :
  forall c ps, wf_cfg c -> wf_perfs ps -> (length (reports true c ps) <= length ps)%nat.
Proof. exact reports_count. Qed.
Print Assumptions C04_report_count.

(* The pinned commit's code (gas clause not guarded by a non-empty batch) violated the
   non-emptiness clause; this is finding 3, repaired by a fix: commit in /repo. *)
Theorem C04_unguarded_refuted :
  exists c ps, wf_cfg c /\ wf_perfs ps /\ ~ C04_spec c ps (reports false c ps).
Proof. exact reports_unguarded_refuted. Qed.
Print Assumptions C04_unguarded_refuted.

(* An encoder error on call k returns a prefix of the reports. *)
Theorem C04_encoder_error_prefix :
  forall g c ps k, exists rest, reports g c ps = fst (reports_err g c ps k) ++ rest.
Proof. exact reports_err_prefix. Qed.
Print Assumptions C04_encoder_error_prefix.

(* Obligation against the regenerated constants: the advertised MaxReportCount is at least
   the cap on agreed performables, hence (C04_report_count) at least the number of reports. *)
Theorem C04_gen_report_count_covers_agreed :
  (OutcomeAgreedPerformablesLimit <= MaxReportCount)%Z.
Proof. vm_compute. discriminate. Qed.
Print Assumptions C04_gen_report_count_covers_agreed.

(* Non-vacuity: a concrete configuration and a 5-element list with a repeated upkeep id and
   an over-limit gas allocation satisfy the hypotheses, and the model produces 4 reports. *)
Example C04_nonvacuous :
  let c := mkCfg 2 1000 10 in
  let ps := [mkPerf 1 100 1; mkPerf 1 100 2; mkPerf 2 5000 3; mkPerf 3 400 4; mkPerf 4 500 5] in
  wf_cfg c /\ wf_perfs ps /\ length (reports true c ps) = 4%nat.
Proof.
  split; [|split].
  - unfold wf_cfg, two32; simpl; lia.
  - unfold wf_perfs, two62; repeat constructor.
  - vm_compute. reflexivity.
Qed.
