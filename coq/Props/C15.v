(* C15 — observation / outcome wire format: faithful round trip, strict checks.
   Property theorems only; proofs live in Proofs/ValidateProofs.v and Proofs/WireProofs.v.

   Models: Model/Validate.v (validateAutomationObservation / validateAutomationOutcome and the
   three per-item validators, statement by statement, first error first; utg / wg are the
   injected UpkeepTypeGetter / WorkIDGenerator, arbitrary functions here) and Model/Wire.v
   (the JSON text of exactly this schema and a parser for it).

   NOT expressed by any model (partial, searched by the harness only): "decoding arbitrary bytes
   returns an error rather than panicking" is memory safety of goccy/go-json and encoding/json. *)
From Verif Require Import Base.Util Model.Types Model.Validate Model.Wire
  Proofs.ValidateProofs Proofs.WireProofs Gen.Generated.
From Verif Require Import Base.GenIR Gen.GeneratedTr Proofs.GenTrValidate.
Open Scope N_scope.

Section Rules.
  Variable utg : N -> N.
  Variable wg : N -> trigger -> N.

  (* ---- acceptance is exactly the conjunction of the documented rules ---- *)
  Theorem C15_rules : forall o, valid_obs utg wg o = true <-> obs_rules utg wg o.
  Proof. exact (valid_obs_iff utg wg). Qed.

  Theorem C15_outcome_rules : forall o, valid_outcome utg wg o = true <-> outcome_rules utg wg o.
  Proof. exact (valid_outcome_iff utg wg). Qed.

  (* the constants in the source are the documented ones (re-checked against Gen/Generated.v) *)
  Theorem C15_limits_as_documented :
    ObservationPerformablesLimit = 100%Z /\ ObservationConditionalsProposalsLimit = 5%Z /\
    ObservationLogRecoveryProposalsLimit = 5%Z /\ ObservationBlockHistoryLimit = 256%Z /\
    OutcomeAgreedPerformablesLimit = 100%Z /\ OutcomeSurfacedProposalsRoundHistoryLimit = 20%Z /\
    OutcomeSurfacedProposalsLimit = 50%Z.
  Proof. repeat split; reflexivity. Qed.

  (* ---- every rule is enforced on its own: breaking it makes validation fail whatever the
          other fields are ---- *)
  Theorem C15_performables_limit_enforced :
    forall o, (length (o_perf o) > 100)%nat -> valid_obs utg wg o = false.
  Proof. intros o H. apply obs_perf_limit. unfold doc_perf_limit. lia. Qed.

  Theorem C15_proposals_limit_enforced :
    forall o, (length (o_props o) > 10)%nat -> valid_obs utg wg o = false.
  Proof. intros o H. apply obs_props_limit. unfold doc_props_limit. lia. Qed.

  Theorem C15_conditional_proposals_limit_enforced :
    forall o, (count_type utg ut_cond (o_props o) > 5)%nat -> valid_obs utg wg o = false.
  Proof. intros o H. apply obs_cond_limit. unfold doc_cond_limit. lia. Qed.

  Theorem C15_log_proposals_limit_enforced :
    forall o, (count_type utg ut_log (o_props o) > 5)%nat -> valid_obs utg wg o = false.
  Proof. intros o H. apply obs_log_limit. unfold doc_log_limit. lia. Qed.

  Theorem C15_block_history_limit_enforced :
    forall o, (length (o_hist o) > 256)%nat -> valid_obs utg wg o = false.
  Proof. intros o H. apply obs_hist_limit. unfold doc_hist_limit. lia. Qed.

  Theorem C15_duplicate_block_numbers_enforced :
    forall o, ~ NoDup (map bk_num (o_hist o)) -> valid_obs utg wg o = false.
  Proof. exact (obs_hist_dup utg wg). Qed.

  Theorem C15_duplicate_performable_workids_enforced :
    forall o, ~ NoDup (map r_wid (o_perf o)) -> valid_obs utg wg o = false.
  Proof. exact (obs_perf_dup utg wg). Qed.

  Theorem C15_duplicate_proposal_workids_enforced :
    forall o, ~ NoDup (map p_wid (o_props o)) -> valid_obs utg wg o = false.
  Proof. exact (obs_props_dup utg wg). Qed.

  (* per-result rules: one offending result anywhere in the list suffices *)
  Theorem C15_wrong_workid_enforced :
    forall o r, In r (o_perf o) -> wg (r_upk r) (r_trig r) <> r_wid r -> valid_obs utg wg o = false.
  Proof. intros o r Hin H. eapply obs_bad_result; [exact Hin | apply bad_workid; exact H]. Qed.

  Theorem C15_failed_state_enforced :
    forall o r, In r (o_perf o) -> r_state r <> 0 -> valid_obs utg wg o = false.
  Proof. intros o r Hin H. eapply obs_bad_result; [exact Hin | apply bad_state; exact H]. Qed.

  Theorem C15_retryable_enforced :
    forall o r, In r (o_perf o) -> r_retryable r = true -> valid_obs utg wg o = false.
  Proof. intros o r Hin H. eapply obs_bad_result; [exact Hin | apply bad_retryable; exact H]. Qed.

  Theorem C15_ineligible_enforced :
    forall o r, In r (o_perf o) -> r_eligible r = false -> valid_obs utg wg o = false.
  Proof. intros o r Hin H. eapply obs_bad_result; [exact Hin | apply bad_ineligible; exact H]. Qed.

  Theorem C15_ineligibility_reason_enforced :
    forall o r, In r (o_perf o) -> r_reason r <> 0 -> valid_obs utg wg o = false.
  Proof. intros o r Hin H. eapply obs_bad_result; [exact Hin | apply bad_reason; exact H]. Qed.

  Theorem C15_extension_on_condition_upkeep_enforced :
    forall o r e, In r (o_perf o) -> utg (r_upk r) = ut_cond -> t_ext (r_trig r) = Some e ->
                  valid_obs utg wg o = false.
  Proof. intros o r e Hin H1 H2. eapply obs_bad_result; [exact Hin | eapply bad_ext_cond; eassumption]. Qed.

  Theorem C15_missing_extension_on_log_upkeep_enforced :
    forall o r, In r (o_perf o) -> utg (r_upk r) = ut_log -> t_ext (r_trig r) = None ->
                valid_obs utg wg o = false.
  Proof. intros o r Hin H1 H2. eapply obs_bad_result; [exact Hin | eapply bad_ext_log; eassumption]. Qed.

  Theorem C15_zero_gas_enforced :
    forall o r, In r (o_perf o) -> r_gas r = 0 -> valid_obs utg wg o = false.
  Proof. intros o r Hin H. eapply obs_bad_result; [exact Hin | apply bad_gas; exact H]. Qed.

  Theorem C15_fast_gas_absent_enforced :
    forall o r, In r (o_perf o) -> r_fgw r = None -> valid_obs utg wg o = false.
  Proof.
    intros o r Hin H. eapply obs_bad_result; [exact Hin | apply bad_fgw, bad_price; left; exact H].
  Qed.

  Theorem C15_fast_gas_negative_enforced :
    forall o r v, In r (o_perf o) -> r_fgw r = Some v -> (v < 0)%Z -> valid_obs utg wg o = false.
  Proof.
    intros o r v Hin H Hv. eapply obs_bad_result; [exact Hin | apply bad_fgw, bad_price; right; exists v; auto].
  Qed.

  Theorem C15_fast_gas_above_uint256_enforced :
    forall o r v, In r (o_perf o) -> r_fgw r = Some v -> (v > 2 ^ 256 - 1)%Z -> valid_obs utg wg o = false.
  Proof.
    intros o r v Hin H Hv. eapply obs_bad_result; [exact Hin | apply bad_fgw, bad_price; right; exists v; auto].
  Qed.

  Theorem C15_link_native_absent_enforced :
    forall o r, In r (o_perf o) -> r_ln r = None -> valid_obs utg wg o = false.
  Proof.
    intros o r Hin H. eapply obs_bad_result; [exact Hin | apply bad_ln, bad_price; left; exact H].
  Qed.

  Theorem C15_link_native_negative_enforced :
    forall o r v, In r (o_perf o) -> r_ln r = Some v -> (v < 0)%Z -> valid_obs utg wg o = false.
  Proof.
    intros o r v Hin H Hv. eapply obs_bad_result; [exact Hin | apply bad_ln, bad_price; right; exists v; auto].
  Qed.

  Theorem C15_link_native_above_uint256_enforced :
    forall o r v, In r (o_perf o) -> r_ln r = Some v -> (v > 2 ^ 256 - 1)%Z -> valid_obs utg wg o = false.
  Proof.
    intros o r v Hin H Hv. eapply obs_bad_result; [exact Hin | apply bad_ln, bad_price; right; exists v; auto].
  Qed.

  (* per-proposal rules *)
  Theorem C15_proposal_wrong_workid_enforced :
    forall o p, In p (o_props o) -> wg (p_upk p) (p_trig p) <> p_wid p -> valid_obs utg wg o = false.
  Proof. intros o p Hin H. eapply obs_bad_proposal; [exact Hin | apply bad_prop_workid; exact H]. Qed.

  Theorem C15_proposal_extension_on_condition_upkeep_enforced :
    forall o p e, In p (o_props o) -> utg (p_upk p) = ut_cond -> t_ext (p_trig p) = Some e ->
                  valid_obs utg wg o = false.
  Proof. intros o p e Hin H1 H2. eapply obs_bad_proposal; [exact Hin | eapply bad_prop_ext_cond; eassumption]. Qed.

  Theorem C15_proposal_missing_extension_on_log_upkeep_enforced :
    forall o p, In p (o_props o) -> utg (p_upk p) = ut_log -> t_ext (p_trig p) = None ->
                valid_obs utg wg o = false.
  Proof. intros o p Hin H1 H2. eapply obs_bad_proposal; [exact Hin | eapply bad_prop_ext_log; eassumption]. Qed.

  (* outcome *)
  Theorem C15_outcome_performables_limit_enforced :
    forall o, (length (oc_agreed o) > 100)%nat -> valid_outcome utg wg o = false.
  Proof. intros o H. apply outcome_agreed_limit. unfold doc_agreed_limit. lia. Qed.

  Theorem C15_outcome_rounds_limit_enforced :
    forall o, (length (oc_surfaced o) > 20)%nat -> valid_outcome utg wg o = false.
  Proof. intros o H. apply outcome_rounds_limit. unfold doc_rounds_limit. lia. Qed.

  Theorem C15_outcome_per_round_limit_enforced :
    forall o rd, In rd (oc_surfaced o) -> (length rd > 50)%nat -> valid_outcome utg wg o = false.
  Proof. intros o rd Hin H. eapply outcome_round_limit; [exact Hin | unfold doc_round_limit; lia]. Qed.

  Theorem C15_outcome_duplicate_performable_workids_enforced :
    forall o, ~ NoDup (map r_wid (oc_agreed o)) -> valid_outcome utg wg o = false.
  Proof. exact (outcome_agreed_dup utg wg). Qed.

  Theorem C15_outcome_duplicates_across_rounds_enforced :
    forall o, ~ NoDup (map p_wid (concat (oc_surfaced o))) -> valid_outcome utg wg o = false.
  Proof. exact (outcome_surfaced_dup utg wg). Qed.

  Theorem C15_outcome_bad_result_enforced :
    forall o r, In r (oc_agreed o) -> ~ result_rules utg wg r -> valid_outcome utg wg o = false.
  Proof. exact (outcome_bad_result utg wg). Qed.

  Theorem C15_outcome_bad_proposal_enforced :
    forall o rd p, In rd (oc_surfaced o) -> In p rd -> ~ proposal_rules utg wg p -> valid_outcome utg wg o = false.
  Proof. exact (outcome_bad_proposal utg wg). Qed.

  (* ---- checker K (used on the implementation's observed accept/reject) decides the spec ---- *)
  Theorem C15_checker_sound_obs :
    forall o accepted same, C15_check_obs utg wg o accepted same = true <-> C15_spec_obs utg wg o accepted same.
  Proof. exact (C15_check_obs_sound utg wg). Qed.

  Theorem C15_checker_sound_outcome :
    forall o accepted same, C15_check_outcome utg wg o accepted same = true <-> C15_spec_outcome utg wg o accepted same.
  Proof. exact (C15_check_outcome_sound utg wg). Qed.
End Rules.

Print Assumptions C15_rules.
Print Assumptions C15_outcome_rules.
Print Assumptions C15_limits_as_documented.
Print Assumptions C15_performables_limit_enforced.
Print Assumptions C15_proposals_limit_enforced.
Print Assumptions C15_conditional_proposals_limit_enforced.
Print Assumptions C15_log_proposals_limit_enforced.
Print Assumptions C15_block_history_limit_enforced.
Print Assumptions C15_duplicate_block_numbers_enforced.
Print Assumptions C15_duplicate_performable_workids_enforced.
Print Assumptions C15_duplicate_proposal_workids_enforced.
Print Assumptions C15_wrong_workid_enforced.
Print Assumptions C15_failed_state_enforced.
Print Assumptions C15_retryable_enforced.
Print Assumptions C15_ineligible_enforced.
Print Assumptions C15_ineligibility_reason_enforced.
Print Assumptions C15_extension_on_condition_upkeep_enforced.
Print Assumptions C15_missing_extension_on_log_upkeep_enforced.
Print Assumptions C15_zero_gas_enforced.
Print Assumptions C15_fast_gas_absent_enforced.
Print Assumptions C15_fast_gas_negative_enforced.
Print Assumptions C15_fast_gas_above_uint256_enforced.
Print Assumptions C15_link_native_absent_enforced.
Print Assumptions C15_link_native_negative_enforced.
Print Assumptions C15_link_native_above_uint256_enforced.
Print Assumptions C15_proposal_wrong_workid_enforced.
Print Assumptions C15_proposal_extension_on_condition_upkeep_enforced.
Print Assumptions C15_proposal_missing_extension_on_log_upkeep_enforced.
Print Assumptions C15_outcome_performables_limit_enforced.
Print Assumptions C15_outcome_rounds_limit_enforced.
Print Assumptions C15_outcome_per_round_limit_enforced.
Print Assumptions C15_outcome_duplicate_performable_workids_enforced.
Print Assumptions C15_outcome_duplicates_across_rounds_enforced.
Print Assumptions C15_outcome_bad_result_enforced.
Print Assumptions C15_outcome_bad_proposal_enforced.
Print Assumptions C15_checker_sound_obs.
Print Assumptions C15_checker_sound_outcome.

(* ---- round trip: decoding the encoding of ANY value (no size bound) gives the value back.
   The equality is exact at the wire level, where Go's nil and empty slices are different
   values (None / Some []): the codec keeps them apart (`null` vs `[]` / `""`).  Hypothesis
   [wf_obs]: perform data are bytes (< 256) and work ids are ASCII strings (< 128); hashes,
   ids and all numbers are unrestricted.  At the agreement level (Model/Types, through
   [abs_obs]) nil and empty perform data / lists are identified, which is the equivalence the
   protocol-level models work modulo. ---- *)
Theorem C15_roundtrip : forall o, wf_obs o -> dec_obs (enc_obs o) = Some o.
Proof. exact dec_enc_obs. Qed.
Print Assumptions C15_roundtrip.

Theorem C15_roundtrip_outcome : forall o, wf_outcome o -> dec_outcome (enc_outcome o) = Some o.
Proof. exact dec_enc_outcome. Qed.
Print Assumptions C15_roundtrip_outcome.

(* no two distinct values share an encoding *)
Theorem C15_encoding_injective :
  forall a b, wf_obs a -> wf_obs b -> enc_obs a = enc_obs b -> a = b.
Proof. exact enc_obs_inj. Qed.
Print Assumptions C15_encoding_injective.

Theorem C15_outcome_encoding_injective :
  forall a b, wf_outcome a -> wf_outcome b -> enc_outcome a = enc_outcome b -> a = b.
Proof. exact enc_outcome_inj. Qed.
Print Assumptions C15_outcome_encoding_injective.

(* the whole Decode (parse, then validate the abstraction under any interning [iota]) applied
   to an encoding: accepted exactly when the rules hold, and then the very value comes back;
   otherwise the first broken rule is reported *)
Theorem C15_decode_of_encode :
  forall iota utg wg o, wf_obs o ->
    decode_obs iota utg wg (enc_obs o) =
    match obs_err utg wg (abs_obs iota o) with ok => D_ok o | e => D_invalid e end.
Proof. exact decode_obs_enc. Qed.
Print Assumptions C15_decode_of_encode.

Theorem C15_decode_of_encode_outcome :
  forall iota utg wg o, wf_outcome o ->
    decode_outcome iota utg wg (enc_outcome o) =
    match outcome_err utg wg (abs_outcome iota o) with ok => D_ok o | e => D_invalid e end.
Proof. exact decode_outcome_enc. Qed.
Print Assumptions C15_decode_of_encode_outcome.

(* soundness of the whole decode on ANY text the parser reads: what is accepted meets every
   documented rule (so a message that breaks a rule is never accepted) *)
Theorem C15_decode_accepts_only_rule_abiding :
  forall iota utg wg s w, decode_obs iota utg wg s = D_ok w ->
    dec_obs s = Some w /\ obs_rules utg wg (abs_obs iota w).
Proof. exact decode_obs_sound. Qed.
Print Assumptions C15_decode_accepts_only_rule_abiding.

Theorem C15_decode_accepts_only_rule_abiding_outcome :
  forall iota utg wg s w, decode_outcome iota utg wg s = D_ok w ->
    dec_outcome s = Some w /\ outcome_rules utg wg (abs_outcome iota w).
Proof. exact decode_outcome_sound. Qed.
Print Assumptions C15_decode_accepts_only_rule_abiding_outcome.

(* the equivalence the agreement level works modulo: a nil slice and an empty one (perform
   data, the lists of results / proposals / blocks / rounds) are different wire values - kept
   apart by C15_roundtrip - with one and the same abstraction, hence the same verdict *)
Theorem C15_nil_and_empty_have_one_abstraction :
  forall iota o, abs_obs iota (norm_obs o) = abs_obs iota o.
Proof. exact abs_norm_obs. Qed.
Print Assumptions C15_nil_and_empty_have_one_abstraction.

Theorem C15_nil_and_empty_have_one_abstraction_outcome :
  forall iota o, abs_outcome iota (norm_outcome o) = abs_outcome iota o.
Proof. exact abs_norm_outcome. Qed.
Print Assumptions C15_nil_and_empty_have_one_abstraction_outcome.

(* ---- non-vacuity ---- *)
Definition ex_utg (u : N) : N := if u =? 2 then 1 else 0.
Definition ex_wg (u : N) (t : trigger) : N :=
  match t_ext t with Some e => 100 * u + le_index e | None => 100 * u end.
Definition ex_res1 : result :=
  mkRes 0 false true 0 1 (mkTrig 10 7 None) 100 5 [1; 2] (Some 3%Z) (Some (2 ^ 256 - 1)%Z).
Definition ex_res2 : result :=
  mkRes 0 false true 0 2 (mkTrig 10 7 (Some (mkExt 9 4 8 6))) 204 5 [] (Some 0%Z) (Some 1%Z).
Definition ex_obs : observation :=
  mkObs [ex_res1; ex_res2] [mkProp 1 (mkTrig 3 4 None) 100; mkProp 2 (mkTrig 3 4 (Some (mkExt 9 5 8 6))) 205]
        [mkBK 10 7; mkBK 9 6].

Example C15_nonvacuous_rules :
  valid_obs ex_utg ex_wg ex_obs = true /\ obs_rules ex_utg ex_wg ex_obs /\
  (* breaking one rule only *)
  valid_obs ex_utg ex_wg (mkObs [ex_res1; ex_res2; ex_res1] [] []) = false /\
  valid_obs ex_utg ex_wg (mkObs [mkRes 0 false true 0 1 (mkTrig 10 7 None) 100 0 [] (Some 3%Z) (Some 1%Z)] [] []) = false.
Proof.
  assert (H : valid_obs ex_utg ex_wg ex_obs = true) by (vm_compute; reflexivity).
  split; [exact H|]. split; [apply C15_rules; exact H|]. split; vm_compute; reflexivity.
Qed.

Definition ex_wres : wres :=
  mkWRes 0 false true 0 [12; 1; 243; 0] (mkWTrig 10 [98; 108] (Some (mkWExt [116] 4 [108] 7)))
         [97; 60; 34; 92; 10; 8; 1; 127] 18446744073709551615 (Some [1; 2; 3; 255])
         (Some (2 ^ 256 - 1)%Z) (Some (-7)%Z).
Definition ex_wobs : wobs :=
  mkWObs (Some [ex_wres; ex_wres]) (Some [mkWProp [12] (mkWTrig 1 [0; 0] None) [97; 8; 12; 60]]) None.
Definition ex_wout : wout :=
  mkWOut (Some []) (Some [None; Some []; Some [mkWProp [] (mkWTrig 0 [] None) []]]).

Section GenTie.
Local Open Scope Z_scope.
(* ---- Tie to the source by translation (Gen/GeneratedTr.v, regenerated from /repo on every run by gen/translate.go) ----
   g_* are the decision terms translated from the CURRENT Go code: every condition, the branch structure and which
   white-listed effect statement runs on which path.  The theorems below state that the model's functions - about
   which every theorem above speaks - are the interpretation of these terms. *)
(* validateTriggerExtensionType: the model's check_ext is the interpretation of the generated term *)
Theorem C15_gen_trigger_extension_decisions :
  forall t ut,
    check_ext t ut =
    verr_of ok (snd (g_val_ext (Z.of_N ut) (Z.of_N ut_cond) (Z.of_N ut_log) (negb (isNone (t_ext t))) (isNone (t_ext t)))).
Proof. exact gen_val_ext. Qed.
Print Assumptions C15_gen_trigger_extension_decisions.

(* validateCheckResult: the model's check_result is the interpretation of the generated term, rule by rule and in the source's order (which error is reported) *)
Theorem C15_gen_check_result_decisions :
  forall (utg : N -> N) (wg : N -> trigger -> N),
  forall r,
    let ext := check_ext (r_trig r) (utg (r_upk r)) in
    check_result utg wg r =
    verr_of ext (snd (g_val_result (Z.of_N (r_state r)) (r_retryable r) (r_eligible r) (Z.of_N (r_reason r))
                                   (negb (is_ok ext)) (Z.of_N (wg (r_upk r) (r_trig r))) (Z.of_N (r_wid r)) (Z.of_N (r_gas r))
                                   (isNone (r_fgw r)) (cmpz (oz (r_fgw r)) 0) (cmpz (oz (r_fgw r)) uint256_max)
                                   (isNone (r_ln r)) (cmpz (oz (r_ln r)) 0) (cmpz (oz (r_ln r)) uint256_max))).
Proof. exact gen_val_result. Qed.
Print Assumptions C15_gen_check_result_decisions.

(* validateUpkeepProposal: the model's check_proposal is the interpretation *)
Theorem C15_gen_proposal_decisions :
  forall (utg : N -> N) (wg : N -> trigger -> N),
  forall p,
    let ext := check_ext (p_trig p) (utg (p_upk p)) in
    check_proposal utg wg p =
    verr_of ext (snd (g_val_proposal (negb (is_ok ext)) (Z.of_N (wg (p_upk p) (p_trig p))) (Z.of_N (p_wid p)))).
Proof. exact gen_val_proposal. Qed.
Print Assumptions C15_gen_proposal_decisions.

(* validateAutomationObservation, block-history loop: the model's check_hist, one step *)
Theorem C15_gen_observation_history_loop :
  forall seen b t,
    check_hist seen (b :: t) =
    match g_val_obs_hist_body (memN (bk_num b) seen) with
    | ([1], Fall) => check_hist (bk_num b :: seen) t
    | (_, l) => verr_of ok l
    end.
Proof. exact gen_val_obs_hist_body. Qed.
Print Assumptions C15_gen_observation_history_loop.

(* validateAutomationObservation, performables loop: the model's check_results, one step *)
Theorem C15_gen_observation_performables_loop :
  forall (utg : N -> N) (wg : N -> trigger -> N),
  forall seen r t,
    let inner := check_result utg wg r in
    check_results utg wg seen (r :: t) =
    match g_val_obs_perf_body (negb (is_ok inner)) (memN (r_wid r) seen) with
    | ([1], Fall) => check_results utg wg (r_wid r :: seen) t
    | (_, l) => verr_of inner l
    end.
Proof. exact gen_val_obs_perf_body. Qed.
Print Assumptions C15_gen_observation_performables_loop.

(* validateAutomationObservation, proposals loop: the model's check_proposals, one step, and the per-type counters *)
Theorem C15_gen_observation_proposals_loop :
  forall (utg : N -> N) (wg : N -> trigger -> N),
  forall seen p t,
    let inner := check_proposal utg wg p in
    let d := g_val_obs_prop_body (negb (is_ok inner)) (memN (p_wid p) seen) (Z.of_N (utg (p_upk p))) (Z.of_N ut_cond) (Z.of_N ut_log) in
    check_proposals utg wg seen (p :: t) =
    match d with
    | (1 :: _, Fall) => check_proposals utg wg (p_wid p :: seen) t
    | (_, l) => verr_of inner l
    end
    (* and the two counters: a proposal is counted as conditional / log exactly by its upkeep type *)
    /\ (snd d = Fall -> existsb (Z.eqb 2) (fst d) = (utg (p_upk p) =? ut_cond)%N
                        /\ existsb (Z.eqb 3) (fst d) = ((utg (p_upk p) =? ut_log)%N && negb (utg (p_upk p) =? ut_cond)%N)).
Proof. exact gen_val_obs_prop_body. Qed.
Print Assumptions C15_gen_observation_proposals_loop.

(* validateAutomationObservation, whole function: the length rules with the limits read from the source, in source order *)
Theorem C15_gen_observation_length_rules :
  forall n_hist n_perf n_props n_cond n_log,
    g_val_obs n_hist ObservationBlockHistoryLimit n_perf ObservationPerformablesLimit n_props
              ObservationConditionalsProposalsLimit ObservationLogRecoveryProposalsLimit n_cond n_log =
    if ObservationBlockHistoryLimit <? n_hist then ([], RetO 1)
    else if ObservationPerformablesLimit <? n_perf then ([1], RetO 3)
    else if ObservationConditionalsProposalsLimit + ObservationLogRecoveryProposalsLimit <? n_props then ([1; 2], RetO 15)
    else if ObservationConditionalsProposalsLimit <? n_cond then ([1; 2; 3], RetO 17)
    else if ObservationLogRecoveryProposalsLimit <? n_log then ([1; 2; 3], RetO 18)
    else ([1; 2; 3], RetO 0).
Proof. exact gen_val_obs. Qed.
Print Assumptions C15_gen_observation_length_rules.

(* validateAutomationOutcome, whole function *)
Theorem C15_gen_outcome_length_rules :
  forall n_agreed n_rounds,
    g_val_outcome n_agreed OutcomeAgreedPerformablesLimit n_rounds OutcomeSurfacedProposalsRoundHistoryLimit =
    if OutcomeAgreedPerformablesLimit <? n_agreed then ([], RetO 3)
    else if OutcomeSurfacedProposalsRoundHistoryLimit <? n_rounds then ([1], RetO 19)
    else ([1; 2], RetO 0).
Proof. exact gen_val_outcome. Qed.
Print Assumptions C15_gen_outcome_length_rules.

(* validateAutomationOutcome, loop bodies *)
Theorem C15_gen_outcome_loops :
  forall (bad seen : bool) n_round,
    g_val_outcome_perf_body bad seen = (if bad then ([], RetO 100) else if seen then ([], RetO 14) else ([1], Fall)) /\
    g_val_outcome_prop_body bad seen = (if bad then ([], RetO 100) else if seen then ([], RetO 16) else ([1], Fall)) /\
    g_val_outcome_round_body n_round OutcomeSurfacedProposalsLimit =
      (if OutcomeSurfacedProposalsLimit <? n_round then ([], RetO 20) else ([1], Fall)).
Proof. exact gen_val_outcome_bodies. Qed.
Print Assumptions C15_gen_outcome_loops.

End GenTie.

Example C15_nonvacuous_roundtrip :
  wf_obs ex_wobs /\ wf_outcome ex_wout /\
  (length (enc_obs ex_wobs) > 900)%nat /\
  dec_obs (enc_obs ex_wobs) = Some ex_wobs /\ dec_outcome (enc_outcome ex_wout) = Some ex_wout.
Proof.
  assert (W1 : wf_obs ex_wobs).
  { unfold wf_obs, ex_wobs, wf_olist, wf_res, wf_prop, ascii_ok, bytes_ok; simpl.
    repeat split; repeat constructor. }
  assert (W2 : wf_outcome ex_wout).
  { unfold wf_outcome, ex_wout, wf_olist, wf_res, wf_prop, ascii_ok; simpl.
    repeat split; repeat constructor. }
  split; [exact W1|]. split; [exact W2|]. split; [vm_compute; lia|].
  split; [apply C15_roundtrip; exact W1 | apply C15_roundtrip_outcome; exact W2].
Qed.
