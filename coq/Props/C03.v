(* C03 — whatever a node emits passes the network's own validation and size limits.
   Property theorems only; proofs live in Proofs/{Outcome,Observation,Reports}Proofs.v. *)
From Verif Require Import Base.Util Model.Types Model.Outcome Model.Validate Model.OutcomeCase Model.Observation
  Proofs.OutcomeProofs Proofs.ObservationProofs Proofs.ObsValidProofs Proofs.ValidateProofs Gen.Generated.
From Verif Require Model.Reports Proofs.ReportsProofs.
Open Scope N_scope.

(* Every outcome computed from attributed observations (whatever they are: the invalid ones are
   skipped) and a VALID previous outcome is itself valid: the next round can always decode it.
   wg_ext: the work-id generator does not read the coordinated block (asserted on the real generator). *)
Theorem C03_outcome_valid :
  forall utg wg uid (shuf : N -> N) pi_u (pi_b : ProposalsProofs.bvotes -> ProposalsProofs.bvotes),
    (forall v, Permutation (pi_u v) v) -> (forall v, Permutation (pi_b v) v) ->
    forall tp tb lim prev l,
    (forall u t t', ext_key t = ext_key t' -> wg u t = wg u t') ->
    lim = lim_of_gen -> outcome_rules utg wg prev ->
    outcome_rules utg wg (outcome_of uid shuf (valid_obs utg wg) true pi_u pi_b tp tb lim prev l).
Proof. intros. apply outcome_valid; assumption. Qed.
Print Assumptions C03_outcome_valid.

Theorem C03_valid_outcome_is_accepted :
  forall utg wg o, outcome_rules utg wg o <-> valid_outcome utg wg o = true.
Proof. intros. symmetry. apply valid_outcome_iff. Qed.
Print Assumptions C03_valid_outcome_is_accepted.

(* ... along any chain of rounds, starting from the empty (first-round) outcome. *)
Theorem C03_chain :
  forall utg wg, (forall u t t', ext_key t = ext_key t' -> wg u t = wg u t') ->
  forall rs, Forall round_ok rs ->
    Forall (outcome_rules utg wg) (run_chain utg wg (mkOut [] []) rs).
Proof. intros utg wg H rs Hr. apply chain_valid; [exact H | apply empty_outcome_valid | exact Hr]. Qed.
Print Assumptions C03_chain.

(* Observation: the performables added from staging respect the 100 cap and the byte limit whenever
   the recursion does not take its over-sized exit; proposals respect the per-type caps. *)
Theorem C03_observation_performables_fit :
  forall base blocked staged l,
    sizes_ok staged ->
    add_from_staging MaxObservationLength base ObservationPerformablesLimit blocked staged = (l, false) ->
    (Z.of_nat (length l) <= ObservationPerformablesLimit)%Z /\
    (l = [] \/ (obs_size base (cands blocked staged) (length l) <= MaxObservationLength)%Z).
Proof.
  intros base blocked staged l Hs H.
  assert (H0 : (0 <= ObservationPerformablesLimit)%Z) by (vm_compute; discriminate).
  destruct (add_from_staging_spec _ _ _ _ _ _ _ Hs H0 H) as [_ [_ H3]].
  destruct (H3 eq_refl) as [H4 [H5 _]]. split; assumption.
Qed.
Print Assumptions C03_observation_performables_fit.

(* Every observation built by the hooks from well-formed stores — staged results that meet the result
   rules with one result per work id (C10, pipeline_wf), proposal views with one entry per work id and
   the right trigger type (C11), a block history without repeated numbers (blocksource_wf) — for ANY
   in-flight set, any keyed shuffle, any cut k <= 100 of the canonical order, is accepted by every
   peer's validation. *)
Theorem C03_observation_valid :
  forall utg wg (shuf : N -> N) blocked staged k logperm condperm logview condview hist,
    (k <= 100)%nat ->
    Forall (result_rules utg wg) staged -> NoDup (map r_wid staged) ->
    Forall (proposal_rules utg wg) logview -> Forall (proposal_rules utg wg) condview ->
    NoDup (map p_wid logview) -> NoDup (map p_wid condview) ->
    (forall p, In p logview -> utg (p_upk p) = ut_log) ->
    (forall p, In p condview -> utg (p_upk p) = ut_cond) ->
    (forall p q, In p logview -> In q condview -> p_wid p <> p_wid q) ->
    NoDup logperm -> NoDup condperm -> NoDup (map bk_num hist) ->
    valid_obs utg wg (build_obs shuf blocked staged k logperm condperm logview condview hist) = true.
Proof. exact build_obs_accepted. Qed.
Print Assumptions C03_observation_valid.

(* The number of reports never exceeds the advertised maximum. *)
Theorem C03_report_count :
  forall c ps, ReportsProofs.wf_cfg c -> ReportsProofs.wf_perfs ps ->
    (Z.of_nat (length ps) <= OutcomeAgreedPerformablesLimit)%Z ->
    (Z.of_nat (length (Reports.reports true c ps)) <= MaxReportCount)%Z.
Proof.
  intros c ps Hc Hp Hl. pose proof (ReportsProofs.reports_count c ps Hc Hp) as H.
  assert (OutcomeAgreedPerformablesLimit <= MaxReportCount)%Z by (vm_compute; discriminate). lia.
Qed.
Print Assumptions C03_report_count.

(* A round has enough observations exactly when at least 2f+1 are present (the code passes
   QuorumTwoFPlusOne to libocr's helper; the harness checks the real ObservationQuorum on the whole
   grid n <= 31). *)
Definition enough (f k : nat) : bool := Nat.leb (2 * f + 1) k.
Theorem C03_quorum : forall f k, enough f k = true <-> (2 * f + 1 <= k)%nat.
Proof. intros. unfold enough. apply Nat.leb_le. Qed.
Print Assumptions C03_quorum.

(* Not proved: the byte length of an outcome / of the proposals and block-history part of an
   observation as a function of their content (no encoder-length model); both lengths are checked
   against the advertised maxima on every case of the correspondence runs. *)
Theorem C03_gen_limits :
  MaxObservationLength = 1000000%Z /\ MaxOutcomeLength = 2500000%Z /\ MaxReportCount = 100%Z.
Proof. repeat split; reflexivity. Qed.
Print Assumptions C03_gen_limits.

Example C03_nonvacuous :
  outcome_rules (fun _ => 0) (fun u _ => u) (mkOut [] []) /\ enough 1 3 = true /\ enough 1 2 = false.
Proof. split; [apply empty_outcome_valid | split; reflexivity]. Qed.
