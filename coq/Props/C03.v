(* C03 — whatever a node emits passes the network's own validation and size limits.
   Property theorems only; proofs live in Proofs/{Outcome,Observation,Reports}Proofs.v. *)
From Verif Require Import Base.Util Model.Types Model.Outcome Model.Validate Model.OutcomeCase Model.Observation
  Proofs.OutcomeProofs Proofs.ObservationProofs Proofs.ObsValidProofs Proofs.ValidateProofs Gen.Generated.
From Verif Require Model.Reports Proofs.ReportsProofs.
From Verif Require Model.Wire Proofs.WireLenProofs.
Open Scope N_scope.

(* Every outcome computed from attributed observations (whatever they are: the invalid ones are
   skipped) and a VALID previous outcome is itself valid: the next round can always decode it.
   wg_ext: the work-id generator does not read the coordinated block (asserted on the real generator). *)
Theorem C03_outcome_valid :
  forall utg wg uid (shuf : N -> N) pi_u (pi_b : ProposalsProofs.bvotes -> ProposalsProofs.bvotes),
    (forall v, Permutation (pi_u v) v) -> (forall v, Permutation (pi_b v) v) ->
    forall tp tb lim prev l,
    (forall u t t', ext_key t = ext_key t' -> wg u t = wg u t') ->
    lim = lim_of_gen -> outcome_rules utg wg prev ->
    outcome_rules utg wg (outcome_of uid shuf (valid_obs utg wg) true pi_u pi_b tp tb lim prev l).
Proof. intros. apply outcome_valid; assumption. Qed.
Print Assumptions C03_outcome_valid.

Theorem C03_valid_outcome_is_accepted :
  forall utg wg o, outcome_rules utg wg o <-> valid_outcome utg wg o = true.
Proof. intros. symmetry. apply valid_outcome_iff. Qed.
Print Assumptions C03_valid_outcome_is_accepted.

(* ... along any chain of rounds, starting from the empty (first-round) outcome. *)
Theorem C03_chain :
  forall utg wg, (forall u t t', ext_key t = ext_key t' -> wg u t = wg u t') ->
  forall rs, Forall round_ok rs ->
    Forall (outcome_rules utg wg) (run_chain utg wg (mkOut [] []) rs).
Proof. intros utg wg H rs Hr. apply chain_valid; [exact H | apply empty_outcome_valid | exact Hr]. Qed.
Print Assumptions C03_chain.

(* Observation: the performables added from staging respect the 100 cap and the byte limit whenever
   the recursion does not take its over-sized exit; proposals respect the per-type caps. *)
Theorem C03_observation_performables_fit :
  forall base blocked staged l,
    sizes_ok staged ->
    add_from_staging MaxObservationLength base ObservationPerformablesLimit blocked staged = (l, false) ->
    (Z.of_nat (length l) <= ObservationPerformablesLimit)%Z /\
    (l = [] \/ (obs_size base (cands blocked staged) (length l) <= MaxObservationLength)%Z).
Proof.
  intros base blocked staged l Hs H.
  assert (H0 : (0 <= ObservationPerformablesLimit)%Z) by (vm_compute; discriminate).
  destruct (add_from_staging_spec _ _ _ _ _ _ _ Hs H0 H) as [_ [_ H3]].
  destruct (H3 eq_refl) as [H4 [H5 _]]. split; assumption.
Qed.
Print Assumptions C03_observation_performables_fit.

(* Every observation built by the hooks from well-formed stores — staged results that meet the result
   rules with one result per work id (C10, pipeline_wf), proposal views with one entry per work id and
   the right trigger type (C11), a block history without repeated numbers (blocksource_wf) — for ANY
   in-flight set, any keyed shuffle, any cut k <= 100 of the canonical order, is accepted by every
   peer's validation. *)
Theorem C03_observation_valid :
  forall utg wg (shuf : N -> N) blocked staged k logperm condperm logview condview hist,
    (k <= 100)%nat ->
    Forall (result_rules utg wg) staged -> NoDup (map r_wid staged) ->
    Forall (proposal_rules utg wg) logview -> Forall (proposal_rules utg wg) condview ->
    NoDup (map p_wid logview) -> NoDup (map p_wid condview) ->
    (forall p, In p logview -> utg (p_upk p) = ut_log) ->
    (forall p, In p condview -> utg (p_upk p) = ut_cond) ->
    (forall p q, In p logview -> In q condview -> p_wid p <> p_wid q) ->
    NoDup logperm -> NoDup condperm -> NoDup (map bk_num hist) ->
    valid_obs utg wg (build_obs shuf blocked staged k logperm condperm logview condview hist) = true.
Proof. exact build_obs_accepted. Qed.
Print Assumptions C03_observation_valid.

(* The number of reports never exceeds the advertised maximum. *)
Theorem C03_report_count :
  forall c ps, ReportsProofs.wf_cfg c -> ReportsProofs.wf_perfs ps ->
    (Z.of_nat (length ps) <= OutcomeAgreedPerformablesLimit)%Z ->
    (Z.of_nat (length (Reports.reports true c ps)) <= MaxReportCount)%Z.
Proof.
  intros c ps Hc Hp Hl. pose proof (ReportsProofs.reports_count c ps Hc Hp) as H.
  assert (OutcomeAgreedPerformablesLimit <= MaxReportCount)%Z by (vm_compute; discriminate). lia.
Qed.
Print Assumptions C03_report_count.

(* A round has enough observations exactly when at least 2f+1 are present (the code passes
   QuorumTwoFPlusOne to libocr's helper; the harness checks the real ObservationQuorum on the whole
   grid n <= 31). *)
Definition enough (f k : nat) : bool := Nat.leb (2 * f + 1) k.
Theorem C03_quorum : forall f k, enough f k = true <-> (2 * f + 1 <= k)%nat.
Proof. intros. unfold enough. apply Nat.leb_le. Qed.
Print Assumptions C03_quorum.

(* Not proved: the byte length of an outcome / of the proposals and block-history part of an
   observation as a function of their content (no encoder-length model); both lengths are checked
   against the advertised maxima on every case of the correspondence runs. *)
Theorem C03_gen_limits :
  MaxObservationLength = 1000000%Z /\ MaxOutcomeLength = 2500000%Z /\ MaxReportCount = 100%Z.
Proof. repeat split; reflexivity. Qed.
Print Assumptions C03_gen_limits.

(* "... and within the advertised maximum outcome length": the byte-exact wire encoding (Model/Wire.v; equal to
   AutomationOutcome.Encode() byte for byte on every C15 correspondence case) of an outcome with at most 100 agreed
   performables and 20 rounds of at most 50 proposals is at most MaxOutcomeLength (read from the source: 2,500,000)
   bytes, PROVIDED every number is inside its Go type's range, hashes and ids are 32 bytes, work ids are hexadecimal
   strings of at most 64 characters (what the real generator produces), prices are in the uint256 range and perform
   data is at most 10,000 bytes (the well-behaved-pipeline hypothesis of the property; validation itself does not
   bound perform data).  The bound reached is 2,381,012. *)
Theorem C03_outcome_len :
  forall o : Wire.wout,
    WireLenProofs.outcome_sizes_ok WireLenProofs.pd_max o ->
    (Z.of_nat (length (Wire.enc_outcome o)) <= MaxOutcomeLength)%Z.
Proof. exact WireLenProofs.outcome_fits. Qed.
Print Assumptions C03_outcome_len.

(* the general bound, for any cap pd on the perform data *)
Theorem C03_outcome_len_bound :
  forall pd (o : Wire.wout),
    WireLenProofs.outcome_sizes_ok pd o -> (length (Wire.enc_outcome o) <= WireLenProofs.outcome_bound pd)%nat.
Proof. exact WireLenProofs.len_outcome. Qed.
Print Assumptions C03_outcome_len_bound.

(* non-vacuity of the size hypothesis: an outcome with one agreed log-trigger result and one surfaced proposal *)
Example C03_len_example_hash : WireLenProofs.hash_ok (repeat 7%N 32).
Proof.
  split; [apply repeat_length|]. apply Forall_forall. intros x Hx. apply repeat_spec in Hx. subst. lia.
Qed.
Example C03_len_example_wid : WireLenProofs.wid_ok (repeat 97%N 64).
Proof. split; [rewrite repeat_length; lia | vm_compute; reflexivity]. Qed.

Example C03_outcome_len_nonvacuous :
  let h := repeat 7%N 32 in
  let ext := Wire.mkWExt h 3 h 99 in
  let tr := Wire.mkWTrig 100 h (Some ext) in
  let wid := repeat 97%N 64 in
  let r := Wire.mkWRes 0 false true 0 h tr wid 5000000 (Some (repeat 1%N 100)) (Some 1000%Z) (Some 2000%Z) in
  let o := Wire.mkWOut (Some [r]) (Some [Some [Wire.mkWProp h tr wid]; None]) in
  WireLenProofs.outcome_sizes_ok WireLenProofs.pd_max o /\ length (Wire.enc_outcome o) = 1284%nat.
Proof.
  intros h ext tr wid r o.
  assert (WireLenProofs.trig_ok tr) as Htr.
  { unfold WireLenProofs.trig_ok, WireLenProofs.ext_ok, WireLenProofs.u64. cbn [Wire.wt_num Wire.wt_hash Wire.wt_ext tr ext Wire.we_txhash Wire.we_index Wire.we_blockhash Wire.we_blocknum].
    repeat split; try apply C03_len_example_hash; lia. }
  split; [|vm_compute; reflexivity].
  unfold WireLenProofs.outcome_sizes_ok. cbn [Wire.wc_agreed Wire.wc_surfaced o]. split.
  - split; [cbn; lia|]. constructor; [|constructor].
    unfold WireLenProofs.res_ok, WireLenProofs.u64, WireLenProofs.price_ok.
    cbn [r Wire.wr_state Wire.wr_reason Wire.wr_upk Wire.wr_trig Wire.wr_wid Wire.wr_gas Wire.wr_pdata Wire.wr_fgw Wire.wr_ln].
    repeat split; try apply C03_len_example_hash; try apply C03_len_example_wid; try exact Htr; try lia.
    rewrite repeat_length. unfold WireLenProofs.pd_max. lia.
  - split; [cbn; lia|]. constructor; [|constructor; [exact I|constructor]].
    split; [cbn; lia|]. constructor; [|constructor].
    unfold WireLenProofs.prop_ok. cbn [Wire.wp_upk Wire.wp_trig Wire.wp_wid]. repeat split; try apply C03_len_example_hash; try apply C03_len_example_wid; exact Htr.
Qed.


Example C03_nonvacuous :
  outcome_rules (fun _ => 0) (fun u _ => u) (mkOut [] []) /\ enough 1 3 = true /\ enough 1 2 = false.
Proof. split; [apply empty_outcome_valid | split; reflexivity]. Qed.
