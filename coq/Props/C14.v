(* C14 - parallel job runs always finish and deliver each job's result exactly once.
   Property theorems only; the transition system is Model/Worker.v, proofs are in
   Proofs/WorkerProofs.v (invariants) and Proofs/WorkerLiveness.v. *)
From Verif Require Import Base.Util Model.Worker Proofs.WorkerProofs Proofs.WorkerLiveness Gen.GeneratedC14.
From Coq Require Import Arith PeanoNat.

(* Every theorem below quantifies over ALL configurations (any number of concurrent RunJobs callers,
   any number of jobs per caller, any maxWorkers, Stop and per-caller cancellation allowed or not)
   and over ALL schedules: [reachable cf s] is the reflexive-transitive closure of [step]. *)

(* Exactly once, safety half (every reachable state): a job's result is reported at most once,
   and only if the job was accepted (its index is below the caller's accepted count, which never
   exceeds the number of jobs handed to RunJobs). *)
Theorem C14_exactly_once :
  forall cf s, reachable cf s ->
  forall c i, cntj (c, i) (deliv s) <= 1 /\
              (0 < cntj (c, i) (deliv s) -> i < c_nxt (callers s c) /\ i < njobs cf c).
Proof. exact delivered_le_accepted. Qed.
Print Assumptions C14_exactly_once.

(* Exactly once, at return: when RunJobs of caller c has returned, the callbacks it made are
   exactly the accepted jobs 0 .. accepted-1, each exactly once (as a count and as a permutation). *)
Theorem C14_exactly_once_at_return :
  forall cf s c, reachable cf s -> c_spc (callers s c) = SRet ->
  (forall i, cntj (c, i) (deliv s) = Nat.b2n (i <? c_nxt (callers s c))) /\
  Permutation (delivered_to s c) (seq 0 (c_nxt (callers s c))).
Proof. intros cf s c Hr S. split; [apply (delivered_eq_accepted cf); assumption | apply (delivered_perm cf); assumption]. Qed.
Print Assumptions C14_exactly_once_at_return.

(* Without a Stop and without a cancellation of the caller's context every job is accepted. *)
Theorem C14_all_accepted_when_undisturbed :
  forall cf s c, reachable cf s -> c_spc (callers s c) = SRet ->
  can_stop cf = false -> can_cancel cf c = false -> c_nxt (callers s c) = njobs cf c.
Proof. exact all_accepted_when_undisturbed. Qed.
Print Assumptions C14_all_accepted_when_undisturbed.

(* No more workers run at once than configured. *)
Theorem C14_worker_bound :
  forall cf s, reachable cf s -> length (running s) + returning s <= maxw cf.
Proof. exact worker_bound. Qed.
Print Assumptions C14_worker_bound.

(* The wait group never goes negative (Go would panic). *)
Theorem C14_waitgroup_never_negative :
  forall cf s, reachable cf s -> err s = false.
Proof. exact no_negative_waitgroup. Qed.
Print Assumptions C14_waitgroup_never_negative.

(* Obligation against the source: WorkerGroup.input is unbuffered in the current tree. *)
Theorem C14_gen_input_unbuffered : WorkerInputCap = 0%Z.
Proof. vm_compute. reflexivity. Qed.
Print Assumptions C14_gen_input_unbuffered.

(* C14_returns: with the input capacity the source really uses, every reachable state in which no
   transition is enabled is a state in which every RunJobs call has returned, its reader goroutine has
   exited, and a Stop that was begun has returned - whatever the interleaving of submitters, loops,
   workers, Stop and cancellations (maxWorkers >= 1). *)
Theorem C14_returns :
  forall cf s, wf_config cf -> cap_in cf = Z.to_nat WorkerInputCap ->
  reachable cf s -> terminal cf s -> all_returned cf s.
Proof. intros cf s Hw Hc. apply returns_unbuffered; [exact Hw | rewrite Hc; vm_compute; reflexivity]. Qed.
Print Assumptions C14_returns.

(* [terminal] (no label of the finite list [enabled] can fire) really means that NO transition can fire. *)
Theorem C14_enabled_complete :
  forall cf s, terminal cf s <-> forall l, step cf s l = None.
Proof. exact terminal_iff. Qed.
Print Assumptions C14_enabled_complete.

(* The historic code (capacity 1, the pinned commit) deadlocks: an explicit 9-step schedule in which
   the submission completes into the buffer after the queuing loop took its stop branch; the job is
   stranded in the channel, the wait-group count stays 1, Stop has returned, RunJobs never does. *)
Theorem C14_deadlock_refuted :
  exists cf s, cap_in cf = 1 /\ wf_config cf /\ reachable cf s /\ terminal cf s /\ ~ all_returned cf s /\
               input s = [(0, 0)] /\ c_wg (callers s 0) = 1 /\ st_pc s = StRet.
Proof. exact deadlock_buffered. Qed.
Print Assumptions C14_deadlock_refuted.

(* After a Stop that returned, a terminal state has no goroutine of the group left. *)
Theorem C14_no_leak_after_stop :
  forall cf s, wf_config cf -> reachable cf s -> terminal cf s -> st_pc s = StRet ->
  q_pc s = QExit /\ p_pc s = PExit /\ running s = [] /\ returning s = 0 /\ queue s = [].
Proof. exact stopped_no_leak. Qed.
Print Assumptions C14_no_leak_after_stop.

(* Outcome characterisation: the outcome of every maximal run of the model satisfies, for every
   caller, the same predicate [caller_spec] that the checker K decides on the observed behaviour of
   the real code (outcome-set inclusion is judged against this predicate). *)
Theorem C14_model_outcome :
  forall cf s c, wf_config cf -> cap_in cf = 0 -> reachable cf s -> terminal cf s -> c < ncallers cf ->
  caller_spec true (N.of_nat (njobs cf c)) (can_stop cf || can_cancel cf c) true
              (map N.of_nat (delivered_to s c)) 0 0 0.
Proof. exact model_outcome. Qed.
Print Assumptions C14_model_outcome.

(* The boolean checker applied to what the harness observed decides the property. *)
Theorem C14_checker_sound :
  forall c, C14_check c = true -> C14_spec c.
Proof. exact C14_check_sound. Qed.
Print Assumptions C14_checker_sound.

(* Non-vacuity: two callers (2 jobs and 1 job), one worker, Stop allowed, unbuffered input: an
   schedule (always fire the first enabled label; it includes a racing Stop) reaches a terminal state; there every caller has
   returned and caller 0 received its jobs 0 and 1 exactly once. *)
Definition C14_example_cfg : config := mkConfig 0 1 2 (fun c => 2 - c) true (fun _ => false).
Fixpoint C14_greedy (fuel : nat) (s : state) : state :=
  match fuel with
  | 0 => s
  | S f => match enabled C14_example_cfg s with
           | [] => s
           | l :: _ => match step C14_example_cfg s l with Some s' => C14_greedy f s' | None => s end
           end
  end.
Example C14_nonvacuous :
  let s := C14_greedy 200 init in
  wf_config C14_example_cfg /\ terminal C14_example_cfg s /\
  delivered_to s 0 = [0; 1] /\ delivered_to s 1 = [0] /\ st_pc s = StRet /\
  c_spc (callers s 0) = SRet /\ c_spc (callers s 1) = SRet.
Proof. vm_compute. repeat split; lia. Qed.
