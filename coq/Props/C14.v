(* C14 - parallel job runs always finish and deliver each job's result exactly once.
   Property theorems only; the transition system is Model/Worker.v, proofs are in
   Proofs/WorkerProofs.v (invariants) and Proofs/WorkerLiveness.v. *)
From Verif Require Import Base.Util Model.Worker Proofs.WorkerProofs Proofs.WorkerLiveness Gen.GeneratedC14.
From Coq Require Import Arith PeanoNat.

(* Every theorem below quantifies over ALL configurations (any number of concurrent RunJobs callers,
   any number of jobs per caller, any maxWorkers, Stop and per-caller cancellation allowed or not)
   and over ALL schedules: [reachable cf s] is the reflexive-transitive closure of [step]. *)

(* Exactly once, safety half (every reachable state): a job's result is reported at most once,
   and only if the job was accepted (its index is below the caller's accepted count, which never
   exceeds the number of jobs handed to RunJobs). *)
Theorem C14_exactly_once :
  forall cf s, reachable cf s ->
  forall c i, cntj (c, i) (deliv s) <= 1 /\
              (0 < cntj (c, i) (deliv s) -> i < c_nxt (callers s c) /\ i < njobs cf c).
Proof. exact delivered_le_accepted. Qed.
Print Assumptions C14_exactly_once.

(* Exactly once, at return: when RunJobs of caller c has returned, the callbacks it made are
   exactly the accepted jobs 0 .. accepted-1, each exactly once (as a count and as a permutation). *)
Theorem C14_exactly_once_at_return :
  forall cf s c, reachable cf s -> c_spc (callers s c) = SRet ->
  (forall i, cntj (c, i) (deliv s) = Nat.b2n (i <? c_nxt (callers s c))) /\
  Permutation (delivered_to s c) (seq 0 (c_nxt (callers s c))).
Proof. intros cf s c Hr S. split; [apply (delivered_eq_accepted cf); assumption | apply (delivered_perm cf); assumption]. Qed.
Print Assumptions C14_exactly_once_at_return.

(* Without a Stop and without a cancellation of the caller's context every job is accepted. *)
Theorem C14_all_accepted_when_undisturbed :
  forall cf s c, reachable cf s -> c_spc (callers s c) = SRet ->
  can_stop cf = false -> can_cancel cf c = false -> c_nxt (callers s c) = njobs cf c.
Proof. exact all_accepted_when_undisturbed. Qed.
Print Assumptions C14_all_accepted_when_undisturbed.

(* No more workers run at once than configured. *)
Theorem C14_worker_bound :
  forall cf s, reachable cf s -> length (running s) + returning s <= maxw cf.
Proof. exact worker_bound. Qed.
Print Assumptions C14_worker_bound.

(* The wait group never goes negative (Go would panic). *)
Theorem C14_waitgroup_never_negative :
  forall cf s, reachable cf s -> err s = false.
Proof. exact no_negative_waitgroup. Qed.
Print Assumptions C14_waitgroup_never_negative.

(* Obligation against the source: WorkerGroup.input is unbuffered in the current tree. *)
Theorem C14_gen_input_unbuffered : WorkerInputCap = 0%Z.
Proof. vm_compute. reflexivity. Qed.
Print Assumptions C14_gen_input_unbuffered.

(* C14_returns: with the input capacity the source really uses, every reachable state in which no
   transition is enabled is a state in which every RunJobs call has returned, its reader goroutine has
   exited, and a Stop that was begun has returned - whatever the interleaving of submitters, loops,
   workers, Stop and cancellations (maxWorkers >= 1). *)
Theorem C14_returns :
  forall cf s, wf_config cf -> cap_in cf = Z.to_nat WorkerInputCap ->
  reachable cf s -> terminal cf s -> all_returned cf s.
Proof. intros cf s Hw Hc. apply returns_unbuffered; [exact Hw | rewrite Hc; vm_compute; reflexivity]. Qed.
Print Assumptions C14_returns.

(* [terminal] (no label of the finite list [enabled] can fire) really means that NO transition can fire. *)
Theorem C14_enabled_complete :
  forall cf s, terminal cf s <-> forall l, step cf s l = None.
Proof. exact terminal_iff. Qed.
Print Assumptions C14_enabled_complete.

(* The historic code (capacity 1, the pinned commit) deadlocks: an explicit 9-step schedule in which
   the submission completes into the buffer after the queuing loop took its stop branch; the job is
   stranded in the channel, the wait-group count stays 1, Stop has returned, RunJobs never does. *)
Theorem C14_deadlock_refuted :
  exists cf s, cap_in cf = 1 /\ wf_config cf /\ reachable cf s /\ terminal cf s /\ ~ all_returned cf s /\
               input s = [(0, 0)] /\ c_wg (callers s 0) = 1 /\ st_pc s = StRet.
Proof. exact deadlock_buffered. Qed.
Print Assumptions C14_deadlock_refuted.

(* After a Stop that returned, a terminal state has no goroutine of the group left. *)
Theorem C14_no_leak_after_stop :
  forall cf s, wf_config cf -> reachable cf s -> terminal cf s -> st_pc s = StRet ->
  q_pc s = QExit /\ p_pc s = PExit /\ running s = [] /\ returning s = 0 /\ queue s = [].
Proof. exact stopped_no_leak. Qed.
Print Assumptions C14_no_leak_after_stop.

(* Outcome characterisation: the outcome of every maximal run of the model satisfies, for every
   caller, the same predicate [caller_spec] that the checker K decides on the observed behaviour of
   the real code (outcome-set inclusion is judged against this predicate). *)
Theorem C14_model_outcome :
  forall cf s c, wf_config cf -> cap_in cf = 0 -> reachable cf s -> terminal cf s -> c < ncallers cf ->
  caller_spec true (N.of_nat (njobs cf c)) (can_stop cf || can_cancel cf c) true
              (map N.of_nat (delivered_to s c)) 0 0 0.
Proof. exact model_outcome. Qed.
Print Assumptions C14_model_outcome.

(* The boolean checker applied to what the harness observed decides the property. *)
Theorem C14_checker_sound :
  forall c, C14_check c = true -> C14_spec c.
Proof. exact C14_check_sound. Qed.
Print Assumptions C14_checker_sound.

From Verif Require Import Base.GenIR Gen.GeneratedTr Proofs.GenTrWorker.
Section GenTie.
Local Open Scope Z_scope.
(* ---- Tie to the source by translation (Gen/GeneratedTr.v, regenerated from /repo on every run by gen/translate.go) ----
   g_* are the decision terms translated from the CURRENT pkg/util/worker.go: every condition (which case of a select
   is taken is an input), the branch structure and which effect statement runs on which path.  The theorems below
   state that the transitions of the model - about which the theorems above speak - follow these terms. *)
(* WorkerGroup.Do, the checks before the select *)
Theorem C14_gen_do_checks :
  forall cf s c d n, (c < ncallers cf)%nat -> c_spc (callers s c) = SCheck ->
  step cf s (LCheck c) =
  match ret_of (g_wg_do (c_cancel (callers s c)) (qclosed s) d n true false) with
  | RetO 0 => Some (s_caller s c (k_spc (callers s c) SSelect))
  | _ => Some (s_caller s c (k_spc (callers s c) SFail))
  end.
Proof. exact gen_wg_do_checks. Qed.
Print Assumptions C14_gen_do_checks.

(* WorkerGroup.Do, the three-way select *)
Theorem C14_gen_do_select :
  forall cf s c d n, (c < ncallers cf)%nat -> c_spc (callers s c) = SSelect ->
  ret_of (g_wg_do false false d n true false) = RetO 0 /\
  ret_of (g_wg_do false false d n false true) = RetO 1 /\
  ret_of (g_wg_do false false d n false false) = RetO 2 /\
  step cf s (LSelCancel c) = (if c_cancel (callers s c) then Some (s_caller s c (k_spc (callers s c) SFail)) else None) /\
  step cf s (LSelStop c) = (if stopped s then Some (s_caller s c (k_spc (callers s c) SFail)) else None).
Proof. exact gen_wg_do_select. Qed.
Print Assumptions C14_gen_do_select.

(* RunJobs, one job of the submit loop: wait.Add(1), Do, and wait.Done() + break on refusal *)
Theorem C14_gen_submit_loop :
  forall cf s c, (c < ncallers cf)%nat ->
  g_run_jobs_submit true = ([1; 2; 3], Brk) /\ g_run_jobs_submit false = ([1; 2], Fall) /\
  (c_spc (callers s c) = SLoop -> (c_nxt (callers s c) < njobs cf c)%nat ->
   step cf s (LAdd c) = Some (s_caller s c (k_wg (k_spc (callers s c) SCheck) (S (c_wg (callers s c)))))) /\
  (c_spc (callers s c) = SFail ->
   step cf s (LFail c) = match c_wg (callers s c) with
                         | O => Some (s_err s true)
                         | S w => Some (s_caller s c (k_wg (k_spc (callers s c) SWait) w))
                         end).
Proof. exact gen_run_jobs_submit. Qed.
Print Assumptions C14_gen_submit_loop.

(* RunJobs after the loop: wait for the results, drop the group, close the reader *)
Theorem C14_gen_runjobs_tail :
  forall cf s c, (c < ncallers cf)%nat ->
  g_run_jobs = ([1; 2; 3; 4; 5], Fall) /\
  (c_spc (callers s c) = SWait ->
   step cf s (LWait c) = match c_wg (callers s c) with O => Some (s_caller s c (k_spc (callers s c) SRemoved)) | S _ => None end) /\
  (c_spc (callers s c) = SRet ->
   step cf s (LClose c) = if c_end (callers s c) then None else Some (s_caller s c (k_end (callers s c) true))).
Proof. exact gen_run_jobs_tail. Qed.
Print Assumptions C14_gen_runjobs_tail.

(* RunJobs reader goroutine *)
Theorem C14_gen_reader :
  forall cf s c, (c < ncallers cf)%nat -> c_rpc (callers s c) = RSel ->
  g_run_jobs_reader true = ([1], Fall) /\ g_run_jobs_reader false = ([], RetU) /\ g_run_jobs_deliver = ([1; 2], Fall) /\
  step cf s (LRTok c) = (if c_tok (callers s c) then Some (s_caller s c (k_rpc (k_tok (callers s c) false) RGot)) else None) /\
  step cf s (LREnd c) = (if c_end (callers s c) then Some (s_caller s c (k_rpc (callers s c) RExit)) else None).
Proof. exact gen_run_jobs_reader. Qed.
Print Assumptions C14_gen_reader.

(* processQueue, one turn *)
Theorem C14_gen_process_queue :
  forall cf s, p_pc s = PLoop ->
  g_wg_process_queue_body (Z.of_nat (length (queue s))) false =
    match queue s with [] => ([], Brk) | _ => ([1; 2], Fall) end /\
  step cf s LPEmpty = match queue s with [] => Some (s_ppc s (if p_final s then PExit else PSel)) | _ => None end /\
  step cf s LPPop = match queue s with j :: t => Some (s_ppc (s_queue s t) (PDo j)) | [] => None end.
Proof. exact gen_wg_process_queue. Qed.
Print Assumptions C14_gen_process_queue.

(* doJob: new worker below maxWorkers, otherwise wait for an idle one *)
Theorem C14_gen_do_job :
  forall cf s j, p_pc s = PDo j ->
  g_wg_do_job (Z.of_nat (active s)) (Z.of_nat (maxw cf)) =
    (if (active s <? maxw cf)%nat then ([1; 2; 4], Fall) else ([3; 4], Fall)) /\
  step cf s LPNew = (if (active s <? maxw cf)%nat
                     then Some (s_ppc (s_running (s_active s (S (active s))) (running s ++ [j])) PLoop) else None) /\
  step cf s LPReuse = (if (active s <? maxw cf)%nat then None else
                       match idle s with
                       | O => None
                       | S i => Some (s_ppc (s_running (s_idle s i) (running s ++ [j])) PLoop)
                       end).
Proof. exact gen_wg_do_job. Qed.
Print Assumptions C14_gen_do_job.

(* runQueuing, one turn *)
Theorem C14_gen_queuing_loop :
  forall cf s b,
  g_wg_queuing_body true b = ([1], Fall) /\ g_wg_queuing_body false b = ([2], RetU) /\
  (forall j, q_pc s = QGot j -> step cf s LQAdd = Some (s_qpc (s_queue s (queue s ++ [j])) QNotify)) /\
  (q_pc s = QNotify -> step cf s LQNotify = Some (s_qpc (s_ntok s true) QSel)) /\
  (q_pc s = QStopping -> p_pc s = PSel -> step cf s LQHand = Some (s_pfinal (s_ppc (s_qpc s QExit) PLoop) true)).
Proof. exact gen_wg_queuing. Qed.
Print Assumptions C14_gen_queuing_loop.

(* runProcessing, one turn, and the final processQueue of run *)
Theorem C14_gen_processing_loop :
  forall cf s, p_pc s = PSel ->
  g_wg_processing_body true = ([1], Fall) /\ g_wg_processing_body false = ([], RetU) /\ g_wg_run = ([1; 2; 3], Fall) /\
  step cf s LPTok = (if ntok s then Some (s_ppc (s_ntok s false) PLoop) else None).
Proof. exact gen_wg_processing. Qed.
Print Assumptions C14_gen_processing_loop.

(* Stop: close the stop channel, mark the queue closed, tell the queuing loop *)
Theorem C14_gen_stop :
  forall cf s,
  g_wg_stop = ([1; 2; 3], Fall) /\
  (st_pc s = StInit -> step cf s LStop1 = if can_stop cf then Some (s_stpc (s_stopped s true) St1) else None) /\
  (st_pc s = St1 -> step cf s LStop2 = Some (s_stpc (s_qclosed s true) St2)) /\
  (st_pc s = St2 -> q_pc s = QSel -> step cf s LQStop = Some (s_stpc (s_qpc s QStopping) StRet)).
Proof. exact gen_wg_stop. Qed.
Print Assumptions C14_gen_stop.

(* a worker always stores its result and returns its token without blocking *)
Theorem C14_gen_worker_stores_result :
  forall c r d n t,
  fst (g_worker_do c r) = (if c then [1; 3] else [2; 3]) /\ snd (g_worker_do c r) = Fall /\
  In 3 (fst (g_wg_store_result d n t)) /\ snd (g_wg_store_result d n t) = Fall.
Proof. exact gen_worker_result. Qed.
Print Assumptions C14_gen_worker_stores_result.

(* Queue.Pop *)
Theorem C14_gen_queue_pop :
  forall n, 0 <= n ->
  g_queue_pop n = if n =? 0 then ([], RetO 0) else if 1 <? n then ([1], RetO 1) else ([2], RetO 1).
Proof. exact gen_queue_pop. Qed.
Print Assumptions C14_gen_queue_pop.

(* Results leaves an empty list behind on every path *)
Theorem C14_gen_results_resets :
  forall d n, hd 0 (fst (g_wg_results d n)) = 1.
Proof. exact gen_wg_results. Qed.
Print Assumptions C14_gen_results_resets.

End GenTie.
Close Scope Z_scope.

(* Non-vacuity: two callers (2 jobs and 1 job), one worker, Stop allowed, unbuffered input: an
   schedule (always fire the first enabled label; it includes a racing Stop) reaches a terminal state; there every caller has
   returned and caller 0 received its jobs 0 and 1 exactly once. *)
Definition C14_example_cfg : config := mkConfig 0 1 2 (fun c => 2 - c) true (fun _ => false).
Fixpoint C14_greedy (fuel : nat) (s : state) : state :=
  match fuel with
  | 0 => s
  | S f => match enabled C14_example_cfg s with
           | [] => s
           | l :: _ => match step C14_example_cfg s l with Some s' => C14_greedy f s' | None => s end
           end
  end.
Example C14_nonvacuous :
  let s := C14_greedy 200 init in
  wf_config C14_example_cfg /\ terminal C14_example_cfg s /\
  delivered_to s 0 = [0; 1] /\ delivered_to s 1 = [0] /\ st_pc s = StRet /\
  c_spc (callers s 0) = SRet /\ c_spc (callers s 1) = SRet.
Proof. vm_compute. repeat split; lia. Qed.

(* Non-vacuity of the translation-tie theorems: reachable states sit at the program counters their hypotheses name
   (a submitter at the checks of Do and at its select, the processing loop in doJob with the worker limit reached). *)
Example C14_gen_nonvacuous :
  exists s1 s2 s3 j,
    run C14_example_cfg init [LAdd 0] = Some s1 /\ c_spc (callers s1 0) = SCheck /\
    run C14_example_cfg init [LAdd 0; LCheck 0] = Some s2 /\ c_spc (callers s2 0) = SSelect /\
    run C14_example_cfg init [LAdd 0; LCheck 0; LSend 0; LQAdd; LQNotify; LPTok; LPPop; LPNew;
                              LAdd 0; LCheck 0; LSend 0; LQAdd; LQNotify; LPPop] = Some s3 /\
    p_pc s3 = PDo j /\ (active s3 <? maxw C14_example_cfg)%nat = false.
Proof.
  eexists. eexists. eexists. exists (0, 1)%nat.
  split; [vm_compute; reflexivity|]. split; [vm_compute; reflexivity|].
  split; [vm_compute; reflexivity|]. split; [vm_compute; reflexivity|].
  split; [vm_compute; reflexivity|]. split; vm_compute; reflexivity.
Qed.
