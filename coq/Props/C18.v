(* C18 - Close stops everything a plug-in started; a panicking flow is contained.
   Property theorems only.  The transition system is Model/Lifecycle.v (recoverer x abstract service,
   and plugin.Close over k recoverers); proofs are in Proofs/LifecycleProofs.v and
   Proofs/LifecyclePluginProofs.v.

   [reachable cf s] / [preachable cfs ps] are the reflexive-transitive closures of the step functions:
   every theorem quantifies over ALL schedules of any length, including arbitrarily many panics,
   spontaneous returns of service.Start and an arbitrary instant of Close.
   [known_cfg cf]: cf is the recoverer before the three repairs (cfg_old k) or after them (cfg_new k),
   for any service kind k; [repaired cf]: after them.
   PARTIAL: goroutine identity, timer channels and virtual time are runtime facts: the cool-down is
   one transition [TTimer]; what service.Start does inside is abstracted to start-once / fresh / sticky. *)
From Verif Require Import Base.Util Model.Lifecycle Proofs.LifecycleProofs Proofs.LifecyclePluginProofs Gen.Generated Gen.GeneratedC18.
From Coq Require Import Arith PeanoNat ZArith Lia.

(* ---------------------------------------------------------------- panic containment *)
(* (1) isolation: a transition of one recoverer (incl. a panic of its service) never changes the state
       of another recoverer of the plug-in;
   (2) while the plug-in is open no recoverer has seen a Close, and for a restartable service
       - a panic of service.Start puts the recoverer into recovery, at most 7 transitions away from
         service.Start executing again (exactly one of them is the cool-down timer),
       - a recovering recoverer is never stuck, every transition of the code strictly decreases the
         distance rmu or makes service.Start execute, and the environment (further armed panics /
         returns) does not change it. *)
Theorem C18_panic_contained :
  forall cfs ps, Forall known_cfg cfs -> preachable cfs ps ->
  (forall pl ps', pstep cfs ps pl = Some ps' ->
     forall j, touched ps pl <> Some j -> nth_error (p_comps ps') j = nth_error (p_comps ps) j) /\
  (p_called ps = false ->
   forall i cf s, nth_error cfs i = Some cf -> nth_error (p_comps ps) i = Some s -> knd cf <> KOnce ->
     s_c s = CIdle /\
     (forall s', step cf s GPanic = Some s' -> recovering s' = true /\ rmu s' <= 7) /\
     (recovering s = true ->
        (exists l s', is_env l = false /\ step cf s l = Some s') /\
        (forall l s', step cf s l = Some s' -> l <> ECall -> recovery_step_ok s l s'))).
Proof. exact panic_contained. Qed.
Print Assumptions C18_panic_contained.

(* A start-once service (chainlink-common StateMachine: every ticker, the coordinator) is NOT brought
   back by the recoverer: after panic, cool-down and restart the second Start is refused; the plug-in is
   open, nothing is enabled any more, no service goroutine exists. *)
Theorem C18_restart_start_once_refuted :
  exists s, run (cfg_new KOnce) init w_restart_once = Some s /\ s_c s = CIdle /\ stable (cfg_new KOnce) s = true /\
            g_live (s_g s) = false /\ n_starts s = 2.
Proof. exact refute_restart_once. Qed.
Print Assumptions C18_restart_start_once_refuted.

(* ... and in no schedule at all does a start-once service execute anything but its first Start. *)
Theorem C18_start_once_runs_only_first_start :
  forall cf s, known_cfg cf -> knd cf = KOnce -> reachable cf s -> g_active (s_g s) = true -> n_starts s = 1.
Proof. exact once_only_first_start. Qed.
Print Assumptions C18_start_once_runs_only_first_start.

(* at most one service goroutine per recoverer exists at any time *)
Theorem C18_one_service_goroutine :
  forall cf s, known_cfg cf -> reachable cf s -> h_lost s = false.
Proof. exact one_service_goroutine. Qed.
Print Assumptions C18_one_service_goroutine.

(* ---------------------------------------------------------------- Close does not deadlock *)
(* recoverer.Close (old and repaired code, every service kind): while it is in progress a transition
   of the code that brings it nearer to returning (cmu decreases) is enabled, no transition increases
   cmu, and cmu = 0 means returned.  plugin.Close: the same with pmu over the k recoverers. *)
Theorem C18_close_no_deadlock :
  (forall cf s, known_cfg cf -> reachable cf s -> midcall s = true ->
     exists l s', is_env l = false /\ step cf s l = Some s' /\ cmu s' < cmu s) /\
  (forall cf s l s', known_cfg cf -> reachable cf s -> step cf s l = Some s' -> cmu s' <= cmu s) /\
  (forall s, cmu s = 0 -> is_cret (s_c s) = true) /\
  (forall cfs ps, Forall known_cfg cfs -> preachable cfs ps -> p_called ps = true -> p_next ps < length cfs ->
     exists pl ps', pstep cfs ps pl = Some ps' /\ pmu ps' < pmu ps) /\
  (forall cfs ps pl ps', Forall known_cfg cfs -> preachable cfs ps -> pstep cfs ps pl = Some ps' -> pmu ps' <= pmu ps).
Proof. exact close_no_deadlock. Qed.
Print Assumptions C18_close_no_deadlock.

(* ---------------------------------------------------------------- Close stops *)
(* Repaired recoverer.  Once Close has returned - for a sticky service always, for any service unless
   service.Close() ran while a call of service.Start was launched but not yet entered (ghost h_early) -
   every further transition, of the code or of the environment, strictly decreases qmu: every schedule
   comes to rest within qmu steps; where it rests Start has returned and no service goroutine exists;
   and (h_early = false) service.Start is never entered again, no launch is even enabled. *)
Theorem C18_close_stops :
  forall cf s, repaired cf -> reachable cf s -> is_cret (s_c s) = true ->
  (knd cf = KSticky \/ h_early s = false) ->
  (forall l s', step cf s l = Some s' -> qmu cf s' < qmu cf s) /\
  (forall ls s', run cf s ls = Some s' -> length ls + qmu cf s' <= qmu cf s) /\
  (forall ls s', run cf s ls = Some s' -> stable cf s' = true -> quiescent s' = true) /\
  (h_early s = false ->
     h_late s = false /\
     forall ls s', run cf s ls = Some s' ->
       h_late s' = false /\ step cf s' TLaunch = None /\ step cf s' TRelaunch = None /\ step cf s' GEnter = None).
Proof. exact close_stops. Qed.
Print Assumptions C18_close_stops.

(* the ghost flag changes only in the one race it names *)
Theorem C18_early_only_by_race :
  forall cf s l s', known_cfg cf -> reachable cf s -> step cf s l = Some s' -> h_early s' <> h_early s ->
  l = CSvcL /\ pending_launch s = true.
Proof. exact early_only_by_race. Qed.
Print Assumptions C18_early_only_by_race.

(* plugin.Close over k repaired recoverers: when it has returned, every recoverer is a reachable state
   of its own transition system in which Close has returned, i.e. C18_close_stops applies to each. *)
Theorem C18_plugin_close_stops :
  forall cfs ps, Forall repaired cfs -> preachable cfs ps -> p_returned cfs ps ->
  forall i cf s, nth_error cfs i = Some cf -> nth_error (p_comps ps) i = Some s ->
  reachable cf s /\ is_cret (s_c s) = true.
Proof. exact plugin_close_stops. Qed.
Print Assumptions C18_plugin_close_stops.

(* ---------------------------------------------------------------- what the code before the repairs did *)
(* (a) Close before Start has set `running`: ErrServiceNotRunning, then the service runs for ever *)
Theorem C18_close_early_refuted :
  forall k, exists s, run (cfg_old k) init w_early_close = Some s /\ leak_after_close (cfg_old k) s = true /\
                      s_c s = CRet CNotRunning /\ g_active (s_g s) = true.
Proof. exact refute_early_close. Qed.
Print Assumptions C18_close_early_refuted.

(* (b) Close during the cool-down: the restart happens after Close has returned and nobody stops it *)
Theorem C18_close_cooldown_refuted :
  exists s, run (cfg_old KFresh) init w_cooldown = Some s /\ leak_after_close (cfg_old KFresh) s = true /\
            g_active (s_g s) = true /\ h_late s = true /\ is_tret (s_t s) = true.
Proof. exact refute_cooldown. Qed.
Print Assumptions C18_close_cooldown_refuted.

(* (c) Close races the service's own return: the service goroutine's nil result fills `stopped`, Close's
       non-blocking send is dropped, the watcher reads nil and blocks for ever with running = true *)
Theorem C18_close_races_return_refuted :
  (exists s, run (cfg_old KOnce) init w_races_return = Some s /\ races_return_shape (cfg_old KOnce) s) /\
  (exists s, run (cfg_old KFresh) init w_races_return_fresh = Some s /\ races_return_shape (cfg_old KFresh) s).
Proof. exact refute_races_return. Qed.
Print Assumptions C18_close_races_return_refuted.

(* the three schedules are not schedules of the repaired code *)
Theorem C18_repaired_blocks_old_schedules :
  run (cfg_new KFresh) init w_early_close = None /\ run (cfg_new KFresh) init w_cooldown = None /\
  run (cfg_new KOnce) init w_races_return = None /\ run (cfg_new KFresh) init w_races_return_fresh = None.
Proof. exact repaired_runs_blocked. Qed.
Print Assumptions C18_repaired_blocks_old_schedules.

(* ---------------------------------------------------------------- what the repaired code still does *)
(* (a') service.Close() reaches a non-sticky service before its Start was entered: it is refused (start-once)
        or lost (fresh); the service then starts after Close has returned and runs for ever *)
Theorem C18_close_before_service_start_refuted :
  forall k, k <> KSticky ->
  exists s, run (cfg_new k) init w_before_service_start = Some s /\ leak_after_close (cfg_new k) s = true /\
            g_active (s_g s) = true /\ h_early s = true /\ is_tret (s_t s) = true.
Proof. exact refute_before_service_start. Qed.
Print Assumptions C18_close_before_service_start_refuted.

(* ---------------------------------------------------------------- checker and source obligations *)
Theorem C18_checker_sound : forall c, C18_check c = true -> C18_spec c.
Proof. exact C18_check_sound. Qed.
Print Assumptions C18_checker_sound.

(* the cool-down read from the source is positive and not shorter than the slowest flow (5 s retry ticker) *)
Theorem C18_gen_cooldown : (5000000000 <= PanicRestartWait)%Z.
Proof. vm_compute. discriminate. Qed.
Print Assumptions C18_gen_cooldown.

(* the model's one-slot buffer [s_buf : option msg] is the capacity of recoverer.stopped in the source *)
Theorem C18_gen_stopped_capacity : RecovererStoppedCap = 1%Z.
Proof. vm_compute. reflexivity. Qed.
Print Assumptions C18_gen_stopped_capacity.

From Verif Require Import Base.GenIR Gen.GeneratedTr Proofs.GenTrLifecycle.
Section GenTie.
Local Open Scope Z_scope.
(* ---- Tie to the source by translation (Gen/GeneratedTr.v, regenerated from /repo on every run by gen/translate.go) ----
   g_* are the decision terms translated from the CURRENT pkg/v3/service/recoverable.go: every condition (including
   which case of each select is taken, as an input), the branch structure and which effect statement runs on which path.
   The theorems below state that the transitions of the model for the repaired code (cfg_new) - about which the
   theorems above speak - follow these terms. *)
(* recoverer.Start: the compare-and-swap on running succeeds exactly when it was false; a failed swap returns ErrServiceAlreadyStarted with nothing written *)
Theorem C18_gen_start_swap :
  forall k s c, s_t s = TNew ->
  step (cfg_new k) s TBegin =
  match g_rec_start (negb (s_running s)) c with
  | ([], RetO 1) => Some (w_t s (TRet RAlready))
  | _ => Some (w_t (w_running s true) TChk)
  end.
Proof. exact gen_rec_start_begin. Qed.
Print Assumptions C18_gen_start_swap.

(* recoverer.Start after the swap: a closed recoverer resets running (1) and refuses; otherwise launch (2) then watcher loop (3) *)
Theorem C18_gen_start_closed_check :
  forall k s, s_t s = TChk ->
  step (cfg_new k) s TCheck =
  match g_rec_start true (s_closed s) with
  | ([1], RetO 2) => Some (w_t (w_running s false) (TRet RClosed))
  | ([2; 3], RetO 0) => Some (w_t s TSpawn)
  | _ => None
  end.
Proof. exact gen_rec_start_check. Qed.
Print Assumptions C18_gen_start_closed_check.

(* recoverer.Start: the launch transition of the model *)
Theorem C18_gen_start_launch :
  forall k s, s_t s = TSpawn ->
  step (cfg_new k) s TLaunch = Some (launch s TSel).
Proof. exact gen_rec_start_launch. Qed.
Print Assumptions C18_gen_start_launch.

(* recoverer.Close: closed is set first on every path (1); not running: ErrServiceNotRunning without touching the service; otherwise service.Close (2), then the close signal (3) *)
Theorem C18_gen_close_path :
  forall k s,
  (forall r, hd 0 (fst (g_rec_close r)) = 1) /\
  (s_c s = CIdle -> step (cfg_new k) s ECall = Some (w_c s CMark)) /\
  (s_c s = CMark -> step (cfg_new k) s CMarkL = Some (w_c (w_closed s true) CRead)) /\
  (s_c s = CRead ->
   step (cfg_new k) s CReadL =
   match g_rec_close (s_running s) with
   | ([1], RetO 1) => Some (w_c s (CRet CNotRunning))
   | ([1; 2; 3], RetO 2) => Some (w_c s CSvc)
   | _ => None
   end) /\
  (forall r, s_c s = CSig r -> step (cfg_new k) s CSigL = Some (w_c (w_chclose s true) (CRet r))).
Proof. exact gen_rec_close. Qed.
Print Assumptions C18_gen_close_path.

(* serviceStart, a result from `stopped`: nil and ordinary errors leave the loop running, a recovered panic starts the cool-down *)
Theorem C18_gen_watch_result :
  forall k s m c1 c2, s_t s = TSel -> s_buf s = Some m -> m <> MCancel ->
  step (cfg_new k) s TRecv =
  match g_rec_watch_body true c1 (msg_is_err m) (msg_is_panic m) c2 false, msg_is_panic m with
  | ([], Fall), false => Some (w_t (w_buf s None) TSel)
  | _, true => Some (w_t (w_buf s None) TCool)
  | _, _ => None
  end.
Proof. exact gen_rec_watch_result. Qed.
Print Assumptions C18_gen_watch_result.

(* serviceStart after the cool-down (ended by timer or by the close signal): a closed recoverer resets running and returns, otherwise the service is launched again *)
Theorem C18_gen_watch_after_cooldown :
  forall k s cooled c1, s_t s = TReChk ->
  step (cfg_new k) s TReCheck =
  match g_rec_watch_body true c1 true true cooled (s_closed s) with
  | ([1], RetU) => Some (w_t (w_running s false) (TRet RNil))
  | ([2], Fall) => Some (w_t s TRespawn)
  | _ => None
  end.
Proof. exact gen_rec_watch_cooldown. Qed.
Print Assumptions C18_gen_watch_after_cooldown.

(* serviceStart: the two ways out of the cool-down and the relaunch transition of the model *)
Theorem C18_gen_watch_cooldown_ends :
  forall k s, s_t s = TCool ->
  step (cfg_new k) s TTimer = Some (w_t s TReChk) /\
  step (cfg_new k) s TCoolClose = (if s_chclose s then Some (w_t s TReChk) else None) /\
  (forall s', s_t s' = TRespawn -> step (cfg_new k) s' TRelaunch = Some (launch s' TSel)).
Proof. exact gen_rec_watch_cooldown_ends. Qed.
Print Assumptions C18_gen_watch_cooldown_ends.

(* serviceStart: the close signal ends the loop with running reset *)
Theorem C18_gen_watch_close_signal :
  forall k s c3 c4 c5 c6, s_t s = TSel ->
  step (cfg_new k) s TExit =
  if s_chclose s
  then match g_rec_watch_body false true c3 c4 c5 c6 with
       | ([1], RetU) => Some (w_t (w_running s false) (TRet RNil))
       | _ => None
       end
  else None.
Proof. exact gen_rec_watch_close. Qed.
Print Assumptions C18_gen_watch_close_signal.

(* recoverableStart: service.Start runs and its result is always sent; a panic is recovered and reported as errServiceStopped *)
Theorem C18_gen_service_goroutine :
  forall l e,
  g_rec_run l e = ([1; 2], Fall) /\ g_rec_run_recover l true = ([1], Fall) /\ g_rec_run_recover l false = ([], Fall).
Proof. exact gen_rec_run. Qed.
Print Assumptions C18_gen_service_goroutine.

(* timeTicker.Start (the start-once service kind): a second start is refused with an error and nothing else; the first registers its clean-up and enters the loop *)
Theorem C18_gen_ticker_start_once :
  forall s, s_g s = GLaunched ->
  exists s1, step (cfg_new KOnce) s GEnter = Some s1 /\
  match g_ticker_start (v_started s) with
  | ([], RetO 1) => s_g s1 = GSend MErr /\ v_started s1 = v_started s
  | ([1; 2; 3; 4; 5; 6], Fall) => s_g s1 = GActive /\ v_started s1 = true
  | _ => False
  end.
Proof. exact gen_ticker_start_once. Qed.
Print Assumptions C18_gen_ticker_start_once.

(* timeTicker loop: a stop request ends Start with nil; ticks without getter or with a getter error are skipped; otherwise fetch (1) and process on its own goroutine (2) *)
Theorem C18_gen_ticker_loop :
  forall s a b, s_g s = GActive ->
  g_ticker_loop_body true a b = ([], RetO 0) /\
  step (cfg_new KOnce) s GStop = (if v_stopreq s then Some (w_g s (GSend MNil)) else None) /\
  g_ticker_loop_body false true b = ([], Fall) /\ g_ticker_loop_body false false true = ([1], Fall) /\
  g_ticker_loop_body false false false = ([1; 2], Fall) /\ (forall e, g_ticker_process e = ([1], Fall)).
Proof. exact gen_ticker_loop. Qed.
Print Assumptions C18_gen_ticker_loop.

(* timeTicker.Close: signal the stop channel (1) and wait for Start to return (2): the model's CSvcL / CWaitL for a start-once service *)
Theorem C18_gen_ticker_close :
  forall s, s_c s = CSvc -> v_started s = true -> v_stopped s = false ->
  g_ticker_close = ([1; 2], RetO 0) /\
  exists s1, step (cfg_new KOnce) s CSvcL = Some s1 /\ v_stopreq s1 = true /\ v_stopped s1 = true /\ s_c s1 = CWait CNil /\
  (g_active (s_g s1) = true -> step (cfg_new KOnce) s1 CWaitL = None).
Proof. exact gen_ticker_close. Qed.
Print Assumptions C18_gen_ticker_close.

(* the result store is the model's KSticky service: its Close leaves the request in a buffered channel that nothing
   but the loop of Start reads, so a Close that precedes the loop still ends that Start with nil *)
Theorem C18_gen_result_store_sticky : forall s, s_g s = GLaunched ->
  g_rs_start = ([1; 2; 3; 4; 5], Fall) /\ g_rs_close = ([1], RetO 0) /\
  g_rs_loop_body true false false = ([1], Fall) /\ g_rs_loop_body false true false = ([], RetO 0) /\
  g_rs_loop_body false false true = ([2], RetO 0) /\
  exists s1, step (cfg_new KSticky) s GEnter = Some s1 /\ v_started s1 = true /\ v_stopreq s1 = false /\
    s_g s1 = (if v_stopreq s then GSend MNil else GActive).
Proof. exact gen_rs_sticky. Qed.
Print Assumptions C18_gen_result_store_sticky.

Theorem C18_gen_result_store_stop : forall s, s_g s = GActive -> v_stopreq s = true ->
  exists s1, step (cfg_new KSticky) s GStop = Some s1 /\ s_g s1 = GSend MNil /\ v_stopreq s1 = false.
Proof. exact gen_rs_stop. Qed.
Print Assumptions C18_gen_result_store_stop.

(* the metadata store: flag-based Start / Close; Close of a store that is not running is refused and does nothing (the
   known finding close_before_service_start at this service), Close of a running one unsubscribes, signals, clears *)
Theorem C18_gen_metadata_store_lifecycle :
  g_ms_start true = ([], RetO 1) /\ g_ms_start false = ([1; 2], Fall) /\
  g_ms_loop_body true false false = ([1], Fall) /\ g_ms_loop_body false true false = ([], RetO 2) /\
  g_ms_loop_body false false true = ([], RetO 0).
Proof. exact gen_ms_lifecycle. Qed.
Print Assumptions C18_gen_metadata_store_lifecycle.

Theorem C18_gen_metadata_store_close : forall s e, s_c s = CSvc ->
  exists s1, step (cfg_new KOnce) s CSvcL = Some s1 /\
  match g_ms_close (negb (v_started s && negb (v_stopped s))) (v_started s && negb (v_stopped s)) e with
  | ([], RetO 1) => s_c s1 = CSig CSvcErr /\ v_stopreq s1 = v_stopreq s
  | ([1], RetO 2) => e = true /\ v_started s = true
  | ([1; 2; 3], RetO 0) => s_c s1 = CWait CNil /\ v_stopreq s1 = true /\ v_stopped s1 = true
  | _ => False
  end.
Proof. exact gen_ms_close. Qed.
Print Assumptions C18_gen_metadata_store_close.

(* the coordinator: start-once like the tickers; its polling loop ends on a stop request, also one that arrives
   during a failed poll, and otherwise re-arms its timer after every poll, failed or not *)
Theorem C18_gen_coordinator_start_once : forall s, s_g s = GLaunched ->
  exists s1, step (cfg_new KOnce) s GEnter = Some s1 /\
  match g_coord_start (v_started s) with
  | ([], RetO 1) => s_g s1 = GSend MErr /\ v_started s1 = v_started s
  | ([1; 2; 3], RetO 0) => s_g s1 = GActive /\ v_started s1 = true
  | _ => False
  end.
Proof. exact gen_coord_start_once. Qed.
Print Assumptions C18_gen_coordinator_start_once.

Theorem C18_gen_coordinator_run : forall p m t c,
  g_coord_run = ([1; 2; 3; 4; 5; 6], Fall) /\
  g_coord_run_body false true p m t c = ([], RetU) /\
  g_coord_run_body true false true true t c = ([1], RetU) /\
  ((t > c)%Z -> g_coord_run_body true false p false t c = ([1; 2], Fall)) /\
  ((t <= c)%Z -> g_coord_run_body true false p false t c = ([1; 3], Fall)) /\
  ((t > c)%Z -> g_coord_run_body true false false m t c = ([1; 2], Fall)) /\
  ((t <= c)%Z -> g_coord_run_body true false false m t c = ([1; 3], Fall)).
Proof. exact gen_coord_run. Qed.
Print Assumptions C18_gen_coordinator_run.

Theorem C18_gen_coordinator_close : forall s, s_c s = CSvc -> v_started s = true -> v_stopped s = false ->
  g_coord_close = ([1; 2; 3; 4], RetO 0) /\
  exists s1, step (cfg_new KOnce) s CSvcL = Some s1 /\ v_stopreq s1 = true /\ v_stopped s1 = true /\ s_c s1 = CWait CNil /\
  (g_active (s_g s1) = true -> step (cfg_new KOnce) s1 CWaitL = None).
Proof. exact gen_coord_close. Qed.
Print Assumptions C18_gen_coordinator_close.

(* the shared runner: flag-based Start / Close; a Close that finds the flag clear is refused and does nothing *)
Theorem C18_gen_runner_lifecycle : forall s, s_c s = CSvc ->
  g_runner_start true = ([], RetO 1) /\ g_runner_start false = ([1; 2; 3], RetO 0) /\
  exists s1, step (cfg_new KOnce) s CSvcL = Some s1 /\
  match g_runner_close (negb (v_started s && negb (v_stopped s))) (v_started s && negb (v_stopped s)) with
  | ([], RetO 1) => s_c s1 = CSig CSvcErr /\ v_stopreq s1 = v_stopreq s
  | ([1; 2; 3; 4], RetO 0) => s_c s1 = CWait CNil /\ v_stopreq s1 = true /\ v_stopped s1 = true
  | _ => False
  end.
Proof. exact gen_runner_lifecycle. Qed.
Print Assumptions C18_gen_runner_lifecycle.

(* plugin.Close closes every recoverer in order; startServices launches every recoverer *)
Theorem C18_gen_plugin_close :
  g_plugin_close = ([1], RetO 1) /\ g_plugin_close_body = ([1], Fall) /\ g_plugin_start_body = ([1], Fall).
Proof. exact gen_plugin_close. Qed.
Print Assumptions C18_gen_plugin_close.

End GenTie.
Close Scope Z_scope.

(* ---------------------------------------------------------------- non-vacuity *)
(* a repaired recoverer around a start-once service: start, Close while the service runs; the state is
   reachable, satisfies the hypotheses of C18_close_stops, and is at rest with nothing left *)
Definition C18_ex_clean : list label :=
  [EStart; TBegin; TCheck; TLaunch; GEnter; ECall; CMarkL; CReadL; CSvcL; GStop; GPut; CWaitL; CSigL; TExit].
Example C18_nonvacuous_close :
  let s := final (cfg_new KOnce) C18_ex_clean in
  run (cfg_new KOnce) init C18_ex_clean = Some s /\ repaired (cfg_new KOnce) /\ is_cret (s_c s) = true /\
  h_early s = false /\ stable (cfg_new KOnce) s = true /\ quiescent s = true /\ n_starts s = 1.
Proof. vm_compute. repeat split. Qed.

(* the result store's case (KSticky): Close reaches the service while its launch is still pending (h_early); the
   request is kept, the Start that is entered afterwards consumes it and returns at once - the state meets the
   hypotheses of C18_close_stops through the KSticky disjunct and is at rest with nothing left *)
Definition C18_ex_sticky_early : list label :=
  [EStart; TBegin; TCheck; TLaunch; ECall; CMarkL; CReadL; CSvcL; CSigL; GEnter; GPut; TExit].
Example C18_nonvacuous_sticky_close_before_loop :
  let s := final (cfg_new KSticky) C18_ex_sticky_early in
  run (cfg_new KSticky) init C18_ex_sticky_early = Some s /\ repaired (cfg_new KSticky) /\ is_cret (s_c s) = true /\
  h_early s = true /\ stable (cfg_new KSticky) s = true /\ quiescent s = true /\ n_starts s = 1 /\ v_stopreq s = false.
Proof. vm_compute. repeat split. Qed.

(* a fresh service panics while the plug-in is open: recovery, cool-down, restart, running again *)
Definition C18_ex_panic : list label :=
  [EStart; TBegin; TCheck; TLaunch; GEnter; EPanic; GPanic].
Definition C18_ex_recover : list label := [GPut; TRecv; TTimer; TReCheck; TRelaunch; GEnter].
Example C18_nonvacuous_panic :
  let s := final (cfg_new KFresh) C18_ex_panic in
  let s' := final (cfg_new KFresh) (C18_ex_panic ++ C18_ex_recover) in
  run (cfg_new KFresh) init C18_ex_panic = Some s /\ s_c s = CIdle /\ recovering s = true /\ rmu s = 6 /\
  run (cfg_new KFresh) s C18_ex_recover = Some s' /\ g_active (s_g s') = true /\ n_starts s' = 2.
Proof. vm_compute. repeat split. Qed.

(* a two-recoverer plug-in: plugin.Close called and returned *)
Example C18_nonvacuous_plugin :
  exists ps, preachable [cfg_new KOnce; cfg_new KSticky] ps /\ p_returned [cfg_new KOnce; cfg_new KSticky] ps.
Proof.
  pose (cfs := [cfg_new KOnce; cfg_new KSticky]).
  assert (H : forall pls ps, preachable cfs ps ->
              forall ps', fold_left (fun o pl => match o with Some p => pstep cfs p pl | None => None end) pls (Some ps) = Some ps' ->
              preachable cfs ps').
  { induction pls as [|pl r IH]; simpl; intros ps Hp ps' Hf.
    - inversion Hf; subst; exact Hp.
    - destruct (pstep cfs ps pl) as [p1|] eqn:E.
      + eapply IH; [eapply preach_step; eassumption | exact Hf].
      + clear -Hf. induction r; simpl in Hf; [discriminate | auto]. }
  pose (pls := [PClose; PInvoke; PComp 0 CMarkL; PComp 0 CReadL; PNext; PInvoke; PComp 1 CMarkL; PComp 1 CReadL; PNext]).
  destruct (fold_left (fun o pl => match o with Some p => pstep cfs p pl | None => None end) pls (Some (pinit cfs))) as [ps|] eqn:E;
    [|vm_compute in E; discriminate].
  exists ps. split.
  - eapply H; [apply preach_init | exact E].
  - vm_compute in E. inversion E; subst. vm_compute. split; reflexivity.
Qed.

(* Non-vacuity of the translation-tie theorems: reachable states of the repaired recoverer sit at the program counters
   their hypotheses name - Start before and after the swap, the watcher with a recovered panic in `stopped`, the
   re-check after the cool-down, Close at its read of running. *)
Example C18_gen_nonvacuous :
  exists s1 s2 s3 s4 s5,
    run (cfg_new KFresh) init [EStart] = Some s1 /\ s_t s1 = TNew /\
    run (cfg_new KFresh) init [EStart; TBegin] = Some s2 /\ s_t s2 = TChk /\
    run (cfg_new KFresh) init (C18_ex_panic ++ [GPut]) = Some s3 /\ s_t s3 = TSel /\ s_buf s3 = Some MStopped /\
    run (cfg_new KFresh) init (C18_ex_panic ++ [GPut; TRecv; TTimer]) = Some s4 /\ s_t s4 = TReChk /\
    run (cfg_new KFresh) init [EStart; TBegin; TCheck; TLaunch; ECall; CMarkL] = Some s5 /\ s_c s5 = CRead.
Proof.
  do 5 eexists.
  split; [vm_compute; reflexivity|]. split; [vm_compute; reflexivity|].
  split; [vm_compute; reflexivity|]. split; [vm_compute; reflexivity|].
  split; [vm_compute; reflexivity|]. split; [vm_compute; reflexivity|]. split; [vm_compute; reflexivity|].
  split; [vm_compute; reflexivity|]. split; [vm_compute; reflexivity|].
  split; vm_compute; reflexivity.
Qed.
