(* C01 — only results vouched identically by f+1 oracles become agreed performables.
   Property theorems only; proofs live in Proofs/{Performables,Outcome}Proofs.v. *)
From Verif Require Import Base.Util Model.Types Model.Outcome Model.Validate Model.OutcomeCase
  Proofs.PerformablesProofs Proofs.OutcomeProofs Gen.Generated.
From Verif Require Model.Uid Proofs.UidProofs.
From Verif Require Import Base.GenIR Gen.GeneratedTr Proofs.GenTrPlugin.
Open Scope N_scope.

(* What the vote table holds after ANY list of observations (any number of oracles, any content):
   for every digest u, the first result seen with that digest and the number of results carrying it. *)
Theorem C01_votes :
  forall (uid : result -> N) (shuf : N -> N) (obs : list observation) (u : N),
    let v := fold_left (vadd uid) obs [] in
    NoDup (map fst v) /\
    vget v u = match occ uid u (flat_map o_perf obs) with [] => None | r :: t => Some (r, S (length t)) end.
Proof. exact votes_spec. Qed.
Print Assumptions C01_votes.

(* The property, for the whole Outcome function with the real validation model, every threshold
   tp >= 1 (the code passes F+1: see C01_gen_threshold), every cap, every multiset of attributed
   observations (decodable or not, valid or not), every previous outcome, every map iteration order:
     - every agreed result is contained, identical in every field, in >= tp valid observations
       (one observation per oracle: distinct oracles),
     - no work id twice, at most `cap` results,
     - a result contained in >= tp valid observations is agreed, or another quorum result for the
       same work id is, or the cap is exhausted by results that sort strictly before it.
   Hypotheses on the oracles: the digest is injective (uid_inj) — REFUTED for the real UniqueID,
   see C01_identical_refuted below — and the shuffle is injective on work ids. *)
Theorem C01_agreed_iff_quorum :
  forall utg wg (uid : result -> N) (shuf : N -> N) pi_u pi_b,
    (forall v, Permutation (pi_u v) v) ->
    forall tp tb lim prev l,
    (forall a b, uid a = uid b -> a = b) -> (forall a b, shuf a = shuf b -> a = b) -> (1 <= tp)%nat ->
    C01_spec shuf tp (l_agreed lim) (valid_obs_list (valid_obs utg wg) l)
             (oc_agreed (outcome_of uid shuf (valid_obs utg wg) true pi_u pi_b tp tb lim prev l)).
Proof. intros. apply outcome_C01; assumption. Qed.
Print Assumptions C01_agreed_iff_quorum.

(* Whatever the digest function is (injective or not): every agreed result was sent, with all its
   fields, by at least one oracle whose observation passed validation; no work id twice; cap kept. *)
Theorem C01_agreed_from_valid_observation :
  forall utg wg (uid : result -> N) (shuf : N -> N) pi_u pi_b,
    (forall v, Permutation (pi_u v) v) ->
    forall tp tb lim prev l r,
    In r (oc_agreed (outcome_of uid shuf (valid_obs utg wg) true pi_u pi_b tp tb lim prev l)) ->
    exists o, In o (valid_obs_list (valid_obs utg wg) l) /\ In r (o_perf o).
Proof. intros. eapply outcome_agreed_from_valid; eauto. Qed.
Print Assumptions C01_agreed_from_valid_observation.

Theorem C01_no_work_twice_and_cap :
  forall (shuf : N -> N) pi_u thr limit v,
    NoDup (map r_wid (pset shuf pi_u thr limit v)) /\ (length (pset shuf pi_u thr limit v) <= limit)%nat.
Proof. intros. split; [apply pset_nodup | apply pset_length]. Qed.
Print Assumptions C01_no_work_twice_and_cap.

(* With a NON-injective digest the property as stated fails: f crafted copies listed first plus one
   honest copy make an agreed result that only f oracles sent (finding 1: the real UniqueID() is not
   injective — delimiter shifting between PerformData and FastGasWei, int64 cast of GasAllocated).
   Two field-distinct results r1 r2 with one digest, threshold 2, observations [r1]; [r2]. *)
Definition cex_r1 : result := mkRes 0 false true 0 1 (mkTrig 100 2 None) 1 500 [7] (Some 5%Z) (Some 7%Z).
Definition cex_r2 : result := mkRes 0 false true 0 1 (mkTrig 100 2 None) 1 500 [8] (Some 198917%Z) (Some 7%Z).
Theorem C01_identical_refuted :
  exists (uid : result -> N) (obs : list observation) (r : result),
    cex_r1 <> cex_r2 /\ uid cex_r1 = uid cex_r2 /\
    In r (pset (fun w => w) (fun v => v) 2 100 (fold_left (vadd uid) obs [])) /\
    (support r obs < 2)%nat.
Proof.
  exists (fun _ => 1), [mkObs [cex_r1] [] []; mkObs [cex_r2] [] []], cex_r1.
  split; [discriminate|]. split; [reflexivity|]. split; [vm_compute; left; reflexivity | vm_compute; lia].
Qed.
Print Assumptions C01_identical_refuted.

(* ... and the real digest IS non-injective: byte-exact model of CheckResult.UniqueID() (tied to the
   real function by its own correspondence table), two pairs of field-distinct, validation-shaped
   results with one digest: delimiter shifting (0x09 inside PerformData vs FastGasWei), and the int64
   cast of GasAllocated (1 vs 2^64-1). *)
Theorem C01_uid_bytes_not_injective_refuted :
  exists a b, Uid.bres_valid_shape a = true /\ Uid.bres_valid_shape b = true /\
              Uid.bres_eqb a b = false /\ Uid.uid_bytes a = Uid.uid_bytes b.
Proof. exact UidProofs.uid_bytes_not_injective. Qed.
Print Assumptions C01_uid_bytes_not_injective_refuted.

Theorem C01_uid_bytes_gas_cast_refuted :
  exists a b, Uid.bres_valid_shape a = true /\ Uid.bres_valid_shape b = true /\
              Uid.bres_eqb a b = false /\ Uid.uid_bytes a = Uid.uid_bytes b.
Proof. exact UidProofs.uid_bytes_not_injective_gas. Qed.
Print Assumptions C01_uid_bytes_gas_cast_refuted.

(* The boolean checker applied to the implementation's observed outcome decides the spec. *)
Theorem C01_checker_sound :
  forall shuf thr limit obs agreed,
    K01_with result_eqb thr limit shuf obs agreed = true -> C01_spec shuf thr limit obs agreed.
Proof. exact K01_with_sound. Qed.
Print Assumptions C01_checker_sound.

(* ... and it never rejects an outcome that meets the spec: a K01 alarm is a violation, not an artefact;
   in particular the model's own outcome passes it for every input (injective digest). *)
Theorem C01_checker_complete :
  forall shuf thr limit obs agreed,
    C01_spec shuf thr limit obs agreed -> K01_with result_eqb thr limit shuf obs agreed = true.
Proof. exact K01_with_complete. Qed.
Print Assumptions C01_checker_complete.

Theorem C01_model_passes_checker :
  forall shuf utg wg uid pi_u pi_b tp tb lim prev l,
    (forall v, Permutation (pi_u v) v) ->
    (forall a b, uid a = uid b -> a = b) -> (forall a b, shuf a = shuf b -> a = b) -> (1 <= tp)%nat ->
    K01_with result_eqb tp (l_agreed lim) shuf (valid_obs_list (valid_obs utg wg) l)
      (oc_agreed (outcome_of uid shuf (valid_obs utg wg) true pi_u pi_b tp tb lim prev l)) = true.
Proof. exact model_passes_K01. Qed.
Print Assumptions C01_model_passes_checker.

(* Obligations against the regenerated source facts: the code passes plugin.F+1 as threshold
   (so tp = f+1 >= 1) and caps at OutcomeAgreedPerformablesLimit = 100. *)
Theorem C01_gen_threshold : QuorumPerformablesAdd = 1%Z /\ OutcomeAgreedPerformablesLimit = 100%Z.
Proof. split; reflexivity. Qed.
Print Assumptions C01_gen_threshold.

Section GenTie.
Local Open Scope Z_scope.
(* ---- Tie to the source by translation (Gen/GeneratedTr.v, regenerated from /repo on every run by gen/translate.go) ----
   g_* are the decision terms translated from the CURRENT Go code: every condition, the branch structure and which
   white-listed effect statement runs on which path.  The theorems below state that the model's functions - about
   which every theorem above speaks - are the interpretation of these terms (Z scope inside the generated terms). *)
(* Outcome, loop over the attributed observations: an observation that fails DecodeAutomationObservation is skipped, any other is added to both counters *)
Theorem C01_gen_Outcome_loop_decisions :
  forall invalid : bool,
  g_outcome_obs_body invalid = if invalid then ([], Fall) else ([1; 2], Fall).
Proof. exact gen_outcome_obs_body. Qed.
Print Assumptions C01_gen_Outcome_loop_decisions.

(* the model's valid_obs_list keeps exactly the observations for which that loop body reaches p.add / c.add *)
Theorem C01_gen_Outcome_counts_valid_only :
  forall (valid : observation -> bool) (a : aobs) (l : list aobs),
  valid_obs_list valid (a :: l) =
  match a with
  | Undecodable => valid_obs_list valid l
  | Decoded o => match g_outcome_obs_body (negb (valid o)) with
                 | ([1; 2], Fall) => o :: valid_obs_list valid l
                 | _ => valid_obs_list valid l
                 end
  end.
Proof. exact gen_outcome_counts_valid_only. Qed.
Print Assumptions C01_gen_Outcome_counts_valid_only.

(* Outcome, whole function: the observation loop, then the previous outcome (decoded when present, error returned when undecodable), then p.set before c.set *)
Theorem C01_gen_Outcome_decisions :
  forall (prev_nonnil : bool) prev_len (prev_err : bool) n_rounds,
  let present := prev_nonnil || negb (prev_len =? 0) in
  g_outcome_body prev_nonnil prev_len prev_err n_rounds =
  if present then (if prev_err then ([1], RetO 1) else ([1; 2; 3; 4], RetO 2)) else ([1; 3; 4], RetO 2).
Proof. exact gen_outcome_body. Qed.
Print Assumptions C01_gen_Outcome_decisions.

(* performables.add, loop body: first copy stored with one vote, otherwise the count is incremented *)
Theorem C01_gen_add_decisions :
  forall found : bool,
  g_perf_add_body found = if found then ([2; 3], Fall) else ([1; 3], Fall).
Proof. exact gen_perf_add_body. Qed.
Print Assumptions C01_gen_add_decisions.

(* performables.set, loop over the sorted digests: the model's pick is the interpretation of the generated body *)
Theorem C01_gen_set_pick_decisions :
  forall thr added (u : N) (r : result) (c : nat) (t : votes),
  pick thr added ((u, (r, c)) :: t) =
  match g_perf_set_pick (Z.of_nat c) (Z.of_nat thr) (memN (r_wid r) added) with
  | ([1; 2], Fall) => r :: pick thr (r_wid r :: added) t
  | ([], Fall) => pick thr added t
  | _ => []
  end.
Proof. exact gen_perf_set_pick. Qed.
Print Assumptions C01_gen_set_pick_decisions.

(* performables.set, whole function: the model's pset is the interpretation of the generated term (truncation exactly when more than the limit were picked) *)
Theorem C01_gen_set_decisions :
  forall (shuf : N -> N) (pi_u : votes -> votes) thr limit v,
  let picked := sort_by (fun r => shuf (r_wid r)) (pick thr [] (sort_by fst (pi_u v))) in
  pset shuf pi_u thr limit v =
  match g_perf_set (Z.of_nat (length picked)) (Z.of_nat limit) with
  | ([1; 2; 3; 4; 5; 6], Fall) => firstn limit picked
  | ([1; 2; 3; 4; 6], Fall) => picked
  | _ => []
  end.
Proof. exact gen_perf_set. Qed.
Print Assumptions C01_gen_set_decisions.

End GenTie.

(* Non-vacuity: with an injective digest, three observations of which two carry the same result
   reach the threshold 2 and the result is agreed; the hypotheses of C01_agreed_iff_quorum hold. *)
Example C01_nonvacuous :
  let uid := fun r : result => r_gas r in
  let obs := [mkObs [cex_r1] [] []; mkObs [cex_r1] [] []; mkObs [] [] []] in
  pset (fun w => w) (fun v => v) 2 100 (fold_left (vadd uid) obs []) = [cex_r1] /\ support cex_r1 obs = 2%nat.
Proof. split; vm_compute; reflexivity. Qed.
