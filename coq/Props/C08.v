(* C08 — an observation is the network-canonical prefix of what the node holds.
   Property theorems only; proofs live in Proofs/ObservationProofs.v. *)
From Verif Require Import Base.Util Model.Outcome Model.Observation Proofs.SortProofs Proofs.ObservationProofs
  Proofs.K08Proofs Gen.Generated.
From Verif Require Import Base.GenIR Gen.GeneratedTr Proofs.GenTrHooks.
From Verif Require Import Base.GenIR Gen.GeneratedTr Proofs.GenTrObs.
From Verif Require Model.Wire Proofs.WireLenProofs.
Open Scope N_scope.

(* Performables: for every store content (any number of staged results, any sizes >= 2 bytes), every
   in-flight set, every cap and byte limit: what is sent is a prefix of the canonical list (staged,
   not in flight, ordered by the round's shuffled work id); it contains nothing in flight; unless the
   recursion took its over-sized exit, it respects the cap and fits the byte limit, and if the capped
   list fits as a whole it IS the capped list. *)
Theorem C08_performables_canonical_prefix :
  forall maxlen base limit blocked staged l over,
    sizes_ok staged -> (0 <= limit)%Z ->
    add_from_staging maxlen base limit blocked staged = (l, over) ->
    (exists k, l = firstn k (cands blocked staged)) /\
    (forall r, In r l -> In r staged /\ ~ In (s_wid r) blocked) /\
    (over = false ->
       (Z.of_nat (length l) <= limit)%Z /\
       (l = [] \/ (obs_size base (cands blocked staged) (length l) <= maxlen)%Z) /\
       ((obs_size base (cands blocked staged) (Z.to_nat (zmin_len limit (cands blocked staged))) <= maxlen)%Z ->
          l = firstn (Z.to_nat limit) (cands blocked staged))).
Proof. exact add_from_staging_spec. Qed.
Print Assumptions C08_performables_canonical_prefix.

(* Two nodes holding the same candidates send the same list whatever their insertion order. *)
Theorem C08_insertion_order_independent :
  forall maxlen base limit blocked s1 s2,
    Permutation s1 s2 -> NoDup (map s_shuf s1) ->
    add_from_staging maxlen base limit blocked s1 = add_from_staging maxlen base limit blocked s2.
Proof. exact add_from_staging_insertion_indep. Qed.
Print Assumptions C08_insertion_order_independent.

(* The byte-limit recursion: strictly decreasing limit (the code's "+1"), so it terminates within
   length+1 unfoldings; if it reports the over-sized exit, that exit was really taken. *)
Theorem C08_trim_progress :
  forall size base maxlen limit,
    (0 < limit)%Z -> (base <= size)%Z -> (maxlen < size)%Z -> (next_limit size base maxlen limit < limit)%Z.
Proof. exact next_limit_lt. Qed.
Print Assumptions C08_trim_progress.

Theorem C08_trim_oversized_exit_only :
  forall fuel maxlen base l limit cur k over, sizes_ok l ->
    (Z.max 0 (zmin_len limit l) < Z.of_nat fuel)%Z ->
    trim fuel maxlen base l limit cur = (k, over) -> over = true ->
    exists lim', (0 < lim')%Z /\ (lim' <= zmin_len limit l)%Z /\ k = Z.to_nat lim' /\ (maxlen < obs_size base l k)%Z.
Proof. exact trim_fuel. Qed.
Print Assumptions C08_trim_oversized_exit_only.

(* Proposals: at most `limit` per trigger type, drawn from the node's own view, none in flight,
   nothing twice (the view has one entry per work id; the keyed shuffle is a list of distinct positions). *)
Theorem C08_proposals_from_own_view :
  forall limit blocked perm view p,
    In p (add_proposals limit blocked perm view) -> In p view /\ ~ In (fst p) blocked.
Proof. exact add_proposals_spec. Qed.
Print Assumptions C08_proposals_from_own_view.

Theorem C08_proposals_cap :
  forall limit blocked perm view, (length (add_proposals limit blocked perm view) <= limit)%nat.
Proof. exact add_proposals_length. Qed.
Print Assumptions C08_proposals_cap.

Theorem C08_proposals_no_repeat :
  forall (A : Type) perm (l : list A), NoDup perm -> NoDup l -> NoDup (apply_perm perm l).
Proof. exact @apply_perm_nodup. Qed.
Print Assumptions C08_proposals_no_repeat.

(* Block history: the leading `limit` entries of the node's view. *)
Theorem C08_history_prefix :
  forall (A : Type) limit (view : list A),
    add_history limit view = firstn limit view /\ (length (add_history limit view) <= limit)%nat.
Proof. exact @add_history_spec. Qed.
Print Assumptions C08_history_prefix.

(* The shuffled-id memo of stagedResultSorter is transparent: after ANY history of calls with
   arbitrary random sources and id lists, each id of the current call is looked up to exactly
   ShuffleString(id, current source). *)
Theorem C08_memo_transparent :
  forall (shuffle : N -> N -> N) (calls : list (N * list N)) (m0 : memo) src ws,
    memo_inv shuffle m0 ->
    let m := fold_left (fun m c => mupdate shuffle m (fst c) (snd c)) calls m0 in
    forall w, In w ws -> mlookup (m_tab (mupdate shuffle m src ws)) w = Some (shuffle w src).
Proof. exact memo_transparent. Qed.
Print Assumptions C08_memo_transparent.

(* The boolean checker applied to the implementation's observed observation decides the property
   clauses (canonical prefix, cut only by cap / byte limit, proposals from the node's own unfiltered
   views without repeats, leading block history, nothing twice, twin instance agrees). *)
Theorem C08_checker_sound : forall k, K08 k = true -> C08_spec k.
Proof. exact K08_sound. Qed.
Print Assumptions C08_checker_sound.

Theorem C08_gen_limits :
  ObservationPerformablesLimit = 100%Z /\ ObservationLogRecoveryProposalsLimit = 5%Z /\
  ObservationConditionalsProposalsLimit = 5%Z /\ ObservationBlockHistoryLimit = 256%Z.
Proof. repeat split; reflexivity. Qed.
Print Assumptions C08_gen_limits.

Section GenTie.
Local Open Scope Z_scope.
(* ---- Tie to the source by translation (Gen/GeneratedTr.v, regenerated from /repo on every run by gen/translate.go) ----
   g_* are the decision terms translated from the CURRENT Go code: every condition, the branch structure and which
   white-listed effect statement runs on which path.  The theorems below state that the model's functions - about
   which every theorem above speaks - are the interpretation of these terms. *)
(* AddFromStagingHook.RunHook: view, coordinator filter and base encoding first (an error returns before anything is added), then order, then cut *)
Theorem C08_gen_staging_hook_steps :
  forall a b c : bool,
  g_hook_staging a b c = if a || b || c then ([], RetO 1) else ([1; 2], RetO 0).
Proof. exact gen_hook_staging. Qed.
Print Assumptions C08_gen_staging_hook_steps.

(* addByPercentageExceeded, one level of the recursion: the model's trim is the interpretation of the generated term (clamp to the number of results, stop at limit <= 0, lower the limit while the encoding is too long) *)
Theorem C08_gen_trim_decisions :
  forall fuel maxlen base l limit cur,
  let lim := if Z.of_nat (length l) <? limit then Z.of_nat (length l) else limit in
  let k := Z.to_nat lim in
  let size := obs_size base l k in
  let lim' := next_limit size base maxlen lim in
  trim (S fuel) maxlen base l limit cur =
  match g_hook_staging_trim limit (Z.of_nat (length l)) size maxlen lim' with
  | ([], RetO 1) => (cur, false)
  | ([1], RetO 2) => if maxlen <? size then (k, true) else (k, false)
  | ([1], RetO 3) => trim fuel maxlen base l lim' k
  | _ => (cur, true)
  end.
Proof. exact gen_hook_staging_trim. Qed.
Print Assumptions C08_gen_trim_decisions.

(* stagedResultSorter.updateShuffledIDs: the memo is cleared exactly when the random source changed, then filled for the ids it lacks *)
Theorem C08_gen_memo_decisions :
  forall same known : bool,
  g_hook_sorter_memo same = (if same then ([3], RetO 1) else ([1; 2; 3], RetO 1)) /\
  g_hook_sorter_memo_body known = (if known then ([], Fall) else ([1], Fall)).
Proof. exact gen_hook_sorter_memo. Qed.
Print Assumptions C08_gen_memo_decisions.

(* AddLogProposalsHook / AddConditionalProposalsHook: view, coordinator filter, keyed shuffle, cut (only when longer than the limit), append - the same steps for both types *)
Theorem C08_gen_proposal_hooks_steps :
  forall (e : bool) n limit,
  g_hook_log_proposals e n limit = g_hook_cond_proposals e n limit /\
  g_hook_log_proposals e n limit =
    if e then ([1; 2], RetO 1) else if limit <? n then ([1; 2; 3; 4; 5], RetO 0) else ([1; 2; 3; 5], RetO 0).
Proof. exact gen_hook_proposals. Qed.
Print Assumptions C08_gen_proposal_hooks_steps.

(* the cut keeps the leading limit entries *)
Theorem C08_gen_proposal_hooks_cut :
  forall (A : Type) (l : list A) (limit : nat),
  firstn limit l =
  match g_hook_log_proposals false (Z.of_nat (length l)) (Z.of_nat limit) with
  | ([1; 2; 3; 4; 5], RetO 0) => firstn limit l
  | _ => l
  end.
Proof. exact gen_hook_proposals_cut. Qed.
Print Assumptions C08_gen_proposal_hooks_cut.

(* AddBlockHistoryHook: the model's add_history is the interpretation *)
Theorem C08_gen_block_history_decisions :
  forall (A : Type) (view : list A) (limit : nat),
  add_history limit view =
  match g_hook_block_history (Z.of_nat (length view)) (Z.of_nat limit) with
  | ([1; 2; 3], Fall) => firstn limit view
  | _ => view
  end.
Proof. exact gen_hook_block_history. Qed.
Print Assumptions C08_gen_block_history_decisions.

End GenTie.

Section GenTie.
Local Open Scope Z_scope.
(* ---- Tie to the source by translation (Gen/GeneratedTr.v, regenerated from /repo on every run by gen/translate.go) ----
   g_* are the decision terms translated from the CURRENT Go code: every condition, the branch structure and which
   white-listed effect statement runs on which path.  The theorems below state that the model's functions - about
   which every theorem above speaks - are the interpretation of these terms. *)
(* ocr3Plugin.Observation: pre-build hooks first (staging, metadata, proposal queue), then block history, log proposals, conditional proposals and LAST the staged results; an error returns at once *)
Theorem C08_gen_Observation_hook_order :
  forall (prev_nonnil : bool) prev_len (dec_err log_err cond_err staging_err : bool),
  let present := prev_nonnil || negb (prev_len =? 0) in
  let pre := if present then [1; 2; 3] else [] in
  g_observation prev_nonnil prev_len dec_err log_err cond_err staging_err =
  if present && dec_err then ([], RetO 1)
  else if log_err then (pre ++ [4; 5], RetO 1)
  else if cond_err then (pre ++ [4; 5; 6], RetO 1)
  else if staging_err then (pre ++ [4; 5; 6; 7], RetO 1)
  else (pre ++ [4; 5; 6; 7], RetO 2).
Proof. exact gen_observation. Qed.
Print Assumptions C08_gen_Observation_hook_order.

End GenTie.

(* The size arithmetic the trimming hook relies on, on the byte-exact wire model (Model/Wire.v, tied to Encode() by the
   C15 run): the observation with the results l is the observation without performables, with the 4 bytes of `null`
   replaced by '[' r1 ',' ... ',' rk ']' - exactly Model/Observation.v's obs_size (base - 4 + 2 + sizes + (k - 1)). *)
Theorem C08_size_arithmetic :
  forall (l : list Wire.wres) props hist,
    l <> [] ->
    (length (Wire.enc_obs (Wire.mkWObs (Some l) props hist)) + 4 =
     length (Wire.enc_obs (Wire.mkWObs None props hist)) + 2 + fold_right (fun r a => length (Wire.pr_res r) + a) 0 l + (length l - 1))%nat.
Proof. exact WireLenProofs.obs_size_arithmetic. Qed.
Print Assumptions C08_size_arithmetic.

Example C08_nonvacuous :
  let staged := [mkSRes 1 30 400; mkSRes 2 10 400; mkSRes 3 20 400; mkSRes 4 5 400]%Z in
  sizes_ok staged /\
  add_from_staging 1000 100 3 [4] staged = ([mkSRes 2 10 400]%Z, false).  (* the "+1" over-trims: two would fit *)
Proof.
  split; [|vm_compute; reflexivity].
  unfold sizes_ok. apply Forall_forall. intros r [<-|[<-|[<-|[<-|[]]]]]; simpl; lia.
Qed.
