(* C08 — an observation is the network-canonical prefix of what the node holds.
   Property theorems only; proofs live in Proofs/ObservationProofs.v. *)
From Verif Require Import Base.Util Model.Outcome Model.Observation Proofs.SortProofs Proofs.ObservationProofs
  Proofs.K08Proofs Gen.Generated.
Open Scope N_scope.

(* Performables: for every store content (any number of staged results, any sizes >= 2 bytes), every
   in-flight set, every cap and byte limit: what is sent is a prefix of the canonical list (staged,
   not in flight, ordered by the round's shuffled work id); it contains nothing in flight; unless the
   recursion took its over-sized exit, it respects the cap and fits the byte limit, and if the capped
   list fits as a whole it IS the capped list. *)
Theorem C08_performables_canonical_prefix :
  forall maxlen base limit blocked staged l over,
    sizes_ok staged -> (0 <= limit)%Z ->
    add_from_staging maxlen base limit blocked staged = (l, over) ->
    (exists k, l = firstn k (cands blocked staged)) /\
    (forall r, In r l -> In r staged /\ ~ In (s_wid r) blocked) /\
    (over = false ->
       (Z.of_nat (length l) <= limit)%Z /\
       (l = [] \/ (obs_size base (cands blocked staged) (length l) <= maxlen)%Z) /\
       ((obs_size base (cands blocked staged) (Z.to_nat (zmin_len limit (cands blocked staged))) <= maxlen)%Z ->
          l = firstn (Z.to_nat limit) (cands blocked staged))).
Proof. exact add_from_staging_spec. Qed.
Print Assumptions C08_performables_canonical_prefix.

(* Two nodes holding the same candidates send the same list whatever their insertion order. *)
Theorem C08_insertion_order_independent :
  forall maxlen base limit blocked s1 s2,
    Permutation s1 s2 -> NoDup (map s_shuf s1) ->
    add_from_staging maxlen base limit blocked s1 = add_from_staging maxlen base limit blocked s2.
Proof. exact add_from_staging_insertion_indep. Qed.
Print Assumptions C08_insertion_order_independent.

(* The byte-limit recursion: strictly decreasing limit (the code's "+1"), so it terminates within
   length+1 unfoldings; if it reports the over-sized exit, that exit was really taken. *)
Theorem C08_trim_progress :
  forall size base maxlen limit,
    (0 < limit)%Z -> (base <= size)%Z -> (maxlen < size)%Z -> (next_limit size base maxlen limit < limit)%Z.
Proof. exact next_limit_lt. Qed.
Print Assumptions C08_trim_progress.

Theorem C08_trim_oversized_exit_only :
  forall fuel maxlen base l limit cur k over, sizes_ok l ->
    (Z.max 0 (zmin_len limit l) < Z.of_nat fuel)%Z ->
    trim fuel maxlen base l limit cur = (k, over) -> over = true ->
    exists lim', (0 < lim')%Z /\ (lim' <= zmin_len limit l)%Z /\ k = Z.to_nat lim' /\ (maxlen < obs_size base l k)%Z.
Proof. exact trim_fuel. Qed.
Print Assumptions C08_trim_oversized_exit_only.

(* Proposals: at most `limit` per trigger type, drawn from the node's own view, none in flight,
   nothing twice (the view has one entry per work id; the keyed shuffle is a list of distinct positions). *)
Theorem C08_proposals_from_own_view :
  forall limit blocked perm view p,
    In p (add_proposals limit blocked perm view) -> In p view /\ ~ In (fst p) blocked.
Proof. exact add_proposals_spec. Qed.
Print Assumptions C08_proposals_from_own_view.

Theorem C08_proposals_cap :
  forall limit blocked perm view, (length (add_proposals limit blocked perm view) <= limit)%nat.
Proof. exact add_proposals_length. Qed.
Print Assumptions C08_proposals_cap.

Theorem C08_proposals_no_repeat :
  forall (A : Type) perm (l : list A), NoDup perm -> NoDup l -> NoDup (apply_perm perm l).
Proof. exact @apply_perm_nodup. Qed.
Print Assumptions C08_proposals_no_repeat.

(* Block history: the leading `limit` entries of the node's view. *)
Theorem C08_history_prefix :
  forall (A : Type) limit (view : list A),
    add_history limit view = firstn limit view /\ (length (add_history limit view) <= limit)%nat.
Proof. exact @add_history_spec. Qed.
Print Assumptions C08_history_prefix.

(* The shuffled-id memo of stagedResultSorter is transparent: after ANY history of calls with
   arbitrary random sources and id lists, each id of the current call is looked up to exactly
   ShuffleString(id, current source). *)
Theorem C08_memo_transparent :
  forall (shuffle : N -> N -> N) (calls : list (N * list N)) (m0 : memo) src ws,
    memo_inv shuffle m0 ->
    let m := fold_left (fun m c => mupdate shuffle m (fst c) (snd c)) calls m0 in
    forall w, In w ws -> mlookup (m_tab (mupdate shuffle m src ws)) w = Some (shuffle w src).
Proof. exact memo_transparent. Qed.
Print Assumptions C08_memo_transparent.

(* The boolean checker applied to the implementation's observed observation decides the property
   clauses (canonical prefix, cut only by cap / byte limit, proposals from the node's own unfiltered
   views without repeats, leading block history, nothing twice, twin instance agrees). *)
Theorem C08_checker_sound : forall k, K08 k = true -> C08_spec k.
Proof. exact K08_sound. Qed.
Print Assumptions C08_checker_sound.

Theorem C08_gen_limits :
  ObservationPerformablesLimit = 100%Z /\ ObservationLogRecoveryProposalsLimit = 5%Z /\
  ObservationConditionalsProposalsLimit = 5%Z /\ ObservationBlockHistoryLimit = 256%Z.
Proof. repeat split; reflexivity. Qed.
Print Assumptions C08_gen_limits.

Example C08_nonvacuous :
  let staged := [mkSRes 1 30 400; mkSRes 2 10 400; mkSRes 3 20 400; mkSRes 4 5 400]%Z in
  sizes_ok staged /\
  add_from_staging 1000 100 3 [4] staged = ([mkSRes 2 10 400]%Z, false).  (* the "+1" over-trims: two would fit *)
Proof.
  split; [|vm_compute; reflexivity].
  unfold sizes_ok. apply Forall_forall. intros r [<-|[<-|[<-|[<-|[]]]]]; simpl; lia.
Qed.
