(* C19 — simulated chain: newest-first history whatever the numbers and the arrival order,
   one recorded event per transmitted report, correct confirmations in the look-back.
   Property theorems only; proofs live in Proofs/SimChainProofs.v.

   The model takes the comparison used by util.SortedKeyMap as a parameter: [keyless] is the
   repaired code (length, then bytes), [str_ltb] is Go's plain string `<` that the pinned commit
   used (defect 9, repaired in /repo by a fix: commit).

   Proved here for every input of the sequential model.  Not expressible in the model and
   therefore observed by the harness only (partial): delivery of every block to every
   subscriber by the broadcaster's per-subscriber goroutines, and `latest` moving backwards
   when blocks are delivered out of order. *)
From Coq Require Import Sorting.Sorted.
From Verif Require Import Base.Util Model.SimChain Proofs.SimChainProofs Gen.Generated.
From Coq Require Import Permutation.
From Verif Require Import Model.SimFanout Proofs.SimFanoutProofs.
From Verif Require Import Base.GenIR Gen.GeneratedTr Proofs.GenTrSim.
Open Scope N_scope.

(* For every sequence of received blocks (any numbers, any order, repeats allowed) the history
   handed to the plug-in is strictly descending in block number. *)
Theorem C19_desc :
  forall arrival, descending (map fst (history_of keyless arrival)).
Proof. exact history_desc. Qed.
Print Assumptions C19_desc.

(* It is exactly the [history_depth] highest distinct numbers received, each with the hash of
   the block received last under that number. *)
Theorem C19_history_exact :
  forall arrival, C19_hist_spec arrival (history_of keyless arrival).
Proof. exact history_meets_spec. Qed.
Print Assumptions C19_history_exact.

(* The pinned commit's string comparison violates the clause (98,99,100,101 => 99,98,101,100). *)
Theorem C19_desc_refuted :
  exists arrival, ~ descending (map fst (history_of str_ltb arrival)).
Proof. exact history_string_order_refuted. Qed.
Print Assumptions C19_desc_refuted.

(* ... and satisfies it exactly as long as all block numbers have the same number of digits. *)
Theorem C19_desc_string_order_equal_length :
  forall arrival L, (forall b, In b arrival -> length (key_of (b_num b)) = L) ->
  descending (map fst (history_of str_ltb arrival)).
Proof. exact history_desc_equal_length. Qed.
Print Assumptions C19_desc_string_order_equal_length.

(* The comparison of the repaired code is the numeric order of the block numbers. *)
Theorem C19_key_order_numeric :
  forall a b, keyless (key_of a) (key_of b) = true <-> a < b.
Proof. exact keyless_key_of. Qed.
Print Assumptions C19_key_order_numeric.

(* On a consistent chain (one block per number) the history depends only on the set of blocks
   received, not on their order or multiplicity. *)
Theorem C19_arrival_indep :
  forall l1 l2, (forall b, In b l1 <-> In b l2) -> chain_consistent l1 ->
  history_of keyless l1 = history_of keyless l2.
Proof. exact (arrival_indep keyless keyless_irrefl keyless_trans keyless_total). Qed.
Print Assumptions C19_arrival_indep.

(* However many nodes submit a (report, round), in whatever order and interleaved with any
   Loads: what is put on chain is what Results() reports, no (report, round) occurs twice,
   every submitted one occurs, and the number of accepted submissions is the number of events. *)
Theorem C19_transmit_once :
  forall ops,
    tl_onchain ops = tl_results ops /\
    NoDup (map tx_key (tl_results ops)) /\
    (forall t, In (OTransmit t) ops -> In (tx_key t) (map tx_key (tl_results ops))) /\
    count_true (tl_accepted ops) = length (tl_results ops).
Proof. exact transmit_once. Qed.
Print Assumptions C19_transmit_once.

Theorem C19_transmit_once_count :
  forall ops t, In (OTransmit t) ops ->
    count_key (tx_key t) (tl_results ops) = 1%nat /\ count_key (tx_key t) (tl_onchain ops) = 1%nat.
Proof. exact transmit_once_count. Qed.
Print Assumptions C19_transmit_once_count.

(* GetLatestEvents returns exactly the events of the [report_range] highest transmit-bearing
   blocks, newest first, each with Confirmations = latest - its block. *)
Theorem C19_confirmations :
  forall ds, C19_conf_spec ds (rt_run keyless ds).
Proof. exact rt_meets_spec. Qed.
Print Assumptions C19_confirmations.

(* With in-order delivery and transmits recorded under the block that carries them,
   confirmations are never negative. *)
Theorem C19_confirmations_nonneg :
  forall ds, StronglySorted N.lt (map d_num ds) ->
  (forall d ts t, In d ds -> d_transmits d = Some ts -> In t ts -> te_block t = d_num d) ->
  forall e, In e (rt_run keyless ds) -> (0 <= pe_conf e)%Z.
Proof. exact confirmations_nonneg. Qed.
Print Assumptions C19_confirmations_nonneg.

(* The boolean checkers applied to the implementation's observed output decide the specs. *)
Theorem C19_hist_checker_sound :
  forall arrival obs, C19_hist_check arrival obs = true -> C19_hist_spec arrival obs.
Proof. exact C19_hist_check_sound. Qed.
Print Assumptions C19_hist_checker_sound.

Theorem C19_tx_checker_sound :
  forall c, C19_tx_check c = true -> C19_tx_spec c.
Proof. exact C19_tx_check_sound. Qed.
Print Assumptions C19_tx_checker_sound.

Theorem C19_conf_checker_sound :
  forall ds obs, C19_conf_check ds obs = true -> C19_conf_spec ds obs.
Proof. exact C19_conf_check_sound. Qed.
Print Assumptions C19_conf_checker_sound.

(* Obligations against the constants read from /repo's current sources: the model's history depth
   and look-back are the code's, and the simulated chain keeps at least as many blocks as the
   plug-in puts into an observation. *)
Theorem C19_gen_history_depth : Z.of_nat history_depth = SimHistoryDepth.
Proof. vm_compute. reflexivity. Qed.
Print Assumptions C19_gen_history_depth.

Theorem C19_gen_report_range : Z.of_nat report_range = SimReportTrackerBlockRange.
Proof. vm_compute. reflexivity. Qed.
Print Assumptions C19_gen_report_range.

Theorem C19_gen_history_covers_observation : (ObservationBlockHistoryLimit <= SimHistoryDepth)%Z.
Proof. vm_compute. discriminate. Qed.
Print Assumptions C19_gen_history_covers_observation.

(* ---- every node receives every block ---- *)
(* Fan-out model (Model/SimFanout.v): a broadcast spawns one delivery per current subscriber, deliveries complete in any
   order after any delay.  A subscriber present from the start has, at every moment, received-or-is-owed exactly the
   blocks broadcast so far, each once; when nothing is in flight it has received exactly those blocks; and a delivery
   in flight can always complete.  The tie of the two steps to broadcaster.go is C19_gen_broadcaster_fanout below
   (every subscription gets its goroutine, the goroutine always sends). *)
Theorem C19_fanout_exactly_once :
  forall subs ops x,
  count_occ Nat.eq_dec subs x = 1%nat ->
  (forall y, In (FSubscribe y) ops -> y <> x) ->
  let s := frun subs ops in
  Permutation (recv_of s x ++ owed_to s x) (f_sent s).
Proof. exact fanout_exactly_once. Qed.
Print Assumptions C19_fanout_exactly_once.

Theorem C19_every_subscriber_gets_every_block :
  forall subs ops x,
  count_occ Nat.eq_dec subs x = 1%nat ->
  (forall y, In (FSubscribe y) ops -> y <> x) ->
  f_flight (frun subs ops) = [] ->
  Permutation (recv_of (frun subs ops) x) (f_sent (frun subs ops)).
Proof. exact fanout_complete. Qed.
Print Assumptions C19_every_subscriber_gets_every_block.

Theorem C19_fanout_progress :
  forall s, f_flight s <> [] -> (length (f_flight (fstep s (FDeliver 0))) < length (f_flight s))%nat.
Proof. exact fanout_progress. Qed.
Print Assumptions C19_fanout_progress.

Example C19_fanout_nonvacuous :
  let ops := [FBroadcast 7; FBroadcast 8; FDeliver 3; FDeliver 0; FSubscribe 5; FBroadcast 9; FDeliver 1; FDeliver 0;
              FDeliver 0; FDeliver 0; FDeliver 0]%nat in
  count_occ Nat.eq_dec [1; 2]%nat 2%nat = 1%nat /\ f_flight (frun [1; 2]%nat ops) = [] /\
  recv_of (frun [1; 2]%nat ops) 2%nat = [8; 7; 9]%nat /\ f_sent (frun [1; 2]%nat ops) = [7; 8; 9]%nat.
Proof. vm_compute. repeat split. Qed.

Section GenTie.
Local Open Scope Z_scope.
(* ---- Tie to the source by translation (Gen/GeneratedTr.v, regenerated from /repo on every run by gen/translate.go) ----
   g_* are the decision terms translated from the CURRENT Go code: every condition, the branch structure and which
   white-listed effect statement runs on which path.  The theorems below state that the model's functions - about
   which every theorem above speaks - are the interpretation of these terms. *)
(* simulator keyLess: shorter decimal keys first, equal lengths lexicographically: the model's keyless *)
Theorem C19_gen_keyLess_decisions :
  forall a b : str,
  g_sim_keyLess (Z.of_nat (length a)) (Z.of_nat (length b)) (str_ltb a b) = ([], RetB (keyless a b)).
Proof. exact gen_sim_keyLess. Qed.
Print Assumptions C19_gen_keyLess_decisions.

(* SortedKeyMap.Set: a new key is appended and the key slice re-sorted (1, 2); the value is stored either way (3) *)
Theorem C19_gen_sorted_map_set :
  forall (V : Type) lt (m : skm V) k v,
  skm_set lt m k v =
  match g_skm_set (is_some (lookup k (sk_vals m))) with
  | ([1; 2; 3], Fall) => mkSkm (sort_keys lt (sk_keys m ++ [k])) (update k v (sk_vals m))
  | ([3], Fall) => mkSkm (sk_keys m) (update k v (sk_vals m))
  | _ => m
  end.
Proof. exact gen_skm_set. Qed.
Print Assumptions C19_gen_sorted_map_set.

(* SortedKeyMap.Get: the stored value when the key is known, the zero value and false otherwise *)
Theorem C19_gen_sorted_map_get :
  snd (g_skm_get true) = RetO 1 /\ (snd (g_skm_get false) = RetO 0 \/ snd (g_skm_get false) = RetO 1) /\
  (forall b, fst (g_skm_get b) = []).
Proof. exact gen_skm_get. Qed.
Print Assumptions C19_gen_sorted_map_get.

(* SortedKeyMap.Keys(count): count clamped to the number of keys (1), then the copy loop (2) takes them from the top end *)
Theorem C19_gen_sorted_map_keys :
  forall (V : Type) (m : skm V) count,
  skm_keys m count =
  let n := length (sk_keys m) in
  match g_skm_keys (Z.of_nat count) (Z.of_nat n) with
  | ([1; 2], RetO 1) => firstn n (rev (sk_keys m))
  | ([2], RetO 1) => firstn count (rev (sk_keys m))
  | _ => []
  end.
Proof. exact gen_skm_keys. Qed.
Print Assumptions C19_gen_sorted_map_keys.

(* OCR3TransmitLoader.Transmit, encoders succeeding: queued and recorded (4, 5) exactly when the (report, round) key was not transmitted before *)
Theorem C19_gen_transmit_once :
  forall s t,
  tl_transmit s t =
  match g_sim_transmit false false (key_mem (tx_key t) (map tx_key (tl_done s))) with
  | ([1; 2; 3; 4; 5], RetO 0) => (mkTl (tl_queue s ++ [t]) (tl_done s ++ [t]), true)
  | _ => (s, false)
  end.
Proof. exact gen_sim_transmit. Qed.
Print Assumptions C19_gen_transmit_once.

(* OCR3TransmitLoader.Transmit: every other path returns an error before anything is queued or recorded *)
Theorem C19_gen_transmit_rejections :
  forall e2 d,
  g_sim_transmit true e2 d = ([], RetO 1) /\ g_sim_transmit false true d = ([1; 2], RetO 1) /\
  g_sim_transmit false false true = ([1; 2; 3], RetO 2).
Proof. exact gen_sim_transmit_errors. Qed.
Print Assumptions C19_gen_transmit_rejections.

(* OCR3TransmitLoader.Load: nothing on an empty queue; otherwise stamp and copy every queued transmit (1), empty the queue (2), add one transaction to the block (3), count performs (4) *)
Theorem C19_gen_load :
  forall s p,
  fst (tl_load s) = mkTl [] (tl_done s) /\
  g_sim_load (Z.of_nat (length (tl_queue s))) p =
  match tl_queue s with
  | [] => ([], RetU)
  | _ => (if p then [1; 2; 3; 4] else [1; 2; 3], Fall)
  end.
Proof. exact gen_sim_load. Qed.
Print Assumptions C19_gen_load.

(* straight-line bodies: Keys copy, Load stamp/copy, block-history fan-out (read keys, build history, send to every subscriber), plug-in event construction *)
Theorem C19_gen_straight_line_bodies :
  g_skm_keys_body = ([1], Fall) /\ g_sim_load_body = ([1; 2; 3; 4], Fall) /\
  g_sim_history_broadcast = ([1; 2; 3], Fall) /\ g_sim_history_broadcast_keys = ([1; 2], Fall) /\
  g_sim_history_broadcast_send = ([1], Fall) /\ g_sim_plugin_events_body = ([1; 2], Fall).
Proof. exact gen_sim_straight. Qed.
Print Assumptions C19_gen_straight_line_bodies.

(* ReportTracker.GetLatestEvents: nothing before the first block; otherwise the look-back keys are read (1) and walked (2) *)
Theorem C19_gen_latest_events :
  forall s,
  g_sim_latest_events (negb (is_some (rt_latest s))) =
  match rt_latest s with None => ([], RetO 0) | Some _ => ([1; 2], RetO 1) end.
Proof. exact gen_sim_latest_events. Qed.
Print Assumptions C19_gen_latest_events.

(* GetLatestEvents, per chain event: its plug-in events are appended whether or not the report decoded (none when it did not) *)
Theorem C19_gen_latest_events_per_event :
  forall e, g_sim_latest_events_event e = ([1; 2], Fall).
Proof. exact gen_sim_latest_events_event. Qed.
Print Assumptions C19_gen_latest_events_per_event.

(* createPluginTransmitEvents: an undecodable report yields an error and no events; otherwise one event per result *)
Theorem C19_gen_plugin_events :
  forall e, g_sim_plugin_events e = if e then ([], RetO 0) else ([1], RetO 1).
Proof. exact gen_sim_plugin_events. Qed.
Print Assumptions C19_gen_plugin_events.

(* BlockBroadcaster.run: one tick takes the next block number; past the limit the run ends, otherwise the block is broadcast *)
Theorem C19_gen_broadcaster_run :
  forall c,
  g_sim_bb_run = ([1; 2], Fall) /\
  g_sim_bb_run_body true c = (if 0 <? c then ([1; 2; 4], Fall) else ([1; 3; 4], Fall)) /\
  g_sim_bb_run_body false c = ([5], RetU).
Proof. exact gen_sim_bb_run. Qed.
Print Assumptions C19_gen_broadcaster_run.

(* BlockBroadcaster.broadcast: every loader fills the block, every subscription gets it on a goroutine of its own, which always sends *)
Theorem C19_gen_broadcaster_fanout :
  forall p d m,
  In 1 (fst (g_sim_bb_broadcast p)) /\ In 4 (fst (g_sim_bb_broadcast p)) /\
  g_sim_bb_loaders_body = ([1], Fall) /\ g_sim_bb_subs_body = ([1], Fall) /\
  last (fst (g_sim_bb_deliver d m)) 0 = 2 /\ snd (g_sim_bb_deliver d m) = Fall.
Proof. exact gen_sim_bb_broadcast. Qed.
Print Assumptions C19_gen_broadcaster_fanout.

(* BlockBroadcaster.unsubscribe *)
Theorem C19_gen_broadcaster_unsubscribe :
  forall k c,
  g_sim_bb_unsubscribe k c = if k then (if c then ([1; 2; 3; 4], Fall) else ([1; 3; 4], Fall)) else ([3; 4], Fall).
Proof. exact gen_sim_bb_unsubscribe. Qed.
Print Assumptions C19_gen_broadcaster_unsubscribe.

(* Listener.run: a block is saved, always sent to the block channel, and each transaction to the channel of its kind *)
Theorem C19_gen_listener_run :
  forall l c p u,
  g_sim_listener_run_body true = ([1; 2; 3], Fall) /\ g_sim_listener_run_body false = ([], RetU) /\
  last (fst (g_sim_listener_tx_body l c p u)) 0 = 5 /\
  g_sim_listener_tx_body false false true u = ([3; 5], Fall).
Proof. exact gen_sim_listener. Qed.
Print Assumptions C19_gen_listener_run.

(* Listener: an event reaches every subscriber of its channel; subscribing appends to every named channel's list *)
Theorem C19_gen_listener_fanout :
  forall s,
  g_sim_listener_broadcast true = ([1], Fall) /\ g_sim_listener_broadcast false = ([], Fall) /\
  g_sim_listener_broadcast_body = ([1], Fall) /\ last (fst (g_sim_listener_subscribe_body s)) 0 = 2.
Proof. exact gen_sim_listener_fanout. Qed.
Print Assumptions C19_gen_listener_fanout.

End GenTie.

(* Non-vacuity: a range crossing a power of ten, received out of order with a repeat, gives the
   descending history; three senders of one (report, round) around a Load record one event;
   a transmit in block 99 seen from block 101 has two confirmations. *)
Example C19_nonvacuous :
  let arrival := map (fun n => mkBlock n (n + 1000)) [100; 98; 101; 99; 98] in
  chain_consistent arrival /\
  map fst (history_of keyless arrival) = [101; 100; 99; 98] /\
  length (tl_results [OTransmit (mkTx 1 5 7); OTransmit (mkTx 2 5 7); OLoad; OTransmit (mkTx 3 5 7); OTransmit (mkTx 3 5 8)]) = 2%nat /\
  map pe_conf (rt_run keyless [mkDel 98 None; mkDel 99 (Some [mkTev 99 1 [(7, 95)]]); mkDel 100 None; mkDel 101 None]) = [2%Z].
Proof.
  split; [|vm_compute; auto].
  intros b1 b2 H1 H2 Hn. simpl in H1, H2.
  repeat (destruct H1 as [<-|H1]); try contradiction;
    repeat (destruct H2 as [<-|H2]); try contradiction; try reflexivity; simpl in Hn; discriminate.
Qed.
