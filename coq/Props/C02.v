(* C02 — outcome and reports are a pure function of the round's inputs.
   Property theorems only; proofs live in Proofs/*. *)
From Verif Require Import Base.Util Model.Types Model.Outcome Model.Validate Model.OutcomeCase Model.Reports
  Proofs.SortProofs Proofs.PerformablesProofs Proofs.ProposalsProofs Proofs.OutcomeProofs Proofs.ReportsProofs.
Open Scope N_scope.

(* Go randomises map iteration per run.  The model takes the iteration order of the two maps that
   Outcome ranges over (resultCount, recentBlocks) as arbitrary permutation oracles; the outcome is
   the same for every pair of orders.  The model's outcome function has no argument for any node-local
   state, clock or instance: that it equals the implementation on instances with different local state
   is what the correspondence run checks. *)
Theorem C02_outcome_order_independent :
  forall utg wg (uid : result -> N) (shuf : N -> N) pu1 pu2 (pb1 pb2 : bvotes -> bvotes) tp tb lim prev l,
    (forall v, Permutation (pu1 v) v) -> (forall v, Permutation (pu2 v) v) ->
    (forall v, Permutation (pb1 v) v) -> (forall v, Permutation (pb2 v) v) ->
    outcome_of uid shuf (valid_obs utg wg) true pu1 pb1 tp tb lim prev l =
    outcome_of uid shuf (valid_obs utg wg) true pu2 pb2 tp tb lim prev l.
Proof. exact outcome_order_indep. Qed.
Print Assumptions C02_outcome_order_independent.

Theorem C02_agreed_order_independent :
  forall (shuf : N -> N) pi1 pi2 thr limit v,
    (forall v0, Permutation (pi1 v0) v0) -> (forall v0, Permutation (pi2 v0) v0) -> NoDup (map fst v) ->
    pset shuf pi1 thr limit v = pset shuf pi2 thr limit v.
Proof. exact pset_order_indep. Qed.
Print Assumptions C02_agreed_order_independent.

Theorem C02_block_order_independent :
  forall (pi1 pi2 : bvotes -> bvotes) thr v,
    (forall v0, Permutation (pi1 v0) v0) -> (forall v0, Permutation (pi2 v0) v0) -> NoDup (map fst v) ->
    latest_quorum_block true pi1 thr v = latest_quorum_block true pi2 thr v.
Proof. exact latest_quorum_block_order_indep. Qed.
Print Assumptions C02_block_order_independent.

(* The pinned commit (zero-hash keys not skipped before the fold, zero hash being the fold's own
   "none yet" sentinel) was order dependent: finding 2, repaired by a fix: commit in /repo. *)
Theorem C02_block_order_unskipped_refuted :
  exists (pi1 pi2 : bvotes -> bvotes) thr v,
    (forall v, Permutation (pi1 v) v) /\ (forall v, Permutation (pi2 v) v) /\ NoDup (map fst v) /\
    latest_quorum_block false pi1 thr v <> latest_quorum_block false pi2 thr v.
Proof. exact latest_quorum_block_unskipped_refuted. Qed.
Print Assumptions C02_block_order_unskipped_refuted.

(* Sort abstraction: Go's sort.Strings / sort.Slice are unstable; whenever the keys are pairwise
   distinct ANY correct sorting procedure returns what the model's insertion sort returns. *)
Theorem C02_sort_abstraction :
  forall (A : Type) (key : A -> N) (l s : list A),
    NoDup (map key l) -> Permutation s l -> Sorted.StronglySorted (le_key key) s -> s = sort_by key l.
Proof. exact @sort_by_unique. Qed.
Print Assumptions C02_sort_abstraction.

(* Reports: the model is a function of the configuration and the outcome alone. *)
Theorem C02_reports_function_of_outcome :
  forall g c ps, concat (reports g c ps) = ps.
Proof. exact reports_partition_any. Qed.
Print Assumptions C02_reports_function_of_outcome.

Example C02_nonvacuous :
  exists v : bvotes, NoDup (map fst v) /\
    latest_quorum_block true (fun x => x) 1 v = latest_quorum_block true (@rev _) 1 v /\
    snd (latest_quorum_block true (fun x => x) 1 v) = true.
Proof.
  exists [(mkBK 100 0, 1%nat); (mkBK 50 1, 1%nat); (mkBK 50 2, 2%nat)]. split.
  - simpl. repeat constructor; simpl; intuition discriminate.
  - split; vm_compute; reflexivity.
Qed.
