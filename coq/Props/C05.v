(* C05 — new proposals bind to the latest block f+1 oracles share and are kept once.
   Property theorems only; proofs live in Proofs/{Proposals,Surfaced,Outcome}Proofs.v. *)
From Verif Require Import Base.Util Model.Types Model.Outcome Model.Validate Model.OutcomeCase
  Proofs.ProposalsProofs Proofs.SurfacedProofs Proofs.OutcomeProofs Proofs.K05Proofs Gen.Generated.
From Verif Require Import Base.GenIR Gen.GeneratedTr Proofs.GenTrPlugin.
Open Scope N_scope.

(* The block a new round is stamped with: listed by >= tb valid observations (distinct oracles), and
   no block with a NON-ZERO hash and that support is higher (by number, then hash).  For every (n,f),
   every set of observations with arbitrary and conflicting block histories, every map order. *)
Theorem C05_block_has_quorum_and_is_latest :
  forall utg wg (pi_b : bvotes -> bvotes), (forall v, Permutation (pi_b v) v) ->
  forall tb (l : list aobs),
    let obs := valid_obs_list (valid_obs utg wg) l in
    let lq := latest_quorum_block true pi_b tb (fold_left badd obs []) in
    snd lq = true ->
    bk_hash (fst lq) <> 0 /\ (tb <= bsupport (fst lq) obs)%nat /\ (1 <= bsupport (fst lq) obs)%nat /\
    forall b, (tb <= bsupport b obs)%nat -> (1 <= bsupport b obs)%nat -> bk_hash b <> 0 -> lex_le b (fst lq).
Proof.
  intros utg wg pi_b Hp tb l obs lq H.
  exact (outcome_block_quorum utg wg pi_b Hp tb l H).
Qed.
Print Assumptions C05_block_has_quorum_and_is_latest.

(* Every proposal of the new round carries exactly that block. *)
Theorem C05_new_round_stamped :
  forall (shuf : N -> N) (pi_b : bvotes -> bvotes) thr histLimit perRound bv allnew agreed prev q,
    snd (latest_quorum_block true pi_b thr bv) = true ->
    In q (firstn perRound (sort_by (fun p => shuf (p_wid p))
           (new_props (fst (latest_quorum_block true pi_b thr bv)) agreed
              (if Nat.leb histLimit (length (carry agreed prev)) then firstn (histLimit - 1) (carry agreed prev) else carry agreed prev)
              [] allnew))) ->
    t_num (p_trig q) = bk_num (fst (latest_quorum_block true pi_b thr bv)) /\
    t_hash (p_trig q) = bk_hash (fst (latest_quorum_block true pi_b thr bv)).
Proof. intros. eapply cset_block; eauto. Qed.
Print Assumptions C05_new_round_stamped.

(* No supported (non-zero-hash) block: nothing new, earlier rounds only carried over. *)
Theorem C05_no_quorum_no_new_round :
  forall utg wg uid (shuf : N -> N) pi_u (pi_b : bvotes -> bvotes), (forall v, Permutation (pi_b v) v) ->
  forall tp tb lim prev l,
    let obs := valid_obs_list (valid_obs utg wg) l in
    let out := outcome_of uid shuf (valid_obs utg wg) true pi_u pi_b tp tb lim prev l in
    snd (latest_quorum_block true pi_b tb (fold_left badd obs [])) = false ->
    (forall b, (tb <= bsupport b obs)%nat -> (1 <= bsupport b obs)%nat -> bk_hash b = 0) /\
    oc_surfaced out = carry (oc_agreed out) (oc_surfaced prev).
Proof. intros. eapply outcome_no_block_quorum; eauto. Qed.
Print Assumptions C05_no_quorum_no_new_round.

(* History: at most histLimit rounds; a new round is prepended and the oldest dropped first; at
   most perRound new proposals per round. *)
Theorem C05_history_bounds :
  forall (shuf : N -> N) (pi_b : bvotes -> bvotes), (forall v, Permutation (pi_b v) v) ->
  forall thr histLimit perRound, (1 <= histLimit)%nat ->
  forall bv allnew agreed prev, (length prev <= histLimit)%nat ->
    (length (cset shuf true pi_b thr histLimit perRound bv allnew agreed prev) <= histLimit)%nat /\
    (Forall (fun rd => (length rd <= perRound)%nat) prev ->
     Forall (fun rd => (length rd <= perRound)%nat) (cset shuf true pi_b thr histLimit perRound bv allnew agreed prev)).
Proof.
  intros shuf pi_b Hp thr H P Hh bv allnew agreed prev Hl. split.
  - apply (cset_history shuf pi_b Hp thr H P Hh bv allnew agreed prev Hl).
  - apply cset_round_sizes.
Qed.
Print Assumptions C05_history_bounds.

(* A unit of work appears at most once over the retained history and never together with an agreed
   performable for the same work. *)
Theorem C05_once :
  forall (shuf : N -> N) (pi_b : bvotes -> bvotes) thr histLimit perRound bv allnew agreed prev,
    NoDup (all_wids prev) ->
    NoDup (all_wids (cset shuf true pi_b thr histLimit perRound bv allnew agreed prev)) /\
    (forall w, In w (all_wids (cset shuf true pi_b thr histLimit perRound bv allnew agreed prev)) ->
               ~ In w (map r_wid agreed)).
Proof. exact cset_once. Qed.
Print Assumptions C05_once.

(* Proposals from earlier rounds persist until performed or aged out. *)
Theorem C05_persist :
  forall (shuf : N -> N) (pi_b : bvotes -> bvotes), (forall v, Permutation (pi_b v) v) ->
  forall thr histLimit perRound, (1 <= histLimit)%nat ->
  forall bv allnew agreed prev i rd p,
    nth_error prev i = Some rd -> In p rd -> perf_exists agreed p = false ->
    (snd (latest_quorum_block true pi_b thr bv) = false ->
       exists rd', nth_error (cset shuf true pi_b thr histLimit perRound bv allnew agreed prev) i = Some rd' /\ In p rd') /\
    (snd (latest_quorum_block true pi_b thr bv) = true -> (S i < histLimit)%nat \/ (length prev < histLimit)%nat ->
       exists rd', nth_error (cset shuf true pi_b thr histLimit perRound bv allnew agreed prev) (S i) = Some rd' /\ In p rd').
Proof. exact cset_persist. Qed.
Print Assumptions C05_persist.

(* Every new proposal of a round was proposed, for that unit of work, by a valid observation of the
   round, is not in the retained history and not agreed in this round. *)
Theorem C05_new_from_observations :
  forall qb agreed hist l added q,
    In q (new_props qb agreed hist added l) ->
    exists p, In p l /\ q = restamp qb p /\ ~ In (p_wid p) (all_wids hist)
              /\ ~ In (p_wid p) (map r_wid agreed) /\ ~ In (p_wid p) added.
Proof. exact new_props_spec. Qed.
Print Assumptions C05_new_from_observations.

(* Chain: over ANY number of consecutive rounds starting from a valid outcome every outcome is valid
   (<= 20 rounds, <= 50 per round, no work id twice across the history, valid work ids) — the work-id
   generator may not depend on the coordinated block (wg_ext; checked on the real generator by the
   harness on every case). *)
Theorem C05_chain_invariant :
  forall utg wg, (forall u t t', ext_key t = ext_key t' -> wg u t = wg u t') ->
  forall rs prev, outcome_rules utg wg prev -> Forall round_ok rs ->
    Forall (outcome_rules utg wg) (run_chain utg wg prev rs).
Proof. intros utg wg H rs prev. apply chain_valid. exact H. Qed.
Print Assumptions C05_chain_invariant.

(* Residual finding 2b: a block key whose hash is all zero can never be selected (the zero hash is
   the "none" value of the selection), even when it has quorum support and the highest number. *)
Theorem C05_zero_hash_block_refuted :
  exists (v : bvotes) thr b c, In (b, c) v /\ (thr <= c)%nat /\
    bk_num (fst (latest_quorum_block true (fun x => x) thr v)) < bk_num b.
Proof.
  exists [(mkBK 100 0, 2%nat); (mkBK 50 1, 2%nat)], 2%nat, (mkBK 100 0), 2%nat.
  split; [left; reflexivity|]. split; [lia|]. vm_compute. reflexivity.
Qed.
Print Assumptions C05_zero_hash_block_refuted.

(* The boolean checker applied to the implementation's observed outcome decides the property clauses:
   once / disjoint from agreed / <= histL rounds / <= perRound per round, and either (no new round, and
   no supported block with a non-zero hash) or (a new round stamped with ONE supported non-zero-hash
   block, nothing supported is higher, the rest is the carried history with the oldest round dropped when
   full, every new proposal was proposed this round, every proposed unit is surfaced / already in
   history / agreed / cut by the cap behind proposals that sort strictly before it). *)
Theorem C05_checker_sound :
  forall (shuf : N -> N) strict thr histL perRound obs agreed prev out,
    K05_with strict thr histL perRound shuf obs agreed prev out = true ->
    C05_spec shuf strict thr histL perRound obs agreed prev out.
Proof. exact K05_with_sound. Qed.
Print Assumptions C05_checker_sound.

Theorem C05_gen_limits :
  QuorumBlocksAdd = 1%Z /\ OutcomeSurfacedProposalsRoundHistoryLimit = 20%Z /\ OutcomeSurfacedProposalsLimit = 50%Z.
Proof. repeat split; reflexivity. Qed.
Print Assumptions C05_gen_limits.

Section GenTie.
Local Open Scope Z_scope.
(* ---- Tie to the source by translation (Gen/GeneratedTr.v, regenerated from /repo on every run by gen/translate.go) ----
   g_* are the decision terms translated from the CURRENT Go code: every condition, the branch structure and which
   white-listed effect statement runs on which path.  The theorems below state that the model's functions - about
   which every theorem above speaks - are the interpretation of these terms (Z scope inside the generated terms). *)
(* coordinatedBlockProposals.add, loop over the block history: a block key seen before gets one more vote, a new one gets one vote *)
Theorem C05_gen_add_decisions :
  forall present : bool,
  g_cbp_add_body present = if present then ([1], Fall) else ([2], Fall).
Proof. exact gen_cbp_add_body. Qed.
Print Assumptions C05_gen_add_decisions.

(* getLatestQuorumBlock, loop body: the model's lqb_step is the interpretation of the generated body (zero-hash keys skipped, threshold, later height, greater hash at equal height) *)
Theorem C05_gen_latest_quorum_block_decisions :
  forall thr most b c,
  lqb_step true thr most (b, c) =
  match g_cbp_lqb_body (Z.of_N (bk_hash b)) 0 (Z.of_nat c) (Z.of_nat thr) (Z.of_N (bk_hash most))
                       (Z.of_N (bk_num b)) (Z.of_N (bk_num most)) with
  | ([1], Fall) => b
  | _ => most
  end.
Proof. exact gen_cbp_lqb_body. Qed.
Print Assumptions C05_gen_latest_quorum_block_decisions.

(* getLatestQuorumBlock, whole function: one pass over the vote map, then (mostRecent, mostRecent.Hash != zeroHash) *)
Theorem C05_gen_latest_quorum_block_shape :
  g_cbp_lqb = ([1], RetO 1).
Proof. exact gen_cbp_lqb. Qed.
Print Assumptions C05_gen_latest_quorum_block_shape.

(* set, carry-over loop: a proposal of the previous outcome is kept unless an agreed performable has its work id *)
Theorem C05_gen_carry_decisions :
  forall agreed p t,
  filter (fun q => negb (perf_exists agreed q)) (p :: t) =
  match g_cbp_carry_body (perf_exists agreed p) with
  | ([1], Fall) => p :: filter (fun q => negb (perf_exists agreed q)) t
  | _ => filter (fun q => negb (perf_exists agreed q)) t
  end.
Proof. exact gen_cbp_carry_body. Qed.
Print Assumptions C05_gen_carry_decisions.

(* set, loop over the round's new proposals: the model's new_props is the interpretation of the generated body *)
Theorem C05_gen_new_proposal_decisions :
  forall qb agreed hist added p t,
  new_props qb agreed hist added (p :: t) =
  match g_cbp_new_body (prop_exists hist p) (perf_exists agreed p) (memN (p_wid p) added) (has_ext p) with
  | ([], Fall) => new_props qb agreed hist added t
  | ([1; 2; 3; 4; 5; 6], Fall) | ([1; 2; 3; 5; 6], Fall) => restamp qb p :: new_props qb agreed hist (p_wid p :: added) t
  | _ => []
  end.
Proof. exact gen_cbp_new_body. Qed.
Print Assumptions C05_gen_new_proposal_decisions.

(* set, whole function: the model's cset is the interpretation of the generated term (no quorum block: carry over only; history cut to limit-1 when full; per-round cap) *)
Theorem C05_gen_set_decisions :
  forall (shuf : N -> N) pi_b thr hl pr bv allnew agreed prev,
  let surf0 := carry agreed prev in
  let qbo := latest_quorum_block true pi_b thr bv in
  let surf1 := if Nat.leb hl (length surf0) then firstn (hl - 1) surf0 else surf0 in
  let cand := sort_by (fun p => shuf (p_wid p)) (new_props (fst qbo) agreed surf1 [] allnew) in
  cset shuf true pi_b thr hl pr bv allnew agreed prev =
  match g_cbp_set (snd qbo) (Z.of_nat (length surf0)) (Z.of_nat hl) (Z.of_nat (length cand)) (Z.of_nat pr) with
  | ([1; 2], RetU) => surf0
  | ([1; 2; 3; 4; 5; 6; 7], Fall) => firstn pr cand :: firstn (hl - 1) surf0
  | ([1; 2; 3; 4; 5; 7], Fall) => cand :: firstn (hl - 1) surf0
  | ([1; 2; 4; 5; 6; 7], Fall) => firstn pr cand :: surf0
  | ([1; 2; 4; 5; 7], Fall) => cand :: surf0
  | _ => []
  end.
Proof. exact gen_cbp_set. Qed.
Print Assumptions C05_gen_set_decisions.

End GenTie.

Example C05_nonvacuous :
  let bv := [(mkBK 100 7, 2%nat); (mkBK 100 9, 2%nat); (mkBK 101 3, 1%nat)] in
  latest_quorum_block true (fun x => x) 2 bv = (mkBK 100 9, true).
Proof. vm_compute. reflexivity. Qed.
