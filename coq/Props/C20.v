(* C20 — a simulation's verdict is faithful: summary statistics never crash, the verdict is
   success exactly when the performs reach the expected count (and stay at none when none is
   expected), a saved plan loads back unchanged.
   Property theorems only; proofs live in Proofs/SimVerdictProofs.v.

   The model carries the historic variants as boolean parameters: [fms false] / [stats_summary
   false] / [report_results _ false] is the median code of the pinned commit (defect 10a),
   [report_results false _] the stats builder that kept transmits without a block (defect 10c),
   [encode true] the pre-sized event slice (defect 10b).  All three are repaired in /repo by
   fix: commits; the theorems about the old variants are kept as _refuted.

   Proved here for every input of the model.  Not expressible in a sequential model and
   therefore observed by the harness on real runs only (partial): termination and exit status
   of a real 4-node simulation against the performs in its own log, every transmitted upkeep
   checked at its check block by >= f+1 nodes, no empty report, freedom from data races
   (-race build), and the renderer of the progress library collecting every finished tracker. *)
From Verif Require Import Base.Util Model.SimChain Model.SimVerdict Proofs.SimVerdictProofs.
From Verif Require Import Base.GenIR Gen.Generated Gen.GeneratedTr Proofs.GenTrSimVerdict.
Open Scope Z_scope.

(* The repaired summary statistics never panic, whatever the checks-per-id data. *)
Theorem C20_stats_total :
  forall data, exists s, stats_summary true data = Ok s.
Proof. exact summary_fixed_total. Qed.
Print Assumptions C20_stats_total.

(* ReportResults as a whole (per-upkeep stats, then the summary) never panics in the repaired
   code: no index out of range, no nil *big.Int, for any upkeeps, transmits (with or without a
   block) and check records. *)
Theorem C20_report_results_total :
  forall ups trs checks, exists r, report_results true true ups trs checks = Ok r.
Proof. exact report_results_total. Qed.
Print Assumptions C20_report_results_total.

(* The pinned commit's findMedianAndSplitData panicked exactly for lengths 0, 1, 2 ... *)
Theorem C20_fms_panics_iff :
  forall v, is_err (fms false v) = true <-> zlen v <= 2.
Proof. exact fms_old_err_iff. Qed.
Print Assumptions C20_fms_panics_iff.

(* ... and the summary (the function applied to the data and to both halves) exactly for
   0..5 and 7 values, i.e. for 0..5 and 7 distinct upkeep ids in ReportResults. *)
Theorem C20_stats_panics_iff :
  forall data, is_err (stats_summary false data) = true <-> (zlen data <= 5 \/ zlen data = 7).
Proof. exact summary_old_err_iff. Qed.
Print Assumptions C20_stats_panics_iff.

Theorem C20_report_results_panics_iff :
  forall ups trs checks,
    is_err (report_results true false ups trs checks) = true <->
    (zlen (first_ids (map su_id ups) []) <= 5 \/ zlen (first_ids (map su_id ups) []) = 7).
Proof. exact report_results_old_median_iff. Qed.
Print Assumptions C20_report_results_panics_iff.

Theorem C20_stats_total_refuted :
  exists data, stats_summary false data = Err EIndex.
Proof. exact summary_old_refuted. Qed.
Print Assumptions C20_stats_total_refuted.

(* A transmit that never reached a block made the pinned commit's summary dereference nil. *)
Theorem C20_report_results_nil_refuted :
  exists ups trs checks, report_results false true ups trs checks = Err ENil.
Proof. exact report_results_old_nil_refuted. Qed.
Print Assumptions C20_report_results_nil_refuted.

(* The repaired function returns the lower and upper halves and, on sorted data, a true median
   (at least half of the values on either side); this is what the checker demands of the
   implementation's output. *)
Theorem C20_median_correct :
  forall v, fms true v = Ok (med2 v, firstn (length v / 2) v, skipn (length v - length v / 2) v)
            /\ (sortedZ v = true -> v <> [] -> is_median2 v (med2 v) = true).
Proof. intro v. split; [apply fms_fixed_ok | apply med2_is_median]. Qed.
Print Assumptions C20_median_correct.

(* The count registered up front is the number of (expected upkeep, eligibility point) pairs for
   conditional upkeeps plus (expected upkeep, triggering log) pairs for log upkeeps ... *)
Theorem C20_expected_performs :
  forall ups logs, expected_performs ups logs = expected_spec ups logs.
Proof. exact expected_performs_spec. Qed.
Print Assumptions C20_expected_performs.

(* ... and it is zero (negative assertion) exactly when no expected upkeep can perform. *)
Theorem C20_expected_zero_iff :
  forall ups logs,
    expected_performs ups logs = 0 <->
    forall u, In u ups -> gu_expected u = true ->
      (gu_type u = 0%N -> gu_elig u = []) /\
      (gu_type u = 1%N -> forall l, In l logs -> log_triggers l u = false).
Proof. exact expected_zero_iff. Qed.
Print Assumptions C20_expected_zero_iff.

(* Verdict: with every namespace's increments followed by Close, the run succeeds iff every
   positive total is reached by the sum of its increments and every zero total (negative
   assertion) saw no increment at all. *)
Theorem C20_verdict :
  forall ts, wf_trackers ts ->
    verdict (map (fun p => (fst p, run_msgs (snd p))) ts) = verdict_spec ts.
Proof. exact verdict_is_spec. Qed.
Print Assumptions C20_verdict.

Theorem C20_verdict_positive :
  forall total incs, 0 < total -> Forall (fun k => 0 <= k) incs ->
    (trk_success total (run_msgs incs) = true <-> total <= sumZ incs).
Proof. intros total incs H1 H2. rewrite trk_success_pos by assumption. apply Z.leb_le. Qed.
Print Assumptions C20_verdict_positive.

Theorem C20_verdict_negative :
  forall incs, trk_success 0 (run_msgs incs) = true <-> incs = [].
Proof.
  intro incs. rewrite trk_success_zero. destruct incs; split; try reflexivity; discriminate.
Qed.
Print Assumptions C20_verdict_negative.

(* The loader wired to the telemetry as in a run: the verdict is success iff the upkeeps put on
   chain reach the count computed for the plan, and, when that count is zero, iff no Load carried
   a transmit at all. *)
Theorem C20_wired_verdict :
  forall ups logs loads, Forall (fun k => 0 <= k) loads ->
    wired_verdict ups logs loads = verdict_spec [(expected_spec ups logs, loads)].
Proof. exact wired_verdict_spec. Qed.
Print Assumptions C20_wired_verdict.

Theorem C20_wired_checker_sound :
  forall ups logs loads obs, C20_wired_check ups logs loads obs = true ->
    obs = verdict_spec [(expected_spec ups logs, loads)].
Proof. exact C20_wired_check_sound. Qed.
Print Assumptions C20_wired_checker_sound.

(* A plan is encoded and decoded to itself up to what the codec normalises (type tags, default
   `expected`), and a decoded plan is a fixed point. *)
Theorem C20_plan_roundtrip :
  forall p, decode (encode false p) = Some (normalize p) /\
            decode (encode false (normalize p)) = Some (normalize p).
Proof. intro p. split; [apply plan_roundtrip | apply plan_roundtrip_decoded]. Qed.
Print Assumptions C20_plan_roundtrip.

(* The pinned commit's Encode (pre-sized slice, then append) produced a plan that Decode rejects
   exactly when there is a config or generate event, i.e. for every runnable plan. *)
Theorem C20_plan_roundtrip_refuted :
  exists p, decode (encode true p) = None.
Proof. exact plan_presized_refuted. Qed.
Print Assumptions C20_plan_roundtrip_refuted.

Theorem C20_plan_presized_fails_iff :
  forall p, decode (encode true p) = None <-> (p_confs p <> [] \/ p_gens p <> []).
Proof. exact plan_presized_fails_iff. Qed.
Print Assumptions C20_plan_presized_fails_iff.

(* The boolean checkers applied to the implementation's observed output decide the specs. *)
Theorem C20_fms_checker_sound :
  forall data obs, C20_fms_check data obs = true -> C20_fms_spec data obs.
Proof. exact C20_fms_check_sound. Qed.
Print Assumptions C20_fms_checker_sound.

Theorem C20_fms_model_passes_checker :
  forall v, C20_fms_check v (res_opt (fms true v)) = true.
Proof. exact fms_fixed_passes. Qed.
Print Assumptions C20_fms_model_passes_checker.

Theorem C20_summary_checker_sound :
  forall data obs, C20_summary_check data obs = true ->
    exists s, obs = Some s /\
      s_med4 s = 2 * conv_median2 (sortZ data) /\
      s_q1_4 s = 2 * conv_median2 (firstn (length data / 2) (sortZ data)) /\
      s_q3_4 s = 2 * conv_median2 (skipn (length data - length data / 2) (sortZ data)) /\
      s_iqr4 s = s_q3_4 s - s_q1_4 s /\
      (data <> [] -> is_median2 data (s_med4 s / 2) = true).
Proof. exact C20_summary_check_sound. Qed.
Print Assumptions C20_summary_checker_sound.

Theorem C20_summary_model_passes_checker :
  forall data, C20_summary_check data (res_opt (stats_summary true data)) = true.
Proof. exact summary_fixed_passes. Qed.
Print Assumptions C20_summary_model_passes_checker.

Theorem C20_expected_checker_sound :
  forall ups logs neg total, C20_expected_check ups logs neg total = true ->
    total = expected_spec ups logs /\ (neg = true <-> expected_spec ups logs = 0).
Proof. exact C20_expected_check_sound. Qed.
Print Assumptions C20_expected_checker_sound.

Theorem C20_verdict_checker_sound :
  forall ts obs, C20_verdict_check ts obs = true -> obs = verdict_spec ts.
Proof. exact C20_verdict_check_sound. Qed.
Print Assumptions C20_verdict_checker_sound.

Theorem C20_plan_checker_sound :
  forall p dec rest, C20_plan_check p dec rest = true -> dec = Some (normalize p) /\ rest = true.
Proof. exact C20_plan_check_sound. Qed.
Print Assumptions C20_plan_checker_sound.

Section GenTie.
Local Open Scope Z_scope.
(* ---- Tie to the source by translation (Gen/GeneratedTr.v, regenerated from /repo on every run by gen/translate.go) ----
   g_* are the decision terms translated from the CURRENT Go code: every condition, the branch structure and which
   white-listed effect statement runs on which path.  The theorems below state that the model's functions - about
   which every theorem above speaks - are the interpretation of these terms. *)
(* logTriggersUpkeep: the model's log_triggers is the translated function (log not older than the upkeep, same trigger value, always eligible or an eligibility block at or after the log) *)
Theorem C20_gen_log_triggers_upkeep :
  forall l u, log_triggers l u = log_triggers_gen l u.
Proof. exact gen_sim_log_triggers. Qed.
Print Assumptions C20_gen_log_triggers_upkeep.

(* calculateExpectedPerformEvents: the model's count is the fold of the translated loop bodies (skip unless expected; conditional: one per eligibility block; log trigger: one per triggering log), with the type tags read from the source *)
Theorem C20_gen_expected_performs :
  forall ups logs, expected_performs ups logs = fold_left (exp_step logs) ups 0.
Proof. exact gen_sim_expected. Qed.
Print Assumptions C20_gen_expected_performs.

(* calculateExpectedPerformEvents: a generation error is returned before any counting *)
Theorem C20_gen_expected_performs_errors :
  forall e2,
  g_sim_expected true e2 = ([], RetO 1) /\ g_sim_expected false true = ([], RetO 1) /\ g_sim_expected false false = ([1], RetO 0).
Proof. exact gen_sim_expected_outer. Qed.
Print Assumptions C20_gen_expected_performs_errors.

(* countPerformEvents: an undecodable report counts for nothing *)
Theorem C20_gen_count_performs :
  forall n, g_sim_count_performs true n = ([], RetZ 0) /\ g_sim_count_performs false n = ([], RetZ n).
Proof. exact gen_sim_count_performs. Qed.
Print Assumptions C20_gen_count_performs.

(* ProgressTelemetry.track, one turn of the loop (select over the increment channel and the closed done channel): the model's trk_step is the interpretation of the translated body for a tracker that is still running *)
Theorem C20_gen_tracker_step :
  forall t m,
  k_done t = false -> k_failed t = false -> (k_total t <> 0 -> k_value t <> k_total t) ->
  trk_step t m = track_body_gen t m.
Proof. exact gen_sim_track_body. Qed.
Print Assumptions C20_gen_tracker_step.

(* the precondition of C20_gen_tracker_step is an invariant of the loop *)
Theorem C20_tracker_running_invariant :
  forall t m, trk_running_inv t -> trk_running_inv (trk_step t m).
Proof. exact trk_inv_step. Qed.
Print Assumptions C20_tracker_running_invariant.

(* ProgressTelemetry.track, set-up: a zero total makes the tracker a negative assertion *)
Theorem C20_gen_tracker_setup :
  forall total, g_sim_track total = if total =? 0 then ([1; 2; 3], Fall) else ([2; 3], Fall).
Proof. exact gen_sim_track. Qed.
Print Assumptions C20_gen_tracker_setup.

(* findMedianAndSplitData (repaired code): no data / even / odd length decisions and index arithmetic as in the model's fms *)
Theorem C20_gen_median_split :
  forall v, fms true v = median_split_gen v.
Proof. exact gen_sim_median_split. Qed.
Print Assumptions C20_gen_median_split.

(* findLowestAndOutliers: the loop with its MaxInt sentinel computes the model's filter-and-minimum *)
Theorem C20_gen_lowest_outliers :
  forall f4 set,
  Forall (fun x => x < maxint) set ->
  lowest_outliers f4 set =
  let '(lo, c) := fold_left (low_step (Z.quot f4 4)) set (maxint, 0) in ((if lo =? maxint then -1 else lo), c).
Proof. exact gen_sim_lowest. Qed.
Print Assumptions C20_gen_lowest_outliers.

(* findHighestAndOutliers: the loop computes the model's filter-and-maximum *)
Theorem C20_gen_highest_outliers :
  forall f4 set,
  highest_outliers f4 set = fold_left (high_step (Z.quot f4 4)) set (-1, 0).
Proof. exact gen_sim_highest. Qed.
Print Assumptions C20_gen_highest_outliers.

(* UpkeepStats, the scan for the first block after an eligibility point: the model's scan_gt is the translated loop body (both the performed and the checked scan) *)
Theorem C20_gen_stats_scan :
  forall e x t,
  scan_gt e (x :: t) =
  match g_sim_stats_scan_performed (str_ltb e x), g_sim_stats_scan_checked (str_ltb e x) with
  | ([1; 2; 3; 4], Brk), ([1; 2; 3; 4], Brk) => Some (x, t)
  | ([], Fall), ([], Fall) => scan_gt e t
  | _, _ => None
  end.
Proof. exact gen_sim_stats_scan. Qed.
Print Assumptions C20_gen_stats_scan.

(* UpkeepStats, one eligibility point: each list is scanned exactly while some of it is left, and a delay recorded only when a later block was found *)
Theorem C20_gen_stats_per_eligible :
  forall ps np cs nc pd cd pf cf,
  let acts := fst (g_sim_stats_body ps np cs nc pd cd pf cf) in
  (In 1 acts <-> ps < np) /\ (In 4 acts <-> cs < nc) /\
  ((In 2 acts \/ In 3 acts) <-> (ps < np /\ 0 <= pd)) /\ ((In 5 acts \/ In 6 acts) <-> (cs < nc /\ 0 <= cd)) /\
  snd (g_sim_stats_body ps np cs nc pd cd pf cf) = Fall.
Proof. exact gen_sim_stats_body. Qed.
Print Assumptions C20_gen_stats_per_eligible.

(* UpkeepIDs: an identifier is appended on its first occurrence only - the model's first_ids *)
Theorem C20_gen_upkeep_ids :
  forall x t seen,
  first_ids (x :: t) seen =
  match g_sim_upkeep_ids_body (memN x seen) with
  | ([1; 2], Fall) => x :: first_ids t (x :: seen)
  | _ => first_ids t seen
  end.
Proof. exact gen_sim_upkeep_ids. Qed.
Print Assumptions C20_gen_upkeep_ids.

(* DecodeSimulationPlan, one event: appended to the list of its type, a generate event without `expected` getting the default; an unknown type tag is an error - the model's decode_step *)
Theorem C20_gen_plan_decode_event :
  forall p e,
  decode_step (Some p) (Some e) =
  match g_sim_plan_decode_event false (Z.of_N (e_type e)) 1 2 3 false false false (N.eqb (e_expected e) 0) with
  | ([1], Fall) => Some (mkPlan (p_confs p ++ [e]) (p_gens p) (p_logs p))
  | ([2; 3], Fall) => Some (mkPlan (p_confs p) (p_gens p ++ [mkEv (e_type e) 1%N (e_data e)]) (p_logs p))
  | ([3], Fall) => Some (mkPlan (p_confs p) (p_gens p ++ [e]) (p_logs p))
  | ([4], Fall) => Some (mkPlan (p_confs p) (p_gens p) (p_logs p ++ [e]))
  | _ => None
  end.
Proof. exact gen_sim_plan_decode_event. Qed.
Print Assumptions C20_gen_plan_decode_event.

(* DecodeSimulationPlan: every decoding failure returns an error before anything is appended *)
Theorem C20_gen_plan_decode_errors :
  forall ty a b c d,
  g_sim_plan_decode_event true ty 1 2 3 a b c d = ([], RetO 1) /\
  g_sim_plan_decode_event false 1 1 2 3 true b c d = ([], RetO 2) /\
  g_sim_plan_decode_event false 2 1 2 3 a true c d = ([], RetO 3) /\
  g_sim_plan_decode_event false 3 1 2 3 a b true d = ([], RetO 4).
Proof. exact gen_sim_plan_decode_errors. Qed.
Print Assumptions C20_gen_plan_decode_errors.

(* cmd/simulator main: the process exits with status 1 exactly when AllProgressComplete is false; AllProgressComplete returns what checkProgress stored *)
Theorem C20_gen_exit_status :
  forall ts,
  fst (g_sim_main_exit (verdict ts)) = (if verdict ts then [] else [1]) /\
  g_sim_all_progress_complete = ([1], RetO 1) /\ g_sim_check_progress = ([1; 2; 3], Fall).
Proof. exact gen_sim_exit_status. Qed.
Print Assumptions C20_gen_exit_status.

(* checkProgress: the renderer is stopped early only when something is registered and nothing is active; the done signal waits, then stops *)
Theorem C20_gen_check_progress_loop :
  forall n a,
  g_sim_check_progress_body false n a = ([2; 3; 1], Fall) /\
  fst (g_sim_check_progress_body true n a) = (if (0 <? n) && (a =? 0) then [1] else []).
Proof. exact gen_sim_check_progress_body. Qed.
Print Assumptions C20_gen_check_progress_loop.

End GenTie.

(* Non-vacuity: four ids (the case that crashed a real run) give a summary; three performs
   against an expectation of three succeed and two do not; an untouched negative assertion
   succeeds; a plan with all three event kinds survives the round trip. *)
Example C20_nonvacuous :
  (exists s, stats_summary true [3; 7; 10; 12] = Ok s /\ s_med4 s = 34 /\ s_q1_4 s = 20 /\ s_q3_4 s = 44) /\
  wf_trackers [(3, [1; 2]); (0, [])] /\
  verdict [(3, run_msgs [1; 2]); (0, run_msgs [])] = true /\
  verdict [(3, run_msgs [1; 1])] = false /\
  verdict [(0, run_msgs [1])] = false /\
  expected_performs [mkGU 0 true 5 false [10; 20]%N 0; mkGU 1 true 5 true [] 7; mkGU 1 false 5 true [] 7]
                    [mkGL 9 7; mkGL 3 7; mkGL 12 8] = 3 /\
  decode (encode false (mkPlan [mkEv 0 0 1] [mkEv 0 0 2; mkEv 9 2 3] [mkEv 0 0 4])) =
    Some (mkPlan [mkEv 1 0 1] [mkEv 2 1 2; mkEv 2 2 3] [mkEv 3 0 4]).
Proof.
  split; [eexists; split; [vm_compute; reflexivity | vm_compute; auto]|].
  split; [|vm_compute; auto 10].
  intros p [<-|[<-|[]]]; simpl; split; try lia; repeat constructor; lia.
Qed.

(* Non-vacuity of the translation-tie theorems with hypotheses: a fresh tracker for three expected performs is running
   (not done, not failed, total not reached), stays so after one increment, and the statistics hypotheses hold for the
   data of C20_nonvacuous. *)
Example C20_gen_nonvacuous :
  let t := trk_step (trk_init 3) (MInc 1) in
  k_done t = false /\ k_failed t = false /\ (k_total t <> 0 -> k_value t <> k_total t) /\
  Forall (fun x => x < maxint) [3; 1; 4; 1] /\
  decode_step (Some (mkPlan [] [] [])) (Some (mkEv 2 0 7)) = Some (mkPlan [] [mkEv 2 1 7] []).
Proof.
  cbv zeta. split; [reflexivity|]. split; [reflexivity|]. split; [cbn; discriminate|].
  split; [repeat constructor|]. reflexivity.
Qed.
