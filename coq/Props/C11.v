(* C11 — proposals: viewed exactly, dropped once surfaced, finalised once per block.
   Property theorems only; proofs live in Proofs/MetadataProofs.v and Proofs/ProposalQueueProofs.v.

   Conventions: traces are lists of (virtual time in ns, operation).  The metadata store is
   modelled with the orderedMap's key slice; [ms_view true] / [ms_observe true] use the view
   loop of the current code of /repo (Keys() returns a copy, commit 736ad1c), [false] the loop
   of the pinned commit, which ranged over the slice that Delete shifts in place.  [ex] is the
   pair (conditional expiry, log-recovery expiry).  For the proposal queue [pi k] is the order in
   which the k-th operation ranges over the Go map (any permutation), [exp] the 20 s window. *)
From Verif Require Import Base.Util Model.Metadata Model.ResultStore Model.ProposalQueue.
From Verif Require Import Proofs.MetadataProofs Proofs.ProposalQueueProofs Gen.Generated.
From Verif Require Import Base.GenIR Gen.GeneratedTr Proofs.GenTrStores.
From Verif Require Import Base.GenIR Gen.GeneratedTr Proofs.GenTrHooks.
From Verif Require Import Base.GenIR Gen.GeneratedTr Proofs.GenTrMeta.
Open Scope Z_scope.

(* Viewing returns exactly the proposals that are pending (latest add for their type and work
   id, not removed since) and unexpired, each once, in key order — for every history with
   non-decreasing time, expired entries anywhere among live ones. *)
Theorem C11_view_exact :
  forall ex pre t typ,
    tsorted (pre ++ [(t, MView typ)]) ->
    let V := snd (ms_view true ex t (ms_run true ex pre) typ) in
    strictly_sorted (map p_wid V) = true /\ forall p, In p V <-> pending ex typ pre t p.
Proof. exact ms_view_exact. Qed.
Print Assumptions C11_view_exact.

(* ... and afterwards no expired record is left under that type. *)
Theorem C11_view_purges :
  forall ex pre t typ k r, stored_typ typ = true ->
    vget k (om_vals (sel typ (fst (ms_view true ex t (ms_run true ex pre) typ)))) = Some r ->
    t - m_at r <= exp_of ex typ.
Proof. exact ms_view_purges. Qed.
Print Assumptions C11_view_purges.

(* The same over a whole history: the model's observed trace meets the specification that the
   checker decides on the implementation's trace. *)
Theorem C11_view_model_meets_spec :
  forall ex tr, tsorted tr -> C11_view_spec ex (ms_observe true ex tr).
Proof. exact ms_model_meets_spec. Qed.
Print Assumptions C11_view_model_meets_spec.

(* The pinned commit violated it (finding 4): keys [a(expired); b; c] are viewed as [c; c]. *)
Theorem C11_view_refuted :
  exists ex tr, tsorted tr /\ ~ C11_view_spec ex (ms_observe false ex tr).
Proof. exact ms_view_alias_refuted. Qed.
Print Assumptions C11_view_refuted.

(* After the remove-from-metadata hook removed a surfaced proposal, no view of its type returns
   that work id until it is added again. *)
Theorem C11_removed_not_proposed :
  forall ex p a t' b t,
    tsorted ((a ++ (t', MRem1 p) :: b) ++ [(t, MView (p_typ p))]) ->
    forallb (fun x => negb (readds p x)) b = true ->
    forall q, In q (snd (ms_view true ex t (ms_run true ex (a ++ (t', MRem1 p) :: b)) (p_typ p))) ->
              p_wid q <> p_wid p.
Proof. exact removed_not_proposed. Qed.
Print Assumptions C11_removed_not_proposed.

(* Two hand-outs of the same (work id, block) come from two records whose first-seen times are
   more than one window apart: within the window of its record a pair is dequeued at most once —
   for every map order, every n, every interleaving of enqueues (hook or direct) and dequeues. *)
Theorem C11_once_per_block :
  forall exp pi pre1 t1 typ1 n1 mid t2 typ2 n2 post,
    (forall k l, Permutation (pi k l) l) ->
    tsorted (pre1 ++ (t1, QDeq typ1 n1) :: mid ++ (t2, QDeq typ2 n2) :: post) ->
    let q1 := q_run_from exp pi 0 [] pre1 in
    let d1 := dequeue exp (pi (length pre1)) typ1 n1 t1 q1 in
    let q2 := q_run_from exp pi (S (length pre1)) (fst d1) mid in
    let d2 := dequeue exp (pi (S (length pre1) + length mid)%nat) typ2 n2 t2 q2 in
    forall r1 r2, In r1 (snd d1) -> In r2 (snd d2) ->
      p_wid (q_prop r1) = p_wid (q_prop r2) -> p_blk (q_prop r1) = p_blk (q_prop r2) ->
      q_at r2 - q_at r1 > exp.
Proof. exact once_per_block. Qed.
Print Assumptions C11_once_per_block.

(* A strictly higher block replaces the queued record and re-arms it: the next Dequeue of its
   type with room, within the window, hands out the new proposal. *)
Theorem C11_supersede :
  forall exp pi typ n t t' q p,
    NoDup (map fst q) -> Permutation (pi (enqueue1 t q p)) (enqueue1 t q p) ->
    (forall r, qget (p_wid p) q = Some r -> (p_blk (q_prop r) < p_blk p)%N) ->
    t' - t <= exp -> p_typ p = typ -> (S (length q) <= n)%nat ->
    In (mkQRec p false t) (snd (dequeue exp pi typ n t' (enqueue1 t q p))).
Proof. exact supersede. Qed.
Print Assumptions C11_supersede.

(* A lower or equal block never does: the queue is left exactly as it was. *)
Theorem C11_lower_or_equal_never_supersedes :
  forall t q p r, qget (p_wid p) q = Some r -> (p_blk p <= p_blk (q_prop r))%N -> enqueue1 t q p = q.
Proof. exact enqueue1_skip. Qed.
Print Assumptions C11_lower_or_equal_never_supersedes.

(* Outcomes whose histories repeat a proposal round after round (the hook enqueues every round
   of every outcome): while all operations lie inside one window, the finalisation flow is
   handed a (work id, block) at most once. *)
Theorem C11_history_repeat :
  forall exp pi T pre1 t1 typ1 n1 mid t2 typ2 n2 post,
    (forall k l, Permutation (pi k l) l) ->
    let tr := pre1 ++ (t1, QDeq typ1 n1) :: mid ++ (t2, QDeq typ2 n2) :: post in
    tsorted tr -> (forall x, In x tr -> T <= fst x <= T + exp) ->
    let q1 := q_run_from exp pi 0 [] pre1 in
    let d1 := dequeue exp (pi (length pre1)) typ1 n1 t1 q1 in
    let q2 := q_run_from exp pi (S (length pre1)) (fst d1) mid in
    let d2 := dequeue exp (pi (S (length pre1) + length mid)%nat) typ2 n2 t2 q2 in
    forall r1 r2, In r1 (snd d1) -> In r2 (snd d2) ->
      p_wid (q_prop r1) = p_wid (q_prop r2) -> p_blk (q_prop r1) <> p_blk (q_prop r2).
Proof. exact history_repeat. Qed.
Print Assumptions C11_history_repeat.

(* Checkers K applied to the implementation's observed traces decide the specifications. *)
Theorem C11_view_checker_sound :
  forall ex ot, C11_view_check ex ot = true -> C11_view_spec ex ot.
Proof. exact C11_view_check_sound. Qed.
Print Assumptions C11_view_checker_sound.

Theorem C11_queue_checker_sound :
  forall exp ot, C11_queue_check exp ot = true -> C11_queue_spec exp ot.
Proof. exact C11_queue_check_sound. Qed.
Print Assumptions C11_queue_checker_sound.

(* Obligations against the constants read from the source: the expiries are legal parameters,
   and one tick of a finalisation flow has room for everything one round can enqueue. *)
Theorem C11_gen_constants :
  0 <= LogRecoveryExpiry /\ 0 <= ConditionalExpiry /\ 0 <= ProposalQueueExpiry /\
  OutcomeSurfacedProposalsLimit <= FinalRecoveryBatchSize /\
  OutcomeSurfacedProposalsLimit <= FinalConditionalBatchSize.
Proof. vm_compute. repeat split; discriminate. Qed.
Print Assumptions C11_gen_constants.

Section GenTie.
Local Open Scope Z_scope.
(* ---- Tie to the source by translation (Gen/GeneratedTr.v, regenerated from /repo on every run by gen/translate.go) ----
   g_* are the decision terms translated from the CURRENT Go code: every condition, the branch structure and which
   white-listed effect statement runs on which path.  The theorems below state that the model's functions - about
   which every theorem above speaks - are the interpretation of these terms. *)
(* proposalQueue.Enqueue, loop body: the model's enqueue1 is the interpretation of the generated body (a stored block at or above the new one keeps the record) *)
Theorem C11_gen_Enqueue_decisions :
  forall now q p,
  let l := qget (p_wid p) q in
  enqueue1 now q p =
  match g_pq_enqueue_body (isSome l) (Z.of_N (p_blk (q_prop (oget (mkQRec p false now) l)))) (Z.of_N (p_blk p)) with
  | ([1], Fall) => qset (p_wid p) (mkQRec p false now) q
  | _ => q
  end.
Proof. exact gen_pq_enqueue_body. Qed.
Print Assumptions C11_gen_Enqueue_decisions.

(* proposalQueueRecord.expired: age strictly greater than the window *)
Theorem C11_gen_expired_decision :
  forall exp now r,
  g_pq_expired (now - q_at r) exp = ([], RetB (q_expired exp now r)).
Proof. exact gen_pq_expired. Qed.
Print Assumptions C11_gen_expired_decision.

(* proposalQueue.Dequeue, scan: expired records deleted, removed ones skipped, records of the wanted type are candidates *)
Theorem C11_gen_Dequeue_scan_decisions :
  forall exp now typ (kv : N * qrec),
  let d := g_pq_dequeue_body (q_expired exp now (snd kv)) (q_removed (snd kv)) (Z.of_N (p_typ (q_prop (snd kv)))) (Z.of_N typ) in
  (negb (q_expired exp now (snd kv)) && negb (q_removed (snd kv)) && N.eqb (p_typ (q_prop (snd kv))) typ
   = match d with ([2], Fall) => true | _ => false end)
  /\ (negb (q_expired exp now (snd kv)) = match d with ([1], Fall) => false | _ => true end).
Proof. exact gen_pq_dequeue_body. Qed.
Print Assumptions C11_gen_Dequeue_scan_decisions.

(* proposalQueue.Dequeue, whole function: at most n candidates are handed out *)
Theorem C11_gen_Dequeue_cut_decisions :
  forall (A : Type) (cands : list A) (n : nat),
  firstn n cands =
  match g_pq_dequeue (Z.of_nat (length cands)) (Z.of_nat n) with
  | ([1; 2; 3; 4], RetO 1) => cands
  | ([1; 3; 4], RetO 1) => firstn n cands
  | _ => []
  end.
Proof. exact gen_pq_dequeue. Qed.
Print Assumptions C11_gen_Dequeue_cut_decisions.

End GenTie.

Section GenTie.
Local Open Scope Z_scope.
(* ---- Tie to the source by translation (Gen/GeneratedTr.v, regenerated from /repo on every run by gen/translate.go) ----
   g_* are the decision terms translated from the CURRENT Go code: every condition, the branch structure and which
   white-listed effect statement runs on which path.  The theorems below state that the model's functions - about
   which every theorem above speaks - are the interpretation of these terms. *)
(* pre-build hooks: every surfaced proposal of every round is removed from the pending set, every agreed performable leaves staging, every round of the history is enqueued (an error for one round does not stop the others) *)
Theorem C11_gen_prebuild_hooks_steps :
  forall enq_err : bool,
  g_hook_remove_metadata = ([1], Fall) /\ g_hook_remove_metadata_body = ([1; 2], Fall) /\
  g_hook_remove_staging = ([1; 2], Fall) /\ g_hook_remove_staging_body = ([1], Fall) /\
  g_hook_proposalq_body enq_err = (if enq_err then ([1], Fall) else ([1; 2], Fall)).
Proof. exact gen_hook_prebuild. Qed.
Print Assumptions C11_gen_prebuild_hooks_steps.

End GenTie.

Section GenTie.
Local Open Scope Z_scope.
(* ---- Tie to the source by translation (Gen/GeneratedTr.v, regenerated from /repo on every run by gen/translate.go) ----
   g_* are the decision terms translated from the CURRENT Go code: every condition, the branch structure and which
   white-listed effect statement runs on which path.  The theorems below state that the model's functions - about
   which every theorem above speaks - are the interpretation of these terms. *)
(* metadata store views, loop bodies (both trigger types take the same decisions): the model's vbody is the interpretation *)
Theorem C11_gen_view_loop_decisions :
  forall expiry now st k,
  let '(m, out) := st in
  vbody expiry now st k =
  match g_ms_view_log_body (rec_expired expiry now (vget k (om_vals m))) with
  | ([1], Fall) => (om_delete k m, out)
  | _ => match vget k (om_vals m) with Some r => (m, out ++ [m_prop r]) | None => (m, out) end
  end
  /\ g_ms_view_cond_body = g_ms_view_log_body.
Proof. exact gen_ms_view_body. Qed.
Print Assumptions C11_gen_view_loop_decisions.

(* expiringRecord.expired: age strictly greater than the expiry *)
Theorem C11_gen_metadata_expired :
  forall expiry now r,
  g_ms_expired (now - m_at r) expiry = ([], RetB (rec_expired expiry now (Some r))).
Proof. exact gen_ms_expired. Qed.
Print Assumptions C11_gen_metadata_expired.

(* orderedMap.Add: a new key is appended to the key slice, a known key only gets its value replaced *)
Theorem C11_gen_ordered_map_Add :
  forall known : bool,
  g_ms_omap_add known = if known then ([1], Fall) else ([2; 1], Fall).
Proof. exact gen_ms_omap_add. Qed.
Print Assumptions C11_gen_ordered_map_Add.

End GenTie.

(* Non-vacuity: an expired entry sorted before two live ones, a removal and a re-add; a chain of
   three outcomes repeating one proposal with dequeue ticks in between, then the window re-opens. *)
Example C11_nonvacuous :
  let a := mkProp 1 1 5 1 in let b := mkProp 1 2 5 2 in let c := mkProp 1 3 5 3 in
  let tr := [(0, MAdd1 a); (10, MAdd1 b); (10, MAdd1 c); (105, MView 1); (106, MRem1 b); (107, MView 1);
             (108, MAdd1 b); (109, MView 1)] in
  tsorted tr /\
  ms_views true (100, 100) tr = [[b; c]; [c]; [b; c]] /\
  ms_views false (100, 100) tr <> ms_views true (100, 100) tr /\
  C11_view_check (100, 100) (ms_observe true (100, 100) tr) = true /\
  let p := mkProp 1 7 40 1 in
  let qtr := hook_ops 0 [[p]] ++ [(1, QDeq 1 50)] ++ hook_ops 2 [[p]; [p]] ++ [(3, QDeq 1 50)]
             ++ hook_ops 4 [[p]; [p]; [p]] ++ [(22, QDeq 1 50)] ++ hook_ops 23 [[p]] ++ [(24, QDeq 1 50)] in
  tsorted qtr /\
  map (map q_prop) (q_outs 20 (fun _ l => l) qtr) = [[]; [p]; []; []; []; []; []; []; []; []; [p]].
Proof.
  split; [apply (tsorted_b_sound 0); reflexivity|].
  split; [vm_compute; reflexivity|].
  split; [vm_compute; discriminate|].
  split; [vm_compute; reflexivity|].
  split; [apply (tsorted_b_sound 0); reflexivity | vm_compute; reflexivity].
Qed.
