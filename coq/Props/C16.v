(* C16 — OCR2 (v2) reports: robust median block, eligible upkeeps once, limits kept.
   Property theorems only; proofs live in Proofs/V2Proofs.v.  The model (Model/V2.v) follows
   pkg/v2 as it is on the current tree; [loop fixed wide]: fixed = false / wide = false is the code
   of the pinned commit (skip condition `err != nil && ok`, uint32 sums). *)
From Verif Require Import Base.Util Model.V2 Proofs.V2Proofs Gen.Generated.
From Verif Require Import Base.GenIR Gen.GeneratedTr Proofs.GenTrV2.
From Verif Require Import Proofs.GenTrV2c.
From Verif Require Import Base.GenIR Gen.GeneratedTr Proofs.GenTrV2b.
Open Scope N_scope.

(* The block every key is built at is the upper median of the valid observations' blocks; when at
   most f of m >= 2f+1 valid observations come from faulty oracles (any values, any positions) it
   lies in every interval that contains all honest blocks — for all m and f. *)
Theorem C16_median_bound :
  forall (l honest faulty : list N) (f : nat) (lo hi : N),
    Permutation l (honest ++ faulty) -> (length faulty <= f)%nat -> (2 * f + 1 <= length l)%nat ->
    Forall (fun h => lo <= h) honest -> Forall (fun h => h <= hi) honest ->
    lo <= median l <= hi.
Proof. exact median_bound. Qed.
Print Assumptions C16_median_bound.

(* ... equivalently: between two honest oracles' blocks *)
Theorem C16_median_between_honest :
  forall (l honest faulty : list N) (f : nat),
    Permutation l (honest ++ faulty) -> (length faulty <= f)%nat -> (2 * f + 1 <= length l)%nat ->
    exists h1 h2, In h1 honest /\ In h2 honest /\ h1 <= median l <= h2.
Proof. exact median_between. Qed.
Print Assumptions C16_median_between_honest.

(* sort-then-index-len/2 is the upper median in the rank sense the checker uses *)
Theorem C16_median_is_upper :
  forall l, l <> [] ->
    In (median l) l /\ (count_lt (median l) l <= length l / 2)%nat /\ (length l / 2 < count_le (median l) l)%nat.
Proof. exact median_upper. Qed.
Print Assumptions C16_median_is_upper.

(* the bound is tight: f+1 faulty values out of 2f+1 move the median past every honest block *)
Theorem C16_median_bound_needs_quorum :
  exists l honest faulty f, Permutation l (honest ++ faulty) /\ (length faulty <= f + 1)%nat /\
    (2 * f + 1 <= length l)%nat /\ Forall (fun h => h <= 100) honest /\ ~ median l <= 100.
Proof. exact median_bound_needs_quorum. Qed.
Print Assumptions C16_median_bound_needs_quorum.

(* Every key comes from a valid observation (canonical block key in uint64, every identifier
   canonical in uint256), from its first identifier only, at the median of the valid blocks;
   invalid / undecodable observations contribute nothing. *)
Theorem C16_keys_from_valid :
  forall obs ks, obs_to_keys obs = Some ks ->
    forall l k, In l ks -> In k l ->
      fst k = median (map fst (valid_obs obs)) /\
      exists o b ids, In o obs /\ validate o = Some (b, ids) /\ In (snd k) (firstn 1 ids).
Proof. exact keys_from_valid. Qed.
Print Assumptions C16_keys_from_valid.

Theorem C16_keys_one_per_observation :
  forall obs ks, obs_to_keys obs = Some ks ->
    (length ks <= length obs)%nat /\ Forall (fun l => (length l <= 1)%nat) ks.
Proof. exact keys_one_per_observation. Qed.
Print Assumptions C16_keys_one_per_observation.

Theorem C16_all_invalid_is_an_error :
  forall obs, obs_to_keys obs = None <-> valid_obs obs = [].
Proof. exact obs_to_keys_none. Qed.
Print Assumptions C16_all_invalid_is_an_error.

(* filter + de-duplicate: exactly the non-pending keys, each once — whatever order the container
   yields them in (pi) *)
Theorem C16_dedupe :
  forall (pi : list key -> list key) (pend : key -> bool) (inputs : list (list key)),
    (forall l, Permutation (pi l) l) ->
    NoDup (filter_dedupe pi pend inputs) /\
    forall k, In k (filter_dedupe pi pend inputs) <-> In k (concat inputs) /\ pend k = false.
Proof. exact dedupe_spec. Qed.
Print Assumptions C16_dedupe.

(* the keys handed to the check pipeline, for every shuffle (any permutation): no key in flight,
   no duplicates, at most ten *)
Theorem C16_no_pending :
  forall (pend : key -> bool) (shuf : list key -> list key) ks,
    (forall l, Permutation (shuf l) l) ->
    forall k, In k (checked_keys pend shuf ks) -> In k (concat ks) /\ pend k = false.
Proof. exact no_pending_spec. Qed.
Print Assumptions C16_no_pending.

Theorem C16_checked_le_10 :
  forall (pend : key -> bool) (shuf : list key -> list key) ks,
    (forall l, Permutation (shuf l) l) ->
    NoDup (checked_keys pend shuf ks) /\
    (forall k, In k (checked_keys pend shuf ks) -> In k (concat ks) /\ pend k = false) /\
    (length (checked_keys pend shuf ks) <= 10)%nat.
Proof. exact checked_spec_all. Qed.
Print Assumptions C16_checked_le_10.

Theorem C16_batch :
  forall fixed wide c rs, wf_cfg c -> (Z.of_nat (length (loop fixed wide c rs 0 [])) <= v_batch c)%Z.
Proof. exact batch_spec. Qed.
Print Assumptions C16_batch.

(* current tree (skip condition `err != nil || !ok`): only results the report-time check found
   eligible, without error, are reported *)
Theorem C16_only_eligible :
  forall wide c rs r, In r (loop true wide c rs 0 []) ->
    In r rs /\ r_elig r = true /\ r_eligerr r = false /\ r_deterr r = false.
Proof. exact only_eligible_spec. Qed.
Print Assumptions C16_only_eligible.

(* pinned commit (`err != nil && ok`): an ineligible result with no error was reported — finding 7,
   repaired by a fix: commit in /repo *)
Theorem C16_only_eligible_refuted :
  exists c rs, wf_cfg c /\ exists r, In r (loop false true c rs 0 []) /\ r_elig r = false /\ r_eligerr r = false.
Proof. exact loop_old_condition_refuted. Qed.
Print Assumptions C16_only_eligible_refuted.

(* current tree (uint64 sums): gas + per-upkeep overhead of the report never exceeds the limit,
   for every uint32 limit, overhead and gas value *)
Theorem C16_gas :
  forall fixed c rs, wf_cfg c -> Forall (fun r => r_gas r < two32) rs ->
    gas_total c (loop fixed true c rs 0 []) <= v_limit c.
Proof. exact gas_spec. Qed.
Print Assumptions C16_gas.

(* pinned commit (uint32 sums): holds only while limit + gas + overhead stays below 2^32 ... *)
Theorem C16_gas_uint32 :
  forall fixed c rs, Forall (fun r => v_limit c + r_gas r + v_over c < two32) rs ->
    gas_total c (loop fixed false c rs 0 []) <= v_limit c.
Proof. exact gas_uint32_spec. Qed.
Print Assumptions C16_gas_uint32.

(* ... and is refuted without: default limit 5.3M / overhead 300k, one upkeep with gas 2^32-1 *)
Theorem C16_gas_uint32_refuted :
  exists c rs, wf_cfg c /\ Forall (fun r => r_gas r < two32) rs /\ Forall (good true) rs /\
    v_limit c < gas_total c (loop true false c rs 0 []).
Proof. exact loop_uint32_wrap_refuted. Qed.
Print Assumptions C16_gas_uint32_refuted.

(* ... even when every single gas + overhead is below 2^32 (large configured limit) *)
Theorem C16_gas_uint32_total_refuted :
  exists c rs, wf_cfg c /\ Forall (fun r => r_gas r + v_over c < two32) rs /\
    v_limit c < gas_total c (loop true false c rs 0 []).
Proof. exact loop_uint32_wrap_total_refuted. Qed.
Print Assumptions C16_gas_uint32_total_refuted.

(* The whole Report of the current tree: for every configuration (batch >= 1, uint32 limit and
   overhead), every list of attributed observations, every in-flight state [pend], every keyed
   shuffle (any permutation) and every local check pipeline that answers for the keys it was asked
   (each at most once, uint32 gas), the keys checked and the upkeeps reported satisfy the property. *)
Theorem C16_report :
  forall c pend shuf runner, wf_cfg c -> (forall l, Permutation (shuf l) l) ->
    (forall ks rs, runner ks = RunRes rs -> NoDup ks ->
       NoDup (map r_key rs) /\ incl (map r_key rs) ks /\ Forall (fun r => r_gas r < two32) rs) ->
    forall encfail obs,
      let o := report true true c pend shuf runner encfail obs in
      C16_spec c obs pend (chk_of o) (o_report o).
Proof. exact report_spec. Qed.
Print Assumptions C16_report.

(* The boolean checker applied to the implementation's observed checked keys / report decides the spec. *)
Theorem C16_checker_sound :
  forall c obs pend chk rep, C16_check c obs pend chk rep = true -> C16_spec c obs pend chk rep.
Proof. exact C16_check_sound. Qed.
Print Assumptions C16_checker_sound.

(* Observation of the current tree: for every sequence of sampling runs (completed or not), every
   in-flight state and every shuffle, with block keys in uint64 and registered identifiers in uint256:
   the observation decodes, is at most 1000 bytes, lists at most one id, and only ids that the last
   completed sampling run found eligible (no error) and that are not in flight at that block. *)
Theorem C16_obs :
  forall pend shuf, (forall l, Permutation (shuf l) l) ->
    forall heads, wf_heads heads ->
      let o := v2_observation pend shuf heads in
      exists ids, oo_ids o = Some ids /\ obs_okP pend heads (oo_blk o) ids (oo_len o).
Proof. exact observation_spec. Qed.
Print Assumptions C16_obs.

(* without the uint256 bound on identifiers nothing may fit: the observation is then empty bytes *)
Theorem C16_obs_needs_id_bound :
  exists heads, oo_ids (v2_observation (fun _ => false) (fun l => l) heads) = None.
Proof. exact observation_needs_id_bound. Qed.
Print Assumptions C16_obs_needs_id_bound.

Theorem C16_obs_checker_sound :
  forall pend heads dec len, C16_check_obs pend heads dec len = true ->
    exists blk ids, dec = Some (blk, ids) /\ obs_okP pend heads blk ids len.
Proof. exact C16_check_obs_sound. Qed.
Print Assumptions C16_obs_checker_sound.

(* Obligation against the regenerated constants: the limits the property names are the code's. *)
Theorem C16_gen_limits :
  V2ReportKeysLimit = 10%Z /\ V2ObservationUpkeepsLimit = 1%Z /\ V2MaxObservationLength = 1000%Z.
Proof. exact gen_limits. Qed.
Print Assumptions C16_gen_limits.

Section GenTie.
Local Open Scope Z_scope.
(* ---- Tie to the source by translation (Gen/GeneratedTr.v, regenerated from /repo on every run by gen/translate.go) ----
   g_* are the decision terms translated from the CURRENT Go code: every condition, the branch structure and which
   white-listed effect statement runs on which path.  The theorems below state that the model's functions - about
   which every theorem above speaks - are the interpretation of these terms. *)
(* v2 Report, loop over the checked upkeeps: the model's loop (repaired variant) is the interpretation of the generated body: skipped when not eligible or on an Eligible / Detail error or over the report gas limit (uint64 sums), batch size ends the loop *)
Theorem C16_gen_Report_loop_decisions :
  forall c r rs' total acc,
  let mx := addw true (r_gas r) (v_over c) in
  loop true true c (r :: rs') total acc =
  match g_v2_report_body (r_eligerr r) (r_elig r) (r_deterr r) (Z.of_N total) (Z.of_N mx) (Z.of_N (v_limit c))
                         (Z.of_nat (length (acc ++ [r]))) (v_batch c) with
  | ([], Fall) => loop true true c rs' total acc
  | ([1; 2], Brk) => acc ++ [r]
  | ([1; 2], Fall) => loop true true c rs' (addw true total mx) (acc ++ [r])
  | _ => acc
  end.
Proof. exact gen_v2_report_body. Qed.
Print Assumptions C16_gen_Report_loop_decisions.

End GenTie.

Section GenTie.
Local Open Scope Z_scope.
(* ---- Tie to the source by translation (Gen/GeneratedTr.v, regenerated from /repo on every run by gen/translate.go) ----
   g_* are the decision terms translated from the CURRENT Go code: every condition, the branch structure and which
   white-listed effect statement runs on which path.  The theorems below state that the model's functions - about
   which every theorem above speaks - are the interpretation of these terms. *)
(* BasicEncoder.GetMedian: numeric sort, element at index len/2 (the upper median), 0 for no values *)
Theorem C16_gen_GetMedian_steps :
  forall n,
  g_v2_GetMedian n = if n =? 0 then ([1; 2; 3], RetO 0) else ([1; 2; 4], RetO 0).
Proof. exact gen_v2_GetMedian. Qed.
Print Assumptions C16_gen_GetMedian_steps.

(* ObservationsToUpkeepKeys, loop body: undecodable / invalid observations are counted and skipped, valid ones contribute their block key and at most ObservationUpkeepsLimit ids *)
Theorem C16_gen_ObservationsToUpkeepKeys_loop :
  forall (undecodable invalid : bool) n_ids limit,
  g_v2_obs2keys_body undecodable invalid n_ids n_ids limit =
  if undecodable || invalid then ([1], Fall)
  else if 0 <? n_ids then (if limit <? n_ids then ([2; 3; 4], Fall) else ([2; 4], Fall)) else ([2], Fall).
Proof. exact gen_v2_obs2keys_body. Qed.
Print Assumptions C16_gen_ObservationsToUpkeepKeys_loop.

(* ObservationsToUpkeepKeys, whole function: an error only when every observation was skipped *)
Theorem C16_gen_ObservationsToUpkeepKeys_steps :
  forall parse_errors n_obs (key_err : bool),
  g_v2_obs2keys parse_errors n_obs key_err =
  if parse_errors =? n_obs then ([1], RetO 1) else if key_err then ([1; 2; 3], RetO 2) else ([1; 2; 3], RetO 0).
Proof. exact gen_v2_obs2keys. Qed.
Print Assumptions C16_gen_ObservationsToUpkeepKeys_steps.

(* v2 Observation: sample, shuffle, cut to the limit only when longer, encode with the length limit *)
Theorem C16_gen_Observation_steps :
  forall (observe_err : bool) n_ids limit (encode_err : bool),
  g_v2_Observation observe_err n_ids limit encode_err =
  if observe_err then ([1], RetO 1)
  else ((if limit <? n_ids then [1; 2; 3; 4; 5; 6] else [1; 2; 3; 5; 6]), if encode_err then RetO 2 else RetO 0).
Proof. exact gen_v2_Observation. Qed.
Print Assumptions C16_gen_Observation_steps.

(* polling observer Observe, loop body: an id is listed unless its key is pending (or the coordinator fails) *)
Theorem C16_gen_Observe_filter :
  forall pending err : bool,
  g_v2_Observe_body pending err = if pending || err then ([], Fall) else ([1], Fall).
Proof. exact gen_v2_Observe_body. Qed.
Print Assumptions C16_gen_Observe_filter.

(* filterAndDedupe: the model's filter_dedupe is the fold of the translated inner-loop body over the concatenated observations (skip when a filter matched or failed; record and append on first occurrence) *)
Theorem C16_gen_dedupe :
  forall pend inputs,
  filter_dedupe id_order pend inputs = snd (fold_left (dd_step pend) (concat inputs) ([], [])).
Proof. exact gen_v2_dedupe. Qed.
Print Assumptions C16_gen_dedupe.

(* filterAndDedupe, filter loop: a key is skipped as soon as one filter matches or fails *)
Theorem C16_gen_dedupe_filter :
  forall m e,
  g_v2_dedupe_filter_body m e = if m || e then ([1], Brk) else ([], Fall).
Proof. exact gen_v2_dedupe_filter. Qed.
Print Assumptions C16_gen_dedupe_filter.

(* filterDedupeShuffleObservations: shuffle only after a successful de-duplication *)
Theorem C16_gen_dedupe_then_shuffle :
  g_v2_filter_dedupe_shuffle false = ([1; 2], RetO 1) /\ g_v2_filter_dedupe_shuffle true = ([1], RetO 0).
Proof. exact gen_v2_filter_dedupe_shuffle. Qed.
Print Assumptions C16_gen_dedupe_then_shuffle.

(* limitedLengthEncode, one more identifier: stop at the first prefix whose encoding exceeds the limit, keeping the previous one *)
Theorem C16_gen_limited_encode_step :
  forall blk limit pre i rest best,
  lim_loop blk limit pre (i :: rest) best =
  match g_v2_limited_encode_body false (Z.of_nat (enc_len blk (pre ++ [i]))) (Z.of_nat limit) with
  | ([], Brk) => best
  | ([1], Fall) => lim_loop blk limit (pre ++ [i]) rest (Some (pre ++ [i]))
  | _ => None
  end.
Proof. exact gen_v2_limited_body. Qed.
Print Assumptions C16_gen_limited_encode_step.

(* limitedLengthEncode, whole function *)
Theorem C16_gen_limited_encode :
  forall blk ids limit,
  limited_encode blk ids limit =
  match g_v2_limited_encode (Z.of_nat (length ids)) with
  | ([], RetO 1) => Some []
  | _ => lim_loop blk limit [] ids None
  end.
Proof. exact gen_v2_limited. Qed.
Print Assumptions C16_gen_limited_encode.

(* polling observer, one sampling run: the identifiers staged are those of the results whose eligibility test succeeded, said eligible, and whose detail could be read - the model's stage is the filter of the translated loop body *)
Theorem C16_gen_sampling_stage :
  forall rs se,
  stage rs = map (fun r => snd (r_key r))
                 (filter (fun r => match g_v2_process_head_result (r_eligerr r) (r_elig r) (r_deterr r) se with
                                   | ([1], Fall) => true
                                   | _ => false
                                   end) rs).
Proof. exact gen_v2_stage. Qed.
Print Assumptions C16_gen_sampling_stage.

(* polling observer: the stager is advanced only when the registry answered, some keys were sampled and the runner returned *)
Theorem C16_gen_sampling_advances_stager :
  forall a b c,
  In 7 (fst (g_v2_process_head a b c)) <-> (a = false /\ b = false /\ c = false).
Proof. exact gen_v2_process_head. Qed.
Print Assumptions C16_gen_sampling_advances_stager.

(* stager: advancing copies the prepared block and identifiers and clears the preparation; preparing appends *)
Theorem C16_gen_stager :
  g_v2_stager_advance = ([1; 2; 3; 4], Fall) /\
  (forall f, last (fst (g_v2_stager_prepare_id f)) 0 = 2).
Proof. exact gen_v2_stager. Qed.
Print Assumptions C16_gen_stager.

(* sampling: nothing when there are no keys or the ratio gives none, otherwise a prefix of the shuffled keys *)
Theorem C16_gen_sample_slice :
  forall n size,
  g_v2_shuffle_slice n size = if (n =? 0) || (size <=? 0) then ([1], RetO 0) else ([1], RetO 1).
Proof. exact gen_v2_shuffle_slice. Qed.
Print Assumptions C16_gen_sample_slice.

End GenTie.

(* Non-vacuity: 2f+1 = 5 observations, two of them faulty (0 and 2^64-1), one undecodable and one
   non-canonical ("+30") besides; duplicates; one id in flight; an ineligible and an over-limit
   result.  The hypotheses of C16_report hold and the model checks 4 keys at block 20 and reports 2 (batch size). *)
Module Nonvacuous.
Import String.
Open Scope string_scope.

Definition ex_obs : list raw_obs :=
  [RawObs "20" ["7"]; RawObs "0" ["8"]; RawBad; RawObs "18446744073709551615" ["9"; "1"];
   RawObs "21" ["7"]; RawObs "+30" ["5"]; RawObs "19" ["6"]; RawObs "20" ["4"]].
Close Scope string_scope.
Definition ex_cfg := mkV2Cfg 2 1000 10.
Definition ex_pend (k : key) : bool := snd k =? 6.
Definition ex_runner (ks : list key) : run_out :=
  RunRes (map (fun k => mkRes k (negb (snd k =? 8)) false (if snd k =? 9 then 5000 else 100) false) ks).

Example C16_nonvacuous :
  wf_cfg ex_cfg /\
  (forall ks rs, ex_runner ks = RunRes rs -> NoDup ks ->
     NoDup (map r_key rs) /\ incl (map r_key rs) ks /\ Forall (fun r => r_gas r < two32) rs) /\
  let o := report true true ex_cfg ex_pend (fun l => l) ex_runner false ex_obs in
  o_checked o = Some [(20, 7); (20, 8); (20, 9); (20, 4)] /\ map r_key (o_report o) = [(20, 7); (20, 4)] /\
  median [20; 0; 18446744073709551615; 21; 19; 20] = 20.
Proof.
  split; [unfold wf_cfg, two32; simpl; lia|]. split.
  - intros ks rs E Hn. unfold ex_runner in E. inversion E; subst. rewrite map_map. simpl. rewrite map_id.
    split; [exact Hn|]. split; [apply incl_refl|].
    apply Forall_forall. intros r Hr. apply in_map_iff in Hr. destruct Hr as [k [<- _]]. simpl.
    unfold two32. destruct (snd k =? 9); lia.
  - vm_compute. repeat split.
Qed.
End Nonvacuous.
