(* C12 — each check result is routed to the right sink with its own payload.
   Property theorems only; proofs live in Proofs/PipelineProofs.v and Proofs/RetryQueueProofs.v. *)
From Verif Require Import Base.Util Model.Runner Model.RetryQueue Model.Pipeline
     Proofs.RunnerProofs Proofs.RetryQueueProofs Proofs.PipelineProofs Gen.Generated.
From Verif Require Import Base.GenIR Gen.GeneratedTr Proofs.GenTrRetry.
From Verif Require Import Base.GenIR Gen.GeneratedTr Proofs.GenTrPost.
From Verif Require Import Base.GenIR Gen.GeneratedTr Proofs.GenTrPost.
Open Scope N_scope.

(* Eligible results: for every flow, cache, payload list, pipeline, batch-failure pattern,
   completion order and whichever sinks refuse (state updater failing for the work ids ufail, retry
   queue for qfail: every post-processor of the chain still runs on the whole result list), one Process call stages (flows with a result store) resp. proposes (the two
   proposal flows) exactly the successfully checked eligible results — cached hits and results of
   batches that succeeded — and nothing at all when the runner reports that every batch failed. *)
Theorem C12_eligible :
  forall pipe bfail cexp wlimit ufail qfail, (0 < wlimit)%nat ->
  forall k c cnt t pls ord, (forall bs, Permutation (map fst (ord bs)) bs) ->
  exists bs, unflatten (jobs_of c cnt t pls) wlimit = Some bs /\
    match snd (process pipe bfail cexp wlimit ufail qfail true k c cnt t pls ord) with
    | Some sk =>
        Permutation (sk_staged sk) (if has_stage k then filter elig_ok (checked pipe bfail c cnt t pls bs) else [])
        /\ Permutation (sk_props sk) (if has_prop k then filter elig_ok (checked pipe bfail c cnt t pls bs) else [])
    | None => bs <> [] /\ forall b, In b bs -> bfail b = true
    end.
Proof.
  intros pipe bfail cexp wlimit ufail qfail Hw k c cnt t pls ord Hord.
  destruct (process_routes pipe bfail cexp wlimit ufail qfail Hw k c cnt t pls ord Hord) as [bs [H1 H2]].
  exists bs. split; [exact H1|].
  destruct (snd (process pipe bfail cexp wlimit ufail qfail true k c cnt t pls ord)); [|exact H2].
  destruct H2 as [_ [A [_ [B _]]]]. split; assumption.
Qed.
Print Assumptions C12_eligible.

(* Ineligible results: recorded with the state updater exactly for the successfully checked
   ineligible results, in the flows that have the ineligible post-processor (log trigger, retry,
   final recovery, recovery proposal); never in the conditional flows. *)
Theorem C12_ineligible :
  forall pipe bfail cexp wlimit ufail qfail, (0 < wlimit)%nat ->
  forall k c cnt t pls ord, (forall bs, Permutation (map fst (ord bs)) bs) ->
  exists bs, unflatten (jobs_of c cnt t pls) wlimit = Some bs /\
    forall sk, snd (process pipe bfail cexp wlimit ufail qfail true k c cnt t pls ord) = Some sk ->
    Permutation (sk_inelig sk) (if has_inelig k then filter inelig_ok (checked pipe bfail c cnt t pls bs) else []).
Proof.
  intros pipe bfail cexp wlimit ufail qfail Hw k c cnt t pls ord Hord.
  destruct (process_routes pipe bfail cexp wlimit ufail qfail Hw k c cnt t pls ord Hord) as [bs [H1 H2]].
  exists bs. split; [exact H1|]. intros sk Hs. rewrite Hs in H2. destruct H2 as [_ [_ [A _]]]. exact A.
Qed.
Print Assumptions C12_ineligible.

(* Retry: with a pipeline that answers every payload of a batch once under the payload's work
   id, block and hash, and non-empty work ids, every retryable failure of a call enqueues a
   payload of that call with the same work id and trigger block/hash and the result's own
   interval, in order; nothing else is enqueued, no panic, and the only errors are those the sinks returned. *)
Theorem C12_retry_own_payload :
  forall pipe bfail cexp wlimit ufail qfail, (0 < wlimit)%nat ->
  forall (P : result -> Prop) k c cnt t pls ord,
  (forall bs, Permutation (map fst (ord bs)) bs) -> pipe_wf pipe -> cache_wf P c ->
  (forall p, In p pls -> pl_wid p <> 0) -> has_retry k = true ->
  forall sk, snd (process pipe bfail cexp wlimit ufail qfail true k c cnt t pls ord) = Some sk ->
  sk_panic sk = false /\
  exists rs, snd (check pipe bfail cexp wlimit c cnt t pls ord) = Ok rs
             /\ Forall2 (pairs_own pls) (filter retry_fail rs) (sk_enq sk)
             /\ sk_err sk = sink_err ufail qfail k rs (sk_enq sk).
Proof. exact process_retry_own. Qed.
Print Assumptions C12_retry_own_payload.

(* Whatever results and payloads the post-processor is given (shorter, longer, reordered,
   without work ids), the repaired pairing never indexes out of range. *)
Theorem C12_retry_never_out_of_range :
  forall rs pos pls acc err, exists enq err', retry_pp true rs pos pls acc err = RpOk (rev acc ++ enq) err'.
Proof. exact retry_pp_fixed_ok. Qed.
Print Assumptions C12_retry_never_out_of_range.

(* The code at the pinned commit (results[i] paired with payloads[i]) violated the retry clause
   under exactly the hypotheses of C12_retry_own_payload: payloads [B; A] with A cached give
   results [resA; resB]; resB is a retryable failure and A is enqueued (finding 5, repaired in
   /repo by a fix: commit). *)
Theorem C12_retry_refuted :
  exists sc c pls ord rs rB pA,
    pipe_wf (spipe sc) /\ cache_wf (fun _ => True) c /\ (forall p, In p pls -> pl_wid p <> 0)
    /\ (forall bs, Permutation (map fst (ord bs)) bs)
    /\ snd (check (spipe sc) (sfail sc) 1000 10 c [] 5%Z pls ord) = Ok rs
    /\ filter retry_fail rs = [rB]
    /\ (exists sk, snd (process (spipe sc) (sfail sc) 1000 10 [] [] false KLog c [] 5%Z pls ord) = Some sk
                   /\ sk_enq sk = [(pA, r_ivl rB)])
    /\ pl_wid pA <> r_wid rB
    /\ ~ Forall2 (pairs_own pls) (filter retry_fail rs) [(pA, r_ivl rB)].
Proof. exact retry_positional_refuted. Qed.
Print Assumptions C12_retry_refuted.

(* ... and indexed out of range when the pipeline returned more results than payloads. *)
Theorem C12_retry_out_of_range_refuted :
  exists sc pls ord,
    (forall bs, Permutation (map fst (ord bs)) bs)
    /\ (exists sk, snd (process (spipe sc) (sfail sc) 1000 10 [] [] false KLog [] [] 5%Z pls ord) = Some sk
                   /\ sk_panic sk = true)
    /\ (exists sk, snd (process (spipe sc) (sfail sc) 1000 10 [] [] true KLog [] [] 5%Z pls ord) = Some sk
                   /\ sk_panic sk = false /\ length (sk_enq sk) = 2%nat).
Proof. exact retry_positional_out_of_range. Qed.
Print Assumptions C12_retry_out_of_range_refuted.

(* Queue, one Enqueue: the record is due again one (custom or default) interval after now, is
   no longer pending, keeps its creation time, and its payload is replaced iff the new one is
   on a strictly higher block. *)
Theorem C12_queue_enqueue :
  forall divl now q p ivl,
  rq_find (enqueue1 divl now q (p, ivl)) (pl_wid p) =
  Some match rq_find q (pl_wid p) with
       | Some r => mkRec (if N.ltb (pl_blk (q_pl r)) (pl_blk p) then p else q_pl r)
                         (eff_ivl divl ivl) false (q_created r) now
       | None => mkRec p (eff_ivl divl ivl) false now now
       end
  /\ forall k, k <> pl_wid p -> rq_find (enqueue1 divl now q (p, ivl)) k = rq_find q k.
Proof. intros. split; [apply enqueue1_same | intros; apply enqueue1_other; assumption]. Qed.
Print Assumptions C12_queue_enqueue.

(* Queue, one Dequeue, for every map iteration order: every payload handed out is the stored
   payload of a record that is not expired, not pending and past updatedAt + interval, and that
   record is pending afterwards; every other record is unchanged, marked pending (handed out)
   or deleted (expired); at most max(n,1) payloads are handed out. *)
Theorem C12_queue_dequeue :
  forall dexp pi q now n q' out, dequeue dexp pi q now n = (q', out) ->
  (forall p, In p out -> exists k r, rq_find q k = Some r /\ ready dexp r now = true /\ p = q_pl r
                                     /\ rq_find q' k = Some (set_pending r))
  /\ (forall k, rq_find q' k = rq_find q k
                \/ (exists r, rq_find q k = Some r /\ ready dexp r now = true
                              /\ rq_find q' k = Some (set_pending r) /\ In (q_pl r) out)
                \/ (exists r, rq_find q k = Some r /\ expired dexp r now = true /\ rq_find q' k = None))
  /\ (Z.of_nat (length out) <= Z.max n 1)%Z.
Proof. exact dequeue_spec. Qed.
Print Assumptions C12_queue_dequeue.

(* Queue, histories: for every sequence of Enqueue / Dequeue operations (any records, custom or
   default intervals, any times, any map orders) and every payload p handed out by a Dequeue at
   time t: the latest enqueue of its work id happened at some u with effective interval iv and
   iv < t - u; no Dequeue handed the work id out since; p was enqueued for this work id and is
   on a block >= the latest enqueued payload's; its record was created by an enqueue at some c
   with t - c <= expiry. *)
Theorem C12_queue :
  forall divl dexp ops, hist_ok divl dexp (snd (q_run divl dexp ops)).
Proof. intros. apply q_run_ok. Qed.
Print Assumptions C12_queue.

(* The boolean checkers applied to what was observed of the real code decide their specs. *)
Theorem C12_route_checker_sound :
  forall k pls o, C12_route_check k pls o = true -> C12_route_spec k pls o.
Proof. exact C12_route_check_sound. Qed.
Print Assumptions C12_route_checker_sound.

Theorem C12_queue_checker_sound :
  forall dexp q now n obs, deq_ok dexp q now n obs = true -> deq_spec dexp q now n obs.
Proof. exact deq_ok_sound. Qed.
Print Assumptions C12_queue_checker_sound.

(* Obligations against the constants read from the source: a positive default interval that is
   shorter than the expiry (so a failed payload can be retried at all), a retry batch of at
   least one (so a retry tick hands out at most RetryBatchSize payloads), and a retry tick that
   is not slower than the default interval. *)
Theorem C12_gen_retry_constants :
  (0 < RetryDefaultInterval < RetryDefaultExpiration)%Z /\ (1 <= RetryBatchSize)%Z
  /\ (0 < RetryCheckInterval <= RetryDefaultInterval)%Z
  /\ forall pi q now q' out, dequeue RetryDefaultExpiration pi q now RetryBatchSize = (q', out) ->
       (Z.of_nat (length out) <= RetryBatchSize)%Z.
Proof.
  assert (H : (1 <= RetryBatchSize)%Z) by (vm_compute; discriminate).
  split; [split; vm_compute; reflexivity|]. split; [exact H|].
  split; [split; vm_compute; [reflexivity | discriminate]|].
  intros pi q now q' out Hd. destruct (dequeue_spec _ _ _ _ _ _ _ Hd) as [_ [_ B]].
  rewrite Z.max_l in B; [exact B | exact H].
Qed.
Print Assumptions C12_gen_retry_constants.

Section GenTie.
Local Open Scope Z_scope.
(* ---- Tie to the source by translation (Gen/GeneratedTr.v, regenerated from /repo on every run by gen/translate.go) ----
   g_* are the decision terms translated from the CURRENT Go code: every condition, the branch structure and which
   white-listed effect statement runs on which path.  The theorems below state that the model's functions - about
   which every theorem above speaks - are the interpretation of these terms. *)
(* retryQueue.Enqueue, loop body: the model's enqueue1 is the interpretation of the generated body (payload replaced only by a strictly higher check block, createdAt kept, interval default) *)
Theorem C12_gen_retry_Enqueue_decisions :
  forall divl now q p ivl,
  let f := rq_find q (pl_wid p) in
  let r0 := match f with Some r => r | None => mkRec p 0 false now now end in
  let d := g_rq_enqueue_body (match f with Some _ => true | None => false end)
                             (Z.of_N (pl_blk p)) (Z.of_N (pl_blk (q_pl r0))) ivl in
  snd d = Fall
  /\ has 1 (fst d) = (match f with Some _ => false | None => true end)
  /\ has 3 (fst d) = true /\ has 4 (fst d) = true /\ has 7 (fst d) = true
  /\ has 6 (fst d) = negb (has 5 (fst d))
  /\ enqueue1 divl now q (p, ivl) =
     rq_put q (pl_wid p) (mkRec (if has 2 (fst d) then p else q_pl r0)
                                (if has 5 (fst d) then ivl else divl) false (q_created r0) now).
Proof. exact gen_rq_enqueue_body. Qed.
Print Assumptions C12_gen_retry_Enqueue_decisions.

(* retryQueueRecord.expired / elapsed: strictly greater than the window *)
Theorem C12_gen_retry_expired_elapsed :
  forall dexp r now,
  g_rq_expired (now - q_created r) dexp = ([], RetB (expired dexp r now)) /\
  g_rq_elapsed (now - q_updated r) (q_ivl r) = ([], RetB (elapsed r now)).
Proof. exact gen_rq_expired_elapsed. Qed.
Print Assumptions C12_gen_retry_expired_elapsed.

(* retryQueue.Dequeue, loop body: the model's deq_visit is the interpretation of the generated body *)
Theorem C12_gen_retry_Dequeue_decisions :
  forall dexp now n q out k r,
  rq_find q k = Some r ->
  deq_visit dexp now n (q, out, false) k =
  match g_rq_dequeue_body (expired dexp r now) (q_pend r) (elapsed r now) (Z.of_nat (length (out ++ [q_pl r]))) n with
  | ([1], Fall) => (rq_remove q k, out, false)
  | ([2; 3; 4], Brk) => (rq_put q k (set_pending r), out ++ [q_pl r], true)
  | ([2; 3; 4], Fall) => (rq_put q k (set_pending r), out ++ [q_pl r], false)
  | _ => (q, out, false)
  end.
Proof. exact gen_rq_dequeue_body. Qed.
Print Assumptions C12_gen_retry_Dequeue_decisions.

(* retryQueue.Size, loop body: a record counts unless pending or expired *)
Theorem C12_gen_retry_Size_decisions :
  forall dexp now (kr : N * rrec),
  negb (q_pend (snd kr)) && negb (expired dexp (snd kr) now) =
  match g_rq_size_body (q_pend (snd kr)) (expired dexp (snd kr) now) with ([1], Fall) => true | _ => false end.
Proof. exact gen_rq_size_body. Qed.
Print Assumptions C12_gen_retry_Size_decisions.

End GenTie.

Section GenTie.
Local Open Scope Z_scope.
(* ---- Tie to the source by translation (Gen/GeneratedTr.v, regenerated from /repo on every run by gen/translate.go) ----
   g_* are the decision terms translated from the CURRENT Go code: every condition, the branch structure and which
   white-listed effect statement runs on which path.  The theorems below state that the model's functions - about
   which every theorem above speaks - are the interpretation of these terms. *)
(* eligible / metadata post-processors: exactly the successfully checked eligible results (the model's elig_ok) are staged / proposed *)
Theorem C12_gen_eligible_routing :
  forall r,
  g_pp_eligible_body (Z.of_N (r_state r)) (r_elig r) = (if elig_ok r then ([1; 2], Fall) else ([], Fall)) /\
  g_pp_metadata_body (Z.of_N (r_state r)) (r_elig r) = (if elig_ok r then ([1], Fall) else ([], Fall)).
Proof. exact gen_pp_eligible. Qed.
Print Assumptions C12_gen_eligible_routing.

(* ineligible post-processor: exactly the successfully checked ineligible results (inelig_ok) reach the state updater; its error is joined, the loop goes on *)
Theorem C12_gen_ineligible_routing :
  forall r (upd_err : bool),
  g_pp_ineligible_body (Z.of_N (r_state r)) (r_elig r) upd_err =
  if inelig_ok r then (if upd_err then ([1; 2], Fall) else ([1; 3], Fall)) else ([], Fall).
Proof. exact gen_pp_ineligible. Qed.
Print Assumptions C12_gen_ineligible_routing.

(* retry post-processor: exactly the retryable failures (retry_fail); own payload looked up, enqueued with the result's interval *)
Theorem C12_gen_retry_routing :
  forall r (found enq_ok : bool),
  g_pp_retry_body (Z.of_N (r_state r)) (r_retry r) found enq_ok =
  if retry_fail r then
    (if found then (if enq_ok then ([1; 3; 4; 5], Fall) else ([1; 3; 5], Fall)) else ([1; 2], Fall))
  else ([], Fall).
Proof. exact gen_pp_retry. Qed.
Print Assumptions C12_gen_retry_routing.

(* payloadOf: by position only for a result without work id (bounds checked); else exact match, else first with the same work id, else none *)
Theorem C12_gen_payloadOf_decisions :
  forall (no_wid : bool) pos n found,
  g_pp_payloadOf no_wid pos n found =
  if no_wid then (if pos <? n then ([], RetO 1) else ([], RetO 2))
  else if found <? 0 then ([1], RetO 2) else ([1], RetO 3).
Proof. exact gen_pp_payloadOf. Qed.
Print Assumptions C12_gen_payloadOf_decisions.

(* payloadOf, loop body *)
Theorem C12_gen_payloadOf_loop :
  forall p_wid r_wid p_blk r_blk p_hash r_hash found,
  g_pp_payloadOf_body p_wid r_wid p_blk r_blk p_hash r_hash found =
  if negb (p_wid =? r_wid) then ([], Fall)
  else if (p_blk =? r_blk) && (p_hash =? r_hash) then ([], RetO 1)
  else if found <? 0 then ([1], Fall) else ([], Fall).
Proof. exact gen_pp_payloadOf_body. Qed.
Print Assumptions C12_gen_payloadOf_loop.

(* the model's find_exact is the exact-match search of that loop *)
Theorem C12_gen_payloadOf_model :
  forall r p t,
  find_exact r (p :: t) =
  match g_pp_payloadOf_body (Z.of_N (pl_wid p)) (Z.of_N (r_wid r)) (Z.of_N (pl_blk p)) (Z.of_N (r_blk r))
                            (Z.of_N (pl_hash p)) (Z.of_N (r_hash r)) (-1) with
  | (_, RetO 1) => Some p
  | _ => find_exact r t
  end.
Proof. exact gen_pp_payloadOf_model. Qed.
Print Assumptions C12_gen_payloadOf_model.

(* combined post-processor: every post-processor of the chain runs *)
Theorem C12_gen_combine :
  g_pp_combine_body = ([1], Fall).
Proof. exact gen_pp_combine. Qed.
Print Assumptions C12_gen_combine.

End GenTie.

Section GenTie.
Local Open Scope Z_scope.
(* ---- Tie to the source by translation (Gen/GeneratedTr.v, regenerated from /repo on every run by gen/translate.go) ----
   g_* are the decision terms translated from the CURRENT Go code: every condition, the branch structure and which
   white-listed effect statement runs on which path.  The theorems below state that the model's functions - about
   which every theorem above speaks - are the interpretation of these terms. *)
(* Observer.Process: tick value, every pre-processor in turn (each on what the previous one let through), check pipeline, post-processor on results and pre-processed payloads *)
Theorem C12_gen_Observer_Process_steps :
  forall tick_err run_err post_err pre_err : bool,
  g_observer_process tick_err run_err post_err =
    (if tick_err then ([1], RetO 1) else if run_err then ([1; 2; 3], RetO 1)
     else if post_err then ([1; 2; 3; 4], RetO 1) else ([1; 2; 3; 4], RetO 0)) /\
  g_observer_preprocess_body pre_err = (if pre_err then ([1], RetO 1) else ([1], Fall)).
Proof. exact gen_observer_process. Qed.
Print Assumptions C12_gen_Observer_Process_steps.

(* proposal filterer and final-flow tick: what is dropped before the pipeline *)
Theorem C12_gen_flow_filters :
  forall already empty : bool,
  g_proposal_filterer_body already = (if already then ([], Fall) else ([1], Fall)) /\
  g_final_flow_tick_body empty = (if empty then ([1], Fall) else ([2], Fall)).
Proof. exact gen_flow_filters. Qed.
Print Assumptions C12_gen_flow_filters.

(* wiring of the six flows, post-processors: the model's table (which flow stages eligible results, enqueues retries, records ineligible ones, stores proposals) is what each constructor in pkg/v3/flows hands to NewRunnableObserver *)
Theorem C12_gen_flow_postprocessors :
  forall k,
  has_stage k = memZ 1 (post_of k) /\ has_retry k = memZ 2 (post_of k) /\
  has_inelig k = memZ 3 (post_of k) /\ has_prop k = memZ 4 (post_of k).
Proof. exact gen_wiring_post. Qed.
Print Assumptions C12_gen_flow_postprocessors.

(* wiring of the six flows, pre-processors: the coordinator comes first in every flow; the two proposal flows add the proposal filterer *)
Theorem C12_gen_flow_preprocessors :
  forall k,
  hd (-1) (pre_of k) = 0 /\ memZ 5 (pre_of k) = has_prop k.
Proof. exact gen_wiring_pre. Qed.
Print Assumptions C12_gen_flow_preprocessors.

(* the factories hand every flow constructor a slice holding exactly the coordinator *)
Theorem C12_gen_flow_factories :
  g_wire_factory_log = [0; 0; 0] /\ g_wire_factory_cond = [0; 0].
Proof. exact gen_wiring_factories. Qed.
Print Assumptions C12_gen_flow_factories.

End GenTie.

(* Non-vacuity: payloads [B; A] with A cached and B failing retryably — the hypotheses of
   C12_retry_own_payload hold, A is staged, B (not A) is enqueued with its interval; and a queue
   history in which the retried payload is handed out only after its interval. *)
Example C12_nonvacuous :
  let sc : script := [(2, [mkSpec 1 true false 7 0])] in
  let resA := mkRes 1 5 9 0 false true 0 100 0 in
  let pA := mkPl 1 5 9 1 in let pB := mkPl 2 5 9 2 in
  let c : cache := [(1, (resA, 0%Z))] in
  let ord := fun bs : list (list job) => map (fun b => (b, 6%Z)) bs in
  (forall bs, Permutation (map fst (ord bs)) bs)
  /\ snd (process (spipe sc) (sfail sc) 1000 10 [] [] true KLog c [] 5%Z [pB; pA] ord)
     = Some (mkSinks [resA] [] [] [(pB, 7%Z)] false false)
  /\ snd (q_run 30 1000 [QEnq 6 [(pB, 7%Z)]; QDeq 13 10 []; QDeq 14 10 []; QDeq 20 10 []])
     = [EDeq 20 []; EDeq 14 [pB]; EDeq 13 []; EEnq 6 (pB, 7%Z)].
Proof.
  split; [|split].
  - intro bs. rewrite map_map. simpl. rewrite map_id. apply Permutation_refl.
  - vm_compute. reflexivity.
  - vm_compute. reflexivity.
Qed.
