(* C07 — in-flight work is withheld from observation until the right event releases it.
   Property theorems only; proofs live in Proofs/CoordinatorProofs.v.  Same model and reading
   guide as Props/C06.v.  [settledD c tj b D = Some (tp, e0)]: the sufficiently confirmed events
   for the work id at or above the awaited block b delivered since the acceptance at tj form a chain
   of new events (the first inside the acceptance's window, each next one inside its predecessor's
   window and for a check block at least as high), e0 is the last of them, first delivered at tp;
   re-deliveries of e0 and events for lower check blocks do not matter -- "the latest thing known
   about the unit of work is e0".  An event with the same work id and transaction hash but another
   transmit block is a different event (the transaction was mined again after a re-org). *)
From Verif Require Import Base.Util Model.Coordinator Proofs.CoordinatorProofs.
From Verif Require Import Base.GenIR Gen.GeneratedTr Proofs.GenTrCoordinator.
From Verif Require Import Model.Pipeline Proofs.GenTrPost.
Open Scope Z_scope.

(* Every answer of ShouldProcess / PreProcess / FilterResults / FilterProposals, in every history,
   satisfies the per-answer statement of the property (C07_spec). *)
Theorem C07_all_histories : forall c h, wf_times h -> C07_spec c (zip3 h (run c h)).
Proof. exact model_C07_spec. Qed.
Print Assumptions C07_all_histories.

(* accepted, no confirmed event at or above the awaited block since, window open: withheld *)
Theorem C07_pending_blocks :
  forall c pre t i tj b D,
    wf_times (pre ++ [(t, OShould i)]) ->
    scan c (it_w i) (snd (reach c s0 [] pre)) = Some (tj, b, D) -> dlow b D = true -> within c tj t = true ->
    should_process t i (fst (reach c s0 [] pre)) = false /\ keep_proposal t i (fst (reach c s0 [] pre)) = false.
Proof. exact pending_blocks. Qed.
Print Assumptions C07_pending_blocks.

(* latest is a confirmed perform event, log-triggered work: not processed, not proposed *)
Theorem C07_performed_log :
  forall c pre t i tj b D tp e0,
    wf_times (pre ++ [(t, OShould i)]) ->
    scan c (it_w i) (snd (reach c s0 [] pre)) = Some (tj, b, D) -> settledD c tj b D = Some (tp, e0) -> within c tp t = true ->
    ev_type e0 = PERFORM -> it_ut i = UT_LOG ->
    should_process t i (fst (reach c s0 [] pre)) = false /\ keep_proposal t i (fst (reach c s0 [] pre)) = false.
Proof. exact performed_log. Qed.
Print Assumptions C07_performed_log.

(* latest is a confirmed perform event, conditional upkeep: processed iff the check block is at or
   after the perform block; proposals pass *)
Theorem C07_performed_cond :
  forall c pre t i tj b D tp e0,
    wf_times (pre ++ [(t, OShould i)]) ->
    scan c (it_w i) (snd (reach c s0 [] pre)) = Some (tj, b, D) -> settledD c tj b D = Some (tp, e0) -> within c tp t = true ->
    ev_type e0 = PERFORM -> it_ut i = UT_COND ->
    should_process t i (fst (reach c s0 [] pre)) = (ev_tb e0 <=? it_blk i)%N /\ keep_proposal t i (fst (reach c s0 [] pre)) = true.
Proof. exact performed_cond. Qed.
Print Assumptions C07_performed_cond.

(* latest is a stale / reorged / insufficient-funds (any non-perform) event: processed again *)
Theorem C07_released :
  forall c pre t i tj b D tp e0,
    wf_times (pre ++ [(t, OShould i)]) ->
    scan c (it_w i) (snd (reach c s0 [] pre)) = Some (tj, b, D) -> settledD c tj b D = Some (tp, e0) -> within c tp t = true ->
    ev_type e0 <> PERFORM ->
    should_process t i (fst (reach c s0 [] pre)) = true /\ keep_proposal t i (fst (reach c s0 [] pre)) = true.
Proof. exact released_event. Qed.
Print Assumptions C07_released.

(* never accepted since the last restart, or the lockout window has certainly expired: processed *)
Theorem C07_released_expired :
  forall c pre t i,
    wf_times (pre ++ [(t, OShould i)]) ->
    known c (snd (reach c s0 [] pre)) t (it_w i) = Some None ->
    should_process t i (fst (reach c s0 [] pre)) = true /\ keep_proposal t i (fst (reach c s0 [] pre)) = true.
Proof. exact released_absent. Qed.
Print Assumptions C07_released_expired.

(* The three list filters return order-preserving sublists of their input that keep exactly the
   items ShouldProcess (resp. the proposal rule) keeps, for every list, and change no state. *)
Theorem C07_filters_are_filters :
  forall c s t l,
    (exists mask, length mask = length l /\ snd (step c s t (OPre l)) = RL (select mask l)
        /\ forall n i, nth_error l n = Some i -> nth_error mask n = Some (should_process t i s))
    /\ snd (step c s t (OFRes l)) = snd (step c s t (OPre l))
    /\ (exists mask, length mask = length l /\ snd (step c s t (OFProp l)) = RL (select mask l)
        /\ forall n i, nth_error l n = Some i -> nth_error mask n = Some (keep_proposal t i s))
    /\ fst (step c s t (OPre l)) = s /\ fst (step c s t (OFRes l)) = s /\ fst (step c s t (OFProp l)) = s.
Proof. exact filters_are_filters. Qed.
Print Assumptions C07_filters_are_filters.

Theorem C07_checker_sound : forall c h, C07_check c h = true -> C07_spec c h.
Proof. exact C07_check_sound. Qed.
Print Assumptions C07_checker_sound.

(* ---- Tie to the source by translation (regenerated from /repo on every run, Gen/GeneratedTr.v) ----
   The model's should_process / keep_proposal take exactly the decisions of the CURRENT ShouldProcess and
   FilterProposals loop body as /verif/gen translated them, and the loop bodies of FilterResults / PreProcess
   keep an element exactly when ShouldProcess admits it.  Upkeep-type and event-type constants enter as the
   model's own codes (log = 1, conditional = 0, perform = 1); the harness maps the real constants to them. *)
Theorem C07_gen_ShouldProcess_decisions : forall t i s,
  let r := cget t (it_w i) (s_cache s) in
  g_coord_ShouldProcess (opt_ok r) (e_pend (getv r)) (Z.of_N (it_ut i)) (Z.of_N UT_LOG) (Z.of_N UT_COND)
                        (Z.of_N (e_tt (getv r))) (Z.of_N PERFORM) (Z.of_N (it_blk i)) (Z.of_N (e_tb (getv r)))
  = ([], RetB (should_process t i s)).
Proof. exact gen_coord_ShouldProcess. Qed.
Print Assumptions C07_gen_ShouldProcess_decisions.

Theorem C07_gen_FilterProposals_decisions : forall t i s,
  let r := cget t (it_w i) (s_cache s) in
  g_coord_FilterProposals_body (opt_ok r) (e_pend (getv r)) (Z.of_N (it_ut i)) (Z.of_N UT_LOG)
                               (Z.of_N (e_tt (getv r))) (Z.of_N PERFORM)
  = if keep_proposal t i s then ([1], Fall) else ([], Fall).
Proof. exact gen_coord_FilterProposals. Qed.
Print Assumptions C07_gen_FilterProposals_decisions.

Theorem C07_gen_filter_loop_bodies : forall should : bool,
  g_coord_filter_body should = ((if should then [1] else []), Fall) /\
  g_coord_preprocess_body should = ((if should then [1] else []), Fall).
Proof. exact gen_coord_filter_bodies. Qed.
Print Assumptions C07_gen_filter_loop_bodies.

(* wiring of the six flows, pre-processors: the coordinator comes first in every flow (so every payload a flow checks went through coordinator.PreProcess); the two proposal flows add the proposal filterer *)
Theorem C07_gen_flow_preprocessors :
  forall k,
  hd (-1) (pre_of k) = 0 /\ memZ 5 (pre_of k) = has_prop k.
Proof. exact gen_wiring_pre. Qed.
Print Assumptions C07_gen_flow_preprocessors.

(* the factories hand every flow constructor a slice holding exactly the coordinator *)
Theorem C07_gen_flow_factories :
  g_wire_factory_log = [0; 0; 0] /\ g_wire_factory_cond = [0; 0].
Proof. exact gen_wiring_factories. Qed.
Print Assumptions C07_gen_flow_factories.

(* Non-vacuity: life-cycle accept -> perform -> re-propose -> expiry for a conditional (type 0) and a
   log (type 1) work id; the hypotheses of the theorems above are met along the way. *)
Example C07_nonvacuous :
  let c := mkCC 5000 0 in
  let h := [(100, OAccept 1 10); (100, OAccept 2 10); (200, OShould (1, 0, 10)%N);
            (1000, OEvents [mkEv 1 7 1 12 0 10; mkEv 2 8 1 12 0 10]);
            (1100, OPre [(1, 0, 11)%N; (1, 0, 12)%N; (2, 1, 12)%N; (3, 1, 1)%N]);
            (1200, OFProp [(1, 0, 11)%N; (2, 1, 12)%N]);
            (6100, OFRes [(1, 0, 11)%N; (2, 1, 12)%N])] in
  wf_times h
  /\ run c h = [RB true; RB true; RB false; RU; RL [(1, 0, 12)%N; (3, 1, 1)%N]; RL [(1, 0, 11)%N];
                RL [(1, 0, 11)%N; (2, 1, 12)%N]]
  /\ C07_check c (zip3 h (run c h)) = true
  /\ settledD c 100 10 [(1000, mkEv 1 7 1 12 0 10, true)] = Some (1000, mkEv 1 7 1 12 0 10).
Proof.
  split; [|split; [|split]].
  - unfold wf_times; simpl; lia.
  - vm_compute. reflexivity.
  - vm_compute. reflexivity.
  - vm_compute. reflexivity.
Qed.
