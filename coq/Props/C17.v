(* C17 — OCR2 (v2) report coordinator: lockout until the right log, convergent across orderings.
   Property theorems only; proofs live in Proofs/V2CoordProofs.v, the model in Model/V2Coord.v. *)
From Verif Require Import Base.Util Model.V2Coord Proofs.V2CoordProofs Model.V2CoordPlugin Proofs.V2CoordPluginProofs.
From Verif Require Import Base.GenIR Gen.GeneratedTr Proofs.GenTrV2Coord.
From Verif Require Import Base.GenIR Gen.GeneratedTr Proofs.GenTrV2b.
Open Scope N_scope.

(* shouldUpdate is the strict part of the total order [ble] on (check block, transmit block)
   with the indefinite key as the lowest transmit value (rank (c, if t = 2^64 then 0 else t+1),
   lexicographic); [upd b v = if should_update b v then v else b] is its join: least upper
   bound, idempotent, commutative, associative — for all N values, also transmit values
   above 2^64. *)
Theorem C17_join :
  (forall a, ble a a) /\
  (forall a b, ble a b \/ ble b a) /\
  (forall a b c, ble a b -> ble b c -> ble a c) /\
  (forall a b, ble a b -> ble b a -> a = b) /\
  (forall a b, ble a (upd a b) /\ ble b (upd a b) /\ (forall m, ble a m -> ble b m -> ble (upd a b) m)) /\
  (forall a b, (ble a b -> upd a b = b) /\ (ble b a -> upd a b = a)) /\
  (forall a, upd a a = a) /\
  (forall a b, upd a b = upd b a) /\
  (forall a b c, upd a (upd b c) = upd (upd a b) c) /\
  (forall c t, ble (c, indef) (c, t)) /\
  (forall c t t', t <> indef -> t' <> indef -> (ble (c, t) (c, t') <-> t <= t')) /\
  (forall c c' t t', c < c' -> ble (c, t) (c', t')).
Proof. exact join_laws_hold. Qed.
Print Assumptions C17_join.

(* In a history in which nothing expires (all op times and the query time within [t0, t0+W],
   W <= lockout window, W <= 1 h) the value stored for an id is the fold of [upd] over the
   effective updates of that id in history order ([joinl]), i.e. their maximum; an effective
   update is the first accept of a key (c, indefinite), or a perform / stale log with
   confirmations >= minConfs whose key was accepted EARLIER in the history ((c, tb) resp.
   (c, c+1)); every other op contributes nothing.  IsPending / IsTransmissionConfirmed equal
   the direct specification computed from the history. *)
Theorem C17_state_char :
  forall c t0 W h now, no_expiry c t0 W h now ->
  (forall id, stored now (run c h init) id = joinl (id_vals (minc c) (map snd h) id)) /\
  (forall id v, In v (id_vals (minc c) (map snd h) id) <->
     exists x a e b, map snd h = a ++ e :: b /\ eff_at (minc c) a e x /\ snd (e_key x) = id /\ e_val x = v) /\
  (forall id m, stored now (run c h init) id = Some m <-> max_of m (id_vals (minc c) (map snd h) id)) /\
  (forall k, is_pending now (run c h init) k = spec_pending (minc c) (map snd h) k) /\
  (forall k, is_confirmed now (run c h init) k = spec_confirmed (minc c) (map snd h) k).
Proof. exact state_char_full. Qed.
Print Assumptions C17_state_char.

(* Blocking.  For an accepted key k = (c, id) whose check block is the highest among the
   accepted keys of id (the code's design: a newer accepted check block of the same id
   supersedes an older key — see C17_superseded_key_example), with L the transmit values of
   the effective logs of k (perform: its transmit block, stale: c+1):
     - the id's entry is (c, tmaxl L), tmaxl [] = indefinite;
     - no such log: every block b <= 2^64 is pending;
     - otherwise pending iff b <= tmaxl L, the maximum of L in the rank order (the numeric
       maximum when no transmit value is literally 2^64); after a single log exactly the
       blocks after its transmit value pass. *)
Theorem C17_blocking :
  forall c t0 W h now k,
  no_expiry c t0 W h now ->
  In (EAccept k) (map snd h) ->
  (forall k', In (EAccept k') (map snd h) -> snd k' = snd k -> fst k' <= fst k) ->
  let L := log_tvs (minc c) (map snd h) k in
  (forall t, In t L <-> exists a e b, map snd h = a ++ e :: b /\ In (EAccept k) a /\ is_log_of (minc c) k t e) /\
  stored now (run c h init) (snd k) = Some (fst k, tmaxl L) /\
  (L = [] -> forall b, b <= indef -> is_pending now (run c h init) (b, snd k) = true) /\
  (forall b, is_pending now (run c h init) (b, snd k) = true <-> b <= tmaxl L) /\
  (L <> [] -> In (tmaxl L) L /\ (forall t, In t L -> rk t <= rk (tmaxl L)) /\
              (Forall (fun t => t <> indef) L -> forall t, In t L -> t <= tmaxl L)) /\
  (forall t, L = [t] -> forall b, is_pending now (run c h init) (b, snd k) = true <-> b <= t).
Proof. exact blocking_full. Qed.
Print Assumptions C17_blocking.

(* Expiry (any history, any times): once every op of the id is older than the lockout window
   nothing is pending; an id never accepted is never pending; the id's entry carries the time
   s of its last Set and is gone as soon as now > s + window (strict). *)
Theorem C17_blocking_expiry :
  forall c h id,
  (forall now b, (forall o, In o h -> snd (ev_key (snd o)) = id -> (fst o + window c < now)%Z) ->
                 is_pending now (run c h init) (b, id) = false) /\
  (forall now b, (forall o k, In o h -> snd o = EAccept k -> snd k <> id) ->
                 is_pending now (run c h init) (b, id) = false) /\
  ((forall now, stored now (run c h init) id = None) \/
   exists v s, (exists o, In o h /\ snd (ev_key (snd o)) = id /\ fst o = s) /\
     (forall now, stored now (run c h init) id = if (s + window c <? now)%Z then None else Some v) /\
     (forall now b, (s + window c < now)%Z -> is_pending now (run c h init) (b, id) = false)).
Proof. exact expiry_full. Qed.
Print Assumptions C17_blocking_expiry.

(* Only effective updates (first accept of a key, logs with enough confirmations of an accepted
   key) arm the lockout: while no activeKeys entry can have expired (history and query within one
   hour), the id is no longer pending once every effective update of it is older than the
   lockout window — an ignored repeat Accept or an ignored log does not prolong the lockout. *)
Theorem C17_lockout_armed_by_effective_updates_only :
  forall c t0 W h now b id,
  (W <= hour)%Z -> in_span t0 W h now ->
  (forall t, In t (teff_times (minc c) [] h id) -> (t + window c < now)%Z) ->
  is_pending now (run c h init) (b, id) = false.
Proof. exact eff_expired_pending. Qed.
Print Assumptions C17_lockout_armed_by_effective_updates_only.

(* A key counts as unconfirmed exactly from its first accept until the first log of that key
   with enough confirmations. *)
Theorem C17_unconfirmed_iff :
  forall c t0 W h now k, no_expiry c t0 W h now ->
  (is_confirmed now (run c h init) k = false <->
   exists a b, map snd h = a ++ EAccept k :: b /\ ~ In (EAccept k) a /\
               forall e, In e b -> is_efflog (minc c) k e = false).
Proof. exact unconfirmed_iff. Qed.
Print Assumptions C17_unconfirmed_iff.

(* Convergence: two histories whose time-free ops are permutations of each other, each
   keeping an accept of every key before that key's logs, with nothing expiring in either,
   reach the same blocking state. *)
Theorem C17_convergent :
  forall c t1 W1 t2 W2 h1 h2 now1 now2,
  no_expiry c t1 W1 h1 now1 -> no_expiry c t2 W2 h2 now2 ->
  Permutation (map snd h1) (map snd h2) ->
  accept_first (map snd h1) -> accept_first (map snd h2) ->
  (forall id, stored now1 (run c h1 init) id = stored now2 (run c h2 init) id) /\
  (forall k, is_confirmed now1 (run c h1 init) k = is_confirmed now2 (run c h2 init) k) /\
  (forall k, is_pending now1 (run c h1 init) k = is_pending now2 (run c h2 init) k).
Proof. exact convergent. Qed.
Print Assumptions C17_convergent.

(* The boolean checker applied to the implementation's observed answers decides the spec. *)
Theorem C17_checker_sound : forall k, C17_check k = true -> C17_spec k.
Proof. exact C17_check_sound. Qed.
Print Assumptions C17_checker_sound.

(* The model's own answers pass the per-query clauses of the checker on every input
   (with or without expiry). *)
Theorem C17_model_passes_checker :
  forall c h qt q, check_queries c h qt q (model_ans c h qt q) = true.
Proof. exact model_passes. Qed.
Print Assumptions C17_model_passes_checker.

(* Plug-in level (pkg/v2/ocr.go ShouldTransmitAcceptedReport over the coordinator), reports with
   any number of keys: with nothing expired, a report that decodes to at least one key is worth
   transmitting iff SOME key of it — at any position — was accepted and has seen no perform / stale
   log with enough confirmations since its first accept; no error is returned. *)
Theorem C17_transmit_iff :
  forall c t0 W (h : list pop) now k ks,
  no_expiry c t0 W (flatten h) now ->
  let s := run c (flatten h) init in
  snd (transmit_ans now s (RKeys (k :: ks))) = false /\
  (fst (transmit_ans now s (RKeys (k :: ks))) = true <->
   exists q, In (Some q) (k :: ks) /\ unconfirmed_hist (minc c) (map snd (flatten h)) q).
Proof. exact transmit_iff. Qed.
Print Assumptions C17_transmit_iff.

(* ... hence independent of the order of the keys inside the report *)
Theorem C17_transmit_order_independent :
  forall now s ks ks', Permutation ks ks' -> ks <> [] ->
  transmit_ans now s (RKeys ks) = transmit_ans now s (RKeys ks').
Proof. exact transmit_perm. Qed.
Print Assumptions C17_transmit_order_independent.

(* ShouldAcceptFinalizedReport: accepted (without error) exactly for a decodable non-empty report
   all of whose keys split, and then every key of the report is accepted by the coordinator. *)
Theorem C17_accept_rule :
  forall r, accept_ans r = (true, false) ->
  forall q ks, r = RKeys ks -> In (Some q) ks -> In q (accepted_keys r).
Proof. exact accept_rule. Qed.
Print Assumptions C17_accept_rule.

Theorem C17_accept_true_iff :
  forall r, accept_ans r = (true, false) <-> exists k ks, r = RKeys (k :: ks) /\ forallb is_some (k :: ks) = true.
Proof. exact accept_true_iff. Qed.
Print Assumptions C17_accept_true_iff.

(* the boolean plug-in level checker decides the plug-in level spec *)
Theorem C17_plugin_checker_sound : forall k, C17_plugin_check k = true -> C17_plugin_spec k.
Proof. exact C17_plugin_check_sound. Qed.
Print Assumptions C17_plugin_checker_sound.

(* a variant in which only the LAST key of the report decides (flag overwritten instead of
   accumulated) violates the spec: accept (100,11),(100,22); perform log for (100,22) only *)
Theorem C17_transmit_last_key_only_violates_spec :
  exists c h qt r, (exists t0 W, no_expiry c t0 W (flatten h) qt) /\
    ~ transmit_spec c (flatten h) qt r (transmit_last_only qt (run c (flatten h) init) r).
Proof. exact transmit_last_only_refuted. Qed.
Print Assumptions C17_transmit_last_key_only_violates_spec.

(* What the code does to a superseded key: (10,id) accepted, never logged; (20,id) accepted and
   performed at block 25.  Blocks > 25 pass although (10,id) is still unconfirmed. *)
Example C17_superseded_key_example :
  let c := mkCfg 1 1200000000000 in
  let h := [(0%Z, EAccept (10, 1)); (1000%Z, EAccept (20, 1)); (2000%Z, EPerform (20, 1) 25 5)] in
  let s := run c h init in
  (exists t0 W, no_expiry c t0 W h 3000%Z) /\
  is_pending 3000%Z s (25, 1) = true /\
  is_pending 3000%Z s (26, 1) = false /\
  is_confirmed 3000%Z s (10, 1) = false /\
  is_confirmed 3000%Z s (20, 1) = true /\
  stored 3000%Z s 1 = Some (20, 25).
Proof.
  cbv zeta. split; [apply no_expiryb_sound; vm_compute; reflexivity|].
  vm_compute. repeat split; reflexivity.
Qed.

(* Non-vacuity: a history with 2 ids, crossing accepts for different check blocks, a log below
   min confirmations, a late log for the older key, a re-orged perform moving to another block
   and a stale log satisfies the hypotheses of the theorems above (nothing expires, accepts
   first, key (30,1) is the highest accepted key of id 1, its effective logs are at 33 and 35),
   and a re-ordering of it is an admissible permutation. *)
Definition ex_cfg : cfg := mkCfg 2 1200000000000.
Definition ex_h : list op :=
  [(500%Z, EAccept (10, 1)); (600%Z, EAccept (12, 2)); (700%Z, EAccept (30, 1));
   (1000%Z, EPerform (30, 1) 33 1); (1000%Z, EPerform (10, 1) 14 3);
   (2000%Z, EPerform (30, 1) 33 2); (3000%Z, EPerform (30, 1) 35 4);
   (3000%Z, EStale (12, 2) 99 2); (4000%Z, EAccept (30, 1))].
Definition ex_h' : list op :=
  [(100%Z, EAccept (30, 1)); (200%Z, EAccept (12, 2)); (1000%Z, EStale (12, 2) 99 2);
   (2000%Z, EPerform (30, 1) 35 4); (2100%Z, EAccept (10, 1)); (3000%Z, EPerform (30, 1) 33 1);
   (4000%Z, EPerform (30, 1) 33 2); (4500%Z, EAccept (30, 1)); (5000%Z, EPerform (10, 1) 14 3)].

Example C17_nonvacuous :
  (exists t0 W, no_expiry ex_cfg t0 W ex_h 5000%Z) /\
  (exists t0 W, no_expiry ex_cfg t0 W ex_h' 6000%Z) /\
  accept_first (map snd ex_h) /\ accept_first (map snd ex_h') /\
  Permutation (map snd ex_h) (map snd ex_h') /\
  In (EAccept (30, 1)) (map snd ex_h) /\
  (forall k', In (EAccept k') (map snd ex_h) -> snd k' = 1 -> fst k' <= 30) /\
  log_tvs (minc ex_cfg) (map snd ex_h) (30, 1) = [33; 35] /\
  stored 5000%Z (run ex_cfg ex_h init) 1 = Some (30, 35) /\
  stored 5000%Z (run ex_cfg ex_h init) 2 = Some (12, 13) /\
  is_confirmed 5000%Z (run ex_cfg ex_h init) (10, 1) = true /\
  cc_nontriv (mkCase ex_cfg ex_h 5000%Z [] 0 []) = true.
Proof.
  split; [apply no_expiryb_sound; vm_compute; reflexivity|].
  split; [apply no_expiryb_sound; vm_compute; reflexivity|].
  split; [apply accept_firstb_sound; vm_compute; reflexivity|].
  split; [apply accept_firstb_sound; vm_compute; reflexivity|].
  split.
  { set (p := mkPerm (map (fun i => (i, 0%Z)) [4; 1; 0; 5; 8; 6; 3; 2; 7]%nat) 0%Z 0).
    assert (E : map snd ex_h = map snd (perm_hist ex_h' p)) by (vm_compute; reflexivity).
    rewrite E. apply perm_hist_perm. vm_compute. reflexivity. }
  split; [simpl; auto|].
  split.
  { simpl. intros k' [H|[H|[H|[H|[H|[H|[H|[H|[H|[]]]]]]]]]] E; inversion H; subst; simpl in *; try lia; try discriminate. }
  vm_compute. repeat split; reflexivity.
Qed.

Section GenTie.
Local Open Scope Z_scope.
(* ---- Tie to the source by translation (Gen/GeneratedTr.v, regenerated from /repo on every run by gen/translate.go) ----
   g_* are the decision terms translated from the CURRENT Go code: every condition, the branch structure and which
   white-listed effect statement runs on which path.  The theorems below state that the model's functions - about
   which every theorem above speaks - are the interpretation of these terms. *)
(* idBlocker.shouldUpdate: the model's should_update is the interpretation of the generated term (newer check block wins, older loses, the indefinite transmit key is lowest) *)
Theorem C17_gen_shouldUpdate_decisions :
  forall b v : blk,
  should_update b v =
  match g_v2_shouldUpdate (fst b <? fst v)%N (fst v <? fst b)%N false false (snd b =? indef)%N (snd v =? indef)%N (snd b <? snd v)%N with
  | (_, RetO 2) => true
  | (_, RetO 3) => false
  | (_, RetB x) => x
  | _ => false
  end.
Proof. exact gen_v2_shouldUpdate. Qed.
Print Assumptions C17_gen_shouldUpdate_decisions.

(* idBlocker.shouldUpdate: a failing comparison never updates *)
Theorem C17_gen_shouldUpdate_errors :
  forall a b (c d e : bool),
  g_v2_shouldUpdate a b true false c d e = ([], RetO 1) /\
  g_v2_shouldUpdate false b false true c d e = ([], RetO 1).
Proof. exact gen_v2_shouldUpdate_errors. Qed.
Print Assumptions C17_gen_shouldUpdate_errors.

(* reportCoordinator.updateIdBlock: the model's update_id is the interpretation *)
Theorem C17_gen_updateIdBlock_decisions :
  forall c now l id v,
  let cur := cget N.eqb now l id in
  update_id c now l id v =
  match g_v2_updateIdBlock (oSome cur) false (match cur with Some b => should_update b v | None => false end) with
  | ([1], Fall) => cset l id v (now + window c)
  | _ => l
  end.
Proof. exact gen_v2_updateIdBlock. Qed.
Print Assumptions C17_gen_updateIdBlock_decisions.

(* reportCoordinator.Accept: the model's accept is the interpretation (a key that is already active changes nothing) *)
Theorem C17_gen_Accept_decisions :
  forall c now s k,
  accept c now s k =
  match g_v2_Accept false (oSome (cget key_eqb now (act s) k)) with
  | ([1; 2], RetO 2) => mkSt (update_id c now (ids s) (snd k) (fst k, indef)) (cset (act s) k false (now + hour))
  | _ => s
  end.
Proof. exact gen_v2_Accept. Qed.
Print Assumptions C17_gen_Accept_decisions.

(* reportCoordinator.IsPending: pending exactly when a blocker is stored and the key's block is not after its transmit block *)
Theorem C17_gen_IsPending_decisions :
  forall now s k,
  let cur := cget N.eqb now (ids s) (snd k) in
  g_v2_IsPending false (oSome cur) false (match cur with Some b => (snd b <? fst k)%N | None => false end)
  = ([], if oSome cur then RetO 3 else RetO 4)
  /\ is_pending now s k = match cur with Some b => negb (snd b <? fst k)%N | None => false end.
Proof. exact gen_v2_IsPending. Qed.
Print Assumptions C17_gen_IsPending_decisions.

(* reportCoordinator.IsTransmissionConfirmed: unknown keys count as confirmed *)
Theorem C17_gen_IsTransmissionConfirmed_decisions :
  forall now s k,
  let cur := cget key_eqb now (act s) k in
  g_v2_IsTransmissionConfirmed (oSome cur) (match cur with Some cf => cf | None => false end)
  = ([], RetB (is_confirmed now s k)).
Proof. exact gen_v2_IsTransmissionConfirmed. Qed.
Print Assumptions C17_gen_IsTransmissionConfirmed_decisions.

End GenTie.

Section GenTie.
Local Open Scope Z_scope.
(* ---- Tie to the source by translation (Gen/GeneratedTr.v, regenerated from /repo on every run by gen/translate.go) ----
   g_* are the decision terms translated from the CURRENT Go code: every condition, the branch structure and which
   white-listed effect statement runs on which path.  The theorems below state that the model's functions - about
   which every theorem above speaks - are the interpretation of these terms. *)
(* BasicEncoder.After(a, b): a > b numerically; unparsable keys are an error *)
Theorem C17_gen_After_decisions :
  forall a b : N,
  g_v2_After true true (cmpN a b) = ([], RetB (b <? a)%N) /\
  (forall c q, g_v2_After false q c = ([], RetO 1)) /\ (forall c, g_v2_After true false c = ([], RetO 1)).
Proof. exact gen_v2_After. Qed.
Print Assumptions C17_gen_After_decisions.

(* v2 ShouldAcceptFinalizedReport / ShouldTransmitAcceptedReport: every key accepted (an error stops), worth transmitting as soon as one key is not confirmed *)
Theorem C17_gen_report_calls :
  forall n_bytes (decode_err : bool) n_keys (accept_err confirmed : bool),
  g_v2_accept_report n_bytes decode_err n_keys =
    (if n_bytes =? 0 then ([], RetO 0) else if decode_err then ([1], RetO 2) else if n_keys =? 0 then ([1], RetO 3) else ([1; 2], RetO 1)) /\
  g_v2_accept_report_body accept_err = (if accept_err then ([1], RetO 2) else ([1], Fall)) /\
  g_v2_transmit_report_body confirmed = (if confirmed then ([], Fall) else ([], RetO 1)).
Proof. exact gen_v2_report_calls. Qed.
Print Assumptions C17_gen_report_calls.

End GenTie.

(* Non-vacuity of the expiry clause: window 5 s, accept at 0.5 s; at exactly s + window the id is
   still pending, one nanosecond later it is not ([now > expires] is strict). *)
Example C17_expiry_nonvacuous :
  let c := mkCfg 0 5000000000 in
  let h := [(500000000%Z, EAccept (10, 1))] in
  is_pending 5500000000%Z (run c h init) (11, 1) = true /\
  is_pending 5500000001%Z (run c h init) (11, 1) = false.
Proof. vm_compute. split; reflexivity. Qed.
