(* C09 — network-wide under faults: only f+1-checked work is transmitted, once per node.
   Property theorems only; proofs live in Proofs/NetworkProofs.v (composition of the Outcome model
   with per-node state) and in the C01/C04/C06 developments it builds on. *)
From Verif Require Import Base.Util Model.Types Model.Outcome Model.Validate Model.Network
  Proofs.PerformablesProofs Proofs.SurfacedProofs Proofs.OutcomeProofs Proofs.NetworkProofs.
From Verif Require Model.Metadata Model.ProposalQueue Model.ResultStore Proofs.ProposalQueueProofs Proofs.ResultStoreProofs.
Open Scope N_scope.

(* Safety, for every network size, every f, every schedule of
     Stage (a node's pipeline finds results eligible) / Round (any member subset, up to f members
     sending arbitrary bytes, honest members sending any selection of their staging, any report
     split) / Accept / Restart (state loss) / Unstage
   operations: every upkeep inside a report an honest node has accepted (hence may be willing to
   transmit) was found eligible with identical fields (same check block) by the local pipeline of an
   honest node, and was contained in at least f+1 valid observations of one round.
   Hypotheses: injective digest (refuted for the real UniqueID: finding F01, C01), validation rejects
   observations with a repeated work id (proved for the validation model in C15/C03). *)
Theorem C09_safety :
  forall (uid : result -> N) (shuf : N -> N) (valid : observation -> bool) (f limit : nat),
    (forall a b, uid a = uid b -> a = b) ->
    (forall o, valid o = true -> NoDup (map r_wid (o_perf o))) ->
    forall ops, Forall (byz_bounded f) ops ->
    forall i rep r,
      In rep (ns_accepted (nget (g_net (grun uid shuf valid (S f) limit ops)) i)) -> In r rep ->
      (exists j, In r (ns_checked (nget (g_net (grun uid shuf valid (S f) limit ops)) j))) /\
      (exists obs, (S f <= support r obs)%nat).
Proof. intros. eapply network_safety; eauto. Qed.
Print Assumptions C09_safety.

(* What a single round can agree on was staged by an honest member of that round and has f+1
   support: with at most f Byzantine members among the senders. *)
Theorem C09_round_needs_an_honest_voucher :
  forall (uid : result -> N) (shuf : N -> N) (valid : observation -> bool) (f limit : nat),
    (forall a b, uid a = uid b -> a = b) ->
    (forall o, valid o = true -> NoDup (map r_wid (o_perf o))) ->
    forall s ms r, (length (filter is_byz ms) <= f)%nat ->
    In r (round_agreed uid shuf valid (S f) limit s ms) ->
    (S f <= support r (valid_obs_list valid (map (member_obs s) ms)))%nat /\
    exists i picked, In (Honest i picked) ms /\ In r (ns_staged (nget s i)).
Proof. intros. eapply round_agreed_honest; eauto. Qed.
Print Assumptions C09_round_needs_an_honest_voucher.

(* Not reported again while in flight on every honest node: a unit of work that no honest member
   holds in its staging (the coordinator filters in-flight work out of observations: C07) cannot be
   agreed, whatever the f Byzantine members send. *)
Theorem C09_not_agreed_without_honest_holder :
  forall (uid : result -> N) (shuf : N -> N) (valid : observation -> bool) (f limit : nat),
    (forall a b, uid a = uid b -> a = b) ->
    (forall o, valid o = true -> NoDup (map r_wid (o_perf o))) ->
    forall s ms w, (length (filter is_byz ms) <= f)%nat ->
    (forall i picked r, In (Honest i picked) ms -> In r (ns_staged (nget s i)) -> r_wid r <> w) ->
    forall r, In r (round_agreed uid shuf valid (S f) limit s ms) -> r_wid r <> w.
Proof. intros. eapply not_agreed_without_honest; eauto. Qed.
Print Assumptions C09_not_agreed_without_honest_holder.

(* Liveness, one round, partial: a result that f+1 valid observations of the round contain is agreed,
   or another quorum result for its work id is, or it is cut by the cap by results sorting strictly
   before it (C01 completeness).  "Within a bounded number of rounds" for more than `cap` candidates
   depends on the per-round shuffle and is NOT claimed.  This is the last link of the chain below. *)
Theorem C09_live_partial :
  forall (uid : result -> N) (shuf : N -> N) pi_u,
    (forall a b, uid a = uid b -> a = b) -> (forall v, Permutation (pi_u v) v) ->
    forall thr limit obs, Forall obs_ok obs ->
    forall r, (forall a b, shuf a = shuf b -> a = b) -> (1 <= thr)%nat -> (thr <= support r obs)%nat ->
      exists r', r_wid r' = r_wid r /\ (thr <= support r' obs)%nat /\
        (In r' (pset shuf pi_u thr limit (fold_left (vadd uid) obs [])) \/
         (length (pset shuf pi_u thr limit (fold_left (vadd uid) obs [])) = limit /\
          forall y, In y (pset shuf pi_u thr limit (fold_left (vadd uid) obs [])) -> shuf (r_wid y) < shuf (r_wid r'))).
Proof. intros. eapply agreed_complete_strict; eauto. Qed.
Print Assumptions C09_live_partial.

(* Liveness over the rounds of one cycle (conditional upkeeps and recovered logs go through all of it,
   fresh log triggers only through the last step).  The chain, link by link, each link for every input:

     round k    C09_live_surfaced        a unit of work proposed by ONE valid observation, not in the
                                         retained history and not agreed in this round, is surfaced
                                         and stamped with the block f+1 observations share
     node       C09_live_coordinated_is_dequeued   every node hands the coordinated proposal to its
                                         final flow at the next tick: enqueueing a proposal on a higher
                                         block than the record already there resets the record (its
                                         `removed` flag included) and the next Dequeue returns it
     node       C09_live_checked_is_viewed  the eligible result the pipeline returns is staged and
                                         viewed until removed / expired (the observation then takes the
                                         canonical prefix: C08_canonical_prefix)
     round k+2  C09_live_partial         f+1 valid observations containing it => agreed (or capped)

   The links live in three vocabularies (Outcome, ProposalQueue, ResultStore models) and are NOT
   composed into one Gallina function; that the real nodes go through the whole chain within the
   bound is decided by K09_live on every run (families cond-...), whose obligations are recorded only
   where the property's premise holds. *)
Theorem C09_live_surfaced :
  forall utg wg (uid : result -> N) (shuf : N -> N) pi_u (pi_b : bvotes -> bvotes),
    (forall v, Permutation (pi_b v) v) ->
  forall tp tb lim prev l p, (1 <= l_rounds lim)%nat ->
    let obs := valid_obs_list (valid_obs utg wg) l in
    let lq := latest_quorum_block true pi_b tb (fold_left badd obs []) in
    let out := outcome_of uid shuf (valid_obs utg wg) true pi_u pi_b tp tb lim prev l in
    snd lq = true -> In p (flat_map o_props obs) ->
    ~ In (p_wid p) (all_wids (oc_surfaced prev)) -> ~ In (p_wid p) (map r_wid (oc_agreed out)) ->
    exists q, p_wid q = p_wid p /\ t_num (p_trig q) = bk_num (fst lq) /\ t_hash (p_trig q) = bk_hash (fst lq) /\
      (In q (hd [] (oc_surfaced out)) \/
       (length (hd [] (oc_surfaced out)) = l_perround lim /\
        forall y, In y (hd [] (oc_surfaced out)) -> shuf (p_wid y) <= shuf (p_wid q))).
Proof. intros. eapply outcome_surfaced_live; eauto. Qed.
Print Assumptions C09_live_surfaced.

Example C09_live_surfaced_nonvacuous :
  let bv := [(mkBK 100 7, 2%nat); (mkBK 99 5, 3%nat)] in
  let p := mkProp 5 (mkTrig 90 3 None) 11 in
  snd (latest_quorum_block true id_perm 2 bv) = true /\
  hd [] (cset (fun w => w) true id_perm 2 20 50 bv [p] [] [[mkProp 6 (mkTrig 80 2 None) 12]])
    = [mkProp 5 (mkTrig 100 7 None) 11].
Proof. vm_compute. split; reflexivity. Qed.

Theorem C09_live_coordinated_is_dequeued :
  forall exp pi typ n t t' q (p : Metadata.prop),
    NoDup (map fst q) -> Permutation (pi (ProposalQueue.enqueue1 t q p)) (ProposalQueue.enqueue1 t q p) ->
    (forall r, ProposalQueue.qget (Metadata.p_wid p) q = Some r ->
               Metadata.p_blk (ProposalQueue.q_prop r) < Metadata.p_blk p) ->
    (t' - t <= exp)%Z -> Metadata.p_typ p = typ -> (S (length q) <= n)%nat ->
    In (ProposalQueue.mkQRec p false t) (snd (ProposalQueue.dequeue exp pi typ n t' (ProposalQueue.enqueue1 t q p))).
Proof. exact ProposalQueueProofs.supersede. Qed.
Print Assumptions C09_live_coordinated_is_dequeued.

Theorem C09_live_checked_is_viewed :
  forall ttl pi pre t,
    (0 <= ttl)%Z -> ResultStoreProofs.time_sorted (ResultStore.forget pre ++ [(t, ResultStore.View)]) ->
    Permutation (pi (ResultStore.run true ttl (ResultStore.forget pre))) (ResultStore.run true ttl (ResultStore.forget pre)) ->
    ResultStore.view_kept_at ttl pre t (ResultStore.view ttl pi t (ResultStore.run true ttl (ResultStore.forget pre))).
Proof. exact ResultStoreProofs.view_kept. Qed.
Print Assumptions C09_live_checked_is_viewed.

(* "No honest node is ever willing to transmit two different reports for the same unit of work at
   once" is REFUTED for the network as a whole (finding F09): the coordinator keys on (work id, check
   block) and a report is transmittable when ANY of its upkeeps is; after a restart wiped one honest
   node's in-flight knowledge and the log was delivered to it again, that node plus f Byzantine
   members re-agree the same result, Reports batches it with fresh work into a different report, and
   a node still awaiting the first report is willing to transmit both.  Witness in the model's
   vocabulary: two different chunkings of agreed lists sharing a result; the replay against the real
   code is the boundary family "restart-recheck-rebatch" of the harness. *)
Theorem C09_single_refuted :
  exists (k : n_case), n_conforms k = true /\ K09_safety k = true /\ K09_single k = false.
Proof.
  exists (mkNCase 1 [1; 2; 3]
            [(0%nat, [0; 1; 2]%nat); (1%nat, [0; 1; 2]%nat)]
            [mkNRound [(false, [0; 1]%nat); (false, [0; 1]%nat)] [0; 1]%nat [[0; 1]%nat] [];
             mkNRound [(false, [0; 1; 2]%nat); (true, [0; 1; 2]%nat)] [0; 1; 2]%nat [[0; 1; 2]%nat] []]
            [(0%nat, [0; 1]%nat); (1%nat, [0; 1; 2]%nat)]
            [(0%nat, [0; 1]%nat); (0%nat, [0; 1; 2]%nat)]
            [(0%nat, [[0; 1]%nat; [0; 1; 2]%nat])] []).
  vm_compute. repeat split; reflexivity.
Qed.
Print Assumptions C09_single_refuted.

(* The boolean checker applied to the log of a run of real nodes decides the clauses of the property
   (safety, not-again, never two reports at once, bounded-rounds liveness of the recorded obligations). *)
Theorem C09_checker_sound : forall k, K09 k = true -> C09_log_spec k.
Proof. exact K09_sound. Qed.
Print Assumptions C09_checker_sound.

Example C09_nonvacuous :
  let uid := fun r : result => r_gas r in
  let r1 := mkRes 0 false true 0 1 (mkTrig 100 2 None) 1 500 [7] (Some 5%Z) (Some 7%Z) in
  let ops := [Stage 0 [r1]; Stage 1 [r1]; Round [Honest 0 [0%nat]; Honest 1 [0%nat]; Byz Undecodable] []; Accept 0 [r1]] in
  Forall (byz_bounded 1) ops /\
  ns_accepted (nget (g_net (grun uid (fun w => w) (fun _ => true) 2 100 ops)) 0) = [[r1]].
Proof. split; [repeat constructor; simpl; lia | vm_compute; reflexivity]. Qed.
