(* C13 — the runner returns one result per checked payload, never a stale cached one.
   Property theorems only; proofs live in Proofs/RunnerProofs.v. *)
From Verif Require Import Base.Util Model.Runner Proofs.RunnerProofs Gen.Generated.
From Verif Require Import Base.GenIR Gen.GeneratedTr Proofs.GenTrRunner.
Open Scope N_scope.

(* Unflatten: for every slice and every batch size >= 1 the groups concatenate to the slice,
   every group holds between 1 and size elements and all groups but the last are full. *)
Theorem C13_unflatten :
  forall (A : Type) (l : list A) size, (0 < size)%nat ->
  exists gs, unflatten l size = Some gs
    /\ concat gs = l
    /\ Forall (fun g => (1 <= length g <= size)%nat) gs
    /\ (forall gs' g, gs = gs' ++ [g] -> Forall (fun x => length x = size) gs').
Proof.
  intros A l size H. destruct (unflatten_some l size H) as [gs Hgs]. exists gs.
  split; [exact Hgs | exact (unflatten_spec l size gs H Hgs)].
Qed.
Print Assumptions C13_unflatten.

(* batch size 0 on a non-empty slice: the Go loop never terminates (the distinct value None) *)
Theorem C13_unflatten_size_zero_diverges :
  forall (A : Type) fuel (l : list A), l <> [] -> unflatten_fuel fuel l 0 = None.
Proof. exact @unflatten_fuel_zero. Qed.
Print Assumptions C13_unflatten_size_zero_diverges.

(* Obligation against the constant read from runner.go: the batch limit is positive (so the
   runner's Unflatten terminates) and groups hold 1..WorkerBatchLimit payloads. *)
Theorem C13_gen_batch_limit :
  (0 < WorkerBatchLimit)%Z /\
  forall (A : Type) (l : list A), exists gs, unflatten l (Z.to_nat WorkerBatchLimit) = Some gs
    /\ concat gs = l /\ Forall (fun g => (1 <= length g <= Z.to_nat WorkerBatchLimit)%nat) gs.
Proof.
  assert (H : (0 < Z.to_nat WorkerBatchLimit)%nat) by (vm_compute; repeat constructor).
  split; [vm_compute; reflexivity|].
  intros A l. destruct (C13_unflatten A l _ H) as [gs [H1 [H2 [H3 _]]]]. exists gs. auto.
Qed.
Print Assumptions C13_gen_batch_limit.

(* Results: for every cache, payload list, pipeline, failure pattern and completion order, the
   payloads split into those served from the cache and those handed to the pipeline (in batches
   that concatenate to them); the call returns, as a multiset, the cached hits plus the results
   of the batches that succeeded — or an error, exactly when there was a batch and all failed. *)
Theorem C13_results :
  forall pipe bfail cexp wlimit c cnt t pls ord,
  (0 < wlimit)%nat -> (forall bs, Permutation (map fst (ord bs)) bs) ->
  exists bs, unflatten (jobs_of c cnt t pls) wlimit = Some bs
    /\ concat bs = jobs_of c cnt t pls
    /\ map fst (jobs_of c cnt t pls) = snd (lookup c t pls)
    /\ Permutation pls (map fst (fst (lookup c t pls)) ++ snd (lookup c t pls))
    /\ match snd (check pipe bfail cexp wlimit c cnt t pls ord) with
       | Ok rs => Permutation rs (map snd (fst (lookup c t pls)) ++ flat_map pipe (filter (okb bfail) bs))
                  /\ (bs = [] \/ exists b, In b bs /\ bfail b = false)
       | ErrAll => bs <> [] /\ forall b, In b bs -> bfail b = true
       | Diverge => False
       end.
Proof. exact check_results. Qed.
Print Assumptions C13_results.

Theorem C13_error_iff_all_failed :
  forall pipe bfail cexp wlimit c cnt t pls ord,
  (0 < wlimit)%nat -> (forall bs, Permutation (map fst (ord bs)) bs) ->
  forall bs, unflatten (jobs_of c cnt t pls) wlimit = Some bs ->
  (snd (check pipe bfail cexp wlimit c cnt t pls ord) = ErrAll
   <-> (bs <> [] /\ forall b, In b bs -> bfail b = true)).
Proof. exact check_error_iff. Qed.
Print Assumptions C13_error_iff_all_failed.

(* With a pipeline that answers every payload of a batch once (same work id, block, hash), the
   results are, by unit of work and check block, exactly one per payload that was served from
   the cache or whose batch succeeded: none lost, none doubled, none for payloads not asked. *)
Theorem C13_one_result_per_payload :
  forall pipe bfail cexp wlimit (P : result -> Prop) c cnt t pls ord,
  (0 < wlimit)%nat -> (forall bs, Permutation (map fst (ord bs)) bs) -> pipe_wf pipe -> cache_wf P c ->
  forall rs, snd (check pipe bfail cexp wlimit c cnt t pls ord) = Ok rs ->
  exists served bs, unflatten (jobs_of c cnt t pls) wlimit = Some bs
    /\ Permutation pls (served ++ map fst (concat bs))
    /\ Permutation (map r_key rs)
                   (map pl_key served ++ map pl_key (map fst (concat (filter (okb bfail) bs)))).
Proof. exact check_one_per_payload. Qed.
Print Assumptions C13_one_result_per_payload.

(* A payload is served from the cache iff the cache holds, under its work id, an entry that has
   not expired and whose check block number and hash equal the payload's. *)
Theorem C13_hit_exact :
  forall c t p r,
  hit c t p = Some r <->
  exists e, cache_find c (pl_wid p) = Some (r, e) /\ ((e <= 0)%Z \/ (t <= e)%Z)
            /\ r_blk r = pl_blk p /\ r_hash r = pl_hash p.
Proof. exact hit_exact. Qed.
Print Assumptions C13_hit_exact.

Definition produced (pipe : list job -> list result) (bfail : list job -> bool) (r : result) : Prop :=
  exists b, bfail b = false /\ In r (pipe b).

(* In every state reachable by any history of calls and batch completions (any number of
   callers, any interleaving of the events) a served result carries the payload's work id,
   block and hash, is a success, and was returned by a pipeline execution that succeeded. *)
Theorem C13_served_only_exact_successes :
  forall pipe bfail cexp wlimit evs s t p r,
  cache_wf (produced pipe bfail) (rs_cache s) ->
  hit (rs_cache (run_events pipe bfail cexp wlimit s evs)) t p = Some r ->
  r_wid r = pl_wid p /\ r_blk r = pl_blk p /\ r_hash r = pl_hash p /\ r_state r = 0 /\ produced pipe bfail r.
Proof.
  intros pipe bfail cexp wlimit evs s t p r Hc H.
  eapply hit_served_exact; [|exact H].
  apply run_events_wf; [|exact Hc]. intros b x Hb Hx. exists b. split; assumption.
Qed.
Print Assumptions C13_served_only_exact_successes.

(* Cache fill: a failed execution never changes the cache; a success is stored iff no live
   entry exists or the live entry is on a strictly lower block; other work ids are untouched;
   with the read-modify-write atomic the block of a live entry never decreases. *)
Theorem C13_fill :
  forall cexp c now r,
  (r_state r <> 0 -> fill1 cexp c now r = c)
  /\ (r_state r = 0 ->
      cache_get (fill1 cexp c now r) now (r_wid r) =
      match cache_get c now (r_wid r) with
      | Some old => if N.ltb (r_blk old) (r_blk r) then Some r else Some old
      | None => Some r
      end)
  /\ (forall t k, k <> r_wid r -> cache_get (fill1 cexp c now r) t k = cache_get c t k)
  /\ (forall k old new, cache_get c now k = Some old -> cache_get (fill1 cexp c now r) now k = Some new ->
                        r_blk old <= r_blk new).
Proof.
  intros. split; [apply fill1_failed|]. split; [apply fill1_same|].
  split; [intros; apply fill1_other; assumption | intros; eapply fill1_monotone; eassumption].
Qed.
Print Assumptions C13_fill.

(* Two (or more) callers whose aggregators interleave at the granularity of the cache's Get
   and Set: exactness of hits survives every interleaving ... *)
Theorem C13_concurrent_hit_exact :
  forall cexp (P : result -> Prop) sch c pend t p r,
  Forall (fstep_ok P) sch -> cache_wf P c -> pending_wf P pend ->
  hit (fst (f_run cexp (c, pend) sch)) t p = Some r ->
  r_wid r = pl_wid p /\ r_blk r = pl_blk p /\ r_hash r = pl_hash p /\ r_state r = 0 /\ P r.
Proof.
  intros cexp P sch c pend t p r Hs Hc Hp H.
  eapply hit_served_exact; [|exact H].
  apply f_run_wf; [exact Hs | split; assumption].
Qed.
Print Assumptions C13_concurrent_hit_exact.

(* ... while "the cache keeps the highest block" does not (it is not part of the property). *)
Theorem C13_concurrent_highest_block_refuted :
  exists cexp (r10 r20 : result) sch,
    r_wid r10 = r_wid r20 /\ r_blk r10 = 10 /\ r_blk r20 = 20 /\
    In (FWrite 2 2%Z) sch /\
    cache_get (fst (f_run cexp ([], []) sch)) 4%Z (r_wid r10) = Some r10.
Proof. exact f_run_highest_lost. Qed.
Print Assumptions C13_concurrent_highest_block_refuted.

(* The boolean checker applied to what was observed of the real runner decides the spec. *)
Theorem C13_checker_sound :
  forall sc cexp wlimit all, C13_check sc cexp wlimit all = true -> C13_spec sc cexp wlimit all.
Proof. exact C13_check_sound. Qed.
Print Assumptions C13_checker_sound.

Section GenTie.
Local Open Scope Z_scope.
(* ---- Tie to the source by translation (Gen/GeneratedTr.v, regenerated from /repo on every run by gen/translate.go) ----
   g_* are the decision terms translated from the CURRENT Go code: every condition, the branch structure and which
   white-listed effect statement runs on which path.  The theorems below state that the model's functions - about
   which every theorem above speaks - are the interpretation of these terms. *)
(* Runner.parallelCheck, loop over the payloads: the model's hit is the interpretation of the generated body: a cached result is served only for the same work id (key), check block number and block hash *)
Theorem C13_gen_cache_hit_decisions :
  forall c now p,
  let g := cache_get c now (pl_wid p) in
  hit c now p =
  match g_runner_lookup_body (risSome g) (Z.of_N (r_blk (rget g))) (Z.of_N (pl_blk p))
                             (Z.of_N (r_hash (rget g))) (Z.of_N (pl_hash p)) with
  | ([1], Fall) => g
  | _ => None
  end.
Proof. exact gen_runner_lookup_body. Qed.
Print Assumptions C13_gen_cache_hit_decisions.

(* Runner.wrapAggregate: a successful batch is counted and its results aggregated, a failed one records the error *)
Theorem C13_gen_aggregate_decisions :
  forall ok : bool,
  g_runner_aggregate ok = if ok then ([1; 2], Fall) else ([3; 4], Fall).
Proof. exact gen_runner_aggregate. Qed.
Print Assumptions C13_gen_aggregate_decisions.

(* Runner.wrapAggregate, per result: the model's fill1 is the interpretation: only state 0 is cached, only when absent or for a strictly higher check block; every result of a successful batch is returned *)
Theorem C13_gen_cache_fill_decisions :
  forall cexp c now r,
  let old := cache_get c now (r_wid r) in
  let d := g_runner_aggregate_body (Z.of_N (r_state r)) (risSome old) (Z.of_N (r_blk r)) (Z.of_N (r_blk (rget old))) in
  snd d = Fall /\ existsb (Z.eqb 2) (fst d) = true /\
  fill1 cexp c now r = if existsb (Z.eqb 1) (fst d) then cache_set cexp c now (r_wid r) r else c.
Proof. exact gen_runner_aggregate_body. Qed.
Print Assumptions C13_gen_cache_fill_decisions.

(* Runner.parallelCheck, whole function: the call fails exactly when there were pipeline calls, all of them failed and an error was recorded - the model's finish *)
Theorem C13_gen_error_iff_all_failed :
  forall (pipe : list job -> list result) (bfail : list job -> bool) hits (done : list (list job)),
  let total := Z.of_nat (length done) in
  let failures := Z.of_nat (length (filter bfail done)) in
  finish pipe bfail hits done =
  match g_runner_parallelCheck 1 total total failures (negb (failures =? 0)) with
  | (_, RetO 2) => ErrAll
  | _ => match done with
         | [] => Ok hits
         | _ => Ok (hits ++ flat_map pipe (filter (fun b => negb (bfail b)) done))
         end
  end.
Proof. exact gen_runner_parallelCheck. Qed.
Print Assumptions C13_gen_error_iff_all_failed.

(* Runner.parallelCheck: no payloads, or everything served from the cache: no pipeline call *)
Theorem C13_gen_shortcuts :
  forall n t f (e : bool),
  g_runner_parallelCheck 0 n t f e = ([], RetO 1) /\
  (forall p, p <> 0 -> g_runner_parallelCheck p 0 t f e = ([1], RetO 1)).
Proof. exact gen_runner_parallelCheck_shortcuts. Qed.
Print Assumptions C13_gen_shortcuts.

(* util.Unflatten, one turn of the loop: the group is b[i : i+size], cut at len(b) when that overshoots - the model's firstn size of what is left *)
Theorem C13_gen_unflatten_group :
  forall (A : Type) (b : list A) (i size : nat), (i < length b)%nat ->
  firstn size (skipn i b) =
  match g_unflatten_body (Z.of_nat (i + size)) (Z.of_nat (length b)) with
  | ([1; 2], Fall) => slice b i (length b)
  | ([2], Fall) => slice b i (i + size)
  | _ => []
  end.
Proof. exact gen_unflatten_body. Qed.
Print Assumptions C13_gen_unflatten_group.

End GenTie.

(* Non-vacuity: 12 payloads, the first one cached from an earlier call; two batches (10 + 1), the
   second completes first and the first fails: the call returns the hit and one fresh result. *)
Example C13_nonvacuous :
  let sc : script := [(3, [mkSpec 0 false true 0 1])] in
  let pls := map (fun i => mkPl i 5 9 i) [1;2;3;4;5;6;7;8;9;10;11;12] in
  let c0 : cache := [(1, (mkRes 1 5 9 0 false true 0 100 0, 0%Z))] in
  let ord := fun bs : list (list job) => rev (map (fun b => (b, 7%Z)) bs) in
  (forall bs, Permutation (map fst (ord bs)) bs) /\
  snd (check (spipe sc) (sfail sc) 1000 10 c0 [] 1%Z pls ord)
  = Ok [mkRes 1 5 9 0 false true 0 100 0; mkRes 12 5 9 0 false false 0 12 0].
Proof.
  split.
  - intro bs. simpl. rewrite map_rev, map_map. simpl. rewrite map_id. apply Permutation_sym, Permutation_rev.
  - vm_compute. reflexivity.
Qed.
