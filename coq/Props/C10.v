(* C10 — staged results kept until agreed, replaced only by newer checks, never doubled.
   Property theorems only; proofs live in Proofs/ResultStoreProofs.v.

   Conventions: a trace is a list of (virtual time in ns, operation); [pre : otrace] is a
   prefix of operations with whatever was returned for them; [run fixed ttl (forget pre)] is
   the store after that prefix.  [fixed = true] is the current code of /repo (Add treats an
   expired entry as absent, commit 0b84ca6), [fixed = false] the code of the pinned commit.
   [pi] is the order in which Go ranges over the map (any permutation). *)
From Verif Require Import Base.Util Model.ResultStore Proofs.ResultStoreProofs Gen.Generated.
From Verif Require Import Base.GenIR Gen.GeneratedTr Proofs.GenTrStores.
From Verif Require Import Base.GenIR Gen.GeneratedTr Proofs.GenTrHooks.
Open Scope Z_scope.

(* A view never holds two results for one unit of work (either variant, any history). *)
Theorem C10_view_nodup :
  forall fixed ttl pi now tr,
    Permutation (pi (run fixed ttl tr)) (run fixed ttl tr) ->
    NoDup (map r_wid (view ttl pi now (run fixed ttl tr))).
Proof. exact view_nodup. Qed.
Print Assumptions C10_view_nodup.

(* Every viewed result was handed over at most TTL ago and not removed since
   (either variant, any history, any clock). *)
Theorem C10_view_sound :
  forall fixed ttl pi pre t,
    Permutation (pi (run fixed ttl (forget pre))) (run fixed ttl (forget pre)) ->
    view_sound_at ttl pre t (view ttl pi t (run fixed ttl (forget pre))).
Proof. exact view_sound. Qed.
Print Assumptions C10_view_sound.

(* A result handed over at t0 — when every earlier result for the same work id has a lower
   block, was removed, or had outlived the TTL — is returned by every view at t <= t0 + TTL,
   itself or a strictly higher block for the same work id, unless removed in between.
   Current code, every history with non-decreasing time, gc anywhere. *)
Theorem C10_kept :
  forall ttl pi pre t,
    0 <= ttl -> time_sorted (forget pre ++ [(t, View)]) ->
    Permutation (pi (run true ttl (forget pre))) (run true ttl (forget pre)) ->
    view_kept_at ttl pre t (view ttl pi t (run true ttl (forget pre))).
Proof. exact view_kept. Qed.
Print Assumptions C10_kept.

(* The pinned commit violated it (finding 12): an expired, uncollected entry blocked a fresh
   result.  Witness: Add (w,10)@0; Add (w,10)'@301; View@302 = []. *)
Theorem C10_expired_blocks_refuted :
  exists ttl pre t, 0 <= ttl /\ time_sorted (forget pre ++ [(t, View)]) /\
    ~ view_kept_at ttl pre t (view ttl (fun l => l) t (run false ttl (forget pre))).
Proof. exact kept_old_refuted. Qed.
Print Assumptions C10_expired_blocks_refuted.

(* ... and held there only when no expired, uncollected entry for that work id was present. *)
Theorem C10_kept_pinned_commit :
  forall ttl pi pre t p1 t0 r o0 p2,
    0 <= ttl -> time_sorted (forget pre ++ [(t, View)]) ->
    Permutation (pi (run false ttl (forget pre))) (run false ttl (forget pre)) ->
    pre = p1 ++ (t0, Add1 r, o0) :: p2 -> t - t0 <= ttl -> not_removed (r_wid r) p2 = true ->
    undominated ttl p1 t0 r ->
    (forall e, lookup (r_wid r) (run false ttl (forget p1)) = Some e -> expired ttl t0 e = false) ->
    exists r', In r' (view ttl pi t (run false ttl (forget pre))) /\ supersedes r r'.
Proof. exact view_kept_old. Qed.
Print Assumptions C10_kept_pinned_commit.

(* No downgrade, one operation, ANY store state: a stored, unexpired entry survives every
   operation other than its own removal, or is replaced by a strictly higher block. *)
Theorem C10_no_downgrade :
  forall fixed ttl s x w e,
    removes w (snd x) = false -> lookup w s = Some e -> expired ttl (fst x) e = false ->
    exists e', lookup w (step fixed ttl s x) = Some e' /\
      (e' = e \/ ((r_blk (e_res e) < r_blk (e_res e'))%N /\ e_at e' = fst x /\ r_wid (e_res e') = w)).
Proof. exact step_keeps. Qed.
Print Assumptions C10_no_downgrade.

Theorem C10_no_overwrite_lower_or_equal :
  forall fixed ttl now s r e,
    lookup (r_wid r) s = Some e -> expired ttl now e = false -> (r_blk r <= r_blk (e_res e))%N ->
    add1 fixed ttl now s r = s.
Proof. exact add1_no_overwrite. Qed.
Print Assumptions C10_no_overwrite_lower_or_equal.

(* No downgrade across views: what an earlier view returned for a work id is returned again,
   or a strictly higher block, as long as it cannot have expired and was not removed. *)
Theorem C10_no_downgrade_views :
  forall fixed ttl pi pre t,
    0 <= ttl -> time_sorted (forget pre ++ [(t, View)]) ->
    Permutation (pi (run fixed ttl (forget pre))) (run fixed ttl (forget pre)) ->
    forall q1 t' V' q2 r1 pi',
      pre = q1 ++ (t', View, V') :: q2 ->
      Permutation (pi' (run fixed ttl (forget q1))) (run fixed ttl (forget q1)) ->
      V' = view ttl pi' t' (run fixed ttl (forget q1)) ->
      In r1 V' -> not_removed (r_wid r1) q2 = true -> all_witnesses_live ttl q1 t r1 ->
      exists r2, In r2 (view ttl pi t (run fixed ttl (forget pre))) /\ supersedes r1 r2.
Proof. exact view_mono. Qed.
Print Assumptions C10_no_downgrade_views.

(* Garbage collection is invisible: deleting every gc from a history changes no view
   (current code; on the pinned commit it was visible through Add, see below). *)
Theorem C10_gc_invisible :
  forall ttl pi pi' tr,
    0 <= ttl -> (forall k l, Permutation (pi k l) l) -> (forall k l, Permutation (pi' k l) l) ->
    time_sorted tr ->
    Forall2 (@Permutation res) (views true ttl pi tr) (views true ttl pi' (strip_gc tr)).
Proof. exact gc_invisible. Qed.
Print Assumptions C10_gc_invisible.

Theorem C10_gc_visible_pinned_commit_refuted :
  exists ttl tr, 0 <= ttl /\ time_sorted tr /\
    ~ Forall2 (@Permutation res) (views false ttl (fun _ l => l) tr) (views false ttl (fun _ l => l) (strip_gc tr)).
Proof. exact gc_visible_old. Qed.
Print Assumptions C10_gc_visible_pinned_commit_refuted.

(* All clauses together: the model's observed trace meets the specification the checker decides. *)
Theorem C10_model_meets_spec :
  forall ttl pi tr,
    0 <= ttl -> (forall k l, Permutation (pi k l) l) -> time_sorted tr ->
    exists ot, observe true ttl pi tr = Some ot /\ forget ot = tr /\ C10_spec ttl ot.
Proof. exact model_meets_spec. Qed.
Print Assumptions C10_model_meets_spec.

(* Checker K applied to the implementation's observed trace decides the specification. *)
Theorem C10_checker_sound :
  forall ttl ot, C10_check ttl ot = true -> C10_spec ttl ot.
Proof. exact C10_check_sound. Qed.
Print Assumptions C10_checker_sound.

(* The linearizability search: `true` means a sequential order exists that is a permutation of
   the recorded events, respects their real-time order and is accepted by the specification. *)
Theorem lin_check_sound :
  forall (St Op Ret : Type) (lstep : St -> Op -> option (St * Ret)) (ret_ok : Ret -> Ret -> bool)
         budget s0 h,
    lin_check St Op Ret lstep ret_ok budget s0 h = true -> linearizable St Op Ret lstep ret_ok s0 h.
Proof. exact ResultStoreProofs.lin_check_sound. Qed.
Print Assumptions lin_check_sound.

(* The TTL read from the source is a legal parameter of the theorems. *)
Theorem C10_gen_ttl_nonneg : 0 <= ResultStoreTTL /\ 0 < ResultStoreGCInterval.
Proof. vm_compute. split; [discriminate | reflexivity]. Qed.
Print Assumptions C10_gen_ttl_nonneg.

Section GenTie.
Local Open Scope Z_scope.
(* ---- Tie to the source by translation (Gen/GeneratedTr.v, regenerated from /repo on every run by gen/translate.go) ----
   g_* are the decision terms translated from the CURRENT Go code: every condition, the branch structure and which
   white-listed effect statement runs on which path.  The theorems below state that the model's functions - about
   which every theorem above speaks - are the interpretation of these terms. *)
(* resultStore.Add, loop body: the model's add1 (repaired variant) is the interpretation of the generated body: store when absent or older than the TTL, replace only for a strictly higher check block *)
Theorem C10_gen_Add_decisions :
  forall ttl now s r,
  let l := lookup (r_wid r) s in
  let e := oget (mkEnt r now) l in
  add1 true ttl now s r =
  match g_rs_add_body (isSome l) (now - e_at e) ttl (Z.of_N (r_blk (e_res e))) (Z.of_N (r_blk r)) with
  | ([1], Fall) => remove1 (r_wid r) s ++ [mkEnt r now]
  | _ => s
  end.
Proof. exact gen_rs_add_body. Qed.
Print Assumptions C10_gen_Add_decisions.

(* resultStore.viewResults, loop body: an entry older than the TTL is skipped, any other returned *)
Theorem C10_gen_View_decisions :
  forall ttl now e t,
  filter (fun e => negb (expired ttl now e)) (e :: t) =
  match g_rs_view_body (now - e_at e) ttl with
  | ([1], Fall) => e :: filter (fun e => negb (expired ttl now e)) t
  | _ => filter (fun e => negb (expired ttl now e)) t
  end.
Proof. exact gen_rs_view_body. Qed.
Print Assumptions C10_gen_View_decisions.

(* resultStore.gc, loop body: exactly the entries older than the TTL are deleted *)
Theorem C10_gen_gc_decisions :
  forall ttl now e t,
  gc ttl now (e :: t) =
  match g_rs_gc_body (now - e_at e) ttl with
  | ([1], Fall) => gc ttl now t
  | _ => e :: gc ttl now t
  end.
Proof. exact gen_rs_gc_body. Qed.
Print Assumptions C10_gen_gc_decisions.

(* resultStore.Remove / remove: every id of the argument is removed when present *)
Theorem C10_gen_Remove_decisions :
  forall found : bool,
  g_rs_remove_body = ([1], Fall) /\
  g_rs_remove found = if found then ([1], Fall) else ([], RetU).
Proof. exact gen_rs_remove. Qed.
Print Assumptions C10_gen_Remove_decisions.

End GenTie.

Section GenTie.
Local Open Scope Z_scope.
(* ---- Tie to the source by translation (Gen/GeneratedTr.v, regenerated from /repo on every run by gen/translate.go) ----
   g_* are the decision terms translated from the CURRENT Go code: every condition, the branch structure and which
   white-listed effect statement runs on which path.  The theorems below state that the model's functions - about
   which every theorem above speaks - are the interpretation of these terms. *)
(* RemoveFromStagingHook: the work id of every agreed performable is collected and removed from the staging store (with the other pre-build hooks' steps) *)
Theorem C10_gen_remove_from_staging_steps :
  forall enq_err : bool,
  g_hook_remove_metadata = ([1], Fall) /\ g_hook_remove_metadata_body = ([1; 2], Fall) /\
  g_hook_remove_staging = ([1; 2], Fall) /\ g_hook_remove_staging_body = ([1], Fall) /\
  g_hook_proposalq_body enq_err = (if enq_err then ([1], Fall) else ([1; 2], Fall)).
Proof. exact gen_hook_prebuild. Qed.
Print Assumptions C10_gen_remove_from_staging_steps.

End GenTie.

(* Non-vacuity: a sorted history with a replacement, a dropped lower block, an expiry, a gc and
   a removal; the hypotheses of C10_kept hold for the replacement and the views are as expected;
   a 3-event concurrent history is found linearizable. *)
Example C10_nonvacuous :
  let ttl := 300 in
  let a := mkRes 1 10 1 in let b := mkRes 1 12 2 in let c := mkRes 1 11 3 in let d := mkRes 2 5 4 in
  let tr := [(0, Add1 a); (10, Add1 d); (20, Add1 b); (30, Add1 c); (40, View); (305, GC); (311, View);
             (312, Rem1 1); (313, View)] in
  time_sorted tr /\
  views true ttl (fun _ l => l) tr = [[d; b]; [b]; []] /\
  undominated ttl [(0, Add1 a, []); (10, Add1 d, [])] 20 b /\
  (exists ot, observe true ttl (fun _ l => l) tr = Some ot /\ C10_check ttl ot = true) /\
  rs_lin_verdict ttl 1000 [mkEv (0, AAdd [a]) [] 1 4; mkEv (0, AView) [a] 2 3; mkEv (301, AView) [] 5 6] = Lin.
Proof.
  split; [apply (sorted_time_sorted 0); reflexivity|].
  split; [vm_compute; reflexivity|].
  split.
  - intros a1 tk rk ok a2 Heq Hw. left.
    destruct a1 as [|z a1]; simpl in Heq; inversion Heq; subst; [simpl; lia|].
    destruct a1 as [|z' a1]; simpl in H1; inversion H1; subst; [simpl in Hw; discriminate|].
    destruct a1; discriminate.
  - split; [eexists; split; vm_compute; reflexivity | vm_compute; reflexivity].
Qed.
