(* pkg/v2, second batch: the decisions of the code as /verif/gen translated it from /repo's current sources. *)
From Coq Require Import ZArith NArith Bool List Lia ZifyBool ZifyN ZifyNat.
From Verif Require Import Base.GenIR Gen.GeneratedTr.
Import ListNotations.
Open Scope Z_scope.

(* big.Int.Cmp *)
Definition cmpN (a b : N) : Z := match (a ?= b)%N with Lt => -1 | Eq => 0 | Gt => 1 end.

(* BasicEncoder.After(a, b): unparsable keys are an error; otherwise a is after b exactly when a > b numerically
   (the coordinator model reads After(x, y) as y < x) *)
Lemma gen_v2_After : forall a b : N,
  g_v2_After true true (cmpN a b) = ([], RetB (b <? a)%N) /\
  (forall c q, g_v2_After false q c = ([], RetO 1)) /\ (forall c, g_v2_After true false c = ([], RetO 1)).
Proof.
  intros. unfold g_v2_After, cmpN. repeat split.
  destruct (N.compare_spec a b), (N.ltb_spec b a); cbn [negb]; try reflexivity; exfalso; lia.
Qed.

(* BasicEncoder.GetMedian: parse (1), sort numerically (2), take the element at index len/2 (4) - the UPPER median -
   or 0 for no values (3) *)
Lemma gen_v2_GetMedian : forall n,
  g_v2_GetMedian n = if n =? 0 then ([1; 2; 3], RetO 0) else ([1; 2; 4], RetO 0).
Proof. intros. unfold g_v2_GetMedian. reflexivity. Qed.

(* ObservationsToUpkeepKeys, loop body: an undecodable or invalid observation is counted (1) and skipped; a valid one
   contributes its block key (2) and, when it has ids, at most ObservationUpkeepsLimit of them (3 cut, 4 append) *)
Lemma gen_v2_obs2keys_body : forall (undecodable invalid : bool) n_ids limit,
  g_v2_obs2keys_body undecodable invalid n_ids n_ids limit =
  if undecodable || invalid then ([1], Fall)
  else if 0 <? n_ids then (if limit <? n_ids then ([2; 3; 4], Fall) else ([2; 4], Fall)) else ([2], Fall).
Proof.
  intros. unfold g_v2_obs2keys_body. destruct undecodable, invalid; cbn [orb]; try reflexivity.
  gen_split; try reflexivity; try (exfalso; lia).
Qed.

(* ObservationsToUpkeepKeys, whole function: an error only when EVERY observation was skipped; otherwise the median
   of the valid observations' blocks keys all ids *)
Lemma gen_v2_obs2keys : forall parse_errors n_obs (key_err : bool),
  g_v2_obs2keys parse_errors n_obs key_err =
  if parse_errors =? n_obs then ([1], RetO 1) else if key_err then ([1; 2; 3], RetO 2) else ([1; 2; 3], RetO 0).
Proof. intros. unfold g_v2_obs2keys. reflexivity. Qed.

(* ocrPlugin.Observation (v2): sample (1, 2), shuffle (3), cut to ObservationUpkeepsLimit only when longer (4),
   build (5), encode with the length limit (6) *)
Lemma gen_v2_Observation : forall (observe_err : bool) n_ids limit (encode_err : bool),
  g_v2_Observation observe_err n_ids limit encode_err =
  if observe_err then ([1], RetO 1)
  else ((if limit <? n_ids then [1; 2; 3; 4; 5; 6] else [1; 2; 3; 5; 6]), if encode_err then RetO 2 else RetO 0).
Proof.
  intros. unfold g_v2_Observation. destruct observe_err, encode_err; gen_split; try reflexivity; try (exfalso; lia).
Qed.

(* polling observer Observe, loop body: an id is listed (1) unless the coordinator reports its key pending or fails *)
Lemma gen_v2_Observe_body : forall pending err : bool,
  g_v2_Observe_body pending err = if pending || err then ([], Fall) else ([1], Fall).
Proof. intros [|] [|]; reflexivity. Qed.

(* report-level calls: an empty report is not accepted; every key of the report is accepted (an error stops);
   the report is worth transmitting as soon as one key is not confirmed *)
Lemma gen_v2_report_calls : forall n_bytes (decode_err : bool) n_keys (accept_err confirmed : bool),
  g_v2_accept_report n_bytes decode_err n_keys =
    (if n_bytes =? 0 then ([], RetO 0) else if decode_err then ([1], RetO 2) else if n_keys =? 0 then ([1], RetO 3) else ([1; 2], RetO 1)) /\
  g_v2_accept_report_body accept_err = (if accept_err then ([1], RetO 2) else ([1], Fall)) /\
  g_v2_transmit_report_body confirmed = (if confirmed then ([], Fall) else ([], RetO 1)).
Proof. intros. unfold g_v2_accept_report, g_v2_accept_report_body, g_v2_transmit_report_body. destruct accept_err, confirmed; repeat split. Qed.
