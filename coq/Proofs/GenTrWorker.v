(* Worker group: the transitions of the model (Model/Worker.v) follow the decisions of pkg/util/worker.go as /verif/gen
   translated them from /repo's current source (Gen/GeneratedTr.v).  Which case of a select is taken is an input of the
   translated terms; the model's labels are those choices. *)
From Coq Require Import ZArith Bool List Arith PeanoNat Lia.
From Verif Require Import Base.GenIR Gen.GeneratedTr Model.Worker.
Import ListNotations.
Open Scope Z_scope.

Definition ret_of (r : list Z * leaf) : leaf := snd r.

(* ---------------- WorkerGroup.Do (submitter) ---------------- *)
(* the two checks before the select: a cancelled context or a closed queue refuse the item; the map set-up in between
   (1, 2) never changes the outcome *)
Lemma gen_wg_do_checks : forall cf s c d n, (c < ncallers cf)%nat -> c_spc (callers s c) = SCheck ->
  step cf s (LCheck c) =
  match ret_of (g_wg_do (c_cancel (callers s c)) (qclosed s) d n true false) with
  | RetO 0 => Some (s_caller s c (k_spc (callers s c) SSelect))
  | _ => Some (s_caller s c (k_spc (callers s c) SFail))
  end.
Proof.
  intros cf s c d n Hc Hp. unfold step, wc. apply Nat.ltb_lt in Hc. rewrite Hc, Hp. unfold g_wg_do, ret_of.
  destruct (c_cancel (callers s c)), (qclosed s), d, n; reflexivity.
Qed.

(* the select: the hand-off returns nil; the other two cases return an error, and the model takes them only when the
   context is cancelled / the stop channel is closed *)
Lemma gen_wg_do_select : forall cf s c d n, (c < ncallers cf)%nat -> c_spc (callers s c) = SSelect ->
  ret_of (g_wg_do false false d n true false) = RetO 0 /\
  ret_of (g_wg_do false false d n false true) = RetO 1 /\
  ret_of (g_wg_do false false d n false false) = RetO 2 /\
  step cf s (LSelCancel c) = (if c_cancel (callers s c) then Some (s_caller s c (k_spc (callers s c) SFail)) else None) /\
  step cf s (LSelStop c) = (if stopped s then Some (s_caller s c (k_spc (callers s c) SFail)) else None).
Proof.
  intros cf s c d n Hc Hp. apply Nat.ltb_lt in Hc. unfold step, wc. rewrite Hc, Hp.
  repeat split; destruct d, n; reflexivity.
Qed.

(* ---------------- RunJobs ---------------- *)
(* one job of the submit loop: wait.Add(1) (1), Do (2); a refusal is answered by wait.Done() (3) and ends the loop *)
Lemma gen_run_jobs_submit : forall cf s c, (c < ncallers cf)%nat ->
  g_run_jobs_submit true = ([1; 2; 3], Brk) /\ g_run_jobs_submit false = ([1; 2], Fall) /\
  (c_spc (callers s c) = SLoop -> (c_nxt (callers s c) < njobs cf c)%nat ->
   step cf s (LAdd c) = Some (s_caller s c (k_wg (k_spc (callers s c) SCheck) (S (c_wg (callers s c)))))) /\
  (c_spc (callers s c) = SFail ->
   step cf s (LFail c) = match c_wg (callers s c) with
                         | O => Some (s_err s true)
                         | S w => Some (s_caller s c (k_wg (k_spc (callers s c) SWait) w))
                         end).
Proof.
  intros cf s c Hc. apply Nat.ltb_lt in Hc. repeat split.
  - intros Hp Hn. apply Nat.ltb_lt in Hn. unfold step, wc. rewrite Hc, Hp, Hn. reflexivity.
  - intros Hp. unfold step, wc. rewrite Hc, Hp. reflexivity.
Qed.

(* after the loop: wait for every accepted job's result (3), drop the group (4), close the reader (5) *)
Lemma gen_run_jobs_tail : forall cf s c, (c < ncallers cf)%nat ->
  g_run_jobs = ([1; 2; 3; 4; 5], Fall) /\
  (c_spc (callers s c) = SWait ->
   step cf s (LWait c) = match c_wg (callers s c) with O => Some (s_caller s c (k_spc (callers s c) SRemoved)) | S _ => None end) /\
  (c_spc (callers s c) = SRet ->
   step cf s (LClose c) = if c_end (callers s c) then None else Some (s_caller s c (k_end (callers s c) true))).
Proof.
  intros cf s c Hc. apply Nat.ltb_lt in Hc. repeat split; intros Hp; unfold step, wc; rewrite Hc, Hp; reflexivity.
Qed.

(* the reader goroutine: a notification makes it take and deliver the group's results (callback then Done, per
   result); the closed end channel makes it return *)
Lemma gen_run_jobs_reader : forall cf s c, (c < ncallers cf)%nat -> c_rpc (callers s c) = RSel ->
  g_run_jobs_reader true = ([1], Fall) /\ g_run_jobs_reader false = ([], RetU) /\ g_run_jobs_deliver = ([1; 2], Fall) /\
  step cf s (LRTok c) = (if c_tok (callers s c) then Some (s_caller s c (k_rpc (k_tok (callers s c) false) RGot)) else None) /\
  step cf s (LREnd c) = (if c_end (callers s c) then Some (s_caller s c (k_rpc (callers s c) RExit)) else None).
Proof.
  intros cf s c Hc Hp. apply Nat.ltb_lt in Hc. unfold step, wc. rewrite Hc, Hp. repeat split.
Qed.

(* ---------------- the group's own goroutines ---------------- *)
(* processQueue, one turn: an empty queue ends it; otherwise the head is popped (1) and handed to doJob (2) *)
Lemma gen_wg_process_queue : forall cf s, p_pc s = PLoop ->
  g_wg_process_queue_body (Z.of_nat (length (queue s))) false =
    match queue s with [] => ([], Brk) | _ => ([1; 2], Fall) end /\
  step cf s LPEmpty = match queue s with [] => Some (s_ppc s (if p_final s then PExit else PSel)) | _ => None end /\
  step cf s LPPop = match queue s with j :: t => Some (s_ppc (s_queue s t) (PDo j)) | [] => None end.
Proof.
  intros cf s Hp. unfold step, g_wg_process_queue_body. rewrite Hp.
  destruct (queue s) as [|j t]; cbn [length]; (split; [gen_split; try reflexivity; exfalso; lia|]); split; reflexivity.
Qed.

(* doJob: a new worker while fewer than maxWorkers exist (1, 2), otherwise wait for an idle one (3); the job then runs
   on its own goroutine (4) *)
Lemma gen_wg_do_job : forall cf s j, p_pc s = PDo j ->
  g_wg_do_job (Z.of_nat (active s)) (Z.of_nat (maxw cf)) =
    (if (active s <? maxw cf)%nat then ([1; 2; 4], Fall) else ([3; 4], Fall)) /\
  step cf s LPNew = (if (active s <? maxw cf)%nat
                     then Some (s_ppc (s_running (s_active s (S (active s))) (running s ++ [j])) PLoop) else None) /\
  step cf s LPReuse = (if (active s <? maxw cf)%nat then None else
                       match idle s with
                       | O => None
                       | S i => Some (s_ppc (s_running (s_idle s i) (running s ++ [j])) PLoop)
                       end).
Proof.
  intros cf s j Hp. unfold step, g_wg_do_job. rewrite Hp. repeat split.
  gen_split; try reflexivity; exfalso; lia.
Qed.

(* runQueuing, one turn: an item is queued (1) and a notification offered without blocking; the stop message is passed
   on to the processing loop (2) and the loop returns *)
Lemma gen_wg_queuing : forall cf s b,
  g_wg_queuing_body true b = ([1], Fall) /\ g_wg_queuing_body false b = ([2], RetU) /\
  (forall j, q_pc s = QGot j -> step cf s LQAdd = Some (s_qpc (s_queue s (queue s ++ [j])) QNotify)) /\
  (q_pc s = QNotify -> step cf s LQNotify = Some (s_qpc (s_ntok s true) QSel)) /\
  (q_pc s = QStopping -> p_pc s = PSel -> step cf s LQHand = Some (s_pfinal (s_ppc (s_qpc s QExit) PLoop) true)).
Proof.
  intros cf s b. repeat split; try (destruct b; reflexivity).
  - intros j H. unfold step. rewrite H. reflexivity.
  - intros H. unfold step. rewrite H. reflexivity.
  - intros H1 H2. unfold step. rewrite H1, H2. reflexivity.
Qed.

(* runProcessing, one turn, and run: a notification starts processQueue (1); the stop message ends the loop, after
   which run goes through the queue once more (3 of run) - the model's p_final *)
Lemma gen_wg_processing : forall cf s, p_pc s = PSel ->
  g_wg_processing_body true = ([1], Fall) /\ g_wg_processing_body false = ([], RetU) /\ g_wg_run = ([1; 2; 3], Fall) /\
  step cf s LPTok = (if ntok s then Some (s_ppc (s_ntok s false) PLoop) else None).
Proof. intros cf s H. unfold step. rewrite H. repeat split. Qed.

(* Stop: close the stop channel (1), mark the queue closed (2), tell the queuing loop (3) *)
Lemma gen_wg_stop : forall cf s,
  g_wg_stop = ([1; 2; 3], Fall) /\
  (st_pc s = StInit -> step cf s LStop1 = if can_stop cf then Some (s_stpc (s_stopped s true) St1) else None) /\
  (st_pc s = St1 -> step cf s LStop2 = Some (s_stpc (s_qclosed s true) St2)) /\
  (st_pc s = St2 -> q_pc s = QSel -> step cf s LQStop = Some (s_stpc (s_qpc s QStopping) StRet)).
Proof.
  intros cf s. repeat split.
  - intros H. unfold step. rewrite H. reflexivity.
  - intros H. unfold step. rewrite H. reflexivity.
  - intros H1 H2. unfold step. rewrite H2, H1. reflexivity.
Qed.

(* a worker: the result is stored whatever the context says (3 of worker.Do; 3 of storeResult prepends it) with a
   non-blocking notification, then the worker offers itself back without blocking *)
Lemma gen_worker_result : forall c r d n t,
  fst (g_worker_do c r) = (if c then [1; 3] else [2; 3]) /\ snd (g_worker_do c r) = Fall /\
  In 3 (fst (g_wg_store_result d n t)) /\ snd (g_wg_store_result d n t) = Fall.
Proof. intros c r d n t. repeat split; destruct c, r, d, n, t; cbn; auto. Qed.

(* Queue.Pop and Results: nothing to pop is an error; Results hands the stored list over and leaves an empty one *)
Lemma gen_queue_pop : forall n, 0 <= n ->
  g_queue_pop n = if n =? 0 then ([], RetO 0) else if 1 <? n then ([1], RetO 1) else ([2], RetO 1).
Proof.
  intros n Hn. unfold g_queue_pop. gen_split; try reflexivity; exfalso; lia.
Qed.

Lemma gen_wg_results : forall d n, hd 0 (fst (g_wg_results d n)) = 1.
Proof.
  intros d n. unfold g_wg_results. destruct d; cbn [negb]; gen_split; reflexivity.
Qed.
