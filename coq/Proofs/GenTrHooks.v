(* Observation-building hooks (pkg/v3/plugin/hooks): the models in Model/Observation.v take the decisions, and run
   the steps in the order, of the code as /verif/gen translated it from /repo's current sources. *)
From Coq Require Import ZArith NArith Bool List Lia ZifyBool ZifyN ZifyNat.
From Verif Require Import Base.GenIR Gen.GeneratedTr Gen.Generated Model.Observation.
Import ListNotations.
Open Scope Z_scope.

(* AddFromStagingHook.RunHook: View -> coordinator filter -> encode the base -> order (1) -> cut (2); any error of the
   first three steps is returned before anything is added.  The model's add_from_staging filters, sorts and trims in
   this order. *)
Lemma gen_hook_staging : forall a b c : bool,
  g_hook_staging a b c = if a || b || c then ([], RetO 1) else ([1; 2], RetO 0).
Proof. intros [|] [|] [|]; reflexivity. Qed.

(* addByPercentageExceeded, one level of the recursion: the model's trim is its interpretation.  Atoms: the limit
   handed in, len(results), the encoded size with `limit` results, MaxObservationLength, the lowered limit.
   RetO 1 / RetO 2: return what is in the observation now; RetO 3: recurse with the lowered limit. *)
Lemma gen_hook_staging_trim : forall fuel maxlen base l limit cur,
  let lim := if Z.of_nat (length l) <? limit then Z.of_nat (length l) else limit in
  let k := Z.to_nat lim in
  let size := obs_size base l k in
  let lim' := next_limit size base maxlen lim in
  trim (S fuel) maxlen base l limit cur =
  match g_hook_staging_trim limit (Z.of_nat (length l)) size maxlen lim' with
  | ([], RetO 1) => (cur, false)
  | ([1], RetO 2) => if maxlen <? size then (k, true) else (k, false)
  | ([1], RetO 3) => trim fuel maxlen base l lim' k
  | _ => (cur, true)
  end.
Proof.
  intros. cbn [trim]. fold lim. fold k. fold size. fold lim'. unfold g_hook_staging_trim.
  subst lim. destruct (Z.ltb_spec (Z.of_nat (length l)) limit);
    gen_split; try reflexivity; try (exfalso; lia).
Qed.

(* stagedResultSorter.updateShuffledIDs: the memo is cleared exactly when the random source changed (1, 2), then
   filled for the ids it lacks (3 / body 1) *)
Lemma gen_hook_sorter_memo : forall same known : bool,
  g_hook_sorter_memo same = (if same then ([3], RetO 1) else ([1; 2; 3], RetO 1)) /\
  g_hook_sorter_memo_body known = (if known then ([], Fall) else ([1], Fall)).
Proof. intros [|] [|]; split; reflexivity. Qed.

(* AddLogProposalsHook / AddConditionalProposalsHook: view (1) -> coordinator filter (2) -> keyed shuffle (3) ->
   cut to the limit (4, only when longer) -> append (5): the model's add_proposals = firstn limit . apply_perm . filter *)
Lemma gen_hook_proposals : forall (e : bool) n limit,
  g_hook_log_proposals e n limit = g_hook_cond_proposals e n limit /\
  g_hook_log_proposals e n limit =
    if e then ([1; 2], RetO 1) else if limit <? n then ([1; 2; 3; 4; 5], RetO 0) else ([1; 2; 3; 5], RetO 0).
Proof.
  intros. unfold g_hook_log_proposals, g_hook_cond_proposals. split; [reflexivity|].
  destruct e; [reflexivity|]. gen_split; try reflexivity; exfalso; lia.
Qed.

Lemma gen_hook_proposals_cut : forall (A : Type) (l : list A) (limit : nat),
  firstn limit l =
  match g_hook_log_proposals false (Z.of_nat (length l)) (Z.of_nat limit) with
  | ([1; 2; 3; 4; 5], RetO 0) => firstn limit l
  | _ => l
  end.
Proof.
  intros. unfold g_hook_log_proposals. gen_split; try reflexivity. apply firstn_all2. lia.
Qed.

(* AddBlockHistoryHook: the leading `limit` entries of the view: the model's add_history *)
Lemma gen_hook_block_history : forall (A : Type) (view : list A) (limit : nat),
  add_history limit view =
  match g_hook_block_history (Z.of_nat (length view)) (Z.of_nat limit) with
  | ([1; 2; 3], Fall) => firstn limit view
  | _ => view
  end.
Proof.
  intros. unfold add_history, g_hook_block_history. gen_split; try reflexivity. apply firstn_all2. lia.
Qed.

(* pre-build hooks: every surfaced proposal of every round is removed from the pending set; every agreed
   performable's work id is removed from staging; every round of the history is enqueued (an error for one round
   does not stop the others) *)
Lemma gen_hook_prebuild : forall enq_err : bool,
  g_hook_remove_metadata = ([1], Fall) /\ g_hook_remove_metadata_body = ([1; 2], Fall) /\
  g_hook_remove_staging = ([1; 2], Fall) /\ g_hook_remove_staging_body = ([1], Fall) /\
  g_hook_proposalq_body enq_err = (if enq_err then ([1], Fall) else ([1; 2], Fall)).
Proof. intros [|]; repeat split; reflexivity. Qed.
