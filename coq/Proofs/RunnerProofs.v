(* Lemmas about the runner model (Model/Runner.v). *)
From Verif Require Import Base.Util Model.Runner.
From Coq Require Import ZifyBool ZifyNat ZifyN Lia.
Open Scope N_scope.

(* ------------------------------------------------------------------------------ *)
(* boolean equalities *)

Lemma payload_eqb_eq a b : payload_eqb a b = true <-> a = b.
Proof.
  destruct a, b; unfold payload_eqb; simpl. split.
  - destruct (N.eqb pl_tag pl_tag0) eqn:T; [|discriminate]. intro H.
    repeat (apply andb_true_iff in H as [H ?]).
    apply N.eqb_eq in H, T. repeat match goal with X : N.eqb _ _ = true |- _ => apply N.eqb_eq in X end. congruence.
  - intro H; inversion H; subst. rewrite !N.eqb_refl. reflexivity.
Qed.

Lemma result_eqb_eq a b : result_eqb a b = true <-> a = b.
Proof.
  destruct a, b; unfold result_eqb; simpl. split.
  - destruct (N.eqb r_tag r_tag0) eqn:T; [|discriminate].
    destruct (N.eqb r_att r_att0) eqn:A; [|discriminate]. intro H.
    repeat (apply andb_true_iff in H as [H ?]).
    apply N.eqb_eq in H, T, A.
    repeat match goal with
           | X : N.eqb _ _ = true |- _ => apply N.eqb_eq in X
           | X : Z.eqb _ _ = true |- _ => apply Z.eqb_eq in X
           | X : Bool.eqb _ _ = true |- _ => apply eqb_prop in X
           end. congruence.
  - intro H; inversion H; subst. rewrite !N.eqb_refl, !eqb_reflx, Z.eqb_refl. reflexivity.
Qed.

Lemma key3_eqb_eq a b : key3_eqb a b = true <-> a = b.
Proof.
  destruct a as [[a1 a2] a3], b as [[b1 b2] b3]; unfold key3_eqb. split.
  - destruct (N.eqb a1 b1) eqn:T; [|discriminate]. intro H.
    apply andb_true_iff in H as [H1 H2]. apply N.eqb_eq in H1, H2, T. congruence.
  - intro H; inversion H; subst. rewrite !N.eqb_refl. reflexivity.
Qed.

(* ------------------------------------------------------------------------------ *)
(* perm_by decides Permutation for a boolean equality *)

Section PermBy.
  Context {A : Type} (e : A -> A -> bool) (He : forall a b, e a b = true <-> a = b).

  Lemma e_dec : forall a b : A, {a = b} + {a <> b}.
  Proof.
    intros a b. destruct (e a b) eqn:E.
    - left. apply He. exact E.
    - right. intro H. apply He in H. congruence.
  Qed.

  Lemma count_by_count_occ x l : count_by e x l = count_occ e_dec l x.
  Proof.
    induction l as [|y t IH]; simpl; [reflexivity|].
    destruct (e x y) eqn:E.
    - apply He in E. subst. destruct (e_dec y y); [rewrite IH; reflexivity | congruence].
    - destruct (e_dec y x) as [H|H]; [subst; rewrite (proj2 (He x x) eq_refl) in E; discriminate | exact IH].
  Qed.

  Lemma perm_by_sound l1 l2 : perm_by e l1 l2 = true -> Permutation l1 l2.
  Proof.
    unfold perm_by. rewrite forallb_forall. intro H.
    apply (Permutation_count_occ e_dec). intro x.
    destruct (in_dec e_dec x (l1 ++ l2)) as [Hi|Hn].
    - specialize (H x Hi). apply Nat.eqb_eq in H. rewrite <- !count_by_count_occ. exact H.
    - rewrite in_app_iff in Hn.
      rewrite (proj1 (count_occ_not_In e_dec l1 x)), (proj1 (count_occ_not_In e_dec l2 x)); tauto.
  Qed.

  Lemma existsb_by_In x l : existsb (e x) l = true <-> In x l.
  Proof.
    rewrite existsb_exists. split.
    - intros [y [Hy E]]. apply He in E. subst. exact Hy.
    - intro H. exists x. split; [exact H | apply He; reflexivity].
  Qed.
End PermBy.

Lemma filter_split_perm {A} (f : A -> bool) l :
  Permutation l (filter (fun x => negb (f x)) l ++ filter f l).
Proof.
  induction l as [|x t IH]; simpl; [constructor|].
  destruct (f x); simpl.
  - apply Permutation_cons_app. exact IH.
  - constructor. exact IH.
Qed.

(* ------------------------------------------------------------------------------ *)
(* Unflatten *)

Lemma unflatten_fuel_some {A} size : (0 < size)%nat ->
  forall fuel (l : list A), (length l <= fuel)%nat -> exists gs, unflatten_fuel fuel l size = Some gs.
Proof.
  intros Hs fuel. induction fuel as [|f IH]; intros l Hl.
  - destruct l; [exists []; reflexivity | simpl in Hl; lia].
  - destruct l as [|a l']; [exists []; reflexivity|].
    cbn [unflatten_fuel].
    destruct (IH (skipn size (a :: l'))) as [gs Hgs].
    + rewrite skipn_length. simpl length in *. lia.
    + rewrite Hgs. eexists; reflexivity.
Qed.

Lemma unflatten_fuel_concat {A} size : forall fuel (l : list A) gs,
  unflatten_fuel fuel l size = Some gs -> concat gs = l.
Proof.
  induction fuel as [|f IH]; intros l gs H.
  - destruct l; simpl in H; [inversion H; reflexivity | discriminate].
  - destruct l as [|a l']; [simpl in H; inversion H; reflexivity|].
    cbn [unflatten_fuel] in H.
    destruct (unflatten_fuel f (skipn size (a :: l')) size) as [gs'|] eqn:E; [|discriminate].
    inversion H; subst. simpl. rewrite (IH _ _ E). apply firstn_skipn.
Qed.

Lemma unflatten_fuel_sizes {A} size : (0 < size)%nat -> forall fuel (l : list A) gs,
  unflatten_fuel fuel l size = Some gs ->
  Forall (fun g => (1 <= length g <= size)%nat) gs.
Proof.
  intros Hs. induction fuel as [|f IH]; intros l gs H.
  - destruct l; simpl in H; [inversion H; constructor | discriminate].
  - destruct l as [|a l']; [simpl in H; inversion H; constructor|].
    cbn [unflatten_fuel] in H.
    destruct (unflatten_fuel f (skipn size (a :: l')) size) as [gs'|] eqn:E; [|discriminate].
    inversion H; subst. constructor; [|apply (IH _ _ E)].
    rewrite firstn_length. simpl. lia.
Qed.

(* every group but the last one is full *)
Lemma unflatten_fuel_full {A} size : forall fuel (l : list A) gs,
  unflatten_fuel fuel l size = Some gs ->
  forall gs' g, gs = gs' ++ [g] -> Forall (fun x => length x = size) gs'.
Proof.
  induction fuel as [|f IH]; intros l gs H gs' g Hg.
  - destruct l; simpl in H; [inversion H; subst; destruct gs'; discriminate | discriminate].
  - destruct l as [|a l']; [simpl in H; inversion H; subst; destruct gs'; discriminate|].
    cbn [unflatten_fuel] in H.
    destruct (unflatten_fuel f (skipn size (a :: l')) size) as [gs2|] eqn:E; [|discriminate].
    inversion H as [Hgs]. clear H. rewrite Hg in Hgs. clear Hg.
    destruct gs' as [|g1 gs1].
    + constructor.
    + simpl in Hgs. inversion Hgs as [[Hg1 Hg2]]. clear Hgs.
      constructor; [|apply (IH _ _ E gs1 g); exact Hg2].
      (* the remainder is non-empty, hence the first group is full *)
      assert (Hne : skipn size (a :: l') <> []).
      { intro Hn. rewrite Hn in E. destruct f; simpl in E; inversion E as [E']; rewrite <- E' in Hg2;
          destruct gs1; discriminate. }
      rewrite firstn_length. apply Nat.min_l.
      destruct (Nat.le_gt_cases size (length (a :: l'))) as [Hle|Hgt]; [exact Hle|].
      exfalso. apply Hne. apply skipn_all2. lia.
Qed.

Lemma unflatten_fuel_zero {A} : forall fuel (l : list A), l <> [] -> unflatten_fuel fuel l 0 = None.
Proof.
  induction fuel as [|f IH]; intros l Hl; destruct l as [|a l']; try congruence; [reflexivity|].
  cbn [unflatten_fuel]. simpl skipn. rewrite (IH (a :: l')); [reflexivity | discriminate].
Qed.

Lemma unflatten_some {A} (l : list A) size : (0 < size)%nat -> exists gs, unflatten l size = Some gs.
Proof. intro H. apply unflatten_fuel_some; [exact H | apply Nat.le_refl]. Qed.

Lemma unflatten_spec {A} (l : list A) size gs : (0 < size)%nat -> unflatten l size = Some gs ->
  concat gs = l /\ Forall (fun g => (1 <= length g <= size)%nat) gs
  /\ (forall gs' g, gs = gs' ++ [g] -> Forall (fun x => length x = size) gs').
Proof.
  intros Hs H. split; [|split].
  - eapply unflatten_fuel_concat; exact H.
  - eapply unflatten_fuel_sizes; eassumption.
  - eapply unflatten_fuel_full; exact H.
Qed.

Lemma unflatten_nil_iff {A} (l : list A) size gs : unflatten l size = Some gs -> (gs = [] <-> l = []).
Proof.
  intro H. split; intro E.
  - subst gs. apply unflatten_fuel_concat in H. simpl in H. symmetry. exact H.
  - subst l. unfold unflatten in H. simpl in H. inversion H. reflexivity.
Qed.

(* ------------------------------------------------------------------------------ *)
(* Cache *)

Lemma cache_find_remove c k k' :
  cache_find (cache_remove c k) k' = if N.eqb k' k then None else cache_find c k'.
Proof.
  induction c as [|[k0 e] t IH]; simpl.
  - destruct (N.eqb k' k); reflexivity.
  - destruct (N.eqb k k0) eqn:E1.
    + apply N.eqb_eq in E1. subst k0. rewrite IH. destruct (N.eqb k' k); reflexivity.
    + simpl. rewrite IH. destruct (N.eqb k' k0) eqn:E2; [|reflexivity].
      apply N.eqb_eq in E2. subst k0. rewrite N.eqb_sym, E1. reflexivity.
Qed.

Lemma cache_find_set cexp c now k r k' :
  cache_find (cache_set cexp c now k r) k' =
  if N.eqb k' k then Some (r, if (0 <? cexp)%Z then (now + cexp)%Z else 0%Z) else cache_find c k'.
Proof.
  unfold cache_set. simpl. destruct (N.eqb k' k) eqn:E; [reflexivity|].
  rewrite cache_find_remove, E. reflexivity.
Qed.

Lemma cache_get_spec c now k r :
  cache_get c now k = Some r <->
  exists e, cache_find c k = Some (r, e) /\ ((e <= 0)%Z \/ (now <= e)%Z).
Proof.
  unfold cache_get. destruct (cache_find c k) as [[r0 e]|]; split.
  - destruct ((0 <? e)%Z && (e <? now)%Z) eqn:E; [discriminate|].
    intro H; inversion H; subst. exists e. split; [reflexivity | lia].
  - intros [e' [H1 H2]]. inversion H1; subst.
    destruct ((0 <? e')%Z && (e' <? now)%Z) eqn:E; [lia | reflexivity].
  - discriminate.
  - intros [e [H _]]. discriminate.
Qed.

Lemma cache_get_set_same cexp c now k r : cache_get (cache_set cexp c now k r) now k = Some r.
Proof.
  unfold cache_get. rewrite cache_find_set, N.eqb_refl.
  destruct (0 <? cexp)%Z eqn:E; [|reflexivity].
  destruct ((0 <? now + cexp)%Z && (now + cexp <? now)%Z) eqn:E2; [lia | reflexivity].
Qed.

Lemma cache_get_set_other cexp c now k r t k' : k' <> k ->
  cache_get (cache_set cexp c now k r) t k' = cache_get c t k'.
Proof.
  intro H. unfold cache_get. rewrite cache_find_set.
  destruct (N.eqb k' k) eqn:E; [apply N.eqb_eq in E; congruence | reflexivity].
Qed.

Section RunnerFacts.
  Variable pipe  : list job -> list result.
  Variable bfail : list job -> bool.
  Variable cexp  : Z.
  Variable wlimit : nat.

  (* ---------------------------------------------------------------------------- *)
  (* hit / lookup *)

  Lemma hit_exact c t p r :
    hit c t p = Some r <->
    exists e, cache_find c (pl_wid p) = Some (r, e) /\ ((e <= 0)%Z \/ (t <= e)%Z)
              /\ r_blk r = pl_blk p /\ r_hash r = pl_hash p.
  Proof.
    unfold hit. split.
    - destruct (cache_get c t (pl_wid p)) as [r0|] eqn:G; [|discriminate].
      destruct (N.eqb (r_blk r0) (pl_blk p) && N.eqb (r_hash r0) (pl_hash p)) eqn:E; [|discriminate].
      intro H; inversion H; subst r0. apply cache_get_spec in G as [e [G1 G2]].
      exists e. repeat split; try assumption; lia.
    - intros [e [H1 [H2 [H3 H4]]]].
      rewrite (proj2 (cache_get_spec c t (pl_wid p) r)); [|exists e; tauto].
      rewrite H3, H4, !N.eqb_refl. reflexivity.
  Qed.

  Lemma lookup_perm c t pls :
    Permutation pls (map fst (fst (lookup c t pls)) ++ snd (lookup c t pls)).
  Proof.
    induction pls as [|p ps IH]; simpl; [constructor|].
    destruct (lookup c t ps) as [hs run] eqn:L. simpl in IH.
    destruct (hit c t p); simpl.
    - constructor. exact IH.
    - apply Permutation_cons_app. exact IH.
  Qed.

  Lemma lookup_hits c t pls :
    Forall (fun pr => hit c t (fst pr) = Some (snd pr)) (fst (lookup c t pls)).
  Proof.
    induction pls as [|p ps IH]; simpl; [constructor|].
    destruct (lookup c t ps) as [hs run] eqn:L. simpl in IH.
    destruct (hit c t p) eqn:H; simpl; [constructor; [exact H | exact IH] | exact IH].
  Qed.

  Lemma lookup_run c t pls : Forall (fun p => hit c t p = None) (snd (lookup c t pls)).
  Proof.
    induction pls as [|p ps IH]; simpl; [constructor|].
    destruct (lookup c t ps) as [hs run] eqn:L. simpl in IH.
    destruct (hit c t p) eqn:H; simpl; [exact IH | constructor; [exact H | exact IH]].
  Qed.

  Lemma assign_fst cnt run : map fst (snd (assign cnt run)) = run.
  Proof.
    revert cnt. induction run as [|p t IH]; intro cnt; simpl; [reflexivity|].
    specialize (IH (cnt_bump cnt (pl_tag p))).
    destruct (assign (cnt_bump cnt (pl_tag p)) t) as [c' js]. simpl in *. rewrite IH. reflexivity.
  Qed.

  (* ---------------------------------------------------------------------------- *)
  (* finish *)

  Definition okb (b : list job) : bool := negb (bfail b).

  Lemma filter_perm {A} (f : A -> bool) l1 l2 : Permutation l1 l2 -> Permutation (filter f l1) (filter f l2).
  Proof.
    induction 1; simpl.
    - constructor.
    - destruct (f x); [constructor|]; assumption.
    - destruct (f x), (f y); try constructor; try apply Permutation_refl.
    - eapply Permutation_trans; eassumption.
  Qed.

  Lemma flat_map_perm {A B} (f : A -> list B) l1 l2 : Permutation l1 l2 -> Permutation (flat_map f l1) (flat_map f l2).
  Proof.
    induction 1; simpl.
    - constructor.
    - apply Permutation_app_head. assumption.
    - rewrite !app_assoc. apply Permutation_app_tail. apply Permutation_app_comm.
    - eapply Permutation_trans; eassumption.
  Qed.

  Lemma finish_spec hits done :
    match finish pipe bfail hits done with
    | Ok rs => rs = hits ++ flat_map pipe (filter okb done)
               /\ (done = [] \/ exists b, In b done /\ bfail b = false)
    | ErrAll => done <> [] /\ forall b, In b done -> bfail b = true
    | Diverge => False
    end.
  Proof.
    unfold finish. destruct done as [|b0 d]; [split; [simpl; rewrite app_nil_r; reflexivity | left; reflexivity]|].
    fold okb. destruct (filter okb (b0 :: d)) as [|x l] eqn:F.
    - split; [discriminate|]. intros b Hb.
      destruct (bfail b) eqn:E; [reflexivity|].
      assert (In b (filter okb (b0 :: d))) by (apply filter_In; split; [exact Hb | unfold okb; rewrite E; reflexivity]).
      rewrite F in H. destruct H.
    - split; [reflexivity|]. right. exists x.
      assert (In x (filter okb (b0 :: d))) by (rewrite F; left; reflexivity).
      apply filter_In in H as [H1 H2]. split; [exact H1|]. unfold okb in H2. destruct (bfail x); [discriminate | reflexivity].
  Qed.

  (* ---------------------------------------------------------------------------- *)
  (* check: results, error *)

  Lemma check_outcome c cnt t pls ord bs :
    unflatten (jobs_of c cnt t pls) wlimit = Some bs ->
    snd (check pipe bfail cexp wlimit c cnt t pls ord)
    = finish pipe bfail (map snd (fst (lookup c t pls))) (map fst (ord bs)).
  Proof.
    unfold check, jobs_of. destruct (lookup c t pls) as [hs run]. simpl.
    destruct (assign cnt run) as [cnt' jobs]. simpl. intro H. rewrite H. reflexivity.
  Qed.

  Theorem check_results c cnt t pls ord :
    (0 < wlimit)%nat -> (forall bs, Permutation (map fst (ord bs)) bs) ->
    exists bs, unflatten (jobs_of c cnt t pls) wlimit = Some bs
      /\ concat bs = jobs_of c cnt t pls
      /\ map fst (jobs_of c cnt t pls) = snd (lookup c t pls)
      /\ Permutation pls (map fst (fst (lookup c t pls)) ++ snd (lookup c t pls))
      /\ match snd (check pipe bfail cexp wlimit c cnt t pls ord) with
         | Ok rs => Permutation rs (map snd (fst (lookup c t pls)) ++ flat_map pipe (filter okb bs))
                    /\ (bs = [] \/ exists b, In b bs /\ bfail b = false)
         | ErrAll => bs <> [] /\ forall b, In b bs -> bfail b = true
         | Diverge => False
         end.
  Proof.
    intros Hw Hord.
    destruct (unflatten_some (jobs_of c cnt t pls) wlimit Hw) as [bs Hbs].
    exists bs. split; [exact Hbs|]. split; [eapply unflatten_fuel_concat; exact Hbs|].
    split; [apply assign_fst|]. split; [apply lookup_perm|].
    rewrite (check_outcome _ _ _ _ ord bs Hbs).
    pose proof (finish_spec (map snd (fst (lookup c t pls))) (map fst (ord bs))) as F.
    pose proof (Hord bs) as P.
    destruct (finish pipe bfail (map snd (fst (lookup c t pls))) (map fst (ord bs))) as [rs| |].
    - destruct F as [F1 F2]. split.
      + subst rs. apply Permutation_app_head. apply flat_map_perm. apply filter_perm. exact P.
      + destruct F2 as [F2|[b [Hb1 Hb2]]].
        * left. rewrite F2 in P. apply Permutation_nil in P. exact P.
        * right. exists b. split; [eapply Permutation_in; eassumption | exact Hb2].
    - destruct F as [F1 F2]. split.
      + intro E. subst bs. apply Permutation_sym, Permutation_nil in P. congruence.
      + intros b Hb. apply F2. eapply Permutation_in; [apply Permutation_sym; exact P | exact Hb].
    - exact F.
  Qed.

  Theorem check_error_iff c cnt t pls ord :
    (0 < wlimit)%nat -> (forall bs, Permutation (map fst (ord bs)) bs) ->
    forall bs, unflatten (jobs_of c cnt t pls) wlimit = Some bs ->
    (snd (check pipe bfail cexp wlimit c cnt t pls ord) = ErrAll
     <-> (bs <> [] /\ forall b, In b bs -> bfail b = true)).
  Proof.
    intros Hw Hord bs Hbs.
    destruct (check_results c cnt t pls ord Hw Hord) as [bs' [H1 [_ [_ [_ H]]]]].
    rewrite Hbs in H1. inversion H1; subst bs'. clear H1.
    destruct (snd (check pipe bfail cexp wlimit c cnt t pls ord)) as [rs| |].
    - split; [discriminate|]. intros [Hne Hall]. destruct H as [_ [E|[b [Hb1 Hb2]]]]; [congruence|].
      rewrite (Hall b Hb1) in Hb2. discriminate.
    - split; [intros _; exact H | reflexivity].
    - destruct H.
  Qed.

  (* ---------------------------------------------------------------------------- *)
  (* cache invariant: every entry is filed under its own work id, is a success, and was returned
     by a successful pipeline execution *)

  Variable P : result -> Prop.

  Definition cache_wf (c : cache) : Prop :=
    forall k r e, cache_find c k = Some (r, e) -> r_wid r = k /\ r_state r = 0 /\ P r.

  Lemma cache_wf_set c now r : cache_wf c -> r_state r = 0 -> P r -> cache_wf (cache_set cexp c now (r_wid r) r).
  Proof.
    intros Hc Hs Hp k r' e H. rewrite cache_find_set in H.
    destruct (N.eqb k (r_wid r)) eqn:E.
    - apply N.eqb_eq in E. inversion H; subst. auto.
    - apply Hc in H. exact H.
  Qed.

  Lemma fill1_wf c now r : cache_wf c -> P r -> cache_wf (fill1 cexp c now r).
  Proof.
    intros Hc Hp. unfold fill1. destruct (N.eqb (r_state r) 0) eqn:E; [|exact Hc].
    apply N.eqb_eq in E.
    destruct (cache_get c now (r_wid r)) as [old|].
    - destruct (N.ltb (r_blk old) (r_blk r)); [apply cache_wf_set; assumption | exact Hc].
    - apply cache_wf_set; assumption.
  Qed.

  Lemma agg_wf rs : forall c now, cache_wf c -> Forall P rs -> cache_wf (agg cexp c now rs).
  Proof.
    unfold agg. induction rs as [|r t IH]; intros c now Hc Hp; simpl; [exact Hc|].
    inversion Hp; subst. apply IH; [apply fill1_wf; assumption | assumption].
  Qed.

  Hypothesis P_produced : forall b r, bfail b = false -> In r (pipe b) -> P r.

  Lemma batch_done_wf c bt : cache_wf c -> cache_wf (batch_done pipe bfail cexp c bt).
  Proof.
    intro Hc. unfold batch_done. destruct (bfail (fst bt)) eqn:E; [exact Hc|].
    apply agg_wf; [exact Hc|]. apply Forall_forall. intros r Hr. eapply P_produced; eassumption.
  Qed.

  Lemma check_cache_wf c cnt t pls ord :
    cache_wf c -> cache_wf (fst (fst (check pipe bfail cexp wlimit c cnt t pls ord))).
  Proof.
    intro Hc. unfold check. destruct (lookup c t pls) as [hs run].
    destruct (assign cnt run) as [cnt' jobs].
    destruct (unflatten jobs wlimit) as [bs|]; simpl; [|exact Hc].
    generalize (ord bs). intro l. revert c Hc. induction l as [|bt l IH]; intros c Hc; simpl; [exact Hc|].
    apply IH. apply batch_done_wf. exact Hc.
  Qed.

  Lemma ev_step_wf s e : cache_wf (rs_cache s) -> cache_wf (rs_cache (ev_step pipe bfail cexp wlimit s e)).
  Proof.
    intro Hc. destruct e as [id t pls | id first t]; simpl.
    - destruct (lookup (rs_cache s) t pls) as [hs run].
      destruct (assign (rs_cnt s) run) as [cnt' jobs].
      destruct (unflatten jobs wlimit) as [[|b bs]|]; simpl; exact Hc.
    - destruct (take_call id (rs_open s)) as [[o others]|]; simpl; [|exact Hc].
      destruct (take_batch first (oc_rem o)) as [[b rem]|]; simpl; [|exact Hc].
      destruct rem; simpl; apply batch_done_wf; exact Hc.
  Qed.

  Theorem run_events_wf evs : forall s, cache_wf (rs_cache s) -> cache_wf (rs_cache (run_events pipe bfail cexp wlimit s evs)).
  Proof.
    unfold run_events. induction evs as [|e t IH]; intros s Hc; simpl; [exact Hc|].
    apply IH. apply ev_step_wf. exact Hc.
  Qed.

  (* a served cache hit is exact, in every reachable state *)
  Theorem hit_served_exact c t p r : cache_wf c -> hit c t p = Some r ->
    r_wid r = pl_wid p /\ r_blk r = pl_blk p /\ r_hash r = pl_hash p /\ r_state r = 0 /\ P r.
  Proof.
    intros Hc H. apply hit_exact in H as [e [H1 [_ [H3 H4]]]].
    apply Hc in H1 as [A [B C]]. auto.
  Qed.

  (* fine-grained aggregators: the invariant survives every interleaving of reads and writes *)
  Definition pending_wf (p : fpending) : Prop :=
    forall who r, fp_get p who = Some r -> r_state r = 0 /\ P r.

  Lemma fp_get_set p who x who' :
    fp_get (fp_set p who x) who' = if Nat.eqb who who' then x else fp_get p who'.
  Proof.
    unfold fp_set. simpl. destruct (Nat.eqb who who') eqn:E; [reflexivity|].
    induction p as [|[w y] t IH]; simpl; [reflexivity|].
    destruct (Nat.eqb w who) eqn:E2; simpl.
    - apply Nat.eqb_eq in E2. subst w. rewrite E. exact IH.
    - rewrite IH. reflexivity.
  Qed.

  Definition fstep_ok (st : fstep) : Prop :=
    match st with FRead _ r _ => P r | FWrite _ _ => True end.

  Lemma f_step_wf s st : fstep_ok st -> cache_wf (fst s) /\ pending_wf (snd s) ->
    cache_wf (fst (f_step cexp s st)) /\ pending_wf (snd (f_step cexp s st)).
  Proof.
    destruct s as [c p]. intros Hok [Hc Hp]. destruct st as [who r t | who t]; simpl in *.
    - split; [exact Hc|]. intros w r' H. rewrite fp_get_set in H.
      destruct (Nat.eqb who w); [|apply (Hp _ _ H)].
      unfold wants_set in H. destruct (N.eqb (r_state r) 0) eqn:E; simpl in H; [|discriminate].
      apply N.eqb_eq in E.
      destruct (cache_get c t (r_wid r)) as [old|]; [destruct (N.ltb (r_blk old) (r_blk r))|];
        inversion H; subst; auto.
    - destruct (fp_get p who) as [r|] eqn:G; simpl; [|split; assumption].
      destruct (Hp _ _ G) as [A B]. split.
      + apply cache_wf_set; assumption.
      + intros w r' H. rewrite fp_get_set in H. destruct (Nat.eqb who w); [discriminate | apply (Hp _ _ H)].
  Qed.

  Theorem f_run_wf sch : forall s, Forall fstep_ok sch -> cache_wf (fst s) /\ pending_wf (snd s) ->
    cache_wf (fst (f_run cexp s sch)).
  Proof.
    unfold f_run. induction sch as [|st t IH]; intros s Hok Hs; simpl; [apply Hs|].
    inversion Hok; subst. apply IH; [assumption | apply f_step_wf; assumption].
  Qed.
End RunnerFacts.

(* ------------------------------------------------------------------------------ *)
(* fill1: only successes are stored; an entry is replaced only when absent (or expired) or when
   the new result is on a strictly higher block *)

Lemma fill1_failed cexp c now r : r_state r <> 0 -> fill1 cexp c now r = c.
Proof. intro H. unfold fill1. destruct (N.eqb (r_state r) 0) eqn:E; [apply N.eqb_eq in E; congruence | reflexivity]. Qed.

Lemma fill1_other cexp c now r t k : k <> r_wid r -> cache_get (fill1 cexp c now r) t k = cache_get c t k.
Proof.
  intro H. unfold fill1. destruct (N.eqb (r_state r) 0); [|reflexivity].
  destruct (cache_get c now (r_wid r)) as [old|].
  - destruct (N.ltb (r_blk old) (r_blk r)); [apply cache_get_set_other; exact H | reflexivity].
  - apply cache_get_set_other. exact H.
Qed.

Lemma fill1_same cexp c now r : r_state r = 0 ->
  cache_get (fill1 cexp c now r) now (r_wid r) =
  match cache_get c now (r_wid r) with
  | Some old => if N.ltb (r_blk old) (r_blk r) then Some r else Some old
  | None => Some r
  end.
Proof.
  intro H. unfold fill1. rewrite H. simpl.
  destruct (cache_get c now (r_wid r)) as [old|] eqn:G.
  - destruct (N.ltb (r_blk old) (r_blk r)); [apply cache_get_set_same | exact G].
  - apply cache_get_set_same.
Qed.

(* with the read-modify-write executed atomically the block of a live entry never goes down *)
Lemma fill1_monotone cexp c now r k old new :
  cache_get c now k = Some old -> cache_get (fill1 cexp c now r) now k = Some new -> r_blk old <= r_blk new.
Proof.
  intros G1 G2. destruct (N.eq_dec k (r_wid r)) as [E|E].
  - subst k. destruct (N.eq_dec (r_state r) 0) as [S|S].
    + rewrite (fill1_same _ _ _ _ S), G1 in G2.
      destruct (N.ltb (r_blk old) (r_blk r)) eqn:L; inversion G2; subst; lia.
    + rewrite (fill1_failed _ _ _ _ S), G1 in G2. inversion G2; subst. lia.
  - rewrite (fill1_other _ _ _ _ _ _ E), G1 in G2. inversion G2; subst. lia.
Qed.

(* the same is not true of the fine-grained aggregators: a block-20 result that was written is
   overwritten by a block-10 result whose read happened before *)
Lemma f_run_highest_lost :
  exists cexp (r10 r20 : result) sch,
    r_wid r10 = r_wid r20 /\ r_blk r10 = 10 /\ r_blk r20 = 20 /\
    In (FWrite 2 2%Z) sch /\
    cache_get (fst (f_run cexp ([], []) sch)) 4%Z (r_wid r10) = Some r10.
Proof.
  exists 1000%Z, (mkRes 1 10 7 0 false true 0 1 0), (mkRes 1 20 8 0 false true 0 2 0),
         [FRead 1 (mkRes 1 10 7 0 false true 0 1 0) 1%Z; FRead 2 (mkRes 1 20 8 0 false true 0 2 0) 1%Z;
          FWrite 2 2%Z; FWrite 1 3%Z].
  repeat split; try reflexivity. simpl. right. right. left. reflexivity.
Qed.

(* ------------------------------------------------------------------------------ *)
(* one result per payload, given a pipeline that answers every payload of a batch once *)

Definition pipe_wf (pipe : list job -> list result) : Prop :=
  forall b, map r_key (pipe b) = map (fun j => pl_key (fst j)) b.

Lemma flat_map_map_key pipe (bs : list (list job)) : pipe_wf pipe ->
  map r_key (flat_map pipe bs) = map (fun j => pl_key (fst j)) (concat bs).
Proof.
  intro H. induction bs as [|b t IH]; simpl; [reflexivity|].
  rewrite !map_app, H, IH. reflexivity.
Qed.

Theorem check_one_per_payload pipe bfail cexp wlimit (P : result -> Prop) c cnt t pls ord :
  (0 < wlimit)%nat -> (forall bs, Permutation (map fst (ord bs)) bs) -> pipe_wf pipe -> cache_wf P c ->
  forall rs, snd (check pipe bfail cexp wlimit c cnt t pls ord) = Ok rs ->
  exists served bs, unflatten (jobs_of c cnt t pls) wlimit = Some bs
    /\ Permutation pls (served ++ map fst (concat bs))
    /\ Permutation (map r_key rs)
                   (map pl_key served ++ map pl_key (map fst (concat (filter (okb bfail) bs)))).
Proof.
  intros Hw Hord Hp Hc rs Hrs.
  destruct (check_results pipe bfail cexp wlimit c cnt t pls ord Hw Hord) as [bs [H1 [H2 [H3 [H4 H5]]]]].
  rewrite Hrs in H5. destruct H5 as [H5 _].
  exists (map fst (fst (lookup c t pls))), bs. split; [exact H1|]. split.
  - rewrite H2. rewrite H3. exact H4.
  - eapply Permutation_trans; [apply Permutation_map; exact H5|].
    rewrite map_app. rewrite (flat_map_map_key pipe _ Hp). rewrite !map_map.
    apply Permutation_app_tail.
    assert (Hk : forall l, Forall (fun pr => hit c t (fst pr) = Some (snd pr)) l ->
                 map (fun x : payload * result => r_key (snd x)) l = map (fun x => pl_key (fst x)) l).
    { induction l as [|[p r] l IH]; intro Hh; simpl; [reflexivity|].
      inversion Hh as [|x l' Hx Hl]; subst. simpl in Hx.
      destruct (hit_served_exact P c t p r Hc Hx) as [A [B [C _]]].
      unfold r_key, pl_key at 1. rewrite A, B, C. f_equal. apply IH. exact Hl. }
    rewrite (Hk _ (lookup_hits c t pls)). apply Permutation_refl.
Qed.

(* ------------------------------------------------------------------------------ *)
(* Checker K: what it establishes *)

Definition call_spec (sc : script) (cexp : Z) (wlimit : nat) (all : list call_obs) (c : call_obs) : Prop :=
  let ran := flat_map io_in (co_inv c) in
  let fresh := flat_map (fun i => spipe sc (io_in i)) (ok_invs c) in
  NoDup (ran_tags c)
  /\ (forall j, In j ran -> In (fst j) (co_pls c))
  /\ NoDup (map pl_tag (co_pls c))
  /\ (forall i, In i (co_inv c) -> (1 <= length (io_in i) <= wlimit)%nat)
  /\ (co_err c = true <-> (co_inv c <> [] /\ forall i, In i (co_inv c) -> io_fail i = true))
  /\ (co_err c = true -> co_res c = [])
  /\ (co_err c = false ->
      exists cachedr freshr,
        Permutation (co_res c) (cachedr ++ freshr)
        /\ Permutation freshr fresh
        /\ Permutation (map r_key cachedr) (map pl_key (unran c))
        /\ forall r, In r cachedr ->
             r_state r = 0 /\
             exists d i, In d all /\ co_id d <> co_id c /\ In i (co_inv d) /\ io_fail i = false
                         /\ (io_t i <= co_t c)%Z /\ ((cexp <= 0)%Z \/ (co_t c <= io_t i + cexp)%Z)
                         /\ In r (spipe sc (io_in i))).

Definition C13_spec (sc : script) (cexp : Z) (wlimit : nat) (all : list call_obs) : Prop :=
  forall c, In c all -> call_spec sc cexp wlimit all c.

Lemma length_zero_nil {A} (l : list A) : Nat.eqb (length l) 0 = true <-> l = [].
Proof. destruct l; simpl; split; intro H; try reflexivity; discriminate. Qed.

Lemma call_check_sound sc cexp wlimit all c :
  call_check sc cexp wlimit all c = true -> call_spec sc cexp wlimit all c.
Proof.
  unfold call_check, call_spec. intro H.
  repeat (apply andb_true_iff in H as [H ?]).
  rename H into K1, H4 into K2, H3 into K3, H2 into K4, H1 into K5, H0 into K6.
  split; [apply nodupb_NoDup; exact K1|].
  split.
  { intros j Hj. rewrite forallb_forall in K2. specialize (K2 j Hj).
    apply (existsb_by_In payload_eqb payload_eqb_eq) in K2. exact K2. }
  split; [apply nodupb_NoDup; exact K3|].
  split.
  { intros i Hi. rewrite forallb_forall in K4. specialize (K4 i Hi).
    apply andb_true_iff in K4 as [A B]. apply negb_true_iff in A. apply Nat.eqb_neq in A. apply Nat.leb_le in B. lia. }
  assert (Herr : co_err c = true <-> co_inv c <> [] /\ (forall i, In i (co_inv c) -> io_fail i = true)).
  { apply eqb_prop in K5. rewrite K5. rewrite andb_true_iff, negb_true_iff. split.
    - intros [A B]. split.
      + intro E. rewrite E in A. discriminate.
      + apply length_zero_nil in B. intros i Hi. destruct (io_fail i) eqn:F; [reflexivity|].
        assert (In i (ok_invs c)) by (apply filter_In; split; [exact Hi | rewrite F; reflexivity]).
        rewrite B in H. destruct H.
    - intros [A B]. split.
      + destruct (co_inv c); [congruence | reflexivity].
      + apply length_zero_nil. unfold ok_invs. destruct (filter (fun i => negb (io_fail i)) (co_inv c)) as [|x l] eqn:F; [reflexivity|].
        assert (In x (filter (fun i => negb (io_fail i)) (co_inv c))) by (rewrite F; left; reflexivity).
        apply filter_In in H as [H1 H2]. rewrite (B x H1) in H2. discriminate. }
  split; [exact Herr|].
  destruct (co_err c) eqn:E.
  - split; [intros _; apply length_zero_nil; exact K6 | discriminate].
  - split; [discriminate|]. intros _.
    repeat (apply andb_true_iff in K6 as [K6 ?]).
    set (fresh := flat_map (fun i => spipe sc (io_in i)) (ok_invs c)) in *.
    exists (filter (fun r => negb (existsb (result_eqb r) fresh)) (co_res c)),
           (filter (fun r => existsb (result_eqb r) fresh) (co_res c)).
    split; [apply filter_split_perm|].
    split; [apply (perm_by_sound result_eqb result_eqb_eq); exact K6|].
    split; [apply (perm_by_sound key3_eqb key3_eqb_eq); exact H0|].
    intros r Hr. rewrite forallb_forall in H. specialize (H r Hr).
    unfold justified in H. apply andb_true_iff in H as [A B]. apply N.eqb_eq in A. split; [exact A|].
    apply existsb_exists in B as [[r' t'] [Hi B]]. simpl in B.
    destruct (result_eqb r r') eqn:Er; [|discriminate]. apply result_eqb_eq in Er. subst r'.
    apply andb_true_iff in B as [B2 B3].
    unfold filled_by in Hi. apply in_flat_map in Hi as [i [Hi Hr']].
    destruct (io_fail i) eqn:Fi; [destruct Hr'|].
    apply in_map_iff in Hr' as [r0 [E0 Hr0]]. inversion E0; subst r0 t'. clear E0.
    apply in_flat_map in Hi as [d [Hd Hi]]. apply filter_In in Hd as [Hd1 Hd2].
    exists d, i. split; [exact Hd1|]. split; [apply negb_true_iff, Nat.eqb_neq in Hd2; exact Hd2|].
    split; [exact Hi|]. split; [exact Fi|].
    split; [lia|]. split; [lia|]. exact Hr0.
Qed.

Theorem C13_check_sound sc cexp wlimit all :
  C13_check sc cexp wlimit all = true -> C13_spec sc cexp wlimit all.
Proof.
  unfold C13_check, C13_spec. intro H. apply andb_true_iff in H as [_ H].
  rewrite forallb_forall in H. intros c Hc. apply call_check_sound. apply H. exact Hc.
Qed.
