(* C14 - invariants of the worker-group transition system (Model/Worker.v), proved for every
   schedule by induction over the step relation, for all job counts, caller counts and worker
   counts >= 1. *)
From Verif Require Import Base.Util Model.Worker.
From Coq Require Import Arith PeanoNat ZifyBool.

(* ------------------------------------------------------------------ counting lemmas *)

Lemma cntp_nil p : cntp p [] = 0. Proof. reflexivity. Qed.
Lemma cntp_cons p x l : cntp p (x :: l) = (if p x then 1 else 0) + cntp p l.
Proof. unfold cntp; simpl; destruct (p x); reflexivity. Qed.
Lemma cntp_app p l1 l2 : cntp p (l1 ++ l2) = cntp p l1 + cntp p l2.
Proof. unfold cntp; rewrite filter_app, app_length; reflexivity. Qed.
Lemma cntp_le p l : cntp p l <= length l.
Proof. unfold cntp; induction l; simpl; [lia|destruct (p a); simpl; lia]. Qed.

Lemma filter_filter_cnt (p q : job -> bool) l :
  cntp p (filter q l) + cntp p (filter (fun j => negb (q j)) l) = cntp p l.
Proof.
  induction l as [|x l IH]; simpl; [reflexivity|].
  rewrite cntp_cons. destruct (q x); simpl; rewrite ?cntp_cons; lia.
Qed.

Lemma cntp_filter_same c l : cntp (of_caller c) (filter (of_caller c) l) = cntp (of_caller c) l.
Proof. induction l as [|x l IH]; simpl; [reflexivity|]. destruct (of_caller c x) eqn:E; rewrite ?cntp_cons, ?E; lia. Qed.
Lemma cntp_filter_neg c l : cntp (of_caller c) (filter (fun j => negb (of_caller c j)) l) = 0.
Proof. induction l as [|x l IH]; simpl; [reflexivity|]. destruct (of_caller c x) eqn:E; simpl; rewrite ?cntp_cons, ?E; lia. Qed.
Lemma cntp_filter_other c c' l : c' <> c ->
  cntp (of_caller c') (filter (fun j => negb (of_caller c j)) l) = cntp (of_caller c') l.
Proof.
  intro H. induction l as [|x l IH]; simpl; [reflexivity|]. rewrite cntp_cons.
  destruct (of_caller c x) eqn:E; simpl; rewrite ?cntp_cons, IH.
  - unfold of_caller in *. apply Nat.eqb_eq in E. destruct (Nat.eqb_spec (fst x) c'); [congruence|lia].
  - reflexivity.
Qed.
Lemma length_filter_caller c l : length (filter (of_caller c) l) = cntc c l.
Proof. reflexivity. Qed.

Lemma job_eqb_eq a b : job_eqb a b = true <-> a = b.
Proof.
  unfold job_eqb. rewrite andb_true_iff, !Nat.eqb_eq. destruct a, b; simpl. split.
  - intros [-> ->]; reflexivity.
  - intro H; inversion H; auto.
Qed.
Lemma job_eqb_refl a : job_eqb a a = true. Proof. apply job_eqb_eq; reflexivity. Qed.

Lemma cntj_filter_caller j c l :
  cntj j (filter (of_caller c) l) = if Nat.eqb (fst j) c then cntj j l else 0.
Proof.
  unfold cntj. induction l as [|x l IH]; simpl; [destruct (fst j =? c); reflexivity|].
  destruct (of_caller c x) eqn:E; rewrite ?cntp_cons, IH; unfold of_caller in E.
  - destruct (Nat.eqb_spec (fst j) c); [reflexivity|].
    destruct (job_eqb j x) eqn:J; [|lia]. apply job_eqb_eq in J. subst x. apply Nat.eqb_eq in E. congruence.
  - destruct (Nat.eqb_spec (fst j) c); [|reflexivity].
    destruct (job_eqb j x) eqn:J; [|lia]. apply job_eqb_eq in J. subst x. apply Nat.eqb_neq in E. congruence.
Qed.
Lemma cntj_filter_notcaller j c l :
  cntj j (filter (fun x => negb (of_caller c x)) l) = if Nat.eqb (fst j) c then 0 else cntj j l.
Proof.
  pose proof (filter_filter_cnt (job_eqb j) (of_caller c) l) as H.
  fold (cntj j (filter (of_caller c) l)) in H. rewrite cntj_filter_caller in H.
  unfold cntj in *. destruct (fst j =? c); lia.
Qed.

Lemma cntc_zero_cntj j l : cntc (fst j) l = 0 -> cntj j l = 0.
Proof.
  unfold cntc, cntj. induction l as [|x l IH]; simpl; [reflexivity|]. rewrite !cntp_cons.
  destruct (job_eqb j x) eqn:J.
  - apply job_eqb_eq in J. subst x. unfold of_caller. rewrite Nat.eqb_refl. lia.
  - intro H. apply IH. lia.
Qed.

Lemma take_nth_cnt p k l j rest : take_nth k l = Some (j, rest) ->
  cntp p l = (if p j then 1 else 0) + cntp p rest /\ length l = S (length rest).
Proof.
  revert k j rest. induction l as [|x l IH]; intros k j rest H; simpl in H; [discriminate|].
  destruct k.
  - inversion H; subst. rewrite cntp_cons. simpl. lia.
  - destruct (take_nth k l) as [[y t']|] eqn:E; [|discriminate]. inversion H; subst.
    destruct (IH _ _ _ E) as [H1 H2]. rewrite !cntp_cons, H1. simpl. lia.
Qed.
Lemma take_nth_some k l : k < length l -> exists j rest, take_nth k l = Some (j, rest).
Proof.
  revert k. induction l as [|x l IH]; intros k H; simpl in H; [lia|]. destruct k; simpl.
  - eauto.
  - destruct (IH k) as [j [r E]]; [lia|]. rewrite E. eauto.
Qed.

Lemma upd_same {A} (f : nat -> A) c v : upd f c v c = v.
Proof. unfold upd. rewrite Nat.eqb_refl. reflexivity. Qed.
Lemma upd_other {A} (f : nat -> A) c v x : x <> c -> upd f c v x = f x.
Proof. unfold upd. intro H. apply Nat.eqb_neq in H. rewrite H. reflexivity. Qed.

(* ------------------------------------------------------------------ inverting a step *)

Ltac step_cases H :=
  repeat match type of H with
  | context [match ?x with _ => _ end] => destruct x eqn:?; try discriminate H
  end;
  inversion H; subst; clear H.
Ltac step_inv H := unfold step, wc in H; step_cases H.

(* ------------------------------------------------------------------ invariant A: control state *)

Definition is_done (p : spc) : bool :=
  match p with SWait | SRemoved | SRet => true | _ => false end.

(* [st] is the value of [stopped] *)
Record ACaller (cf : config) (st : bool) (c : nat) (k : caller) : Prop := {
  ac_nxt : c_nxt k <= njobs cf c;
  ac_lt : c_spc k = SCheck \/ c_spc k = SSelect -> c_nxt k < njobs cf c;
  ac_cancel : c_cancel k = true -> can_cancel cf c = true;
  ac_fail : c_spc k = SFail -> c_cancel k = true \/ st = true;
  ac_done : is_done (c_spc k) = true -> c_nxt k = njobs cf c \/ c_cancel k = true \/ st = true;
  ac_end : c_end k = true -> c_spc k = SRet;
  ac_exit : c_rpc k = RExit -> c_end k = true;
  ac_hand : c_rpc k <> RDeliv -> c_hand k = [];
  ac_own : Forall (fun j => fst j = c) (c_hand k) }.

Lemma ACaller_mono cf st st' c k : (st = true -> st' = true) -> ACaller cf st c k -> ACaller cf st' c k.
Proof. intros Hm [? ? ? ? ? ? ? ? ?]. constructor; auto; intro; intuition. Qed.

Record InvA (cf : config) (s : state) : Prop := {
  a_stopped : st_pc s <> StInit -> stopped s = true;
  a_canstop : stopped s = true -> can_stop cf = true;
  a_qclosed : qclosed s = true -> stopped s = true;
  a_qexit : q_pc s = QStopping \/ q_pc s = QExit -> st_pc s = StRet;
  a_final : p_final s = true <-> q_pc s = QExit;
  a_pexit : p_pc s = PExit -> p_final s = true /\ queue s = [];
  a_inputcap : length (input s) <= cap_in cf;
  a_tokens : length (running s) + returning s + idle s = active s /\ active s <= maxw cf;
  a_queue : queue s <> [] ->
            ntok s = true \/ p_pc s = PLoop \/ (exists j, p_pc s = PDo j) \/ q_pc s = QNotify;
  a_caller : forall c, ACaller cf (stopped s) c (callers s c) }.

Lemma invA_init cf : InvA cf init.
Proof.
  constructor; simpl; try solve [intuition (try congruence; try lia; try discriminate)].
  intro c. constructor; simpl; intuition (try congruence; try lia; try discriminate; try constructor).
Qed.

Ltac bool_hyps :=
  repeat match goal with
  | H : (_ <? _) = true |- _ => apply Nat.ltb_lt in H
  | H : (_ <? _) = false |- _ => apply Nat.ltb_ge in H
  | H : (_ || _) = true |- _ => apply orb_true_iff in H
  | H : (_ || _) = false |- _ => apply orb_false_iff in H; destruct H
  | H : (_ && _) = true |- _ => apply andb_true_iff in H; destruct H
  | H : negb _ = true |- _ => apply negb_true_iff in H
  end.

Lemma Forall_filter_caller c l : Forall (fun j : job => fst j = c) (filter (of_caller c) l).
Proof.
  apply Forall_forall. intros x Hx. apply filter_In in Hx as [_ Hx]. unfold of_caller in Hx.
  apply Nat.eqb_eq in Hx. exact Hx.
Qed.

Lemma take_nth_len k l j rest : take_nth k l = Some (j, rest) -> length l = S (length rest).
Proof. intro H. exact (proj2 (take_nth_cnt (fun _ => true) _ _ _ _ H)). Qed.

Ltac fin0 := intros; simpl in *; rewrite ?app_length in *; simpl in *;
  first [congruence | lia | discriminate | assumption | apply Forall_filter_caller
        | (eapply Forall_inv_tail; eassumption) | constructor; fail ].
Ltac fin := first [ assumption | solve [fin0]
  | solve [simpl in *; rewrite ?app_length in *; simpl in *;
           intuition (try congruence; try lia; eauto; try discriminate)] ].

(* expose the record of caller c (and its ACaller facts) before inverting a step *)
Ltac open_caller HC c :=
  let HK := fresh "HK" in
  pose proof (HC c) as HK;
  let Hk := fresh "Hk" in
  destruct (callers _ c) as [sp nx wg cn tk rp hd en] eqn:Hk;
  destruct HK as [Knxt Klt Kcan Kfail Kdone Kend Kexit Khand Kown]; simpl in *.

Ltac caller_goal HC :=
  let c' := fresh "c'" in
  intro c'; simpl;
  lazymatch goal with
  | |- ACaller _ _ _ (upd _ ?c _ c') =>
      unfold upd; destruct (Nat.eqb_spec c' c) as [->|?];
      [ clear HC; constructor; simpl; fin
      | (refine (ACaller_mono _ _ _ _ _ _ (HC c')); simpl; solve [auto | fin]) ]
  | |- _ => (refine (ACaller_mono _ _ _ _ _ _ (HC c')); simpl; solve [auto | fin])
  end.

Ltac invA_label HC :=
  match goal with
  | H : step _ _ ?l = Some _ |- _ =>
      unfold step, wc in H;
      match l with
      | LWRun _ => idtac
      | ?f ?c => open_caller HC c
      | _ => idtac
      end;
      step_cases H; bool_hyps
  end.

Lemma invA_step cf s l s' : InvA cf s -> step cf s l = Some s' -> InvA cf s'.
Proof.
  intros [Hst Hcs Hqc Hqe Hfi Hpe Hic Htk Hqu HC] H.
  destruct l; invA_label HC;
  try (match goal with H : take_nth _ _ = Some _ |- _ =>
         pose proof (take_nth_len _ _ _ _ H); open_caller HC (fst j) end);
  (constructor; simpl;
   [ clear Hcs Hqc Hqe Hfi Hpe Hic Htk Hqu HC; fin
   | clear Hst Hqc Hqe Hfi Hpe Hic Htk Hqu HC; fin
   | clear Hcs Hqe Hfi Hpe Hic Htk Hqu HC; fin
   | clear Hst Hcs Hqc Hfi Hpe Hic Htk Hqu HC; fin
   | clear Hst Hcs Hqc Hqe Hpe Hic Htk Hqu HC; fin
   | clear Hst Hcs Hqc Hqe Hic Htk Hqu HC; fin
   | clear Hst Hcs Hqc Hqe Hfi Hpe Htk Hqu HC; fin
   | clear Hst Hcs Hqc Hqe Hfi Hpe Hic Hqu HC; fin
   | clear Hst Hcs Hqc Hqe Hfi Hpe Hic Htk HC; fin
   | clear Hcs Hqe Hfi Hpe Hic Htk Hqu; caller_goal HC ]).
Qed.

Lemma invA_reachable cf s : reachable cf s -> InvA cf s.
Proof. induction 1; [apply invA_init | eapply invA_step; eauto]. Qed.
