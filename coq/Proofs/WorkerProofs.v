(* C14 - invariants of the worker-group transition system (Model/Worker.v), proved for every
   schedule by induction over the step relation, for all job counts, caller counts and worker
   counts >= 1. *)
From Verif Require Import Base.Util Model.Worker.
From Coq Require Import Arith PeanoNat ZifyBool.

(* ------------------------------------------------------------------ counting lemmas *)

Lemma cntp_nil p : cntp p [] = 0. Proof. reflexivity. Qed.
Lemma cntp_cons p x l : cntp p (x :: l) = Nat.b2n (p x) + cntp p l.
Proof. unfold cntp; simpl; destruct (p x); reflexivity. Qed.
Lemma cntp_app p l1 l2 : cntp p (l1 ++ l2) = cntp p l1 + cntp p l2.
Proof. unfold cntp; rewrite filter_app, app_length; reflexivity. Qed.
Lemma cntp_le p l : cntp p l <= length l.
Proof. unfold cntp; induction l; simpl; [lia|destruct (p a); simpl; lia]. Qed.

Lemma filter_filter_cnt (p q : job -> bool) l :
  cntp p (filter q l) + cntp p (filter (fun j => negb (q j)) l) = cntp p l.
Proof.
  induction l as [|x l IH]; simpl; [reflexivity|].
  rewrite cntp_cons. destruct (q x); simpl; rewrite ?cntp_cons; lia.
Qed.

Lemma cntp_filter_same c l : cntp (of_caller c) (filter (of_caller c) l) = cntp (of_caller c) l.
Proof. induction l as [|x l IH]; simpl; [reflexivity|]. destruct (of_caller c x) eqn:E; rewrite ?cntp_cons, ?E; lia. Qed.
Lemma cntp_filter_neg c l : cntp (of_caller c) (filter (fun j => negb (of_caller c j)) l) = 0.
Proof. induction l as [|x l IH]; simpl; [reflexivity|]. destruct (of_caller c x) eqn:E; simpl; rewrite ?cntp_cons, ?E; lia. Qed.
Lemma cntp_filter_other c c' l : c' <> c ->
  cntp (of_caller c') (filter (fun j => negb (of_caller c j)) l) = cntp (of_caller c') l.
Proof.
  intro H. induction l as [|x l IH]; simpl; [reflexivity|]. rewrite cntp_cons.
  destruct (of_caller c x) eqn:E; simpl; rewrite ?cntp_cons, IH.
  - unfold of_caller in *. apply Nat.eqb_eq in E. destruct (Nat.eqb_spec (fst x) c'); [congruence|lia].
  - reflexivity.
Qed.
Lemma length_filter_caller c l : length (filter (of_caller c) l) = cntc c l.
Proof. reflexivity. Qed.

Lemma job_eqb_eq a b : job_eqb a b = true <-> a = b.
Proof.
  unfold job_eqb. rewrite andb_true_iff, !Nat.eqb_eq. destruct a, b; simpl. split.
  - intros [-> ->]; reflexivity.
  - intro H; inversion H; auto.
Qed.
Lemma job_eqb_refl a : job_eqb a a = true. Proof. apply job_eqb_eq; reflexivity. Qed.

Lemma cntj_filter_caller j c l :
  cntj j (filter (of_caller c) l) = if Nat.eqb (fst j) c then cntj j l else 0.
Proof.
  unfold cntj. induction l as [|x l IH]; simpl; [destruct (fst j =? c); reflexivity|].
  destruct (of_caller c x) eqn:E; rewrite ?cntp_cons, IH; unfold of_caller in E.
  - destruct (Nat.eqb_spec (fst j) c); [reflexivity|].
    destruct (job_eqb j x) eqn:J; [|lia]. apply job_eqb_eq in J. subst x. apply Nat.eqb_eq in E. congruence.
  - destruct (Nat.eqb_spec (fst j) c); [|reflexivity].
    destruct (job_eqb j x) eqn:J; [|lia]. apply job_eqb_eq in J. subst x. apply Nat.eqb_neq in E. congruence.
Qed.
Lemma cntj_filter_notcaller j c l :
  cntj j (filter (fun x => negb (of_caller c x)) l) = if Nat.eqb (fst j) c then 0 else cntj j l.
Proof.
  pose proof (filter_filter_cnt (job_eqb j) (of_caller c) l) as H.
  fold (cntj j (filter (of_caller c) l)) in H. rewrite cntj_filter_caller in H.
  unfold cntj in *. destruct (fst j =? c); lia.
Qed.

Lemma cntc_zero_cntj j l : cntc (fst j) l = 0 -> cntj j l = 0.
Proof.
  unfold cntc, cntj. induction l as [|x l IH]; simpl; [reflexivity|]. rewrite !cntp_cons.
  destruct (job_eqb j x) eqn:J.
  - apply job_eqb_eq in J. subst x. unfold of_caller. rewrite Nat.eqb_refl. lia.
  - intro H. apply IH. lia.
Qed.

Lemma take_nth_cnt p k l j rest : take_nth k l = Some (j, rest) ->
  cntp p l = Nat.b2n (p j) + cntp p rest /\ length l = S (length rest).
Proof.
  revert k j rest. induction l as [|x l IH]; intros k j rest H; simpl in H; [discriminate|].
  destruct k.
  - inversion H; subst. rewrite cntp_cons. simpl. lia.
  - destruct (take_nth k l) as [[y t']|] eqn:E; [|discriminate]. inversion H; subst.
    destruct (IH _ _ _ E) as [H1 H2]. rewrite !cntp_cons, H1. simpl. lia.
Qed.
Lemma take_nth_some k l : k < length l -> exists j rest, take_nth k l = Some (j, rest).
Proof.
  revert k. induction l as [|x l IH]; intros k H; simpl in H; [lia|]. destruct k; simpl.
  - eauto.
  - destruct (IH k) as [j [r E]]; [lia|]. rewrite E. eauto.
Qed.

Lemma upd_same {A} (f : nat -> A) c v : upd f c v c = v.
Proof. unfold upd. rewrite Nat.eqb_refl. reflexivity. Qed.
Lemma upd_other {A} (f : nat -> A) c v x : x <> c -> upd f c v x = f x.
Proof. unfold upd. intro H. apply Nat.eqb_neq in H. rewrite H. reflexivity. Qed.

(* ------------------------------------------------------------------ inverting a step *)

Ltac step_cases H :=
  repeat match type of H with
  | context [match ?x with _ => _ end] => destruct x eqn:?; try discriminate H
  end;
  inversion H; subst; clear H.
Ltac step_inv H := unfold step, wc in H; step_cases H.

(* ------------------------------------------------------------------ boolean tests on program counters
   (invariants are phrased with these so that [lia] (with ZifyBool) decides every proof step) *)

Definition spc_eqb (a b : spc) : bool :=
  match a, b with
  | SLoop, SLoop | SCheck, SCheck | SSelect, SSelect | SFail, SFail | SWait, SWait
  | SRemoved, SRemoved | SRet, SRet => true | _, _ => false end.
Definition rpc_eqb (a b : rpc) : bool :=
  match a, b with RSel, RSel | RGot, RGot | RDeliv, RDeliv | RExit, RExit => true | _, _ => false end.
Definition stpc_eqb (a b : stpc) : bool :=
  match a, b with StInit, StInit | St1, St1 | St2, St2 | StRet, StRet => true | _, _ => false end.
Definition q_sel p := match p with QSel => true | _ => false end.
Definition q_got p := match p with QGot _ => true | _ => false end.
Definition q_notify p := match p with QNotify => true | _ => false end.
Definition q_stopping p := match p with QStopping => true | _ => false end.
Definition q_exit p := match p with QExit => true | _ => false end.
Definition p_sel p := match p with PSel => true | _ => false end.
Definition p_loop p := match p with PLoop => true | _ => false end.
Definition p_do p := match p with PDo _ => true | _ => false end.
Definition p_exit p := match p with PExit => true | _ => false end.

Lemma spc_eqb_eq a b : spc_eqb a b = true <-> a = b.
Proof. destruct a, b; simpl; split; intro H; try reflexivity; discriminate. Qed.
Lemma rpc_eqb_eq a b : rpc_eqb a b = true <-> a = b.
Proof. destruct a, b; simpl; split; intro H; try reflexivity; discriminate. Qed.
Lemma stpc_eqb_eq a b : stpc_eqb a b = true <-> a = b.
Proof. destruct a, b; simpl; split; intro H; try reflexivity; discriminate. Qed.

Definition is_done (p : spc) : bool :=
  match p with SWait | SRemoved | SRet => true | _ => false end.
Definition in_do (p : spc) : bool :=
  match p with SCheck | SSelect => true | _ => false end.

(* ------------------------------------------------------------------ invariant A: control state *)

(* [st] is the value of [stopped] *)
Record ACaller (cf : config) (st : bool) (c : nat) (k : caller) : Prop := {
  ac_nxt : c_nxt k <= njobs cf c;
  ac_lt : in_do (c_spc k) = true -> c_nxt k < njobs cf c;
  ac_cancel : c_cancel k = true -> can_cancel cf c = true;
  ac_fail : spc_eqb (c_spc k) SFail = true -> c_cancel k = true \/ st = true;
  ac_done : is_done (c_spc k) = true -> c_nxt k = njobs cf c \/ c_cancel k = true \/ st = true;
  ac_end : c_end k = true -> spc_eqb (c_spc k) SRet = true;
  ac_exit : rpc_eqb (c_rpc k) RExit = true -> c_end k = true;
  ac_hand : rpc_eqb (c_rpc k) RDeliv = false -> length (c_hand k) = 0;
  ac_own : Forall (fun j => fst j = c) (c_hand k) }.

Lemma ACaller_mono cf st st' c k : (st = true -> st' = true) -> ACaller cf st c k -> ACaller cf st' c k.
Proof.
  intros Hm [H1 H2 H3 H4 H5 H6 H7 H8 H9]. constructor; auto.
  - intro X. destruct (H4 X); auto.
  - intro X. destruct (H5 X) as [?|[?|?]]; auto.
Qed.

Record InvA (cf : config) (s : state) : Prop := {
  a_stopped : stpc_eqb (st_pc s) StInit = false -> stopped s = true;
  a_canstop : stopped s = true -> can_stop cf = true;
  a_qclosed : qclosed s = true -> stopped s = true;
  a_qexit : q_stopping (q_pc s) = true \/ q_exit (q_pc s) = true -> stpc_eqb (st_pc s) StRet = true;
  a_final : p_final s = q_exit (q_pc s);
  a_pexit : p_exit (p_pc s) = true -> p_final s = true /\ length (queue s) = 0;
  a_inputcap : length (input s) <= cap_in cf;
  a_tokens : length (running s) + returning s + idle s = active s /\ active s <= maxw cf;
  a_queue : 0 < length (queue s) ->
            ntok s = true \/ p_loop (p_pc s) = true \/ p_do (p_pc s) = true \/ q_notify (q_pc s) = true;
  a_stret : stpc_eqb (st_pc s) StRet = true -> q_stopping (q_pc s) = true \/ q_exit (q_pc s) = true;
  a_finalp : p_final s = true -> p_sel (p_pc s) = false;
  a_caller : forall c, ACaller cf (stopped s) c (callers s c) }.

Lemma invA_init cf : InvA cf init.
Proof.
  constructor; simpl; try lia.
  intro c. constructor; simpl; try lia. constructor.
Qed.

Ltac bool_hyps :=
  repeat match goal with
  | H : (_ <? _) = true |- _ => apply Nat.ltb_lt in H
  | H : (_ <? _) = false |- _ => apply Nat.ltb_ge in H
  end.

Lemma Forall_filter_caller c l : Forall (fun j : job => fst j = c) (filter (of_caller c) l).
Proof.
  apply Forall_forall. intros x Hx. apply filter_In in Hx as [_ Hx]. unfold of_caller in Hx.
  apply Nat.eqb_eq in Hx. exact Hx.
Qed.

Lemma take_nth_len k l j rest : take_nth k l = Some (j, rest) -> length l = S (length rest).
Proof. intro H. exact (proj2 (take_nth_cnt (fun _ => true) _ _ _ _ H)). Qed.

Ltac tidy := repeat match goal with
  | H : false = true -> _ |- _ => clear H
  | H : true = false -> _ |- _ => clear H
  | H : true = true -> _ |- _ => specialize (H eq_refl)
  | H : false = false -> _ |- _ => specialize (H eq_refl)
  | H : false = true \/ false = true -> _ |- _ => clear H
  | H : true = true \/ _ -> _ |- _ => specialize (H (or_introl eq_refl))
  | H : _ \/ true = true -> _ |- _ => specialize (H (or_intror eq_refl))
  | H : _ /\ _ |- _ => destruct H
  | H : ?x = ?x |- _ => clear H
  | H : false = true |- _ => discriminate H
  | H : true = false |- _ => discriminate H
  | H : _ = mkCaller _ _ _ _ _ _ _ _ |- _ => clear H
  | H : length ?l = 0 |- _ => is_var l; destruct l; [clear H | discriminate H]
  | |- true = true -> _ => intros _
  | |- false = false -> _ => intros _
  | |- false = true -> _ => let X := fresh in intro X; discriminate X
  | |- true = false -> _ => let X := fresh in intro X; discriminate X
  end.

Ltac rw_eqs := repeat match goal with
  | H : ?l = ?r |- _ =>
      lazymatch l with
      | queue _ => idtac | input _ => idtac | p_final _ => idtac | q_pc _ => idtac | p_pc _ => idtac
      | st_pc _ => idtac | idle _ => idtac | returning _ => idtac | ntok _ => idtac | stopped _ => idtac
      | can_stop _ => idtac | qclosed _ => idtac | can_cancel _ _ => idtac
      end; rewrite H in *; clear H
  end.

Ltac fin := first
  [ assumption
  | solve [simpl in *; rw_eqs; rewrite ?app_length in *; simpl in *;
           repeat (match goal with |- context [if ?b then _ else _] => destruct b eqn:? end; simpl in *);
           tidy;
           first [assumption | reflexivity | solve [auto 3]
                 | solve [repeat match goal with H : _ -> _ |- _ => clear H end; lia] | lia]]
  | apply Forall_filter_caller
  | solve [eapply Forall_inv_tail; eassumption]
  | solve [constructor] ].

(* expose the record of caller c (and its ACaller facts) before inverting a step *)
Ltac open_caller HC c :=
  let HK := fresh "HK" in
  pose proof (HC c) as HK;
  let Hk := fresh "Hk" in
  destruct (callers _ c) as [sp nx wg cn tk rp hd en] eqn:Hk;
  destruct HK as [Knxt Klt Kcan Kfail Kdone Kend Kexit Khand Kown]; simpl in *.

Ltac caller_goal HC :=
  let c' := fresh "c'" in
  intro c'; simpl;
  lazymatch goal with
  | |- ACaller _ _ _ (upd _ ?c _ c') =>
      unfold upd; destruct (Nat.eqb_spec c' c) as [->|?];
      [ try open_caller HC c; clear HC; constructor; simpl; fin
      | (refine (ACaller_mono _ _ _ _ _ _ (HC c')); simpl; solve [auto | fin]) ]
  | |- _ => (refine (ACaller_mono _ _ _ _ _ _ (HC c')); simpl; solve [auto | fin])
  end.

Ltac open_label HC :=
  match goal with
  | H : step _ _ ?l = Some _ |- _ =>
      unfold step, wc in H;
      match l with
      | LWRun _ => idtac
      | ?f ?c => open_caller HC c
      | _ => idtac
      end;
      step_cases H; bool_hyps
  end.

Lemma invA_step cf s l s' : InvA cf s -> step cf s l = Some s' -> InvA cf s'.
Proof.
  intros [Hst Hcs Hqc Hqe Hfi Hpe Hic Htk Hqu Hsr Hfp HC] H.
  destruct l; open_label HC;
  try (match goal with H : take_nth _ _ = Some _ |- _ => pose proof (take_nth_len _ _ _ _ H) end);
  (constructor; simpl;
   [ clear Hcs Hqc Hqe Hfi Hpe Hic Htk Hqu HC Hsr Hfp; fin
   | clear Hst Hqc Hqe Hfi Hpe Hic Htk Hqu HC Hsr Hfp; fin
   | clear Hcs Hqe Hfi Hpe Hic Htk Hqu HC Hsr Hfp; fin
   | clear Hst Hcs Hqc Hfi Hpe Hic Htk Hqu HC Hsr Hfp; fin
   | clear Hst Hcs Hqc Hqe Hpe Hic Htk Hqu HC Hsr Hfp; fin
   | clear Hst Hcs Hqc Hqe Hic Htk Hqu HC Hsr Hfp; fin
   | clear Hst Hcs Hqc Hqe Hfi Hpe Htk Hqu HC Hsr Hfp; fin
   | clear Hst Hcs Hqc Hqe Hfi Hpe Hic Hqu HC Hsr Hfp; fin
   | clear Hst Hcs Hqc Hqe Hfi Hpe Hic Htk HC Hsr Hfp; fin
   | clear Hst Hcs Hqc Hqe Hfi Hpe Hic Htk Hqu HC Hfp; fin
   | clear Hst Hcs Hqc Hqe Hpe Hic Htk Hqu HC Hsr; fin
   | clear Hcs Hqe Hfi Hpe Hic Htk Hqu Hsr Hfp; caller_goal HC ]).
Qed.

Lemma invA_reachable cf s : reachable cf s -> InvA cf s.
Proof. induction 1; [apply invA_init | eapply invA_step; eauto]. Qed.

(* ------------------------------------------------------------------ invariant B: every job is in exactly one place *)

Definition qheld (s : state) : list job := match q_pc s with QGot j => [j] | _ => [] end.
Definition pheld (s : state) : list job := match p_pc s with PDo j => [j] | _ => [] end.
(* accepted jobs whose result is not stored yet *)
Definition inflight (s : state) : list job := input s ++ qheld s ++ queue s ++ pheld s ++ running s.
Definition pend (p : spc) : nat := match p with SCheck | SSelect | SFail => 1 | _ => 0 end.

Record BCaller (s : state) (c : nat) (k : caller) : Prop := {
  bc_wg : c_wg k = cntc c (inflight s) + cntc c (res s) + length (c_hand k) + pend (c_spc k);
  bc_tok : 0 < cntc c (res s) -> c_tok k = true \/ rpc_eqb (c_rpc k) RGot = true;
  bc_zero : spc_eqb (c_spc k) SRemoved = true \/ spc_eqb (c_spc k) SRet = true -> c_wg k = 0 }.

Record InvB (cf : config) (s : state) : Prop := {
  b_err : err s = false;
  b_caller : forall c, BCaller s c (callers s c);
  b_job : forall j, cntj j (inflight s) + cntj j (res s) + cntj j (c_hand (callers s (fst j))) + cntj j (deliv s)
                    = Nat.b2n (snd j <? c_nxt (callers s (fst j))) }.

Lemma invB_init cf : InvB cf init.
Proof. constructor; simpl; [reflexivity | intro c; constructor; unfold cntc, cntp; simpl; lia | intro j; reflexivity]. Qed.

Lemma length_filter_cntp p l : length (filter p l) = cntp p l. Proof. reflexivity. Qed.

Lemma cntpj_filter_caller j c l :
  cntp (job_eqb j) (filter (of_caller c) l) = if Nat.eqb (fst j) c then cntp (job_eqb j) l else 0.
Proof. exact (cntj_filter_caller j c l). Qed.
Lemma cntpj_filter_notcaller j c l :
  cntp (job_eqb j) (filter (fun x => negb (of_caller c x)) l) = if Nat.eqb (fst j) c then 0 else cntp (job_eqb j) l.
Proof. exact (cntj_filter_notcaller j c l). Qed.
Lemma cntpc_zero_cntpj c a l : cntp (of_caller c) l = 0 -> cntp (job_eqb (c, a)) l = 0.
Proof. intro H. apply (cntc_zero_cntj (c, a)). exact H. Qed.

Ltac cs :=
  unfold inflight, qheld, pheld, cntj, cntc in *; simpl in *; rw_eqs; simpl in *;
  repeat match goal with
  | H : take_nth _ (running _) = Some _ |- _ =>
      let E := fresh in
      match goal with
      | |- context [cntp ?P _] => pose proof (proj1 (take_nth_cnt P _ _ _ _ H)) as E; revert E
      end; clear H
  end; intros;
  repeat match goal with N : ?c' <> ?c |- _ =>
    progress (rewrite ?(cntp_filter_other c c' _ N), ?(proj2 (Nat.eqb_neq c' c) N) in * ) end;
  repeat (progress (rewrite ?cntp_app, ?cntp_cons, ?cntp_nil, ?app_length, ?length_filter_cntp, ?cntp_filter_same,
          ?cntp_filter_neg, ?cntpj_filter_caller, ?cntpj_filter_notcaller, ?Nat.eqb_refl in *));
  simpl in *;
  repeat match goal with N : ?c' <> ?c |- _ =>
    progress (rewrite ?(proj2 (Nat.eqb_neq c' c) N) in * ) end;
  simpl in *.

Ltac finB := first
  [ assumption
  | solve [cs; tidy; rewrite ?cntp_nil in *; unfold job_eqb, of_caller in *; simpl in *; rewrite ?Nat.eqb_refl in *; simpl in *;
           first [assumption | reflexivity | solve [auto 4]
                 | solve [repeat match goal with H : _ -> _ |- _ => clear H end; lia] | lia]] ].

Ltac open_labelB HB HC :=
  match goal with
  | H : step _ _ ?l = Some _ |- _ =>
      unfold step, wc in H;
      match l with
      | LWRun _ => idtac
      | ?f ?c => let HB1 := fresh "HB1" in pose proof (HB c) as HB1; open_caller HC c;
                 destruct HB1 as [Bwg Btok Bzero]; simpl in *
      | _ => idtac
      end;
      step_cases H; bool_hyps
  end.

Ltac callerB_other HB c' :=
  let X := fresh "X" in pose proof (HB c') as X; destruct X as [Xwg Xtok Xzero];
  constructor; simpl; finB.

Ltac caller_goalB HB :=
  let c' := fresh "c'" in
  intro c'; simpl;
  lazymatch goal with
  | |- BCaller _ _ (upd _ ?c _ c') =>
      unfold upd; destruct (Nat.eqb_spec c' c) as [->|?];
      [ lazymatch goal with
        | Hk : callers _ c = _ |- _ => idtac
        | |- _ => let X := fresh "X" in pose proof (HB c) as X; destruct X as [Xwg Xtok Xzero]
        end; constructor; simpl; finB
      | callerB_other HB c' ]
  | |- _ => callerB_other HB c'
  end.

Ltac job_goalB Hjob :=
  let a := fresh "a" in let b := fresh "b" in let J := fresh "J" in
  intros [a b]; pose proof (Hjob (a, b)) as J; simpl in J |- *;
  repeat match goal with K : Forall _ (_ :: _) |- _ => pose proof (Forall_inv K); clear K end;
  lazymatch goal with
  | |- context [upd _ ?c _ a] =>
      unfold upd; destruct (Nat.eqb_spec a c) as [->|?];
      [ repeat match goal with Hk : callers _ _ = mkCaller _ _ _ _ _ _ _ _ |- _ => rewrite Hk in J end | ]
  | |- _ => idtac
  end;
  simpl in J |- *;
  try match goal with
  | |- context [cntj (?c, ?b) (filter _ (res ?s))] => pose proof (cntpc_zero_cntpj c b (res s))
  end;
  finB.

Lemma invB_step cf s l s' : InvA cf s -> InvB cf s -> step cf s l = Some s' -> InvB cf s'.
Proof.
  intros HA [Herr HB Hjob] H. pose proof (a_caller _ _ HA) as HC. clear HA.
  destruct l; open_labelB HB HC;
  (constructor; simpl; [ finB | caller_goalB HB | job_goalB Hjob ]).
Qed.

Lemma invB_reachable cf s : reachable cf s -> InvB cf s.
Proof.
  induction 1; [apply invB_init|]. eapply invB_step; eauto. apply invA_reachable; assumption.
Qed.

(* ------------------------------------------------------------------ terminal states *)

Lemma terminal_none cf s l : terminal cf s -> In l (all_labels cf s) -> step cf s l = None.
Proof.
  unfold terminal, enabled. intros H Hin.
  destruct (step cf s l) eqn:E; [|reflexivity].
  assert (In l (filter (fun l => is_some (step cf s l)) (all_labels cf s))) as X.
  { apply filter_In. split; [exact Hin|]. rewrite E. reflexivity. }
  rewrite H in X. destruct X.
Qed.

Lemma in_caller_label cf s c l : c < ncallers cf -> In l (caller_labels c) -> In l (all_labels cf s).
Proof.
  intros Hc Hl. unfold all_labels. apply in_or_app. left. apply in_flat_map. exists c. split; [|exact Hl].
  apply in_seq. lia.
Qed.
Lemma in_global_label cf s l : In l global_labels -> In l (all_labels cf s).
Proof. intro H. unfold all_labels. apply in_or_app. right. apply in_or_app. left. exact H. Qed.
Lemma in_wrun_label cf s k : k < length (running s) -> In (LWRun k) (all_labels cf s).
Proof.
  intro H. unfold all_labels. apply in_or_app. right. apply in_or_app. right.
  apply in_map. apply in_seq. lia.
Qed.

(* every label that can fire is listed: [enabled] is complete *)
Lemma all_labels_complete cf s l s' : step cf s l = Some s' -> In l (all_labels cf s).
Proof.
  intro H.
  destruct l;
  try (apply in_global_label; simpl; tauto);
  try (unfold step, wc in H; destruct (c <? ncallers cf) eqn:E; [|discriminate];
       apply Nat.ltb_lt in E; apply (in_caller_label cf s c _ E); simpl; tauto).
  apply in_wrun_label. simpl in H.
  destruct (take_nth k (running s)) as [[j r]|] eqn:E; [|discriminate].
  clear H. revert k j r E. induction (running s) as [|x t IH]; intros k j r E; simpl in E; [discriminate|].
  destruct k; simpl; [lia|].
  destruct (take_nth k t) as [[y t']|] eqn:E2; [|discriminate]. specialize (IH _ _ _ E2). lia.
Qed.

Lemma terminal_iff cf s : terminal cf s <-> forall l, step cf s l = None.
Proof.
  split.
  - intros H l. destruct (step cf s l) eqn:E; [|reflexivity].
    rewrite <- E. apply terminal_none; [exact H|]. eapply all_labels_complete; eauto.
  - intro H. unfold terminal, enabled. induction (all_labels cf s) as [|l t IH]; simpl; [reflexivity|].
    rewrite H. simpl. exact IH.
Qed.
