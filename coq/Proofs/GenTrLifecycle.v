(* Service life-cycle: the transitions of the recoverer model (Model/Lifecycle.v, repaired code = cfg_new) follow the
   decisions of pkg/v3/service/recoverable.go as /verif/gen translated them from /repo's current source. *)
From Coq Require Import ZArith Bool List Lia.
From Verif Require Import Base.GenIR Gen.GeneratedTr Model.Lifecycle.
Import ListNotations.
Open Scope Z_scope.

(* ---------------- recoverer.Start (thread T) ---------------- *)
(* running.CompareAndSwap(false, true) succeeds exactly when running was false *)
Lemma gen_rec_start_begin : forall k s c, s_t s = TNew ->
  step (cfg_new k) s TBegin =
  match g_rec_start (negb (s_running s)) c with
  | ([], RetO 1) => Some (w_t s (TRet RAlready))            (* already started: nothing written *)
  | _ => Some (w_t (w_running s true) TChk)                 (* running set; closed is read next *)
  end.
Proof. intros k s c H. unfold step, g_rec_start. rewrite H. cbn. destruct (s_running s), c; reflexivity. Qed.

(* after a successful swap: a recoverer already closed resets running (1) and refuses; otherwise the service
   goroutine is launched (2) and the watcher loop entered (3) *)
Lemma gen_rec_start_check : forall k s, s_t s = TChk ->
  step (cfg_new k) s TCheck =
  match g_rec_start true (s_closed s) with
  | ([1], RetO 2) => Some (w_t (w_running s false) (TRet RClosed))
  | ([2; 3], RetO 0) => Some (w_t s TSpawn)
  | _ => None
  end.
Proof. intros k s H. unfold step, g_rec_start. rewrite H. cbn. destruct (s_closed s); reflexivity. Qed.

Lemma gen_rec_start_launch : forall k s, s_t s = TSpawn ->
  step (cfg_new k) s TLaunch = Some (launch s TSel).
Proof. intros k s H. unfold step. rewrite H. reflexivity. Qed.

(* ---------------- recoverer.Close (thread C) ---------------- *)
(* closed is set first on every path (1); a recoverer that is not running returns ErrServiceNotRunning without
   touching the service; otherwise service.Close (2) and then the close signal (3) *)
Lemma gen_rec_close : forall k s,
  (forall r, hd 0 (fst (g_rec_close r)) = 1) /\
  (s_c s = CIdle -> step (cfg_new k) s ECall = Some (w_c s CMark)) /\
  (s_c s = CMark -> step (cfg_new k) s CMarkL = Some (w_c (w_closed s true) CRead)) /\
  (s_c s = CRead ->
   step (cfg_new k) s CReadL =
   match g_rec_close (s_running s) with
   | ([1], RetO 1) => Some (w_c s (CRet CNotRunning))
   | ([1; 2; 3], RetO 2) => Some (w_c s CSvc)
   | _ => None
   end) /\
  (forall r, s_c s = CSig r -> step (cfg_new k) s CSigL = Some (w_c (w_chclose s true) (CRet r))).
Proof.
  intros k s. repeat split.
  - intros r. destruct r; reflexivity.
  - intros H. unfold step. rewrite H. reflexivity.
  - intros H. unfold step. rewrite H. reflexivity.
  - intros H. unfold step, g_rec_close. rewrite H. destruct (s_running s); reflexivity.
  - intros r H. unfold step. rewrite H. reflexivity.
Qed.

(* ---------------- recoverer.serviceStart (thread T, watcher loop) ---------------- *)
Definition msg_is_err (m : msg) : bool := match m with MNil => false | _ => true end.
Definition msg_is_panic (m : msg) : bool := match m with MStopped => true | _ => false end.

(* a result taken from `stopped`: nil and ordinary errors leave the loop running; a recovered panic starts the
   cool-down *)
Lemma gen_rec_watch_result : forall k s m c1 c2, s_t s = TSel -> s_buf s = Some m -> m <> MCancel ->
  step (cfg_new k) s TRecv =
  match g_rec_watch_body true c1 (msg_is_err m) (msg_is_panic m) c2 false, msg_is_panic m with
  | ([], Fall), false => Some (w_t (w_buf s None) TSel)
  | _, true => Some (w_t (w_buf s None) TCool)
  | _, _ => None
  end.
Proof.
  intros k s m c1 c2 Ht Hb Hm. unfold step, g_rec_watch_body. rewrite Ht, Hb.
  destruct m; cbn; try reflexivity; try (exfalso; apply Hm; reflexivity); destruct c2; reflexivity.
Qed.

(* the cool-down ends by the timer or by the close signal; either way closed is read again: a closed recoverer
   resets running (1) and returns, otherwise the service goroutine is launched again (2) *)
Lemma gen_rec_watch_cooldown : forall k s cooled c1, s_t s = TReChk ->
  step (cfg_new k) s TReCheck =
  match g_rec_watch_body true c1 true true cooled (s_closed s) with
  | ([1], RetU) => Some (w_t (w_running s false) (TRet RNil))
  | ([2], Fall) => Some (w_t s TRespawn)
  | _ => None
  end.
Proof. intros k s cooled c1 H. unfold step, g_rec_watch_body. rewrite H. destruct cooled, (s_closed s); reflexivity. Qed.

Lemma gen_rec_watch_cooldown_ends : forall k s, s_t s = TCool ->
  step (cfg_new k) s TTimer = Some (w_t s TReChk) /\
  step (cfg_new k) s TCoolClose = (if s_chclose s then Some (w_t s TReChk) else None) /\
  (forall s', s_t s' = TRespawn -> step (cfg_new k) s' TRelaunch = Some (launch s' TSel)).
Proof.
  intros k s H. repeat split; unfold step; try rewrite H; cbn; try reflexivity.
  intros s' H'. rewrite H'. reflexivity.
Qed.

(* the close signal (or a cancelled context) ends the loop: running is reset (1) and the function returns *)
Lemma gen_rec_watch_close : forall k s c3 c4 c5 c6, s_t s = TSel ->
  step (cfg_new k) s TExit =
  if s_chclose s
  then match g_rec_watch_body false true c3 c4 c5 c6 with
       | ([1], RetU) => Some (w_t (w_running s false) (TRet RNil))
       | _ => None
       end
  else None.
Proof. intros k s c3 c4 c5 c6 H. unfold step, g_rec_watch_body. rewrite H. cbn. destruct (s_chclose s); reflexivity. Qed.

(* ---------------- recoverableStart (thread G) ---------------- *)
(* service.Start runs (1) and its result is sent to `stopped` (2) whatever it is; a panic is recovered and reported
   as errServiceStopped (1 of the deferred function) *)
Lemma gen_rec_run : forall l e,
  g_rec_run l e = ([1; 2], Fall) /\ g_rec_run_recover l true = ([1], Fall) /\ g_rec_run_recover l false = ([], Fall).
Proof. intros l e. repeat split; destruct l, e; reflexivity. Qed.

Lemma gen_rec_run_model : forall k s, s_g s = GActive -> e_preq s = true ->
  exists s', step (cfg_new k) s GPanic = Some s' /\ s_g s' = GSend MStopped.
Proof.
  intros k s Hg Hp. unfold step. rewrite Hg, Hp. eexists. split; [reflexivity|]. destruct k; reflexivity.
Qed.

(* ---------------- timeTicker: the start-once / stop-once service kind (KOnce) ---------------- *)
(* Start: StartOnce refuses a second start with an error and nothing else happens; the first start registers its
   clean-up (1 done channel, 2/3 stop context, 4/5 ticker) and enters the loop (6) *)
Lemma gen_ticker_start_once : forall s, s_g s = GLaunched ->
  exists s1, step (cfg_new KOnce) s GEnter = Some s1 /\
  match g_ticker_start (v_started s) with
  | ([], RetO 1) => s_g s1 = GSend MErr /\ v_started s1 = v_started s
  | ([1; 2; 3; 4; 5; 6], Fall) => s_g s1 = GActive /\ v_started s1 = true
  | _ => False
  end.
Proof.
  intros s H. unfold step. rewrite H. cbn. destruct (v_started s) eqn:E; eexists; (split; [reflexivity|]); cbn; auto.
Qed.

(* the loop: a stop request ends Start with nil; a tick without getter or with a getter error is skipped; otherwise
   the tick is fetched (1) and processed on its own goroutine (2) *)
Lemma gen_ticker_loop : forall s a b, s_g s = GActive ->
  g_ticker_loop_body true a b = ([], RetO 0) /\
  step (cfg_new KOnce) s GStop = (if v_stopreq s then Some (w_g s (GSend MNil)) else None) /\
  g_ticker_loop_body false true b = ([], Fall) /\ g_ticker_loop_body false false true = ([1], Fall) /\
  g_ticker_loop_body false false false = ([1; 2], Fall) /\ (forall e, g_ticker_process e = ([1], Fall)).
Proof.
  intros s a b H. repeat split; try (destruct a, b; reflexivity); try (destruct b; reflexivity).
  - unfold step. rewrite H. reflexivity.
  - intros e. destruct e; reflexivity.
Qed.

(* Close (inside StopOnce): signal the stop channel (1), then wait for Start to return (2) - the model's CSvcL / CWaitL *)
Lemma gen_ticker_close : forall s, s_c s = CSvc -> v_started s = true -> v_stopped s = false ->
  g_ticker_close = ([1; 2], RetO 0) /\
  exists s1, step (cfg_new KOnce) s CSvcL = Some s1 /\ v_stopreq s1 = true /\ v_stopped s1 = true /\ s_c s1 = CWait CNil /\
  (g_active (s_g s1) = true -> step (cfg_new KOnce) s1 CWaitL = None).
Proof.
  intros s Hc Hs Hp. split; [reflexivity|]. unfold step at 1. rewrite Hc. cbn. rewrite Hs, Hp. cbn.
  eexists. split; [reflexivity|]. cbn. repeat split. intros Ha. unfold step. cbn. rewrite Ha. reflexivity.
Qed.

(* the result store (kind KSticky): nothing Start does before its loop reads the close channel (derived context 1-2,
   ticker 3-4, loop 5); the loop runs the collector on a tick (1), ends with nil when the context is done, and on a
   close request acknowledges it (2) and ends with nil; Close deposits the request (1) and returns nil whether or not
   a Start is executing.  In the model, a KSticky service entered with a request pending returns nil at once and the
   request is consumed; otherwise it becomes active, and an active one that sees a request ends with nil *)
Lemma gen_rs_sticky : forall s, s_g s = GLaunched ->
  g_rs_start = ([1; 2; 3; 4; 5], Fall) /\ g_rs_close = ([1], RetO 0) /\
  g_rs_loop_body true false false = ([1], Fall) /\ g_rs_loop_body false true false = ([], RetO 0) /\
  g_rs_loop_body false false true = ([2], RetO 0) /\
  exists s1, step (cfg_new KSticky) s GEnter = Some s1 /\ v_started s1 = true /\ v_stopreq s1 = false /\
    s_g s1 = (if v_stopreq s then GSend MNil else GActive).
Proof.
  intros s H.
  split; [reflexivity|]. split; [reflexivity|]. split; [reflexivity|]. split; [reflexivity|]. split; [reflexivity|].
  unfold step. rewrite H. cbn. destruct (v_stopreq s) eqn:E; eexists; (split; [reflexivity|]); cbn; auto.
Qed.

Lemma gen_rs_stop : forall s, s_g s = GActive -> v_stopreq s = true ->
  exists s1, step (cfg_new KSticky) s GStop = Some s1 /\ s_g s1 = GSend MNil /\ v_stopreq s1 = false.
Proof.
  intros s H R. unfold step. rewrite H, R. cbn. eexists. split; [reflexivity|]. cbn. auto.
Qed.

(* the metadata store is flag based: Start refuses while running (else sets the flag, 1, and loops, 2); the loop stores
   every delivered block history (1), ends through Close when its context is done and with nil on a stop request;
   Close refuses while the flag is clear - the model's refusal of a start-once service that is not running, the
   known finding close_before_service_start - and otherwise gives the block subscription back (1; an error is passed
   on), signals the loop (2) and clears the flag (3), the model's stop request *)
Lemma gen_ms_lifecycle :
  g_ms_start true = ([], RetO 1) /\ g_ms_start false = ([1; 2], Fall) /\
  g_ms_loop_body true false false = ([1], Fall) /\ g_ms_loop_body false true false = ([], RetO 2) /\
  g_ms_loop_body false false true = ([], RetO 0).
Proof.
  split; [reflexivity|]. split; [reflexivity|]. split; [reflexivity|]. split; reflexivity.
Qed.

Lemma gen_ms_close : forall s e, s_c s = CSvc ->
  exists s1, step (cfg_new KOnce) s CSvcL = Some s1 /\
  match g_ms_close (negb (v_started s && negb (v_stopped s))) (v_started s && negb (v_stopped s)) e with
  | ([], RetO 1) => s_c s1 = CSig CSvcErr /\ v_stopreq s1 = v_stopreq s
  | ([1], RetO 2) => e = true /\ v_started s = true
  | ([1; 2; 3], RetO 0) => s_c s1 = CWait CNil /\ v_stopreq s1 = true /\ v_stopped s1 = true
  | _ => False
  end.
Proof.
  intros s e H. unfold step. rewrite H. cbn.
  destruct (v_started s) eqn:E1; destruct (v_stopped s) eqn:E2; destruct e; cbn;
    eexists; (split; [reflexivity|]); cbn; auto.
Qed.

(* the coordinator is a start-once service (KOnce), like the tickers: a refused StartOnce is returned as the error,
   otherwise the two cache collectors are launched (1, 2) and the polling loop runs on Start's own goroutine (3) *)
Lemma gen_coord_start_once : forall s, s_g s = GLaunched ->
  exists s1, step (cfg_new KOnce) s GEnter = Some s1 /\
  match g_coord_start (v_started s) with
  | ([], RetO 1) => s_g s1 = GSend MErr /\ v_started s1 = v_started s
  | ([1; 2; 3], RetO 0) => s_g s1 = GActive /\ v_started s1 = true
  | _ => False
  end.
Proof.
  intros s H. unfold step. rewrite H. cbn. destruct (v_started s) eqn:E; eexists; (split; [reflexivity|]); cbn; auto.
Qed.

(* run: `done` is closed when run returns (1), the timer (2, 3) and the stop context (4, 5) are set up, then the loop
   (6).  The loop ends on a stop request; a tick polls the event provider (1) and re-arms the timer - at once (2) when
   the poll took longer than the cadence, else for the rest of the cadence (3) - whether or not the poll failed,
   unless the stop request arrived during the poll, which ends the run *)
Lemma gen_coord_run : forall p m t c,
  g_coord_run = ([1; 2; 3; 4; 5; 6], Fall) /\
  g_coord_run_body false true p m t c = ([], RetU) /\
  g_coord_run_body true false true true t c = ([1], RetU) /\
  ((t > c)%Z -> g_coord_run_body true false p false t c = ([1; 2], Fall)) /\
  ((t <= c)%Z -> g_coord_run_body true false p false t c = ([1; 3], Fall)) /\
  ((t > c)%Z -> g_coord_run_body true false false m t c = ([1; 2], Fall)) /\
  ((t <= c)%Z -> g_coord_run_body true false false m t c = ([1; 3], Fall)).
Proof.
  intros p m t c.
  split; [reflexivity|]. split; [reflexivity|]. split; [reflexivity|].
  split; [intros H; unfold g_coord_run_body; destruct p; gen_split; try lia; reflexivity|].
  split; [intros H; unfold g_coord_run_body; destruct p; gen_split; try lia; reflexivity|].
  split; intros H; unfold g_coord_run_body; gen_split; try lia; reflexivity.
Qed.

(* Close (inside StopOnce): signal (1), wait for run to return (2) - the model's CSvcL / CWaitL - then stop the two
   cache collectors (3, 4) *)
Lemma gen_coord_close : forall s, s_c s = CSvc -> v_started s = true -> v_stopped s = false ->
  g_coord_close = ([1; 2; 3; 4], RetO 0) /\
  exists s1, step (cfg_new KOnce) s CSvcL = Some s1 /\ v_stopreq s1 = true /\ v_stopped s1 = true /\ s_c s1 = CWait CNil /\
  (g_active (s_g s1) = true -> step (cfg_new KOnce) s1 CWaitL = None).
Proof.
  intros s Hc Hs Hp. split; [reflexivity|]. unfold step at 1. rewrite Hc. cbn. rewrite Hs, Hp. cbn.
  eexists. split; [reflexivity|]. cbn. repeat split. intros Ha. unfold step. cbn. rewrite Ha. reflexivity.
Qed.

(* the shared runner is flag based, like the metadata store: Start refuses while running, else sets the flag (1),
   launches the cache collector (2) and waits for Close (3); Close refuses while the flag is clear (the known finding
   close_before_service_start), else stops the collector (1) and the worker group (2), clears the flag (3) and
   releases Start (4) *)
Lemma gen_runner_lifecycle : forall s, s_c s = CSvc ->
  g_runner_start true = ([], RetO 1) /\ g_runner_start false = ([1; 2; 3], RetO 0) /\
  exists s1, step (cfg_new KOnce) s CSvcL = Some s1 /\
  match g_runner_close (negb (v_started s && negb (v_stopped s))) (v_started s && negb (v_stopped s)) with
  | ([], RetO 1) => s_c s1 = CSig CSvcErr /\ v_stopreq s1 = v_stopreq s
  | ([1; 2; 3; 4], RetO 0) => s_c s1 = CWait CNil /\ v_stopreq s1 = true /\ v_stopped s1 = true
  | _ => False
  end.
Proof.
  intros s H. split; [reflexivity|]. split; [reflexivity|]. unfold step. rewrite H. cbn.
  destruct (v_started s) eqn:E1; destruct (v_stopped s) eqn:E2; cbn; eexists; (split; [reflexivity|]); cbn; auto.
Qed.

(* plugin.Close closes every recoverer, in order, joining the errors; startServices launches every recoverer *)
Lemma gen_plugin_close :
  g_plugin_close = ([1], RetO 1) /\ g_plugin_close_body = ([1], Fall) /\ g_plugin_start_body = ([1], Fall).
Proof. repeat split. Qed.
