(* The hand-written v2 report-coordinator model takes exactly the decisions of pkg/v2/coordinator/coordinator.go as
   /verif/gen translated them from /repo's current sources (Gen/GeneratedTr.v).  Block keys are compared through
   the encoder's After(x, y), which the model reads as y < x on the decimal block numbers. *)
From Coq Require Import ZArith NArith Bool List Lia ZifyBool ZifyN ZifyNat.
From Verif Require Import Base.GenIR Gen.GeneratedTr Model.V2Coord.
Import ListNotations.
Open Scope Z_scope.

Definition oSome {A} (o : option A) : bool := match o with Some _ => true | None => false end.

(* shouldUpdate(b = stored, val = new): RetO 2 = (true, nil), RetO 3 = (false, nil), RetO 1 = (false, err).
   With an encoder that does not fail, the model's should_update is the interpretation of the generated term. *)
Lemma gen_v2_shouldUpdate : forall b v : blk,
  should_update b v =
  match g_v2_shouldUpdate (fst b <? fst v)%N (fst v <? fst b)%N false false (snd b =? indef)%N (snd v =? indef)%N (snd b <? snd v)%N with
  | (_, RetO 2) => true
  | (_, RetO 3) => false
  | (_, RetB x) => x
  | _ => false
  end.
Proof.
  intros. unfold should_update, g_v2_shouldUpdate.
  destruct (fst b <? fst v)%N, (fst v <? fst b)%N, (snd b =? indef)%N, (snd v =? indef)%N; reflexivity.
Qed.

(* a failing comparison never updates *)
Lemma gen_v2_shouldUpdate_errors : forall a b (c d e : bool),
  g_v2_shouldUpdate a b true false c d e = ([], RetO 1) /\
  g_v2_shouldUpdate false b false true c d e = ([], RetO 1).
Proof. intros. unfold g_v2_shouldUpdate. split; reflexivity. Qed.

(* updateIdBlock: 1 = idBlocks.Set(id, val, default expiry); the model's update_id is the interpretation *)
Lemma gen_v2_updateIdBlock : forall c now l id v,
  let cur := cget N.eqb now l id in
  update_id c now l id v =
  match g_v2_updateIdBlock (oSome cur) false (match cur with Some b => should_update b v | None => false end) with
  | ([1], Fall) => cset l id v (now + window c)
  | _ => l
  end.
Proof.
  intros. unfold update_id, g_v2_updateIdBlock. fold cur.
  destruct cur as [b|]; cbn [oSome]; [|reflexivity]. destruct (should_update b v); reflexivity.
Qed.

(* Accept: 1 = activeKeys.Set(key, false, default expiry), 2 = updateIdBlock(id, {check block of the key, indefinite});
   a key that is already active changes nothing.  The model's accept is the interpretation. *)
Lemma gen_v2_Accept : forall c now s k,
  accept c now s k =
  match g_v2_Accept false (oSome (cget key_eqb now (act s) k)) with
  | ([1; 2], RetO 2) => mkSt (update_id c now (ids s) (snd k) (fst k, indef)) (cset (act s) k false (now + hour))
  | _ => s
  end.
Proof.
  intros. unfold accept, g_v2_Accept. destruct (cget key_eqb now (act s) k); reflexivity.
Qed.

(* IsPending: an unparsable key counts as pending (RetO 1, RetO 2 carry an error); with a stored blocker the answer
   is "the key's block is NOT after the transmit block" (RetO 3); without one the id is not pending (RetO 4).
   The model's is_pending follows the same tree. *)
Lemma gen_v2_IsPending : forall now s k,
  let cur := cget N.eqb now (ids s) (snd k) in
  g_v2_IsPending false (oSome cur) false (match cur with Some b => (snd b <? fst k)%N | None => false end)
  = ([], if oSome cur then RetO 3 else RetO 4)
  /\ is_pending now s k = match cur with Some b => negb (snd b <? fst k)%N | None => false end.
Proof.
  intros. unfold g_v2_IsPending, is_pending. fold cur. destruct cur; split; reflexivity.
Qed.

(* IsTransmissionConfirmed: unknown keys count as confirmed *)
Lemma gen_v2_IsTransmissionConfirmed : forall now s k,
  let cur := cget key_eqb now (act s) k in
  g_v2_IsTransmissionConfirmed (oSome cur) (match cur with Some cf => cf | None => false end)
  = ([], RetB (is_confirmed now s k)).
Proof.
  intros. unfold g_v2_IsTransmissionConfirmed, is_confirmed. fold cur. destruct cur as [[|]|]; reflexivity.
Qed.
