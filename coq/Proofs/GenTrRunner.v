(* The hand-written runner model takes exactly the decisions of pkg/v3/runner/runner.go as /verif/gen translated
   them from /repo's current sources (Gen/GeneratedTr.v). *)
From Coq Require Import ZArith NArith Bool List Lia ZifyBool ZifyN ZifyNat.
From Verif Require Import Base.GenIR Gen.GeneratedTr Model.Runner.
Import ListNotations.
Open Scope Z_scope.

Definition r_zero : result := mkRes 0 0 0 0 false false 0 0 0.
Definition rget (o : option result) : result := match o with Some r => r | None => r_zero end.
Definition risSome (o : option result) : bool := match o with Some _ => true | None => false end.

(* parallelCheck, first loop: 1 = result.Add(cached), 2 = toRun = append(toRun, payload).  The model's hit is the
   interpretation: served from the cache iff Get finds an entry with the payload's block number and block hash. *)
Lemma gen_runner_lookup_body : forall c now p,
  let g := cache_get c now (pl_wid p) in
  hit c now p =
  match g_runner_lookup_body (risSome g) (Z.of_N (r_blk (rget g))) (Z.of_N (pl_blk p))
                             (Z.of_N (r_hash (rget g))) (Z.of_N (pl_hash p)) with
  | ([1], Fall) => g
  | _ => None
  end.
Proof.
  intros. unfold hit, g_runner_lookup_body. fold g.
  destruct g as [r|]; cbn [risSome rget andb]; [|reflexivity].
  gen_split; cbn [andb]; try reflexivity; try (exfalso; lia).
Qed.

(* wrapAggregate: a successful batch counts a success and aggregates its results (1, 2), a failed one records the
   error and counts a failure (3, 4) *)
Lemma gen_runner_aggregate : forall ok : bool,
  g_runner_aggregate ok = if ok then ([1; 2], Fall) else ([3; 4], Fall).
Proof. intros [|]; reflexivity. Qed.

(* wrapAggregate, per result: 1 = cache.Set(work id, result), 2 = r.Add(result).  The model's fill1 is the
   interpretation: only state 0 is cached, and only when absent or for a strictly higher check block; every result
   of a successful batch is returned. *)
Lemma gen_runner_aggregate_body : forall cexp c now r,
  let old := cache_get c now (r_wid r) in
  let d := g_runner_aggregate_body (Z.of_N (r_state r)) (risSome old) (Z.of_N (r_blk r)) (Z.of_N (r_blk (rget old))) in
  snd d = Fall /\ existsb (Z.eqb 2) (fst d) = true /\
  fill1 cexp c now r = if existsb (Z.eqb 1) (fst d) then cache_set cexp c now (r_wid r) r else c.
Proof.
  intros. subst d. unfold fill1, g_runner_aggregate_body. fold old.
  destruct old as [o|]; cbn [risSome rget negb orb];
    gen_split; cbn [fst snd existsb Z.eqb Pos.eqb orb]; repeat split; try reflexivity; try (exfalso; lia).
Qed.

Lemma filter_len_le : forall (A : Type) (f : A -> bool) (l : list A), (length (filter f l) <= length l)%nat.
Proof. intros A f l. induction l as [|x l IH]; cbn [filter length]; [lia|]. destruct (f x); cbn [length]; lia. Qed.

Lemma all_failed_iff : forall (A : Type) (bfail : A -> bool) (l : list A),
  filter (fun b => negb (bfail b)) l = [] <-> length (filter bfail l) = length l.
Proof.
  intros A bfail l. induction l as [|x l IH]; cbn [filter length]; [tauto|].
  destruct (bfail x); cbn [negb length].
  - rewrite IH. split; intro H; lia.
  - split; [discriminate|]. intro H. pose proof (filter_len_le _ bfail l). lia.
Qed.

(* parallelCheck, whole function: nothing to do for no payloads; only cache hits when nothing is left to run;
   otherwise the batches run and the call fails (RetO 2) exactly when there were calls, all failed and an error
   was recorded - the model's finish returns ErrAll in exactly that case. *)
Lemma gen_runner_parallelCheck : forall (pipe : list job -> list result) (bfail : list job -> bool) hits (done : list (list job)),
  let total := Z.of_nat (length done) in
  let failures := Z.of_nat (length (filter bfail done)) in
  finish pipe bfail hits done =
  match g_runner_parallelCheck 1 total total failures (negb (failures =? 0)) with
  | (_, RetO 2) => ErrAll
  | _ => match done with
         | [] => Ok hits
         | _ => Ok (hits ++ flat_map pipe (filter (fun b => negb (bfail b)) done))
         end
  end.
Proof.
  intros. unfold finish, g_runner_parallelCheck. subst total failures.
  destruct done as [|b done]; [reflexivity|].
  set (dn := b :: done).
  pose proof (all_failed_iff _ bfail dn) as Hall.
  destruct (filter (fun b0 => negb (bfail b0)) dn) as [|y ys] eqn:Hok.
  - assert (length (filter bfail dn) = length dn) by (apply Hall; reflexivity).
    assert (0 < length dn)%nat by (subst dn; cbn; lia).
    gen_split; cbn [negb andb]; try reflexivity; try (exfalso; lia).
  - assert (length (filter bfail dn) <> length dn) by (intro E; apply Hall in E; discriminate).
    gen_split; cbn [negb andb]; try reflexivity; try (exfalso; lia).
Qed.

Lemma gen_runner_parallelCheck_shortcuts : forall n t f (e : bool),
  g_runner_parallelCheck 0 n t f e = ([], RetO 1) /\
  (forall p, p <> 0 -> g_runner_parallelCheck p 0 t f e = ([1], RetO 1)).
Proof.
  intros. unfold g_runner_parallelCheck. split; [reflexivity|]. intros p Hp.
  gen_split; try reflexivity; exfalso; lia.
Qed.

(* ---------------- util.Unflatten ---------------- *)
(* b[lo:hi] *)
Definition slice {A} (l : list A) (lo hi : nat) : list A := firstn (hi - lo) (skipn lo l).

(* one turn of the loop at index i < len(b): the group is b[i : i+size], cut at len(b) when that overshoots (1) - the
   model's firstn size of what is left *)
Lemma gen_unflatten_body : forall (A : Type) (b : list A) (i size : nat), (i < length b)%nat ->
  firstn size (skipn i b) =
  match g_unflatten_body (Z.of_nat (i + size)) (Z.of_nat (length b)) with
  | ([1; 2], Fall) => slice b i (length b)
  | ([2], Fall) => slice b i (i + size)
  | _ => []
  end.
Proof.
  intros A b i size Hi. unfold g_unflatten_body, slice. gen_split.
  - rewrite firstn_all2 by (rewrite skipn_length; lia). symmetry. apply firstn_all2. rewrite skipn_length. lia.
  - f_equal. lia.
Qed.

(* the model's unflatten, one step: the first group is the loop body at i = 0 and the rest is what the loop sees next *)
Lemma unflatten_step : forall (A : Type) (f : nat) (x : A) (l : list A) (size : nat),
  unflatten_fuel (S f) (x :: l) size =
  match unflatten_fuel f (skipn size (x :: l)) size with
  | Some gs => Some (firstn size (skipn 0 (x :: l)) :: gs)
  | None => None
  end.
Proof. intros. reflexivity. Qed.
