(* Observation building (properties C08 and C03 observation clauses). *)
From Verif Require Import Base.Util Model.Outcome Model.Observation Proofs.SortProofs.
From Coq Require Import Sorting.Sorted ZifyBool ZifyN ZifyNat.
Open Scope N_scope.

Definition zmin_len {A} (limit : Z) (l : list A) : Z :=
  if (Z.of_nat (length l) <? limit)%Z then Z.of_nat (length l) else limit.

(* ---------------- trim (addByPercentageExceeded) ---------------- *)
Definition sizes_ok (l : list sres) : Prop := Forall (fun r => (2 <= s_size r)%Z) l.

Lemma sum_sizes_nonneg l : sizes_ok l -> (0 <= sum_sizes l)%Z.
Proof. induction 1; simpl; lia. Qed.

Lemma sizes_ok_firstn k l : sizes_ok l -> sizes_ok (firstn k l).
Proof.
  revert k; induction l as [|a t IH]; intros [|k] H; simpl; try (constructor; fail).
  inversion H; subst. constructor; [assumption | apply IH; assumption].
Qed.

Lemma obs_size_ge base l k : sizes_ok l -> (1 <= k <= length l)%nat -> (base <= obs_size base l k)%Z.
Proof.
  intros Hs Hk. unfold obs_size. destruct k as [|k]; [lia|].
  destruct l as [|a t]; [simpl in Hk; lia|]. simpl firstn. simpl sum_sizes.
  inversion Hs; subst. pose proof (sum_sizes_nonneg (firstn k t) (sizes_ok_firstn k t H2)). lia.
Qed.

(* the next limit is strictly smaller: the "+1" of the code *)
Lemma next_limit_lt size base maxlen limit :
  (0 < limit)%Z -> (base <= size)%Z -> (maxlen < size)%Z -> (next_limit size base maxlen limit < limit)%Z.
Proof.
  intros Hl Hb Hm. unfold next_limit.
  assert (Ha : (0 <= (size - base) / limit)%Z) by (apply Z.div_pos; lia).
  destruct ((size - base) / limit =? 0)%Z eqn:E; [lia|].
  assert (0 <= (size - maxlen + (size - base) / limit - 1) / ((size - base) / limit))%Z by (apply Z.div_pos; lia).
  lia.
Qed.

(* When the recursion does not end in its over-sized exit: either nothing was to be added
   (limit or list empty, the observation is left as it was) or what is left fits the byte limit. *)
Lemma trim_sound fuel : forall maxlen base l limit cur k, sizes_ok l ->
  trim fuel maxlen base l limit cur = (k, false) ->
  ((zmin_len limit l <= 0)%Z /\ k = cur) \/
  ((0 < zmin_len limit l)%Z /\ (obs_size base l k <= maxlen)%Z /\ (1 <= k)%nat /\ (Z.of_nat k <= zmin_len limit l)%Z).
Proof.
  induction fuel as [|fuel IH]; intros maxlen base l limit cur k Hs H; simpl in H; [discriminate|].
  fold (zmin_len limit l) in H. set (lim := zmin_len limit l) in *.
  destruct (lim <=? 0)%Z eqn:E0.
  - inversion H; subst. left. split; [lia | reflexivity].
  - right. split; [lia|].
    destruct (maxlen <? obs_size base l (Z.to_nat lim))%Z eqn:E1.
    + match type of H with (if ?c then _ else _) = _ => destruct c eqn:E2 end; [discriminate|].
      assert (Hlen : (lim <= Z.of_nat (length l))%Z /\ (lim <= limit)%Z).
      { subst lim. unfold zmin_len. destruct (Z.ltb_spec (Z.of_nat (length l)) limit); lia. }
      assert (Hnl : (next_limit (obs_size base l (Z.to_nat lim)) base maxlen lim < lim)%Z).
      { apply next_limit_lt; [lia | apply obs_size_ge; [exact Hs | lia] | lia]. }
      set (nl := next_limit (obs_size base l (Z.to_nat lim)) base maxlen lim) in *. clearbody nl.
      apply IH in H; [|exact Hs]. unfold zmin_len in H.
      destruct (Z.ltb_spec (Z.of_nat (length l)) nl); destruct H as [[H1 _]|[H1 [H2 [H3 H4]]]]; try lia.
      all: (split; [exact H2|]; split; [exact H3|]; lia).
    + inversion H; subst. split; [lia|]. split; lia.
Qed.

(* the recursion needs at most (length l + 1) unfoldings: with that much fuel it never runs dry *)
Lemma trim_fuel fuel : forall maxlen base l limit cur k over, sizes_ok l ->
  (Z.max 0 (zmin_len limit l) < Z.of_nat fuel)%Z ->
  trim fuel maxlen base l limit cur = (k, over) ->
  over = true ->
  (* then the over-sized exit was really taken: *)
  exists lim', (0 < lim')%Z /\ (lim' <= zmin_len limit l)%Z /\ k = Z.to_nat lim' /\ (maxlen < obs_size base l k)%Z.
Proof.
  induction fuel as [|fuel IH]; intros maxlen base l limit cur k over Hs Hf H Ho; simpl in H.
  - exfalso. lia.
  - fold (zmin_len limit l) in H. set (lim := zmin_len limit l) in *.
    destruct (lim <=? 0)%Z eqn:E0; [inversion H; subst; discriminate|].
    destruct (maxlen <? obs_size base l (Z.to_nat lim))%Z eqn:E1; [|inversion H; subst; discriminate].
    assert (Hlen : (lim <= Z.of_nat (length l))%Z /\ (lim <= limit)%Z).
    { subst lim. unfold zmin_len. destruct (Z.ltb_spec (Z.of_nat (length l)) limit); lia. }
    assert (Hnl : (next_limit (obs_size base l (Z.to_nat lim)) base maxlen lim < lim)%Z).
    { apply next_limit_lt; [lia | apply obs_size_ge; [exact Hs | lia] | lia]. }
    match type of H with (if ?c then _ else _) = _ => destruct c eqn:E2 end.
    + inversion H; subst. exists lim. repeat split; lia.
    + set (nl := next_limit (obs_size base l (Z.to_nat lim)) base maxlen lim) in *. clearbody nl.
      apply IH in H; [|exact Hs| |exact Ho].
      * destruct H as [lim' [H1 [H2 [H3 H4]]]]. exists lim'. repeat split; try assumption.
        unfold zmin_len in H2. destruct (Z.ltb_spec (Z.of_nat (length l)) nl); lia.
      * unfold zmin_len. destruct (Z.ltb_spec (Z.of_nat (length l)) nl); lia.
Qed.

(* ---------------- performables ---------------- *)
Definition cands (blocked : list N) (staged : list sres) : list sres :=
  sort_by s_shuf (filter (fun r => negb (memN (s_wid r) blocked)) staged).

Lemma add_from_staging_prefix maxlen base limit blocked staged :
  exists k, fst (add_from_staging maxlen base limit blocked staged) = firstn k (cands blocked staged).
Proof.
  unfold add_from_staging. fold (cands blocked staged).
  destruct (trim _ _ _ _ _ _) as [k over]. exists k. reflexivity.
Qed.

Lemma firstn_length_le' {A} n (l : list A) : (length (firstn n l) <= n)%nat.
Proof. rewrite firstn_length. lia. Qed.

Lemma trim_fits_first fuel maxlen base l limit cur :
  (0 < zmin_len limit l)%Z ->
  (obs_size base l (Z.to_nat (zmin_len limit l)) <= maxlen)%Z ->
  trim (S fuel) maxlen base l limit cur = (Z.to_nat (zmin_len limit l), false).
Proof.
  intros H0 H1. simpl. fold (zmin_len limit l).
  replace (zmin_len limit l <=? 0)%Z with false by lia.
  replace (maxlen <? obs_size base l (Z.to_nat (zmin_len limit l)))%Z with false by lia.
  reflexivity.
Qed.

Lemma firstn_all_ge {A} n (l : list A) : (length l <= n)%nat -> firstn n l = l.
Proof. revert n; induction l as [|a t IH]; intros [|n] H; simpl in *; try reflexivity; try lia. f_equal. apply IH. lia. Qed.

(* C08: prefix of the canonical order; no blocked (in-flight) work; cut only by cap and byte limit *)
Theorem add_from_staging_spec maxlen base limit blocked staged l over :
  sizes_ok staged -> (0 <= limit)%Z ->
  add_from_staging maxlen base limit blocked staged = (l, over) ->
  (exists k, l = firstn k (cands blocked staged)) /\
  (forall r, In r l -> In r staged /\ ~ In (s_wid r) blocked) /\
  (over = false ->
     (Z.of_nat (length l) <= limit)%Z /\
     (l = [] \/ (obs_size base (cands blocked staged) (length l) <= maxlen)%Z) /\
     ((obs_size base (cands blocked staged) (Z.to_nat (zmin_len limit (cands blocked staged))) <= maxlen)%Z ->
        l = firstn (Z.to_nat limit) (cands blocked staged))).
Proof.
  intros Hsz Hl H. unfold add_from_staging in H. fold (cands blocked staged) in H.
  assert (Hcs : sizes_ok (cands blocked staged)).
  { unfold sizes_ok, cands in *. rewrite Forall_forall in *. intros r Hr. apply sort_by_In in Hr.
    apply filter_In in Hr as [Hr _]. auto. }
  set (cs := cands blocked staged) in *.
  destruct (trim (S (length cs)) maxlen base cs limit 0) as [k ov] eqn:T.
  inversion H; subst l over. clear H. split; [exists k; reflexivity|]. split.
  - intros r Hr. apply In_firstn in Hr. unfold cs, cands in Hr. apply sort_by_In in Hr.
    apply filter_In in Hr as [H1 H2]. split; [exact H1|]. apply memN_false_In. rewrite negb_true_iff in H2. exact H2.
  - intro Ho. subst ov. pose proof T as T0. apply trim_sound in T; [|exact Hcs]. destruct T as [[T1 ->]|[T1 [T2 [T3 T4]]]].
    + simpl. split; [lia|]. split; [left; reflexivity|]. intros _.
      unfold zmin_len in T1. destruct (Z.ltb_spec (Z.of_nat (length cs)) limit) as [E|E].
      * assert (length cs = 0%nat) by lia.
        destruct cs; [rewrite firstn_nil; reflexivity | discriminate].
      * assert (limit = 0%Z) by lia. subst. reflexivity.
    + assert (Hk : (k <= length cs)%nat /\ (Z.of_nat k <= limit)%Z).
      { unfold zmin_len in T4. destruct (Z.ltb_spec (Z.of_nat (length cs)) limit); lia. }
      rewrite firstn_length. replace (Nat.min k (length cs)) with k by lia.
      split; [lia|]. split; [right; exact T2|].
      intro Hfit. rewrite (trim_fits_first (length cs) maxlen base cs limit 0 T1 Hfit) in T0.
      inversion T0; subst k. unfold zmin_len. destruct (Z.ltb_spec (Z.of_nat (length cs)) limit) as [E|E].
      * rewrite Nat2Z.id. rewrite !firstn_all_ge by lia. reflexivity.
      * reflexivity.
Qed.

(* C08: two nodes holding the same candidates send the same list whatever the insertion order
   (shuffled work ids are pairwise distinct: ShuffleString is injective and the store holds one
   result per work id) *)
Theorem add_from_staging_insertion_indep maxlen base limit blocked s1 s2 :
  Permutation s1 s2 -> NoDup (map s_shuf s1) ->
  add_from_staging maxlen base limit blocked s1 = add_from_staging maxlen base limit blocked s2.
Proof.
  intros P N. unfold add_from_staging.
  assert (E : sort_by s_shuf (filter (fun r => negb (memN (s_wid r) blocked)) s1)
            = sort_by s_shuf (filter (fun r => negb (memN (s_wid r) blocked)) s2)).
  { apply sort_by_perm_indep.
    - clear P. induction s1 as [|a t IH]; simpl; [constructor|]. inversion N as [|? ? Nin Nt]; subst.
      destruct (negb (memN (s_wid a) blocked)); simpl; [|apply IH; exact Nt].
      constructor; [|apply IH; exact Nt]. intro H. apply Nin. apply in_map_iff in H as [x [Hx Hi]].
      apply filter_In in Hi as [Hi _]. rewrite <- Hx. apply in_map, Hi.
    - clear N. induction P; simpl.
      + constructor.
      + destruct (negb (memN (s_wid x) blocked)); [apply perm_skip|]; assumption.
      + destruct (negb (memN (s_wid x) blocked)), (negb (memN (s_wid y) blocked));
          try apply perm_swap; try apply perm_skip; apply Permutation_refl.
      + eapply Permutation_trans; eassumption. }
  rewrite E. reflexivity.
Qed.

(* ---------------- proposals ---------------- *)
Lemma apply_perm_In {A} perm (l : list A) x : In x (apply_perm perm l) -> In x l.
Proof.
  unfold apply_perm. intro H. apply in_flat_map in H as [i [_ Hi]].
  destruct (nth_error l i) eqn:E; [|destruct Hi]. destruct Hi as [<-|[]]. eapply nth_error_In; eauto.
Qed.

Theorem add_proposals_spec limit blocked perm view p :
  In p (add_proposals limit blocked perm view) -> In p view /\ ~ In (fst p) blocked.
Proof.
  unfold add_proposals. intro H. apply In_firstn in H. apply apply_perm_In in H.
  apply filter_In in H as [H1 H2]. split; [exact H1|]. apply memN_false_In. rewrite negb_true_iff in H2. exact H2.
Qed.

Theorem add_proposals_length limit blocked perm view :
  (length (add_proposals limit blocked perm view) <= limit)%nat.
Proof. unfold add_proposals. rewrite firstn_length. lia. Qed.

(* a list of pairwise distinct positions applied to a duplicate-free view gives no repeats *)
Lemma apply_perm_nodup {A} perm (l : list A) : NoDup perm -> NoDup l -> NoDup (apply_perm perm l).
Proof.
  unfold apply_perm. induction perm as [|i t IH]; simpl; intros Np Nl; [constructor|].
  inversion Np as [|? ? Nin Nt]; subst. destruct (nth_error l i) as [x|] eqn:E; simpl; [|apply IH; assumption].
  constructor; [|apply IH; assumption]. intro H. apply in_flat_map in H as [j [Hj Hx]].
  destruct (nth_error l j) as [y|] eqn:Ej; [|destruct Hx]. destruct Hx as [->|[]].
  assert (i = j); [|subst; auto].
  rewrite NoDup_nth_error in Nl. apply Nl; [apply nth_error_Some; congruence | congruence].
Qed.

(* ---------------- block history ---------------- *)
Theorem add_history_spec {A} limit (view : list A) :
  add_history limit view = firstn limit view /\ (length (add_history limit view) <= limit)%nat.
Proof. unfold add_history. split; [reflexivity | rewrite firstn_length; lia]. Qed.

(* ---------------- the shuffled-id memo of stagedResultSorter is transparent ---------------- *)
Section Memo.
  Variable shuffle : N -> N -> N.       (* ShuffleString(workID, source) *)

  Record memo := mkMemo { m_src : N; m_tab : list (N * N) }.

  Definition mlookup (t : list (N * N)) (w : N) : option N :=
    match find (fun kv => fst kv =? w) t with Some kv => Some (snd kv) | None => None end.

  Definition mupdate (m : memo) (src : N) (ws : list N) : memo :=
    let t0 := if m_src m =? src then m_tab m else [] in
    mkMemo src (fold_left (fun t w => match mlookup t w with Some _ => t | None => (w, shuffle w src) :: t end) ws t0).

  Definition memo_inv (m : memo) : Prop :=
    forall w v, mlookup (m_tab m) w = Some v -> v = shuffle w (m_src m).

  Lemma mlookup_cons w' v' t w :
    mlookup ((w', v') :: t) w = if w' =? w then Some v' else mlookup t w.
  Proof. unfold mlookup. simpl. destruct (w' =? w); reflexivity. Qed.

  Lemma fill_inv src ws : forall t,
    (forall w v, mlookup t w = Some v -> v = shuffle w src) ->
    let t' := fold_left (fun t w => match mlookup t w with Some _ => t | None => (w, shuffle w src) :: t end) ws t in
    (forall w v, mlookup t' w = Some v -> v = shuffle w src) /\
    (forall w, In w ws -> mlookup t' w = Some (shuffle w src)).
  Proof.
    induction ws as [|a ws IH]; intros t Ht; simpl.
    - split; [exact Ht | intros w []].
    - set (t1 := match mlookup t a with Some _ => t | None => (a, shuffle a src) :: t end).
      assert (Ht1 : forall w v, mlookup t1 w = Some v -> v = shuffle w src).
      { unfold t1. destruct (mlookup t a) eqn:E; [exact Ht|]. intros w v. rewrite mlookup_cons.
        destruct (a =? w) eqn:Ea; [intro H; inversion H; subst; f_equal; lia | apply Ht]. }
      assert (Ha : mlookup t1 a = Some (shuffle a src)).
      { unfold t1. destruct (mlookup t a) eqn:E.
        - rewrite E. f_equal. apply Ht. exact E.
        - rewrite mlookup_cons, N.eqb_refl. reflexivity. }
      destruct (IH t1 Ht1) as [I1 I2]. split; [exact I1|].
      intros w [<-|Hw]; [|apply I2; exact Hw].
      (* entries are never overwritten or removed by later insertions *)
      clear - Ha. revert Ha. generalize t1. induction ws as [|b ws IHw]; intros t2 Ha; simpl; [exact Ha|].
      apply IHw. destruct (mlookup t2 b) eqn:E; [exact Ha|]. rewrite mlookup_cons.
      destruct (b =? a) eqn:Eb; [|exact Ha]. assert (b = a) by lia. subst. congruence.
  Qed.

  (* after any history of calls with arbitrary sources and id lists, every id of the current call is
     looked up to exactly ShuffleString(id, current source) *)
  Theorem memo_transparent (calls : list (N * list N)) (m0 : memo) src ws :
    memo_inv m0 ->
    let m := fold_left (fun m c => mupdate m (fst c) (snd c)) calls m0 in
    forall w, In w ws -> mlookup (m_tab (mupdate m src ws)) w = Some (shuffle w src).
  Proof.
    intros H0. simpl.
    assert (Hinv : memo_inv (fold_left (fun m c => mupdate m (fst c) (snd c)) calls m0)).
    { revert m0 H0. induction calls as [|c cs IH]; intros m0 H0; simpl; [exact H0|]. apply IH.
      unfold memo_inv, mupdate. simpl. apply fill_inv.
      destruct (m_src m0 =? fst c) eqn:E; [|intros w v H; unfold mlookup in H; simpl in H; discriminate].
      intros w v H. assert (m_src m0 = fst c) by lia. rewrite <- H1. apply H0. exact H. }
    set (m := fold_left _ calls m0) in *. intros w Hw. unfold mupdate. simpl.
    apply fill_inv; [|exact Hw].
    destruct (m_src m =? src) eqn:E; [|intros w' v H; unfold mlookup in H; simpl in H; discriminate].
    intros w' v H. assert (m_src m = src) by lia. subst src. apply Hinv. exact H.
  Qed.
End Memo.
