(* The hand-written Outcome / Reports models take exactly the decisions of pkg/v3/plugin as /verif/gen
   translated them from /repo's current sources (Gen/GeneratedTr.v, regenerated on every run).  Where the
   model has a recursive function for a Go loop, the theorem is the one-step unfolding of that function
   written as the interpretation of the generated loop-body term; where the model has a straight-line
   definition (pset, cset, rfinish) the theorem rewrites the whole definition that way.  Scripts are
   semantic (case split on every comparison, then lia). *)
From Coq Require Import ZArith NArith Bool List Lia ZifyBool ZifyN ZifyNat.
From Verif Require Import Base.GenIR Gen.GeneratedTr Model.Outcome.
Import ListNotations.
Open Scope Z_scope.

(* ---------------- Outcome: which observations count, what runs in which order ---------------- *)
(* loop body: 1 = p.add(observation), 2 = c.add(observation) *)
Lemma gen_outcome_obs_body : forall invalid : bool,
  g_outcome_obs_body invalid = if invalid then ([], Fall) else ([1; 2], Fall).
Proof. intros [|]; reflexivity. Qed.

(* the model's valid_obs_list keeps exactly the observations for which the loop body reaches p.add / c.add *)
Lemma gen_outcome_counts_valid_only : forall (valid : observation -> bool) (a : aobs) (l : list aobs),
  valid_obs_list valid (a :: l) =
  match a with
  | Undecodable => valid_obs_list valid l
  | Decoded o => match g_outcome_obs_body (negb (valid o)) with
                 | ([1; 2], Fall) => o :: valid_obs_list valid l
                 | _ => valid_obs_list valid l
                 end
  end.
Proof. intros valid [|o] l; cbn [valid_obs_list flat_map]; [reflexivity|]. destruct (valid o); reflexivity. Qed.

(* whole function: 1 = the observation loop, 2 = prevOutcome := decoded previous outcome, 3 = p.set, 4 = c.set
   (performables before proposals); RetO 1 = (nil, err), RetO 2 = outcome.Encode() *)
Lemma gen_outcome_body : forall (prev_nonnil : bool) prev_len (prev_err : bool) n_rounds,
  let present := prev_nonnil || negb (prev_len =? 0) in
  g_outcome_body prev_nonnil prev_len prev_err n_rounds =
  if present then (if prev_err then ([1], RetO 1) else ([1; 2; 3; 4], RetO 2)) else ([1; 3; 4], RetO 2).
Proof.
  intros a n b r. unfold g_outcome_body. destruct a, b; cbn [orb negb];
    gen_split; cbn [negb]; try reflexivity; try (exfalso; lia).
Qed.

(* ---------------- performables ---------------- *)
(* add, loop body: 1 = first copy with one vote, 2 = count++, 3 = store *)
Lemma gen_perf_add_body : forall found : bool,
  g_perf_add_body found = if found then ([2; 3], Fall) else ([1; 3], Fall).
Proof. intros [|]; reflexivity. Qed.

(* set, second loop: the model's pick is the interpretation of the generated body
   (1 = addedWid[work id] := true, 2 = append the stored first copy) *)
Lemma gen_perf_set_pick : forall thr added (u : N) (r : result) (c : nat) (t : votes),
  pick thr added ((u, (r, c)) :: t) =
  match g_perf_set_pick (Z.of_nat c) (Z.of_nat thr) (memN (r_wid r) added) with
  | ([1; 2], Fall) => r :: pick thr (r_wid r :: added) t
  | ([], Fall) => pick thr added t
  | _ => []
  end.
Proof.
  intros. cbn [pick]. unfold g_perf_set_pick.
  destruct (memN (r_wid r) added); gen_split; cbn [negb andb]; try reflexivity; try (exfalso; lia).
Qed.

(* set, whole function: 1 collect keys, 2 sort.Strings, 3 pick loop, 4 sort by shuffled work id,
   5 truncate to the limit, 6 assign *)
Lemma gen_perf_set : forall (shuf : N -> N) (pi_u : votes -> votes) thr limit v,
  let picked := sort_by (fun r => shuf (r_wid r)) (pick thr [] (sort_by fst (pi_u v))) in
  pset shuf pi_u thr limit v =
  match g_perf_set (Z.of_nat (length picked)) (Z.of_nat limit) with
  | ([1; 2; 3; 4; 5; 6], Fall) => firstn limit picked
  | ([1; 2; 3; 4; 6], Fall) => picked
  | _ => []
  end.
Proof.
  intros. unfold pset, g_perf_set. fold picked.
  gen_split; try reflexivity; try (exfalso; lia).
  apply firstn_all2. lia.
Qed.

(* ---------------- coordinated block proposals ---------------- *)
Lemma gen_cbp_add_body : forall present : bool,
  g_cbp_add_body present = if present then ([1], Fall) else ([2], Fall).
Proof. intros [|]; reflexivity. Qed.

(* getLatestQuorumBlock, loop body: the model's lqb_step (repaired variant) is its interpretation
   (1 = mostRecent := block; Fall = zero-hash key skipped) *)
Lemma gen_cbp_lqb_body : forall thr most b c,
  lqb_step true thr most (b, c) =
  match g_cbp_lqb_body (Z.of_N (bk_hash b)) 0 (Z.of_nat c) (Z.of_nat thr) (Z.of_N (bk_hash most))
                       (Z.of_N (bk_num b)) (Z.of_N (bk_num most)) with
  | ([1], Fall) => b
  | _ => most
  end.
Proof.
  intros. unfold lqb_step, g_cbp_lqb_body.
  gen_split; cbn [negb andb orb]; try reflexivity; try (exfalso; lia).
Qed.

Lemma gen_cbp_lqb : g_cbp_lqb = ([1], RetO 1).
Proof. reflexivity. Qed.

(* set, carry-over loop (inner): keep a carried proposal unless it is performed in this round *)
Lemma gen_cbp_carry_body : forall agreed p t,
  filter (fun q => negb (perf_exists agreed q)) (p :: t) =
  match g_cbp_carry_body (perf_exists agreed p) with
  | ([1], Fall) => p :: filter (fun q => negb (perf_exists agreed q)) t
  | _ => filter (fun q => negb (perf_exists agreed q)) t
  end.
Proof. intros. cbn [filter]. unfold g_cbp_carry_body. destruct (perf_exists agreed p); reflexivity. Qed.

(* set, new-proposal loop: the model's new_props is the interpretation of the generated body
   (1 copy, 2 / 3 stamp the quorum block number / hash, 4 zero the log extension's block number, 5 append, 6 added) *)
Definition has_ext (p : proposal) : bool := match t_ext (p_trig p) with Some _ => true | None => false end.
Lemma gen_cbp_new_body : forall qb agreed hist added p t,
  new_props qb agreed hist added (p :: t) =
  match g_cbp_new_body (prop_exists hist p) (perf_exists agreed p) (memN (p_wid p) added) (has_ext p) with
  | ([], Fall) => new_props qb agreed hist added t
  | ([1; 2; 3; 4; 5; 6], Fall) | ([1; 2; 3; 5; 6], Fall) => restamp qb p :: new_props qb agreed hist (p_wid p :: added) t
  | _ => []
  end.
Proof.
  intros. cbn [new_props]. unfold g_cbp_new_body.
  destruct (prop_exists hist p), (perf_exists agreed p), (memN (p_wid p) added), (has_ext p); reflexivity.
Qed.

(* set, whole function: 1 reset, 2 carry-over loop, 3 drop the oldest rounds, 4 new-proposal loop, 5 sort by
   shuffled work id, 6 truncate to the per-round limit, 7 prepend the new round; RetU = no quorum block *)
Lemma gen_cbp_set : forall (shuf : N -> N) pi_b thr hl pr bv allnew agreed prev,
  let surf0 := carry agreed prev in
  let qbo := latest_quorum_block true pi_b thr bv in
  let surf1 := if Nat.leb hl (length surf0) then firstn (hl - 1) surf0 else surf0 in
  let cand := sort_by (fun p => shuf (p_wid p)) (new_props (fst qbo) agreed surf1 [] allnew) in
  cset shuf true pi_b thr hl pr bv allnew agreed prev =
  match g_cbp_set (snd qbo) (Z.of_nat (length surf0)) (Z.of_nat hl) (Z.of_nat (length cand)) (Z.of_nat pr) with
  | ([1; 2], RetU) => surf0
  | ([1; 2; 3; 4; 5; 6; 7], Fall) => firstn pr cand :: firstn (hl - 1) surf0
  | ([1; 2; 3; 4; 5; 7], Fall) => cand :: firstn (hl - 1) surf0
  | ([1; 2; 4; 5; 6; 7], Fall) => firstn pr cand :: surf0
  | ([1; 2; 4; 5; 7], Fall) => cand :: surf0
  | _ => []
  end.
Proof.
  intros. unfold cset, g_cbp_set. fold surf0. fold qbo.
  subst cand surf1. destruct qbo as [qb [|]]; cbn [fst snd negb]; [|reflexivity].
  destruct (Nat.leb_spec hl (length surf0)); gen_split; try reflexivity; try (exfalso; lia);
    try (f_equal; apply firstn_all2; lia).
Qed.

