(* Proofs about Model/V2CoordPlugin.v (property C17 at plug-in level). *)
From Verif Require Import Base.Util Model.V2Coord Model.V2CoordPlugin Proofs.V2CoordProofs.
Open Scope N_scope.

Lemma unconf_in_ext f g ks : (forall k, f k = g k) -> unconf_in f ks = unconf_in g ks.
Proof.
  intro E. unfold unconf_in. induction ks as [|[k|] t IH]; simpl; [reflexivity| |]; rewrite ?E, IH; reflexivity.
Qed.

Lemma unconf_in_exists f ks : unconf_in f ks = true <-> exists k, In (Some k) ks /\ f k = true.
Proof.
  unfold unconf_in. rewrite existsb_exists. split.
  - intros [[k|] [H1 H2]]; [exists k; auto|discriminate].
  - intros [k [H1 H2]]. exists (Some k). auto.
Qed.

(* ShouldTransmitAcceptedReport on a report with at least one key, nothing expired: transmit iff
   SOME key of the report — wherever it sits — was accepted and has seen no log with enough
   confirmations since its first accept. *)
Lemma transmit_iff c t0 W (h : list pop) now k ks :
  no_expiry c t0 W (flatten h) now ->
  let s := run c (flatten h) init in
  snd (transmit_ans now s (RKeys (k :: ks))) = false /\
  (fst (transmit_ans now s (RKeys (k :: ks))) = true <->
   exists q, In (Some q) (k :: ks) /\ unconfirmed_hist (minc c) (map snd (flatten h)) q).
Proof.
  intro Hne. cbv zeta. split; [reflexivity|].
  cbn [transmit_ans fst]. rewrite unconf_in_exists. split.
  - intros [q [H1 H2]]. exists q. split; [exact H1|].
    apply (unconfirmed_iff c t0 W (flatten h) now q Hne). apply negb_true_iff. exact H2.
  - intros [q [H1 H2]]. exists q. split; [exact H1|].
    apply negb_true_iff. apply (unconfirmed_iff c t0 W (flatten h) now q Hne). exact H2.
Qed.

(* the answer does not depend on the order of the keys inside the report *)
Lemma transmit_perm now s ks ks' : Permutation ks ks' -> ks <> [] ->
  transmit_ans now s (RKeys ks) = transmit_ans now s (RKeys ks').
Proof.
  intros P Hne.
  assert (E : unconf_in (fun k => negb (is_confirmed now s k)) ks = unconf_in (fun k => negb (is_confirmed now s k)) ks').
  { apply eq_true_iff_eq. rewrite !unconf_in_exists. split; intros [q [H1 H2]]; exists q; split; auto.
    - eapply Permutation_in; eauto.
    - eapply Permutation_in; [apply Permutation_sym|]; eauto. }
  destruct ks as [|a t]; [congruence|]. destruct ks' as [|a' t'].
  - apply Permutation_length in P. discriminate.
  - cbn [transmit_ans]. rewrite E. reflexivity.
Qed.

(* accept: true exactly for a decodable, non-empty report all of whose keys split; then every key
   of the report is accepted; otherwise the keys before the first malformed one are *)
Lemma accept_true_iff r :
  accept_ans r = (true, false) <-> exists k ks, r = RKeys (k :: ks) /\ forallb is_some (k :: ks) = true.
Proof.
  destruct r as [| |[|k ks]]; simpl; try (split; [discriminate|intros (?&?&?&?); discriminate]).
  destruct (is_some k && forallb is_some ks) eqn:E.
  - split; [|reflexivity]. intros _. exists k, ks. split; [reflexivity|exact E].
  - split; [discriminate|]. intros (k' & ks' & Eq & Hf). inversion Eq; subst. simpl in Hf. congruence.
Qed.

Lemma accept_never_true_with_error r : accept_ans r <> (true, true).
Proof. destruct r as [| |[|k ks]]; simpl; try discriminate. destruct (is_some k && forallb is_some ks); discriminate. Qed.

Lemma accepted_all ks : forallb is_some ks = true -> forall q, In (Some q) ks -> In q (wf_prefix ks).
Proof.
  induction ks as [|[x|] t IH]; simpl; intros E q Hin; try contradiction; try discriminate.
  destruct Hin as [Hq|Hq]; [inversion Hq; left; reflexivity|right; apply IH; assumption].
Qed.

Lemma accept_rule r : accept_ans r = (true, false) ->
  forall q ks, r = RKeys ks -> In (Some q) ks -> In q (accepted_keys r).
Proof.
  intros H q ks -> Hin. apply accept_true_iff in H. destruct H as (k & ks' & Eq & Hf). inversion Eq; subst.
  change (accepted_keys (RKeys (k :: ks'))) with (wf_prefix (k :: ks')). apply accepted_all; assumption.
Qed.

(* ---- checker soundness ---- *)
Definition transmit_spec (c : cfg) (h : list op) (qt : Z) (r : rpt) (a : bool * bool) : Prop :=
  match r with
  | RKeys (k :: ks) =>
      snd a = false /\
      ((exists t0 W, no_expiry c t0 W h qt) ->
       (fst a = true <-> exists q, In (Some q) (k :: ks) /\ unconfirmed_hist (minc c) (map snd h) q))
  | _ => a = (false, true)
  end.

Definition C17_plugin_spec (k : pl_case) : Prop :=
  Forall2 (fun r a => a = accept_ans r) (accepts_of (pl_h k)) (pl_acc k) /\
  Forall2 (transmit_spec (pl_cfg k) (flatten (pl_h k)) (pl_qt k)) (pl_q k) (pl_obs k).

Lemma check_all_Forall2 {A B} (f : A -> B -> bool) (P : A -> B -> Prop) :
  (forall x y, f x y = true -> P x y) -> forall l o, check_all f l o = true -> Forall2 P l o.
Proof.
  intros Hf l. induction l as [|x l IH]; intros [|y o] H; simpl in H; try discriminate; constructor.
  - apply Hf. apply andb_true_iff in H. tauto.
  - apply IH. apply andb_true_iff in H. tauto.
Qed.

Lemma bb_eqb_eq a b : bb_eqb a b = true -> b = a.
Proof.
  destruct a as [a1 a2], b as [b1 b2]. unfold bb_eqb. simpl. rewrite andb_true_iff.
  intros [H1 H2]. apply eqb_prop in H1. apply eqb_prop in H2. subst. reflexivity.
Qed.

Lemma check_transmit_sound c h qt r a : check_transmit c h qt r a = true -> transmit_spec c h qt r a.
Proof.
  unfold check_transmit, transmit_spec. destruct r as [| |[|k ks]].
  1-3: destruct a as [[|] [|]]; simpl; try discriminate; reflexivity.
  rewrite andb_true_iff, orb_true_iff. intros [H1 H2]. split; [apply negb_true_iff; exact H1|].
  intros [t0 [W Hne]]. destruct H2 as [H2|H2].
  - apply negb_true_iff in H2. rewrite (no_expiryb_complete c t0 W h qt Hne) in H2. discriminate.
  - apply eqb_prop in H2. rewrite H2, unconf_in_exists. split; intros [q [Q1 Q2]]; exists q; split; auto.
    + apply spec_unconf_char. exact Q2.
    + apply spec_unconf_char. exact Q2.
Qed.

Lemma C17_plugin_check_sound k : C17_plugin_check k = true -> C17_plugin_spec k.
Proof.
  unfold C17_plugin_check, C17_plugin_spec. rewrite andb_true_iff. intros [H1 H2]. split.
  - eapply check_all_Forall2; [|exact H1]. intros r a. apply bb_eqb_eq.
  - eapply check_all_Forall2; [|exact H2]. intros r a. apply check_transmit_sound.
Qed.

(* the seeded regression as a model: only the LAST key decides.  It violates the spec. *)
Definition transmit_last_only (now : Z) (s : st) (r : rpt) : bool * bool :=
  match r with
  | RKeys (k :: ks) => (match last (k :: ks) None with Some q => negb (is_confirmed now s q) | None => false end, false)
  | _ => (false, true)
  end.

Lemma transmit_last_only_refuted :
  exists c h qt r, (exists t0 W, no_expiry c t0 W (flatten h) qt) /\
    ~ transmit_spec c (flatten h) qt r (transmit_last_only qt (run c (flatten h) init) r).
Proof.
  exists (mkCfg 1 1200000000000),
         [PAccept 500%Z (RKeys [Some (100, 11); Some (100, 22)]); PLog (1000%Z, EPerform (100, 22) 104 1)],
         1500%Z, (RKeys [Some (100, 11); Some (100, 22)]).
  split; [apply no_expiryb_sound; vm_compute; reflexivity|].
  intros [_ H]. assert (Hne : exists t0 W, no_expiry (mkCfg 1 1200000000000) t0 W
     (flatten [PAccept 500%Z (RKeys [Some (100, 11); Some (100, 22)]); PLog (1000%Z, EPerform (100, 22) 104 1)]) 1500%Z)
    by (apply no_expiryb_sound; vm_compute; reflexivity).
  destruct (H Hne) as [_ H2].
  assert (F : fst (transmit_last_only 1500%Z (run (mkCfg 1 1200000000000)
     (flatten [PAccept 500%Z (RKeys [Some (100, 11); Some (100, 22)]); PLog (1000%Z, EPerform (100, 22) 104 1)]) init)
     (RKeys [Some (100, 11); Some (100, 22)])) = false) by (vm_compute; reflexivity).
  rewrite F in H2. assert (false = true); [|discriminate]. apply H2.
  exists (100, 11). split; [left; reflexivity|]. apply spec_unconf_char. vm_compute. reflexivity.
Qed.
