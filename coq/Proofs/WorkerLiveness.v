(* C14 - deadlock freedom of the worker-group transition system with an unbuffered input channel,
   its refutation for a buffered one, and the outcome characterisation of terminal states. *)
From Verif Require Import Base.Util Model.Worker Proofs.WorkerProofs.
From Coq Require Import Arith PeanoNat ZifyBool.

Section Terminal.
Variables (cf : config) (s : state).
Hypothesis HA : InvA cf s.
Hypothesis HB : InvB cf s.
Hypothesis Hw : wf_config cf.
Hypothesis HT : forall l, step cf s l = None.

Ltac use l := let X := fresh "X" in pose proof (HT l) as X; unfold step, wc in X.

Lemma t_running : running s = [].
Proof. use (LWRun 0). destruct (running s); [reflexivity|simpl in X; discriminate]. Qed.

Lemma t_returning : returning s = 0.
Proof. use LWRet. destruct (returning s); [reflexivity|discriminate]. Qed.

Lemma t_idle : idle s = active s.
Proof. destruct (a_tokens _ _ HA) as [H _]. rewrite t_running, t_returning in H. simpl in H. lia. Qed.

Lemma t_qpc : q_pc s = QSel \/ q_pc s = QExit.
Proof.
  destruct (q_pc s) eqn:E; auto.
  - use LQAdd. rewrite E in X. discriminate.
  - use LQNotify. rewrite E in X. discriminate.
  - exfalso. destruct (p_pc s) eqn:P.
    + use LQHand. rewrite E, P in X. discriminate.
    + use LPPop. use LPEmpty. rewrite P in *. destruct (queue s); discriminate.
    + use LPNew. use LPReuse. rewrite P in *. destruct (active s <? maxw cf) eqn:L; [discriminate|].
      apply Nat.ltb_ge in L. pose proof t_idle. unfold wf_config in Hw.
      destruct (idle s); [lia|discriminate].
    + pose proof (a_final _ _ HA) as F. destruct (a_pexit _ _ HA) as [F2 _]; [rewrite P; reflexivity|].
      rewrite E in F. simpl in F. congruence.
Qed.

Lemma t_ppc : p_pc s = PSel \/ p_pc s = PExit.
Proof.
  destruct (p_pc s) eqn:P; auto; exfalso.
  - use LPPop. use LPEmpty. rewrite P in *. destruct (queue s); discriminate.
  - use LPNew. use LPReuse. rewrite P in *. destruct (active s <? maxw cf) eqn:L; [discriminate|].
    apply Nat.ltb_ge in L. pose proof t_idle. unfold wf_config in Hw.
    destruct (idle s); [lia|discriminate].
Qed.

Lemma t_stpc : st_pc s = StInit \/ st_pc s = StRet.
Proof.
  destruct (st_pc s) eqn:E; auto; exfalso.
  - use LStop2. rewrite E in X. discriminate.
  - destruct t_qpc as [Q|Q].
    + use LQStop. rewrite Q, E in X. discriminate.
    + pose proof (a_qexit _ _ HA) as F. rewrite Q, E in F. simpl in F.
      assert (false = true) by (apply F; auto). discriminate.
Qed.

Lemma t_queue : queue s = [].
Proof.
  destruct (queue s) eqn:E; [reflexivity|exfalso].
  pose proof (a_queue _ _ HA) as F. rewrite E in F. simpl in F.
  destruct t_ppc as [P|P].
  - destruct t_qpc as [Q|Q]; rewrite P, Q in F; simpl in F;
      (destruct F as [F|[F|[F|F]]]; [lia| |discriminate|discriminate|discriminate]);
      use LPTok; rewrite P, F in X; discriminate.
  - destruct (a_pexit _ _ HA) as [_ F2]; [rewrite P; reflexivity|]. rewrite E in F2. discriminate.
Qed.

Lemma t_stopped_if_exit : q_pc s = QExit -> stopped s = true.
Proof.
  intro Q. apply (a_stopped _ _ HA).
  pose proof (a_qexit _ _ HA) as F. rewrite Q in F. simpl in F.
  destruct (st_pc s); simpl in *; try reflexivity. assert (false = true) by (apply F; auto). discriminate.
Qed.

Section Caller.
Variable c : nat.
Hypothesis Hc : c < ncallers cf.
Hypothesis Hcap : cap_in cf = 0.

Local Notation k := (callers s c).
Let KA := a_caller _ _ HA c.
Let KB := b_caller _ _ HB c.

Ltac usec l := let X := fresh "X" in pose proof (HT l) as X; unfold step, wc in X;
  rewrite (proj2 (Nat.ltb_lt _ _) Hc) in X.

Lemma t_rpc : (c_rpc k = RSel /\ c_tok k = false /\ c_end k = false) \/ c_rpc k = RExit.
Proof.
  destruct (c_rpc k) eqn:R; auto.
  - left. split; [reflexivity|]. split.
    + usec (LRTok c). rewrite R in X. destruct (c_tok k); [discriminate|reflexivity].
    + usec (LREnd c). rewrite R in X. destruct (c_end k); [discriminate|reflexivity].
  - exfalso. usec (LRTake c). rewrite R in X. discriminate.
  - exfalso. usec (LRDeliver c). usec (LRBack c). rewrite R in *.
    destruct (c_hand k); [discriminate|]. destruct (c_wg k); discriminate.
Qed.

Lemma t_hand : length (c_hand k) = 0.
Proof.
  apply (ac_hand _ _ _ _ KA). idtac. destruct t_rpc as [[R _]|R]; rewrite R; reflexivity.
Qed.

Lemma t_res : cntc c (res s) = 0.
Proof.
  destruct (cntc c (res s)) eqn:E; [reflexivity|exfalso].
  destruct (bc_tok _ _ _ KB) as [T|T]; [rewrite E; lia| |]; idtac.
  - destruct t_rpc as [[_ [T2 _]]|R]; [congruence|].
    pose proof (ac_exit _ _ _ _ KA) as F. rewrite R in F. specialize (F eq_refl).
    pose proof (ac_end _ _ _ _ KA F) as G.
    (* spc = SRet: wg = 0 contradicts the pending result *)
    assert (c_wg k = 0) as Z by (apply (bc_zero _ _ _ KB); right; exact G).
    pose proof (bc_wg _ _ _ KB) as W. rewrite Z, E in W. lia.
  - destruct t_rpc as [[R _]|R]; rewrite R in T; discriminate.
Qed.

Lemma t_inflight : cntc c (inflight s) = 0.
Proof.
  unfold inflight, qheld, pheld. rewrite t_running, t_queue.
  pose proof (a_inputcap _ _ HA) as I. rewrite Hcap in I. destruct (input s); [|simpl in I; lia].
  destruct t_qpc as [Q|Q]; rewrite Q; destruct t_ppc as [P|P]; rewrite P; reflexivity.
Qed.

Lemma t_wg : c_wg k = pend (c_spc k).
Proof. pose proof (bc_wg _ _ _ KB) as W. rewrite t_inflight, t_res, t_hand in W. lia. Qed.

Lemma t_spc : c_spc k = SRet /\ c_end k = true.
Proof.
  destruct (c_spc k) eqn:S.
  - exfalso. usec (LAdd c). usec (LNoMore c). rewrite S in *. destruct (c_nxt k <? njobs cf c); discriminate.
  - exfalso. usec (LCheck c). rewrite S in X. destruct (c_cancel k || qclosed s); discriminate.
  - exfalso. usec (LSend c). usec (LSelCancel c). usec (LSelStop c). rewrite S in *. rewrite Hcap in *.
    destruct t_qpc as [Q|Q].
    + rewrite Q in *. discriminate.
    + rewrite (t_stopped_if_exit Q) in *. discriminate.
  - exfalso. usec (LFail c). rewrite S in X. destruct (c_wg k); discriminate.
  - exfalso. usec (LWait c). rewrite S in X. pose proof t_wg as W. rewrite S in W. simpl in W.
    rewrite W in X. discriminate.
  - exfalso. usec (LRemove c). rewrite S in X. discriminate.
  - split; [reflexivity|]. usec (LClose c). rewrite S in X. destruct (c_end k); [reflexivity|discriminate].
Qed.

Lemma t_caller_returned : caller_returned k.
Proof.
  destruct t_spc as [S E]. repeat split; auto.
  destruct t_rpc as [[_ [_ E2]]|R]; [congruence|exact R].
Qed.

End Caller.

Lemma terminal_all_returned : cap_in cf = 0 -> all_returned cf s.
Proof.
  intro Hcap. split; [|exact t_stpc].
  intros c Hc. apply t_caller_returned; assumption.
Qed.

End Terminal.
