(* C14 - deadlock freedom of the worker-group transition system with an unbuffered input channel,
   its refutation for a buffered one, and the outcome characterisation of terminal states. *)
From Verif Require Import Base.Util Model.Worker Proofs.WorkerProofs.
From Coq Require Import Arith PeanoNat ZifyBool.

Section Terminal.
Variables (cf : config) (s : state).
Hypothesis HA : InvA cf s.
Hypothesis HB : InvB cf s.
Hypothesis Hw : wf_config cf.
Hypothesis HT : forall l, step cf s l = None.

Ltac use l := let X := fresh "X" in pose proof (HT l) as X; unfold step, wc in X.

Lemma t_running : running s = [].
Proof. use (LWRun 0). destruct (running s); [reflexivity|simpl in X; discriminate]. Qed.

Lemma t_returning : returning s = 0.
Proof. use LWRet. destruct (returning s); [reflexivity|discriminate]. Qed.

Lemma t_idle : idle s = active s.
Proof. destruct (a_tokens _ _ HA) as [H _]. rewrite t_running, t_returning in H. simpl in H. lia. Qed.

Lemma t_qpc : q_pc s = QSel \/ q_pc s = QExit.
Proof.
  destruct (q_pc s) eqn:E; auto.
  - use LQAdd. rewrite E in X. discriminate.
  - use LQNotify. rewrite E in X. discriminate.
  - exfalso. destruct (p_pc s) eqn:P.
    + use LQHand. rewrite E, P in X. discriminate.
    + use LPPop. use LPEmpty. rewrite P in *. destruct (queue s); discriminate.
    + use LPNew. use LPReuse. rewrite P in *. destruct (active s <? maxw cf) eqn:L; [discriminate|].
      apply Nat.ltb_ge in L. pose proof t_idle. unfold wf_config in Hw.
      destruct (idle s); [lia|discriminate].
    + pose proof (a_final _ _ HA) as F. destruct (a_pexit _ _ HA) as [F2 _]; [rewrite P; reflexivity|].
      rewrite E in F. simpl in F. congruence.
Qed.

Lemma t_ppc : p_pc s = PSel \/ p_pc s = PExit.
Proof.
  destruct (p_pc s) eqn:P; auto; exfalso.
  - use LPPop. use LPEmpty. rewrite P in *. destruct (queue s); discriminate.
  - use LPNew. use LPReuse. rewrite P in *. destruct (active s <? maxw cf) eqn:L; [discriminate|].
    apply Nat.ltb_ge in L. pose proof t_idle. unfold wf_config in Hw.
    destruct (idle s); [lia|discriminate].
Qed.

Lemma t_stpc : st_pc s = StInit \/ st_pc s = StRet.
Proof.
  destruct (st_pc s) eqn:E; auto; exfalso.
  - use LStop2. rewrite E in X. discriminate.
  - destruct t_qpc as [Q|Q].
    + use LQStop. rewrite Q, E in X. discriminate.
    + pose proof (a_qexit _ _ HA) as F. rewrite Q, E in F. simpl in F.
      assert (false = true) by (apply F; auto). discriminate.
Qed.

Lemma t_queue : queue s = [].
Proof.
  destruct (queue s) eqn:E; [reflexivity|exfalso].
  pose proof (a_queue _ _ HA) as F. rewrite E in F. simpl in F.
  destruct t_ppc as [P|P].
  - destruct t_qpc as [Q|Q]; rewrite P, Q in F; simpl in F;
      (destruct F as [F|[F|[F|F]]]; [lia| |discriminate|discriminate|discriminate]);
      use LPTok; rewrite P, F in X; discriminate.
  - destruct (a_pexit _ _ HA) as [_ F2]; [rewrite P; reflexivity|]. rewrite E in F2. discriminate.
Qed.

Lemma t_stopped_if_exit : q_pc s = QExit -> stopped s = true.
Proof.
  intro Q. apply (a_stopped _ _ HA).
  pose proof (a_qexit _ _ HA) as F. rewrite Q in F. simpl in F.
  destruct (st_pc s); simpl in *; try reflexivity. assert (false = true) by (apply F; auto). discriminate.
Qed.

Section Caller.
Variable c : nat.
Hypothesis Hc : c < ncallers cf.
Hypothesis Hcap : cap_in cf = 0.

Local Notation k := (callers s c).
Let KA := a_caller _ _ HA c.
Let KB := b_caller _ _ HB c.

Ltac usec l := let X := fresh "X" in pose proof (HT l) as X; unfold step, wc in X;
  rewrite (proj2 (Nat.ltb_lt _ _) Hc) in X.

Lemma t_rpc : (c_rpc k = RSel /\ c_tok k = false /\ c_end k = false) \/ c_rpc k = RExit.
Proof.
  destruct (c_rpc k) eqn:R; auto.
  - left. split; [reflexivity|]. split.
    + usec (LRTok c). rewrite R in X. destruct (c_tok k); [discriminate|reflexivity].
    + usec (LREnd c). rewrite R in X. destruct (c_end k); [discriminate|reflexivity].
  - exfalso. usec (LRTake c). rewrite R in X. discriminate.
  - exfalso. usec (LRDeliver c). usec (LRBack c). rewrite R in *.
    destruct (c_hand k); [discriminate|]. destruct (c_wg k); discriminate.
Qed.

Lemma t_hand : length (c_hand k) = 0.
Proof.
  apply (ac_hand _ _ _ _ KA). idtac. destruct t_rpc as [[R _]|R]; rewrite R; reflexivity.
Qed.

Lemma t_res : cntc c (res s) = 0.
Proof.
  destruct (cntc c (res s)) eqn:E; [reflexivity|exfalso].
  destruct (bc_tok _ _ _ KB) as [T|T]; [rewrite E; lia| |]; idtac.
  - destruct t_rpc as [[_ [T2 _]]|R]; [congruence|].
    pose proof (ac_exit _ _ _ _ KA) as F. rewrite R in F. specialize (F eq_refl).
    pose proof (ac_end _ _ _ _ KA F) as G.
    (* spc = SRet: wg = 0 contradicts the pending result *)
    assert (c_wg k = 0) as Z by (apply (bc_zero _ _ _ KB); right; exact G).
    pose proof (bc_wg _ _ _ KB) as W. rewrite Z, E in W. lia.
  - destruct t_rpc as [[R _]|R]; rewrite R in T; discriminate.
Qed.

Lemma t_inflight : cntc c (inflight s) = 0.
Proof.
  unfold inflight, qheld, pheld. rewrite t_running, t_queue.
  pose proof (a_inputcap _ _ HA) as I. rewrite Hcap in I. destruct (input s); [|simpl in I; lia].
  destruct t_qpc as [Q|Q]; rewrite Q; destruct t_ppc as [P|P]; rewrite P; reflexivity.
Qed.

Lemma t_wg : c_wg k = pend (c_spc k).
Proof. pose proof (bc_wg _ _ _ KB) as W. rewrite t_inflight, t_res, t_hand in W. lia. Qed.

Lemma t_spc : c_spc k = SRet /\ c_end k = true.
Proof.
  destruct (c_spc k) eqn:S.
  - exfalso. usec (LAdd c). usec (LNoMore c). rewrite S in *. destruct (c_nxt k <? njobs cf c); discriminate.
  - exfalso. usec (LCheck c). rewrite S in X. destruct (c_cancel k || qclosed s); discriminate.
  - exfalso. usec (LSend c). usec (LSelCancel c). usec (LSelStop c). rewrite S in *. rewrite Hcap in *.
    destruct t_qpc as [Q|Q].
    + rewrite Q in *. discriminate.
    + rewrite (t_stopped_if_exit Q) in *. discriminate.
  - exfalso. usec (LFail c). rewrite S in X. destruct (c_wg k); discriminate.
  - exfalso. usec (LWait c). rewrite S in X. pose proof t_wg as W. rewrite S in W. simpl in W.
    rewrite W in X. discriminate.
  - exfalso. usec (LRemove c). rewrite S in X. discriminate.
  - split; [reflexivity|]. usec (LClose c). rewrite S in X. destruct (c_end k); [reflexivity|discriminate].
Qed.

Lemma t_caller_returned : caller_returned k.
Proof.
  destruct t_spc as [S E]. repeat split; auto.
  destruct t_rpc as [[_ [_ E2]]|R]; [congruence|exact R].
Qed.

End Caller.

Lemma terminal_all_returned : cap_in cf = 0 -> all_returned cf s.
Proof.
  intro Hcap. split; [|exact t_stpc].
  intros c Hc. apply t_caller_returned; assumption.
Qed.

End Terminal.

(* ------------------------------------------------------------------ C14_returns / refutation *)

Theorem returns_unbuffered cf s :
  wf_config cf -> cap_in cf = 0 -> reachable cf s -> terminal cf s -> all_returned cf s.
Proof.
  intros Hw Hcap Hr Ht.
  apply terminal_all_returned; auto.
  - apply invA_reachable; assumption.
  - apply invB_reachable; assumption.
  - apply terminal_iff; assumption.
Qed.

Lemma run_reachable cf ls : forall s s', reachable cf s -> run cf s ls = Some s' -> reachable cf s'.
Proof.
  induction ls as [|l t IH]; intros s s' Hr H; simpl in H.
  - inversion H; subst; exact Hr.
  - destruct (step cf s l) eqn:E; [|discriminate]. eapply IH; [|exact H]. eapply reach_step; eauto.
Qed.

(* one caller, one job, one worker, input capacity 1, Stop allowed *)
Definition cfg_buffered : config := mkConfig 1 1 1 (fun _ => 1) true (fun _ => false).
Definition deadlock_schedule : list label :=
  [LAdd 0; LCheck 0; LStop1; LStop2; LQStop; LSend 0; LQHand; LPEmpty; LNoMore 0].

Theorem deadlock_buffered :
  exists cf s, cap_in cf = 1 /\ wf_config cf /\ reachable cf s /\ terminal cf s /\ ~ all_returned cf s /\
               input s = [(0, 0)] /\ c_wg (callers s 0) = 1 /\ st_pc s = StRet.
Proof.
  exists cfg_buffered.
  destruct (run cfg_buffered init deadlock_schedule) as [s|] eqn:E; [|vm_compute in E; discriminate].
  exists s. split; [reflexivity|]. split; [unfold wf_config; simpl; lia|].
  split; [eapply run_reachable; [apply reach_init|exact E]|].
  vm_compute in E. inversion E; subst; clear E.
  split; [vm_compute; reflexivity|].
  split; [|repeat split; reflexivity].
  intros [H _]. specialize (H 0 ltac:(simpl; lia)). destruct H as [H _]. vm_compute in H. discriminate.
Qed.

(* ------------------------------------------------------------------ exactly once *)

Lemma cntc_zero_all c l : cntc c l = 0 -> forall i, cntj (c, i) l = 0.
Proof. intros H i. apply (cntc_zero_cntj (c, i)). exact H. Qed.

(* safety, every reachable state: a job is reported at most once, and only if it was accepted *)
Theorem delivered_le_accepted cf s : reachable cf s ->
  forall c i, cntj (c, i) (deliv s) <= 1 /\
              (0 < cntj (c, i) (deliv s) -> i < c_nxt (callers s c) /\ i < njobs cf c).
Proof.
  intros Hr c i. pose proof (b_job _ _ (invB_reachable _ _ Hr) (c, i)) as J. simpl in J.
  pose proof (ac_nxt _ _ _ _ (a_caller _ _ (invA_reachable _ _ Hr) c)) as N.
  destruct (i <? c_nxt (callers s c)) eqn:E; simpl in J.
  - apply Nat.ltb_lt in E. lia.
  - lia.
Qed.

(* at return: exactly the accepted jobs have been reported, each exactly once *)
Theorem delivered_eq_accepted cf s c : reachable cf s -> c_spc (callers s c) = SRet ->
  forall i, cntj (c, i) (deliv s) = Nat.b2n (i <? c_nxt (callers s c)).
Proof.
  intros Hr S i.
  pose proof (invB_reachable _ _ Hr) as HB.
  pose proof (b_job _ _ HB (c, i)) as J. simpl in J.
  pose proof (b_caller _ _ HB c) as KB.
  assert (c_wg (callers s c) = 0) as Z by (apply (bc_zero _ _ _ KB); right; rewrite S; reflexivity).
  pose proof (bc_wg _ _ _ KB) as W. rewrite Z in W.
  assert (cntj (c, i) (inflight s) = 0) by (apply cntc_zero_all; lia).
  assert (cntj (c, i) (res s) = 0) by (apply cntc_zero_all; lia).
  assert (cntj (c, i) (c_hand (callers s c)) = 0).
  { pose proof (cntp_le (job_eqb (c, i)) (c_hand (callers s c))). unfold cntj. lia. }
  lia.
Qed.

(* nothing is refused unless the run was stopped or the caller cancelled *)
Theorem all_accepted_when_undisturbed cf s c : reachable cf s -> c_spc (callers s c) = SRet ->
  can_stop cf = false -> can_cancel cf c = false -> c_nxt (callers s c) = njobs cf c.
Proof.
  intros Hr S Hs Hc. pose proof (invA_reachable _ _ Hr) as HA.
  pose proof (a_caller _ _ HA c) as KA.
  destruct (ac_done _ _ _ _ KA) as [H|[H|H]]; [rewrite S; reflexivity|exact H| |].
  - apply (ac_cancel _ _ _ _ KA) in H. congruence.
  - apply (a_canstop _ _ HA) in H. congruence.
Qed.

Theorem worker_bound cf s : reachable cf s -> length (running s) + returning s <= maxw cf.
Proof. intro Hr. destruct (a_tokens _ _ (invA_reachable _ _ Hr)). lia. Qed.

Theorem no_negative_waitgroup cf s : reachable cf s -> err s = false.
Proof. intro Hr. exact (b_err _ _ (invB_reachable _ _ Hr)). Qed.

(* after a Stop that returned, in a terminal state, no goroutine of the group is left *)
Theorem stopped_no_leak cf s : wf_config cf -> reachable cf s -> terminal cf s -> st_pc s = StRet ->
  q_pc s = QExit /\ p_pc s = PExit /\ running s = [] /\ returning s = 0 /\ queue s = [].
Proof.
  intros Hw Hr Ht Hs.
  pose proof (invA_reachable _ _ Hr) as HA.
  pose proof (proj1 (terminal_iff _ _) Ht) as HT.
  assert (q_pc s = QExit) as Q.
  { destruct (t_qpc cf s HA Hw HT) as [Q|Q]; [|exact Q]. exfalso.
    pose proof (a_stret _ _ HA) as F. rewrite Hs, Q in F. simpl in F. destruct F; auto; discriminate. }
  split; [exact Q|]. split.
  - destruct (t_ppc cf s HA Hw HT) as [P|P]; [|exact P]. exfalso.
    pose proof (a_final _ _ HA) as F. rewrite Q in F. simpl in F.
    pose proof (a_finalp _ _ HA F) as G. rewrite P in G. discriminate.
  - split; [apply (t_running cf s HT)|]. split; [apply (t_returning cf s HT)|].
    apply (t_queue cf s HA Hw HT).
Qed.

(* ------------------------------------------------------------------ the model's outcomes satisfy the property *)

Lemma cntj_delivered_to s c i : cntj (c, i) (deliv s) = count_occ Nat.eq_dec (delivered_to s c) i.
Proof.
  unfold delivered_to, cntj, cntp. induction (deliv s) as [|[a b] l IH]; simpl; [reflexivity|].
  unfold of_caller, job_eqb. simpl.
  destruct (Nat.eqb_spec a c) as [->|Hn]; simpl.
  - rewrite Nat.eqb_refl. simpl. destruct (Nat.eq_dec b i) as [->|Hb].
    + rewrite Nat.eqb_refl. simpl. f_equal. exact IH.
    + destruct (Nat.eqb_spec i b); [congruence|]. simpl. exact IH.
  - destruct (Nat.eqb_spec c a); [congruence|]. simpl. exact IH.
Qed.

Lemma delivered_perm cf s c : reachable cf s -> c_spc (callers s c) = SRet ->
  Permutation (delivered_to s c) (seq 0 (c_nxt (callers s c))).
Proof.
  intros Hr S.
  assert (forall i, count_occ Nat.eq_dec (delivered_to s c) i = Nat.b2n (i <? c_nxt (callers s c))) as H.
  { intro i. rewrite <- cntj_delivered_to. apply (delivered_eq_accepted cf); assumption. }
  apply NoDup_Permutation.
  - apply (NoDup_count_occ Nat.eq_dec). intro i. rewrite H. destruct (i <? _); simpl; lia.
  - apply seq_NoDup.
  - intro i. rewrite (count_occ_In Nat.eq_dec), H, in_seq.
    destruct (i <? c_nxt (callers s c)) eqn:E; simpl.
    + apply Nat.ltb_lt in E. lia.
    + apply Nat.ltb_ge in E. lia.
Qed.

Lemma NoDup_map_of_nat l : NoDup l -> NoDup (map N.of_nat l).
Proof.
  induction 1 as [|x l Hx Hn IH]; simpl; constructor; [|exact IH].
  intro H. apply in_map_iff in H as [y [Hy Hin]]. apply Nat2N.inj in Hy. subst. contradiction.
Qed.

Theorem model_outcome cf s c :
  wf_config cf -> cap_in cf = 0 -> reachable cf s -> terminal cf s -> c < ncallers cf ->
  caller_spec true (N.of_nat (njobs cf c)) (can_stop cf || can_cancel cf c) true
              (map N.of_nat (delivered_to s c)) 0 0 0.
Proof.
  intros Hw Hcap Hr Ht Hc.
  destruct (returns_unbuffered cf s Hw Hcap Hr Ht) as [Hall _].
  destruct (Hall c Hc) as [S _].
  pose proof (delivered_perm cf s c Hr S) as P.
  pose proof (ac_nxt _ _ _ _ (a_caller _ _ (invA_reachable _ _ Hr) c)) as Hn.
  assert (length (delivered_to s c) = c_nxt (callers s c)) as L
    by (rewrite (Permutation_length P); apply seq_length).
  assert (forall v, In v (map N.of_nat (delivered_to s c)) -> (v < N.of_nat (c_nxt (callers s c)))%N) as B.
  { intros v Hv. apply in_map_iff in Hv as [i [<- Hi]].
    apply (Permutation_in _ P) in Hi. apply in_seq in Hi. lia. }
  unfold caller_spec. rewrite map_length, L.
  split; [reflexivity|]. split; [reflexivity|].
  split; [apply NoDup_map_of_nat; apply (Permutation_NoDup (Permutation_sym P)); apply seq_NoDup|].
  split; [intros v Hv; specialize (B v Hv); lia|].
  split; [|discriminate].
  intros _. cbv zeta. rewrite N.add_0_r.
  split; [exact B|]. split; [lia|]. split; [lia|].
  intro Hh. apply orb_false_iff in Hh as [H1 H2].
  rewrite (all_accepted_when_undisturbed cf s c Hr S H1 H2). reflexivity.
Qed.

(* ------------------------------------------------------------------ checker K is sound *)

Lemma nseq_In lo len v : In v (nseq lo len) <-> (lo <= v < lo + N.of_nat len)%N.
Proof.
  revert lo. induction len as [|k IH]; intro lo; simpl.
  - split; [intros []|lia].
  - rewrite IH. split; [intros [H|H]|intro H]; try lia.
Qed.
Lemma nseq_NoDup lo len : NoDup (nseq lo len).
Proof.
  revert lo. induction len as [|k IH]; intro lo; simpl; constructor; [|apply IH].
  rewrite nseq_In. lia.
Qed.
Lemma nseq_length lo len : length (nseq lo len) = len.
Proof. revert lo. induction len as [|k IH]; intro lo; simpl; [reflexivity|rewrite IH; reflexivity]. Qed.

Lemma NoDup_app_disjoint {A} (l1 l2 : list A) :
  NoDup l1 -> NoDup l2 -> (forall x, In x l1 -> ~ In x l2) -> NoDup (l1 ++ l2).
Proof.
  induction 1 as [|x l Hx Hn IH]; intros H2 Hd; simpl; [exact H2|].
  constructor.
  - rewrite in_app_iff. intros [H|H]; [contradiction|]. apply (Hd x); [left; reflexivity|exact H].
  - apply IH; [exact H2|]. intros y Hy. apply Hd. right. exact Hy.
Qed.

Lemma runs_ok_spec runs : forall prev bound, runs_ok prev bound runs = true ->
  NoDup (expand runs) /\ (forall v, In v (expand runs) -> (prev <= v < bound)%N) /\
  N.of_nat (length (expand runs)) = runs_total runs.
Proof.
  induction runs as [|[lo hi] t IH]; intros prev bound H; simpl in *.
  - split; [constructor|]. split; [intros v []|reflexivity].
  - apply andb_true_iff in H as [H H4]. apply andb_true_iff in H as [H H3]. apply andb_true_iff in H as [H1 H2].
    apply N.leb_le in H1, H3. apply N.ltb_lt in H2.
    destruct (IH hi bound H4) as [N1 [B1 T1]].
    unfold expand in *. simpl. fold (expand t) in *.
    assert (forall v, In v (nseq lo (N.to_nat (hi - lo))) -> (lo <= v < hi)%N) as Hin
      by (intros v Hv; apply nseq_In in Hv; lia).
    split; [|split].
    + apply NoDup_app_disjoint; [apply nseq_NoDup|exact N1|].
      intros x Hx Hx2. specialize (Hin x Hx). specialize (B1 x Hx2). lia.
    + intros v Hv. apply in_app_iff in Hv as [Hv|Hv]; [specialize (Hin v Hv); lia|specialize (B1 v Hv); lia].
    + rewrite app_length, nseq_length, Nat2N.inj_add, T1. lia.
Qed.

Lemma check_caller_sound errvis k : check_caller false errvis k = true ->
  caller_spec errvis (oc_n k) (oc_hit k) (oc_ret k) (expand (oc_runs k)) (oc_errs k) (oc_bogus k) (oc_lb k).
Proof.
  unfold check_caller, caller_spec. intro H.
  apply andb_true_iff in H as [H H3]. apply andb_true_iff in H as [H1 H2].
  rewrite orb_false_r in H1. apply N.eqb_eq in H2.
  split; [exact H1|]. split; [exact H2|].
  destruct errvis.
  - apply andb_true_iff in H3 as [H3 H7]. apply andb_true_iff in H3 as [H3 H6]. apply andb_true_iff in H3 as [H4 H5].
    destruct (runs_ok_spec _ _ _ H4) as [N1 [B1 T1]].
    apply N.leb_le in H5, H6.
    split; [exact N1|]. split; [intros v Hv; specialize (B1 v Hv); lia|].
    split; [|discriminate]. intros _. cbv zeta. rewrite T1.
    split; [intros v Hv; specialize (B1 v Hv); lia|]. split; [exact H5|]. split; [exact H6|].
    intro Hh. rewrite Hh, H1 in H7. simpl in H7. apply N.eqb_eq in H7. exact H7.
  - apply andb_true_iff in H3 as [H3 H6]. apply andb_true_iff in H3 as [H4 H5].
    destruct (runs_ok_spec _ _ _ H4) as [N1 [B1 T1]]. apply N.leb_le in H5.
    split; [exact N1|]. split; [intros v Hv; specialize (B1 v Hv); lia|].
    split; [discriminate|]. intros _. rewrite T1. split; [exact H5|].
    intro Hh. rewrite Hh, H1 in H6. simpl in H6. apply N.eqb_eq in H6. exact H6.
Qed.

Theorem C14_check_sound c : C14_check c = true -> C14_spec c.
Proof.
  unfold C14_check, check_gen, C14_spec. intro H.
  apply andb_true_iff in H as [H H3]. apply andb_true_iff in H as [H1 H2].
  simpl in H3. apply andb_true_iff in H3 as [H3 H4].
  split; [|split; [apply N.leb_le; exact H2|split; [exact H3|apply N.eqb_eq; exact H4]]].
  apply Forall_forall. intros k Hk. apply check_caller_sound.
  rewrite forallb_forall in H1. apply H1. exact Hk.
Qed.
