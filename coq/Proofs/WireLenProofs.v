(* Byte length of the wire encoding (Model/Wire.v, tied byte for byte to AutomationOutcome.Encode by the C15
   correspondence run): with every field inside its Go type's range, 32-byte hashes, hexadecimal work ids of at
   most 64 characters, prices below 2^256 and perform data of at most pd bytes, an outcome with at most 100 agreed
   performables and 20 rounds of at most 50 proposals encodes to at most outcome_bound pd bytes - below the advertised
   MaxOutcomeLength for pd = 10,000.  Decimal lengths are bounded by the bit width (a doubling adds at most one digit),
   bytes by a finite sweep; no bound on anything else is assumed. *)
From Coq Require Import ZArith NArith Bool List Lia Decimal DecimalFacts.
From Verif Require Import Base.Util Model.Wire Gen.Generated.
Import ListNotations.
Open Scope nat_scope.

Lemma len_pr_uint : forall u, length (pr_uint u) = nb_digits u.
Proof. induction u; cbn [pr_uint nb_digits length]; auto. Qed.

Lemma nb_double : forall d, nb_digits (Little.double d) <= S (nb_digits d) /\ nb_digits (Little.succ_double d) <= S (nb_digits d).
Proof.
  induction d as [|d [IH1 IH2]|d [IH1 IH2]|d [IH1 IH2]|d [IH1 IH2]|d [IH1 IH2]|d [IH1 IH2]|d [IH1 IH2]|d [IH1 IH2]|d [IH1 IH2]|d [IH1 IH2]];
    cbn [Little.double Little.succ_double nb_digits]; split; lia.
Qed.

Lemma nb_to_little : forall p, nb_digits (Pos.to_little_uint p) <= Pos.size_nat p.
Proof.
  induction p as [p IH|p IH|]; cbn [Pos.to_little_uint Pos.size_nat nb_digits].
  - pose proof (proj2 (nb_double (Pos.to_little_uint p))). lia.
  - pose proof (proj1 (nb_double (Pos.to_little_uint p))). lia.
  - lia.
Qed.

Lemma size_nat_lt : forall k p, (Z.pos p < 2 ^ Z.of_nat k)%Z -> Pos.size_nat p <= k.
Proof.
  induction k as [|k IH]; intros p H.
  - cbn in H. lia.
  - rewrite Nat2Z.inj_succ, Z.pow_succ_r in H by lia.
    destruct p as [p|p|]; cbn [Pos.size_nat].
    + apply le_n_S, IH. lia.
    + apply le_n_S, IH. lia.
    + lia.
Qed.

Lemma len_pr_N_bits : forall k n, (n < 2 ^ N.of_nat k)%N -> 1 <= k -> length (pr_N n) <= k.
Proof.
  intros k n H Hk. unfold pr_N. rewrite len_pr_uint.
  destruct n as [|p]; [cbn; lia|].
  cbn [N.to_uint]. unfold Pos.to_uint. rewrite nb_digits_rev.
  etransitivity; [apply nb_to_little|]. apply size_nat_lt.
  assert (Z.of_N (N.pos p) < Z.of_N (2 ^ N.of_nat k))%Z by lia.
  rewrite N2Z.inj_pow in H0. rewrite nat_N_Z in H0. exact H0.
Qed.
(* bytes: finite sweep *)
Definition byte_ok (b : N) : bool := Nat.leb (length (pr_N b)) 3.
Lemma bytes_sweep : forallb byte_ok (map N.of_nat (seq 0 256)) = true.
Proof. vm_compute. reflexivity. Qed.
Lemma len_pr_byte : forall b, (b < 256)%N -> length (pr_N b) <= 3.
Proof.
  intros b Hb. pose proof bytes_sweep as H. rewrite forallb_forall in H.
  assert (In b (map N.of_nat (seq 0 256))) as Hin.
  { apply in_map_iff. exists (N.to_nat b). split; [lia|]. apply in_seq. lia. }
  apply H in Hin. unfold byte_ok in Hin. apply Nat.leb_le in Hin. exact Hin.
Qed.

(* lists *)
Lemma len_sep : forall (A : Type) (f : A -> list N) (B : nat) (l : list A),
  (forall x, In x l -> length (f x) <= B) -> length (sep f l) <= length l * (B + 1).
Proof.
  intros A f B l. induction l as [|x t IH]; intros H; cbn [sep length]; [lia|].
  assert (length (f x) <= B) by (apply H; left; reflexivity).
  assert (length (sep f t) <= length t * (B + 1)) by (apply IH; intros; apply H; right; assumption).
  destruct t; [cbn; lia|]. rewrite app_length. cbn [length]. cbn [length] in H1. lia.
Qed.

Lemma len_pr_list : forall (A : Type) (f : A -> list N) (B : nat) (l : list A),
  (forall x, In x l -> length (f x) <= B) -> length (pr_list f l) <= 2 + length l * (B + 1).
Proof.
  intros. unfold pr_list. cbn [length]. rewrite app_length. cbn [length].
  pose proof (len_sep A f B l H). lia.
Qed.

Lemma len_pr_arr : forall l, Forall (fun b => (b < 256)%N) l -> length (pr_arr l) <= 2 + length l * 4.
Proof.
  intros l H. unfold pr_arr. apply (len_pr_list N pr_N 3 l).
  intros x Hx. apply len_pr_byte. rewrite Forall_forall in H. apply H. exact Hx.
Qed.

(* base64 *)
Lemma len_b64 : forall n l, length l <= n -> length (b64enc l) <= 4 * ((length l + 2) / 3).
Proof.
  induction n as [n IH] using lt_wf_ind. intros l Hl.
  destruct l as [|a [|b [|c t]]]; cbn [b64enc length]; try (cbn; lia).
  assert (length (b64enc t) <= 4 * ((length t + 2) / 3)) by (apply (IH (length t)); cbn [length] in Hl; lia).
  replace (S (S (S (length t))) + 2) with ((length t + 2) + 1 * 3) by lia.
  rewrite Nat.div_add by lia. lia.
Qed.

(* strings: work ids are lower-case hex, which neither encoder escapes *)
Definition hexchar (c : N) : bool := ((48 <=? c) && (c <=? 57))%N || ((97 <=? c) && (c <=? 102))%N.
Lemma esc_hex : forall c, hexchar c = true -> esc_std c = [c] /\ esc_goccy c = [c].
Proof.
  intros c H. unfold hexchar in H. unfold esc_std, esc_goccy.
  repeat match goal with |- context [(?a =? ?b)%N] => destruct (N.eqb_spec a b); [exfalso; subst; cbn in H; discriminate|] end.
  destruct (N.ltb_spec c 32); [exfalso; apply orb_prop in H; destruct H as [H|H]; apply andb_prop in H; destruct H as [H1 H2]; apply N.leb_le in H1; lia|].
  cbn [orb]. split; reflexivity.
Qed.
Lemma len_pr_str_hex : forall esc l, (forall c, hexchar c = true -> esc c = [c]) -> forallb hexchar l = true ->
  length (pr_str esc l) = 2 + length l.
Proof.
  intros esc l He H. unfold pr_str. cbn [length]. rewrite app_length. cbn [length].
  assert (length (flat_map esc l) = length l) as ->; [|lia].
  induction l as [|c t IH]; [reflexivity|]. cbn [flat_map forallb] in *. apply andb_prop in H. destruct H as [Hc Ht].
  rewrite (He c Hc). cbn [app length]. rewrite IH by assumption. reflexivity.
Qed.

(* big integers (prices): non-negative, below 2^256 *)
Lemma len_pr_Z_bits : forall k z, (0 <= z < 2 ^ Z.of_nat k)%Z -> 1 <= k -> length (pr_Z z) <= k.
Proof.
  intros k z [H0 H1] Hk. unfold pr_Z. destruct z as [|p|p]; try lia.
  - cbn. lia.
  - cbn [Z.to_int]. rewrite len_pr_uint. unfold Pos.to_uint. rewrite nb_digits_rev.
    etransitivity; [apply nb_to_little|]. apply size_nat_lt. exact H1.
Qed.

(* ---------------------------------------------------------------- well-sized wire values *)
Definition hash_ok (l : list N) : Prop := length l = 32 /\ Forall (fun b => (b < 256)%N) l.
Definition u64 (n : N) : Prop := (n < 2 ^ 64)%N.
Definition wid_ok (l : list N) : Prop := length l <= 64 /\ forallb hexchar l = true.

Definition ext_ok (e : wext) : Prop :=
  hash_ok (we_txhash e) /\ (we_index e < 2 ^ 32)%N /\ hash_ok (we_blockhash e) /\ u64 (we_blocknum e).
Definition trig_ok (t : wtrig) : Prop :=
  u64 (wt_num t) /\ hash_ok (wt_hash t) /\ match wt_ext t with Some e => ext_ok e | None => True end.
Definition price_ok (p : option Z) : Prop := match p with Some v => (0 <= v < 2 ^ 256)%Z | None => True end.
Definition res_ok (pd : nat) (r : wres) : Prop :=
  (wr_state r < 2 ^ 8)%N /\ (wr_reason r < 2 ^ 8)%N /\ hash_ok (wr_upk r) /\ trig_ok (wr_trig r) /\ wid_ok (wr_wid r) /\
  u64 (wr_gas r) /\ match wr_pdata r with Some l => length l <= pd | None => True end /\ price_ok (wr_fgw r) /\ price_ok (wr_ln r).
Definition prop_ok (p : wprop) : Prop := hash_ok (wp_upk p) /\ trig_ok (wp_trig p) /\ wid_ok (wp_wid p).

Ltac lits :=
  repeat match goal with
         | |- context [length (s2l ?s)] => let n := eval vm_compute in (length (s2l s)) in change (length (s2l s)) with n
         | H : context [length (s2l ?s)] |- _ => let n := eval vm_compute in (length (s2l s)) in change (length (s2l s)) with n in H
         end.

Lemma len_hash : forall l, hash_ok l -> length (pr_arr l) <= 130.
Proof. intros l [H1 H2]. pose proof (len_pr_arr l H2). lia. Qed.

Lemma len_u64 : forall n, u64 n -> length (pr_N n) <= 64.
Proof. intros n H. apply (len_pr_N_bits 64 n); [exact H | lia]. Qed.

Lemma len_ext : forall e, ext_ok e -> length (pr_ext e) <= 406.
Proof.
  intros e (H1 & H2 & H3 & H4). unfold pr_ext. rewrite !app_length. lits.
  pose proof (len_hash _ H1). pose proof (len_hash _ H3). pose proof (len_u64 _ H4).
  pose proof (len_pr_N_bits 32 (we_index e) H2 ltac:(lia)). clear H1 H2 H3 H4. lia.
Qed.

Lemma len_trig : forall t, trig_ok t -> length (pr_trig t) <= 653.
Proof.
  intros t (H1 & H2 & H3). unfold pr_trig. rewrite !app_length. lits.
  pose proof (len_u64 _ H1). pose proof (len_hash _ H2).
  assert (length (pr_opt pr_ext (wt_ext t)) <= 406).
  { destruct (wt_ext t) as [e|]; cbn [pr_opt]; [apply len_ext; exact H3| vm_compute; lia]. }
  lia.
Qed.

Lemma len_price : forall p, price_ok p -> length (pr_opt pr_Z p) <= 256.
Proof.
  intros [v|] H; cbn [pr_opt]; [|vm_compute; lia]. apply (len_pr_Z_bits 256 v); [exact H | lia].
Qed.

Definition b64len (pd : nat) : nat := 4 * ((pd + 2) / 3).

Lemma len_bytes : forall pd o, match o with Some l => length l <= pd | None => True end -> length (pr_bytes o) <= 4 + b64len pd.
Proof.
  intros pd [l|] H; cbn [pr_bytes]; [|unfold null; lits; lia].
  cbn [length]. rewrite app_length. cbn [length]. pose proof (len_b64 (length l) l (le_n _)).
  unfold b64len. assert ((length l + 2) / 3 <= (pd + 2) / 3) by (apply Nat.div_le_mono; lia). lia.
Qed.

Lemma len_bool : forall b, length (pr_bool b) <= 5.
Proof. intros [|]; vm_compute; lia. Qed.

Definition res_bound (pd : nat) : nat := 1632 + b64len pd.

Lemma len_res : forall pd r, res_ok pd r -> length (pr_res r) <= res_bound pd.
Proof.
  intros pd r (H1 & H2 & H3 & H4 & (H5 & H5') & H6 & H7 & H8 & H9). unfold pr_res, res_bound. rewrite !app_length. lits.
  pose proof (len_pr_N_bits 8 _ H1 ltac:(lia)). pose proof (len_pr_N_bits 8 _ H2 ltac:(lia)).
  pose proof (len_hash _ H3). pose proof (len_trig _ H4). pose proof (len_u64 _ H6).
  pose proof (len_bytes pd _ H7). pose proof (len_price _ H8). pose proof (len_price _ H9).
  pose proof (len_bool (wr_retryable r)). pose proof (len_bool (wr_eligible r)).
  rewrite (len_pr_str_hex esc_std (wr_wid r) (fun c Hc => proj1 (esc_hex c Hc)) H5'). clear H1 H2 H3 H4 H6 H7 H8 H9. lia.
Qed.

Lemma len_prop : forall p, prop_ok p -> length (pr_prop p) <= 883.
Proof.
  intros p (H1 & H2 & (H3 & H3')). unfold pr_prop. rewrite !app_length. lits.
  pose proof (len_hash _ H1). pose proof (len_trig _ H2).
  rewrite (len_pr_str_hex esc_goccy (wp_wid p) (fun c Hc => proj2 (esc_hex c Hc)) H3'). clear H1 H2. lia.
Qed.

(* ---------------------------------------------------------------- the whole outcome *)
Definition outcome_sizes_ok (pd : nat) (o : wout) : Prop :=
  match wc_agreed o with Some l => length l <= 100 /\ Forall (res_ok pd) l | None => True end /\
  match wc_surfaced o with
  | Some rounds => length rounds <= 20 /\
                   Forall (fun rd => match rd with Some ps => length ps <= 50 /\ Forall prop_ok ps | None => True end) rounds
  | None => True
  end.

Definition outcome_bound (pd : nat) : nat := 48 + (2 + 100 * (res_bound pd + 1)) + (2 + 20 * ((2 + 50 * 884) + 1)).

Lemma len_outcome : forall pd o, outcome_sizes_ok pd o -> length (enc_outcome o) <= outcome_bound pd.
Proof.
  intros pd o [Ha Hs]. unfold enc_outcome, outcome_bound. rewrite !app_length. lits.
  assert (length (pr_opt (pr_list pr_res) (wc_agreed o)) <= 2 + 100 * (res_bound pd + 1)) as A.
  { destruct (wc_agreed o) as [l|]; cbn [pr_opt]; [|unfold null; lits; lia].
    destruct Ha as [Hn Hf]. rewrite Forall_forall in Hf.
    pose proof (len_pr_list _ pr_res (res_bound pd) l (fun x Hx => len_res pd x (Hf x Hx))).
    assert (length l * (res_bound pd + 1) <= 100 * (res_bound pd + 1)) by (apply Nat.mul_le_mono_r; exact Hn). lia. }
  assert (length (pr_opt (pr_list (pr_opt (pr_list pr_prop))) (wc_surfaced o)) <= 2 + 20 * ((2 + 50 * 884) + 1)) as S.
  { destruct (wc_surfaced o) as [rounds|]; cbn [pr_opt]; [|unfold null; lits; lia].
    destruct Hs as [Hn Hf]. rewrite Forall_forall in Hf.
    assert (forall rd, In rd rounds -> length (pr_opt (pr_list pr_prop) rd) <= 2 + 50 * 884) as R.
    { intros [ps|] Hin; cbn [pr_opt]; [|unfold null; lits; lia].
      destruct (Hf _ Hin) as [Hl Hp]. rewrite Forall_forall in Hp.
      pose proof (len_pr_list _ pr_prop 883 ps (fun x Hx => len_prop x (Hp x Hx))).
      assert (length ps * (883 + 1) <= 50 * 884) by (replace (883 + 1) with 884 by lia; apply Nat.mul_le_mono_r; exact Hl). lia. }
    pose proof (len_pr_list _ (pr_opt (pr_list pr_prop)) (2 + 50 * 884) rounds R).
    assert (length rounds * (2 + 50 * 884 + 1) <= 20 * (2 + 50 * 884 + 1)) by (apply Nat.mul_le_mono_r; exact Hn). lia. }
  lia.
Qed.

(* with perform data of at most 10,000 bytes the encoding fits the advertised maximum outcome length *)
Definition pd_max : nat := 100 * 100.   (* 10,000 bytes of perform data *)
Lemma outcome_bound_10000 : Z.of_nat (outcome_bound pd_max) = 2381012%Z.
Proof. vm_compute. reflexivity. Qed.

Theorem outcome_fits : forall o, outcome_sizes_ok pd_max o -> (Z.of_nat (length (enc_outcome o)) <= MaxOutcomeLength)%Z.
Proof.
  intros o H. pose proof (len_outcome pd_max o H) as L. apply Nat2Z.inj_le in L.
  rewrite outcome_bound_10000 in L. unfold MaxOutcomeLength. lia.
Qed.

(* ---------------------------------------------------------------- the size arithmetic of the trimming hook *)
(* AddFromStagingHook measures the observation WITHOUT performables ("Performable":null) and then reasons about the
   size with k results.  On the wire model the two are related exactly as Model/Observation.v's obs_size assumes:
   null (4 bytes) is replaced by '[' r1 ',' ... ',' rk ']'. *)
Lemma len_sep_exact : forall (A : Type) (f : A -> list N) (l : list A),
  length (sep f l) = fold_right (fun x a => length (f x) + a) 0 l + (length l - 1).
Proof.
  intros A f l. induction l as [|x t IH]; [reflexivity|].
  cbn [sep fold_right length]. destruct t as [|y t'].
  - cbn. lia.
  - rewrite app_length. cbn [length]. rewrite IH. cbn [length]. lia.
Qed.

Lemma obs_size_arithmetic : forall (l : list wres) props hist,
  l <> [] ->
  length (enc_obs (mkWObs (Some l) props hist)) + 4 =
  length (enc_obs (mkWObs None props hist)) + 2 + fold_right (fun r a => length (pr_res r) + a) 0 l + (length l - 1).
Proof.
  intros l props hist Hl. unfold enc_obs. cbn [wo_perf wo_props wo_hist pr_opt].
  rewrite !app_length. unfold pr_list. cbn [length]. rewrite app_length. cbn [length].
  rewrite len_sep_exact. unfold null. lits. lia.
Qed.
