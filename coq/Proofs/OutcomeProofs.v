(* Outcome as a whole: assembling the performables / coordinated block / surfaced proposals
   lemmas into statements about outcome_of with the real validation model
   (properties C01, C02, C03 outcome clauses, C05). *)
From Verif Require Import Base.Util Model.Types Model.Outcome Model.Validate Model.OutcomeCase
  Proofs.TypesProofs Proofs.SortProofs Proofs.PerformablesProofs Proofs.ProposalsProofs
  Proofs.SurfacedProofs Proofs.ValidateProofs.
From Coq Require Import ZifyBool ZifyN ZifyNat.
Open Scope N_scope.

Section O.
  Variable utg : N -> N.
  Variable wg : N -> trigger -> N.
  Variable uid : result -> N.
  Variable shuf : N -> N.

  Notation valid := (valid_obs utg wg).
  Notation vlist := (valid_obs_list valid).

  Lemma vlist_valid l o : In o (vlist l) -> valid o = true.
  Proof.
    induction l as [|a l IH]; simpl; [intros []|]. intro H. apply in_app_or in H as [H|H]; [|auto].
    destruct a as [|o']; [destruct H|]. destruct (valid o') eqn:E; [|destruct H].
    destruct H as [<-|[]]. exact E.
  Qed.

  Lemma vlist_obs_ok l : Forall obs_ok (vlist l).
  Proof.
    apply Forall_forall. intros o H. apply vlist_valid in H. apply valid_obs_iff in H.
    unfold obs_ok. apply H.
  Qed.

  Lemma vlist_hist_ok l : Forall hist_ok (vlist l).
  Proof.
    apply Forall_forall. intros o H. apply vlist_valid in H. apply valid_obs_iff in H.
    unfold hist_ok. apply H.
  Qed.

  Lemma vlist_result_rules l o r : In o (vlist l) -> In r (o_perf o) -> result_rules utg wg r.
  Proof.
    intros Ho Hr. apply vlist_valid in Ho. apply valid_obs_iff in Ho.
    destruct Ho as [_ [_ [_ [F _]]]]. rewrite Forall_forall in F. auto.
  Qed.

  Lemma vlist_proposal_rules l o p : In o (vlist l) -> In p (o_props o) -> proposal_rules utg wg p.
  Proof.
    intros Ho Hp. apply vlist_valid in Ho. apply valid_obs_iff in Ho.
    destruct Ho as [_ [_ [_ [_ [_ [_ [F _]]]]]]]. rewrite Forall_forall in F. auto.
  Qed.

  (* ---------------- C01 on the outcome ---------------- *)
  Definition C01_spec (thr limit : nat) (obs : list observation) (agreed : list result) : Prop :=
    (forall r, In r agreed -> (thr <= support r obs)%nat) /\
    NoDup (map r_wid agreed) /\ (length agreed <= limit)%nat /\
    (forall r, In r (flat_map o_perf obs) -> (thr <= support r obs)%nat ->
       (exists a, In a agreed /\ r_wid a = r_wid r /\ (thr <= support a obs)%nat) \/
       ((limit <= length agreed)%nat /\ forall y, In y agreed -> shuf (r_wid y) < shuf (r_wid r))).

  Section WithPerms.
    Variables (pi_u : list (N * (result * nat)) -> list (N * (result * nat))) (pi_b : bvotes -> bvotes).
    Hypothesis pi_u_perm : forall v, Permutation (pi_u v) v.
    Hypothesis pi_b_perm : forall v, Permutation (pi_b v) v.
    Variables (tp tb : nat) (lim : limits) (prev : outcome) (l : list aobs).

    Let out := outcome_of uid shuf valid true pi_u pi_b tp tb lim prev l.
    Let obs := vlist l.

    Lemma out_agreed : oc_agreed out = pset shuf pi_u tp (l_agreed lim) (fold_left (vadd uid) obs []).
    Proof. reflexivity. Qed.

    Theorem outcome_C01 :
      (forall a b, uid a = uid b -> a = b) -> (forall a b, shuf a = shuf b -> a = b) -> (1 <= tp)%nat ->
      C01_spec tp (l_agreed lim) obs (oc_agreed out).
    Proof.
      intros uid_inj shuf_inj tp_pos.
      rewrite out_agreed. pose proof (vlist_obs_ok l) as OK. fold obs in OK.
      split; [|split; [|split]].
      - intros r H. eapply agreed_sound; eauto.
      - apply pset_nodup.
      - apply pset_length.
      - intros r Hin Hs.
        destruct (agreed_complete_strict uid shuf uid_inj pi_u pi_u_perm tp (l_agreed lim) obs OK r shuf_inj tp_pos Hs)
          as [r' [Hw [Hs' [Hi|[Hl Hy]]]]].
        + left. exists r'. auto.
        + right. split; [lia|]. intros y Hy'. rewrite <- Hw. apply Hy. exact Hy'.
    Qed.

    (* soundness alone needs neither injectivity of the shuffle nor a positive threshold *)
    Theorem outcome_agreed_sound :
      (forall a b, uid a = uid b -> a = b) ->
      forall r, In r (oc_agreed out) -> (tp <= support r obs)%nat.
    Proof.
      intros uid_inj r H. rewrite out_agreed in H. pose proof (vlist_obs_ok l) as OK.
      eapply agreed_sound; eauto.
    Qed.

    Theorem outcome_agreed_from_valid r : In r (oc_agreed out) ->
      exists o, In o obs /\ In r (o_perf o).
    Proof.
      rewrite out_agreed. intro H. apply pset_In in H.
      apply (cands_quorum uid shuf pi_u pi_u_perm) in H as [u [c [Hi Hc]]].
      destruct (votes_spec uid shuf obs u) as [Nv Hg].
      apply (vget_In shuf _ u (r, c) Nv) in Hi. rewrite Hg in Hi.
      destruct (occ uid u (flat_map o_perf obs)) as [|r1 t] eqn:E; [discriminate|]. inversion Hi; subst r1 c.
      assert (Hin : In r (flat_map o_perf obs)).
      { assert (H1 : In r (occ uid u (flat_map o_perf obs))) by (rewrite E; left; reflexivity).
        unfold occ in H1. apply filter_In in H1. tauto. }
      apply in_flat_map in Hin. exact Hin.
    Qed.

    (* ---------------- C05 on the outcome ---------------- *)
    Let bv := fold_left badd obs [].
    Let lq := latest_quorum_block true pi_b tb bv.

    Lemma out_surfaced :
      oc_surfaced out = cset shuf true pi_b tb (l_rounds lim) (l_perround lim) bv (flat_map o_props obs)
                             (oc_agreed out) (oc_surfaced prev).
    Proof. reflexivity. Qed.

    (* the selected block: listed by >= tb valid observations, and no supported block with a
       non-zero hash is higher (number first, then hash) *)
    Theorem outcome_block_quorum : snd lq = true ->
      bk_hash (fst lq) <> 0 /\ (tb <= bsupport (fst lq) obs)%nat /\ (1 <= bsupport (fst lq) obs)%nat /\
      forall b, (tb <= bsupport b obs)%nat -> (1 <= bsupport b obs)%nat -> bk_hash b <> 0 -> lex_le b (fst lq).
    Proof.
      intro Hf. pose proof (latest_quorum_block_spec pi_b tb bv pi_b_perm) as S. fold lq in S.
      destruct lq as [qb fnd]. simpl in Hf. subst fnd. simpl in S. destruct S as [Hh [[c [Hi Hc]] Hmax]].
      pose proof (vlist_hist_ok l) as HK. fold obs in HK. simpl.
      destruct (bvotes_spec obs qb HK) as [_ Hq]. fold bv in Hq. apply Hq in Hi as [-> H1].
      split; [exact Hh|]. split; [exact Hc|]. split; [exact H1|].
      intros b Hb Hb1 Hbh. destruct (bvotes_spec obs b HK) as [_ Hqb]. fold bv in Hqb.
      apply (Hmax b (bsupport b obs)); auto. apply Hqb. split; [reflexivity | exact Hb1].
    Qed.

    (* C09 liveness, first round of the cycle: a unit of work that some valid observation proposes and
       that is neither in the retained history nor agreed in this round is surfaced, stamped with the
       quorum block, unless the round is full of proposals sorting at or before it *)
    Theorem outcome_surfaced_live p : (1 <= l_rounds lim)%nat -> snd lq = true -> In p (flat_map o_props obs) ->
      ~ In (p_wid p) (all_wids (oc_surfaced prev)) -> ~ In (p_wid p) (map r_wid (oc_agreed out)) ->
      exists q, p_wid q = p_wid p /\ t_num (p_trig q) = bk_num (fst lq) /\ t_hash (p_trig q) = bk_hash (fst lq) /\
        (In q (hd [] (oc_surfaced out)) \/
         (length (hd [] (oc_surfaced out)) = l_perround lim /\
          forall y, In y (hd [] (oc_surfaced out)) -> shuf (p_wid y) <= shuf (p_wid q))).
    Proof.
      intros Hl Hq Hin Hh Ha. rewrite out_surfaced.
      exact (surfaced_live shuf pi_b pi_b_perm tb (l_rounds lim) (l_perround lim) Hl bv (flat_map o_props obs) (oc_agreed out)
               (oc_surfaced prev) p Hq Hin Hh Ha).
    Qed.

    Theorem outcome_no_block_quorum : snd lq = false ->
      (forall b, (tb <= bsupport b obs)%nat -> (1 <= bsupport b obs)%nat -> bk_hash b = 0) /\
      oc_surfaced out = carry (oc_agreed out) (oc_surfaced prev).
    Proof.
      intro Hf. split.
      - pose proof (latest_quorum_block_spec pi_b tb bv pi_b_perm) as S. fold lq in S.
        destruct lq as [qb fnd]. simpl in Hf. subst fnd. simpl in S.
        intros b Hb Hb1. pose proof (vlist_hist_ok l) as HK. fold obs in HK.
        destruct (bvotes_spec obs b HK) as [_ Hqb]. fold bv in Hqb.
        apply (S b (bsupport b obs)); [|exact Hb]. apply Hqb. split; [reflexivity | exact Hb1].
      - rewrite out_surfaced. apply cset_no_quorum. exact Hf.
    Qed.

    (* ---------------- C03: the outcome is valid ---------------- *)
    Hypothesis wg_ext : forall u t t', ext_key t = ext_key t' -> wg u t = wg u t'.

    Lemma restamp_rules qb p : proposal_rules utg wg p -> proposal_rules utg wg (restamp qb p).
    Proof.
      unfold proposal_rules, ext_rule. intros [[H1 H2] H3]. unfold restamp. simpl.
      destruct (t_ext (p_trig p)) as [e|] eqn:E; simpl.
      - split; [split; [intro Hc; specialize (H1 Hc); discriminate | intros _; discriminate]|].
        rewrite <- H3. apply wg_ext. unfold ext_key. simpl. rewrite E. reflexivity.
      - split; [split; [reflexivity | intro Hc; specialize (H2 Hc); congruence]|].
        rewrite <- H3. apply wg_ext. unfold ext_key. simpl. rewrite E. reflexivity.
    Qed.

    Hypothesis lim_gen : lim = lim_of_gen.
    Hypothesis prev_valid : outcome_rules utg wg prev.

    Theorem outcome_valid : outcome_rules utg wg out.
    Proof.
      assert (HL : l_agreed lim = 100%nat /\ l_rounds lim = 20%nat /\ l_perround lim = 50%nat).
      { rewrite lim_gen. vm_compute. repeat split; reflexivity. }
      destruct HL as [La [Lr Lp]].
      destruct prev_valid as [_ [_ [_ [Pr [Pp [Pf Pn]]]]]].
      unfold doc_rounds_limit in Pr. unfold doc_round_limit in Pp.
      unfold outcome_rules, doc_agreed_limit, doc_rounds_limit, doc_round_limit.
      split; [|split; [|split; [|split; [|split; [|split]]]]].
      - rewrite out_agreed. pose proof (pset_length shuf pi_u tp (l_agreed lim) (fold_left (vadd uid) obs [])). lia.
      - apply Forall_forall. intros r Hr. apply outcome_agreed_from_valid in Hr as [o [Ho Hr]].
        eapply vlist_result_rules; eauto.
      - rewrite out_agreed. apply pset_nodup.
      - rewrite out_surfaced.
        pose proof (cset_history shuf pi_b pi_b_perm tb (l_rounds lim) (l_perround lim) ltac:(lia) bv (flat_map o_props obs)
                      (oc_agreed out) (oc_surfaced prev) ltac:(lia)) as [H _]. lia.
      - rewrite out_surfaced.
        pose proof (cset_round_sizes shuf pi_b tb (l_rounds lim) (l_perround lim) bv (flat_map o_props obs)
                      (oc_agreed out) (oc_surfaced prev)) as H.
        eapply Forall_impl; [|apply H].
        + intros rd Hrd. simpl in Hrd. lia.
        + eapply Forall_impl; [|exact Pp]. intros rd Hrd. simpl in Hrd. lia.
      - (* every surfaced proposal satisfies the proposal rules *)
        rewrite out_surfaced. apply Forall_forall. intros p Hp.
        rewrite Forall_forall in Pf.
        destruct (cset_cases shuf pi_b tb (l_rounds lim) (l_perround lim) bv (flat_map o_props obs)
                    (oc_agreed out) (oc_surfaced prev)) as [[_ E]|[_ E]]; rewrite E in Hp.
        + unfold carry in Hp. rewrite concat_map_filter in Hp. apply filter_In in Hp as [Hp _]. auto.
        + simpl in Hp. apply in_app_or in Hp as [Hp|Hp].
          * apply firstn_In' in Hp. apply sort_by_In in Hp.
            apply new_props_spec in Hp as [p0 [Hp0 [-> _]]]. apply restamp_rules.
            apply in_flat_map in Hp0 as [o [Ho Hp0]]. eapply vlist_proposal_rules; eauto.
          * assert (Hc : In p (concat (carry (oc_agreed out) (oc_surfaced prev)))).
            { match type of Hp with In _ (concat (if ?c then _ else _)) => destruct c end.
              - rewrite (concat_firstn_skipn (l_rounds lim - 1)). apply in_or_app. left. exact Hp.
              - exact Hp. }
            unfold carry in Hc. rewrite concat_map_filter in Hc. apply filter_In in Hc as [Hc _]. auto.
      - rewrite out_surfaced.
        apply (cset_once shuf pi_b tb (l_rounds lim) (l_perround lim) bv (flat_map o_props obs)
                 (oc_agreed out) (oc_surfaced prev)). exact Pn.
    Qed.
  End WithPerms.

  (* ---------------- C02: independence of both map iteration orders ---------------- *)
  Theorem outcome_order_indep pu1 pu2 (pb1 pb2 : bvotes -> bvotes) tp tb lim prev l :
    (forall v, Permutation (pu1 v) v) -> (forall v, Permutation (pu2 v) v) ->
    (forall v, Permutation (pb1 v) v) -> (forall v, Permutation (pb2 v) v) ->
    outcome_of uid shuf valid true pu1 pb1 tp tb lim prev l =
    outcome_of uid shuf valid true pu2 pb2 tp tb lim prev l.
  Proof.
    intros U1 U2 B1 B2. unfold outcome_of.
    assert (EA : pset shuf pu1 tp (l_agreed lim) (fold_left (vadd uid) (vlist l) [])
               = pset shuf pu2 tp (l_agreed lim) (fold_left (vadd uid) (vlist l) [])).
    { apply pset_order_indep; auto. apply (votes_spec uid shuf (vlist l) 0). }
    rewrite EA. f_equal. unfold cset.
    rewrite (latest_quorum_block_order_indep pb1 pb2 tb (fold_left badd (vlist l) []) B1 B2).
    - reflexivity.
    - apply (bvotes_spec (vlist l) (mkBK 0 0) (vlist_hist_ok l)).
  Qed.
End O.

(* ---------------- chains of rounds (C03 "the next round can always decode it", C05 chain) ---------------- *)
Section Chain.
  Variable utg : N -> N.
  Variable wg : N -> trigger -> N.
  Hypothesis wg_ext : forall u t t', ext_key t = ext_key t' -> wg u t = wg u t'.

  (* one round: its own oracles (uid/shuffle ranks of that round), thresholds, map orders, observations *)
  Record round_in := mkRound {
    ri_uid : result -> N; ri_shuf : N -> N;
    ri_pu : list (N * (result * nat)) -> list (N * (result * nat)); ri_pb : bvotes -> bvotes;
    ri_tp : nat; ri_tb : nat; ri_obs : list aobs }.

  Definition round_ok (r : round_in) : Prop :=
    (forall v, Permutation (ri_pu r v) v) /\ (forall v, Permutation (ri_pb r v) v).

  Definition step_round (prev : outcome) (r : round_in) : outcome :=
    outcome_of (ri_uid r) (ri_shuf r) (valid_obs utg wg) true (ri_pu r) (ri_pb r) (ri_tp r) (ri_tb r)
               lim_of_gen prev (ri_obs r).

  Fixpoint run_chain (prev : outcome) (rs : list round_in) : list outcome :=
    match rs with
    | [] => []
    | r :: t => let o := step_round prev r in o :: run_chain o t
    end.

  Theorem chain_valid rs : forall prev,
    outcome_rules utg wg prev -> Forall round_ok rs -> Forall (outcome_rules utg wg) (run_chain prev rs).
  Proof.
    induction rs as [|r t IH]; intros prev Hp Hr; simpl; [constructor|].
    inversion Hr as [|? ? [Hu Hb] Ht]; subst.
    assert (Ho : outcome_rules utg wg (step_round prev r)).
    { unfold step_round. apply outcome_valid; auto. }
    constructor; [exact Ho | apply IH; assumption].
  Qed.

  Lemma empty_outcome_valid : outcome_rules utg wg (mkOut [] []).
  Proof.
    unfold outcome_rules, doc_agreed_limit, doc_rounds_limit, doc_round_limit. simpl.
    repeat split; try constructor; try lia.
  Qed.
End Chain.

(* ---------------- checker K01 is sound ---------------- *)
Section K.
  Variable shuf : N -> N.

  Lemma supportb_support r obs : supportb result_eqb r obs = support r obs.
  Proof. reflexivity. Qed.

  Theorem K01_with_sound thr limit obs agreed :
    K01_with result_eqb thr limit shuf obs agreed = true -> C01_spec shuf thr limit obs agreed.
  Proof.
    unfold K01_with, C01_spec. rewrite !andb_true_iff. intros [[[H1 H2] H3] H4].
    rewrite forallb_forall in H1, H4. split; [|split; [|split]].
    - intros r Hr. specialize (H1 r Hr). rewrite supportb_support in H1. lia.
    - apply nodupb_NoDup. exact H2.
    - lia.
    - intros r Hr Hs. specialize (H4 r Hr). rewrite supportb_support in H4.
      replace (Nat.leb thr (support r obs)) with true in H4 by lia.
      apply orb_true_iff in H4 as [H4|H4].
      + left. apply existsb_exists in H4 as [a [Ha Hc]]. exists a. split; [exact Ha|].
        destruct (r_wid a =? r_wid r) eqn:E; [|discriminate]. rewrite supportb_support in Hc. split; lia.
      + right. destruct (Nat.leb limit (length agreed)) eqn:E; [|discriminate]. split; [lia|].
        rewrite forallb_forall in H4. intros y Hy. specialize (H4 y Hy). lia.
  Qed.

  (* ... and complete: K01 never rejects an outcome that meets the specification, so a K01 alarm on the
     implementation's output is a violation of C01_spec, never an artefact of the checker *)
  Theorem K01_with_complete thr limit obs agreed :
    C01_spec shuf thr limit obs agreed -> K01_with result_eqb thr limit shuf obs agreed = true.
  Proof.
    unfold K01_with, C01_spec. intros [H1 [H2 [H3 H4]]]. rewrite !andb_true_iff. repeat split.
    - apply forallb_forall. intros r Hr. rewrite supportb_support. specialize (H1 r Hr). lia.
    - apply nodupb_NoDup. exact H2.
    - lia.
    - apply forallb_forall. intros r Hr. rewrite supportb_support.
      destruct (Nat.leb thr (support r obs)) eqn:E; [|reflexivity].
      assert (Hs : (thr <= support r obs)%nat) by lia.
      destruct (H4 r Hr Hs) as [[a [Ha [Hw Hc]]]|[Hl Hy]]; apply orb_true_iff.
      + left. apply existsb_exists. exists a. split; [exact Ha|].
        replace (r_wid a =? r_wid r) with true by lia. rewrite supportb_support. lia.
      + right. replace (Nat.leb limit (length agreed)) with true by lia.
        apply forallb_forall. intros y Hy'. specialize (Hy y Hy'). lia.
  Qed.

  (* hence the model's own outcome always passes K01 (with an injective digest) *)
  Corollary model_passes_K01 utg wg uid pi_u pi_b tp tb lim prev l :
    (forall v, Permutation (pi_u v) v) ->
    (forall a b, uid a = uid b -> a = b) -> (forall a b, shuf a = shuf b -> a = b) -> (1 <= tp)%nat ->
    K01_with result_eqb tp (l_agreed lim) shuf (valid_obs_list (valid_obs utg wg) l)
      (oc_agreed (outcome_of uid shuf (valid_obs utg wg) true pi_u pi_b tp tb lim prev l)) = true.
  Proof.
    intros Hp Hu Hs Ht. apply K01_with_complete.
    exact (outcome_C01 utg wg uid shuf pi_u pi_b Hp tp tb lim prev l Hu Hs Ht).
  Qed.
End K.
