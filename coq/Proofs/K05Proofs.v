(* Soundness of the C05 checker K05_with: what a `true` verdict on an observed outcome means,
   stated as propositions over the observations, the agreed performables, the previous and the new
   surfaced history. *)
From Verif Require Import Base.Util Model.Types Model.Outcome Model.Validate Model.OutcomeCase
  Proofs.TypesProofs Proofs.ProposalsProofs.
From Coq Require Import ZifyBool ZifyN ZifyNat.
Open Scope N_scope.

Section K.
  Variable shuf : N -> N.

  Definition supported (thr : nat) (obs : list observation) (b : blockkey) : Prop :=
    In b (flat_map o_hist obs) /\ (thr <= bsupportb b obs)%nat.

  (* the property clauses for one round, over the observed new history [out] *)
  Record C05_spec (strict_zero : bool) (thr histL perRound : nat) (obs : list observation)
         (agreed : list result) (prev out : list (list proposal)) : Prop := {
    s_once : NoDup (map p_wid (concat out));
    s_disjoint : forall w, In w (map p_wid (concat out)) -> ~ In w (map r_wid agreed);
    s_rounds : (length out <= histL)%nat;
    s_per_round : Forall (fun rd => (length rd <= perRound)%nat) out;
    s_shape :
      (* no new round: earlier rounds carried over minus performed work, and no block with a non-zero hash has support *)
      (out = carried agreed prev /\ forall b, supported thr obs b -> bk_hash b = 0)
      \/
      (* a new round in front; the rest is the carried history with the oldest round dropped when full *)
      (exists new rest qb,
         out = new :: rest /\
         rest = (if Nat.leb histL (length (carried agreed prev)) then firstn (histL - 1) (carried agreed prev) else carried agreed prev) /\
         supported thr obs qb /\ bk_hash qb <> 0 /\
         (forall p, In p new -> t_num (p_trig p) = bk_num qb /\ t_hash (p_trig p) = bk_hash qb) /\
         (forall b, supported thr obs b -> (strict_zero = true \/ bk_hash b <> 0) -> bk_num b <= bk_num qb) /\
         (forall p, In p new -> exists q, In q (flat_map o_props obs) /\ p_wid q = p_wid p /\ p_upk q = p_upk p) /\
         (forall q, In q (flat_map o_props obs) ->
            In (p_wid q) (map p_wid (concat rest)) \/ In (p_wid q) (map r_wid agreed) \/ In (p_wid q) (map p_wid new)
            \/ ((perRound <= length new)%nat /\ forall y, In y new -> shuf (p_wid y) < shuf (p_wid q))))
  }.

  Lemma rounds_eqb_eq a b : list_eqb (list_eqb prop_eqb) a b = true <-> a = b.
  Proof. apply list_eqb_eq. apply list_eqb_eq. apply prop_eqb_eq. Qed.

  Lemma qblocks_supported thr obs b : In b (qblocks thr obs) <-> supported thr obs b.
  Proof.
    unfold qblocks, supported, all_blocks. rewrite filter_In. split; intros [H1 H2]; split; auto; lia.
  Qed.

  Theorem K05_with_sound strict thr histL perRound obs agreed prev out :
    K05_with strict thr histL perRound shuf obs agreed prev out = true ->
    C05_spec strict thr histL perRound obs agreed prev out.
  Proof.
    unfold K05_with. rewrite !andb_true_iff. intros [[[[H1 H2] H3] H4] H5].
    constructor.
    - apply nodupb_NoDup. exact H1.
    - intros w Hw. rewrite forallb_forall in H2. specialize (H2 w Hw).
      rewrite negb_true_iff in H2. apply memN_false_In. exact H2.
    - lia.
    - apply Forall_forall. intros rd Hrd. rewrite forallb_forall in H4. specialize (H4 rd Hrd). lia.
    - destruct (list_eqb (list_eqb prop_eqb) out (carried agreed prev)) eqn:E.
      + left. apply rounds_eqb_eq in E. split; [exact E|].
        intros b Hb. apply qblocks_supported in Hb.
        destruct (filter (fun b0 => negb (bk_hash b0 =? 0)) (qblocks thr obs)) as [|x t] eqn:F; [|discriminate].
        destruct (bk_hash b =? 0) eqn:Eb; [lia|].
        assert (Hin : In b (filter (fun b0 => negb (bk_hash b0 =? 0)) (qblocks thr obs))).
        { apply filter_In. split; [exact Hb | rewrite Eb; reflexivity]. }
        rewrite F in Hin. destruct Hin.
      + right. destruct out as [|new rest]; [discriminate|].
        rewrite !andb_true_iff in H5. destruct H5 as [[[Hr Hq] Hn] Hc].
        apply rounds_eqb_eq in Hr.
        set (qb_nz := filter (fun b0 => negb (bk_hash b0 =? 0)) (qblocks thr obs)) in *.
        assert (Hex : existsb (fun qb =>
                forallb (fun p => (t_num (p_trig p) =? bk_num qb) && (t_hash (p_trig p) =? bk_hash qb)
                                  && match t_ext (p_trig p) with Some e => le_blocknum e =? 0 | None => true end) new
                && forallb (fun b => bk_num b <=? bk_num qb) (if strict then qblocks thr obs else qb_nz)
                && forallb (fun b => negb (bk_num b =? bk_num qb) || (bk_hash b <=? bk_hash qb)) qb_nz) qb_nz = true).
        { destruct qb_nz; [discriminate | exact Hq]. }
        apply existsb_exists in Hex as [qb [Hqb Hcl]]. rewrite !andb_true_iff in Hcl. destruct Hcl as [[Hs Hmax] _].
        unfold qb_nz in Hqb. apply filter_In in Hqb as [Hqb1 Hqb2]. apply qblocks_supported in Hqb1.
        exists new, rest, qb. split; [reflexivity|]. split; [exact Hr|]. split; [exact Hqb1|].
        split; [rewrite negb_true_iff in Hqb2; lia|]. split; [|split; [|split]].
        * intros p Hp. rewrite forallb_forall in Hs. specialize (Hs p Hp). rewrite !andb_true_iff in Hs.
          destruct Hs as [[Ha Hb] _]. split; lia.
        * intros b Hb Hz. apply qblocks_supported in Hb. rewrite forallb_forall in Hmax.
          assert (Hin : In b (if strict then qblocks thr obs else qb_nz)).
          { destruct strict; [exact Hb|]. destruct Hz as [Hz|Hz]; [discriminate|].
            unfold qb_nz. apply filter_In. split; [exact Hb|]. rewrite negb_true_iff. lia. }
          specialize (Hmax b Hin). lia.
        * intros p Hp. rewrite forallb_forall in Hn. specialize (Hn p Hp).
          apply existsb_exists in Hn as [q [Hq1 Hq2]]. exists q. split; [exact Hq1|].
          unfold same_unit in Hq2. rewrite !andb_true_iff in Hq2. destruct Hq2 as [[Hu Hw] _]. split; lia.
        * intros q Hq1. rewrite forallb_forall in Hc. specialize (Hc q Hq1).
          rewrite !orb_true_iff in Hc. destruct Hc as [[[Hc|Hc]|Hc]|Hc].
          -- left. apply memN_In. exact Hc.
          -- right. left. apply memN_In. exact Hc.
          -- right. right. left. apply memN_In. exact Hc.
          -- right. right. right. rewrite andb_true_iff in Hc. destruct Hc as [Hl Hf]. split; [lia|].
             intros y Hy. rewrite forallb_forall in Hf. specialize (Hf y Hy). lia.
  Qed.
End K.
