(* C18 - plugin.Close over k recoverers: the composition of k copies of the recoverer LTS.
   Components share no state; plugin.Close calls Close on them one after the other. *)
From Verif Require Import Base.Util Model.Lifecycle Proofs.LifecycleProofs.
From Coq Require Import Arith PeanoNat Lia.

(* ------------------------------------------------------------------ lists *)
Lemma set_nth_length {A} (v : A) : forall l i, length (set_nth i v l) = length l.
Proof. induction l as [|x r IH]; intros [|i]; simpl; auto. Qed.

Lemma nth_error_set_nth_same {A} (v : A) : forall l i, i < length l -> nth_error (set_nth i v l) i = Some v.
Proof. induction l as [|x r IH]; intros [|i] H; simpl in *; try lia; auto. apply IH. lia. Qed.

Lemma nth_error_set_nth_other {A} (v : A) : forall l i j, i <> j -> nth_error (set_nth i v l) j = nth_error l j.
Proof.
  induction l as [|x r IH]; intros [|i] [|j] H; simpl; auto; try congruence.
Qed.

Lemma nth_error_lt {A} (l : list A) i x : nth_error l i = Some x -> i < length l.
Proof. intro H. apply nth_error_Some. congruence. Qed.

Lemma psum_set_nth v : forall l i x, nth_error l i = Some x -> psum (set_nth i v l) + cmu x = psum l + cmu v.
Proof.
  induction l as [|y r IH]; intros [|i] x H; simpl in *; try discriminate.
  - inversion H; subst. unfold psum; simpl. lia.
  - specialize (IH i x H). unfold psum in *; simpl. lia.
Qed.

(* ------------------------------------------------------------------ isolation *)
Definition touched (ps : pstate) (pl : plabel) : option nat :=
  match pl with PComp i _ => Some i | PInvoke => Some (p_next ps) | _ => None end.

(* a transition of (or a Close call on) one recoverer leaves every other recoverer's state untouched *)
Lemma pstep_isolation cfs ps pl ps' :
  pstep cfs ps pl = Some ps' ->
  forall j, touched ps pl <> Some j -> nth_error (p_comps ps') j = nth_error (p_comps ps) j.
Proof.
  intros H j Hj. destruct pl as [i l| | |]; unfold pstep in H; simpl in Hj.
  - destruct (is_ecall l); [discriminate|].
    destruct (nth_error cfs i); [|discriminate]. destruct (nth_error (p_comps ps) i); [|discriminate].
    destruct (step c s l); [|discriminate]. inversion H; subst; simpl.
    apply nth_error_set_nth_other. congruence.
  - destruct (p_called ps); inversion H; subst; reflexivity.
  - destruct (p_called ps); [|discriminate].
    destruct (nth_error cfs (p_next ps)); [|discriminate]. destruct (nth_error (p_comps ps) (p_next ps)); [|discriminate].
    destruct (step c s ECall); [|discriminate]. inversion H; subst; simpl.
    apply nth_error_set_nth_other. congruence.
  - destruct (p_called ps); [|discriminate]. destruct (nth_error (p_comps ps) (p_next ps)); [|discriminate].
    destruct (is_cret (s_c s)); inversion H; subst; reflexivity.
Qed.

(* ------------------------------------------------------------------ projection *)
Lemma preach_comps cfs ps :
  preachable cfs ps ->
  length (p_comps ps) = length cfs /\
  forall i cf s, nth_error cfs i = Some cf -> nth_error (p_comps ps) i = Some s -> reachable cf s.
Proof.
  intro Hp. induction Hp as [|ps pl ps' Hp [IHl IH] Hs].
  - split; [unfold pinit; simpl; apply map_length|].
    intros i cf s Hc Hn. unfold pinit in Hn; simpl in Hn.
    rewrite (map_nth_error (fun _ => init) i cfs Hc) in Hn. inversion Hn; subst. constructor.
  - destruct pl as [i l| | |]; unfold pstep in Hs.
    + destruct (is_ecall l); [discriminate|].
      destruct (nth_error cfs i) as [cf0|] eqn:Ec; [|discriminate].
      destruct (nth_error (p_comps ps) i) as [s0|] eqn:En; [|discriminate].
      destruct (step cf0 s0 l) as [s1|] eqn:Es; [|discriminate]. inversion Hs; subst; simpl. split.
      * rewrite set_nth_length. exact IHl.
      * intros j cf s Hc Hn. destruct (Nat.eq_dec i j) as [->|Hne].
        -- rewrite nth_error_set_nth_same in Hn by (eapply nth_error_lt; exact En).
           inversion Hn; subst. rewrite Ec in Hc. inversion Hc; subst.
           eapply reach_step; [eapply IH; eassumption | exact Es].
        -- rewrite nth_error_set_nth_other in Hn by exact Hne. eapply IH; eassumption.
    + destruct (p_called ps); inversion Hs; subst; simpl. split; assumption.
    + destruct (p_called ps); [|discriminate].
      destruct (nth_error cfs (p_next ps)) as [cf0|] eqn:Ec; [|discriminate].
      destruct (nth_error (p_comps ps) (p_next ps)) as [s0|] eqn:En; [|discriminate].
      destruct (step cf0 s0 ECall) as [s1|] eqn:Es; [|discriminate]. inversion Hs; subst; simpl. split.
      * rewrite set_nth_length. exact IHl.
      * intros j cf s Hc Hn. destruct (Nat.eq_dec (p_next ps) j) as [E|Hne].
        -- subst j. rewrite nth_error_set_nth_same in Hn by (eapply nth_error_lt; exact En).
           inversion Hn; subst. rewrite Ec in Hc. inversion Hc; subst.
           eapply reach_step; [eapply IH; eassumption | exact Es].
        -- rewrite nth_error_set_nth_other in Hn by exact Hne. eapply IH; eassumption.
    + destruct (p_called ps); [|discriminate]. destruct (nth_error (p_comps ps) (p_next ps)); [|discriminate].
      destruct (is_cret (s_c s)); inversion Hs; subst; simpl. split; assumption.
Qed.

(* ------------------------------------------------------------------ Close is called in order *)
Definition c_idle (s : state) : bool := match s_c s with CIdle => true | _ => false end.
Definition Fb (cf : config) (s : state) : bool :=
  forallb (fun l => match step cf s l with
                    | Some s' => (is_ecall l || negb (c_idle s) || c_idle s') && (negb (is_cret (s_c s)) || is_cret (s_c s'))
                    | None => true end) all_labels.
Lemma F_six : six Fb = true. Proof. vm_compute. reflexivity. Qed.

Lemma frame_c cf s l s' :
  known_cfg cf -> reachable cf s -> step cf s l = Some s' ->
  (l <> ECall -> s_c s = CIdle -> s_c s' = CIdle) /\ (is_cret (s_c s) = true -> is_cret (s_c s') = true).
Proof.
  intros Hk Hr Hs. pose proof (six_sound Fb F_six cf s Hk Hr) as H. unfold Fb in H.
  pose proof (all_steps cf s (fun l s' => (is_ecall l || negb (c_idle s) || c_idle s') && (negb (is_cret (s_c s)) || is_cret (s_c s'))) H l s' Hs) as H1.
  cbn beta in H1. apply andb_true_iff in H1 as [A B]. split.
  - intros Hne Hc. assert (He : is_ecall l = false) by (destruct l; try reflexivity; congruence).
    unfold c_idle in A. rewrite He, Hc in A. cbn [negb orb] in A. destruct (s_c s'); try discriminate. reflexivity.
  - intro Hc. rewrite Hc in B. cbn [negb orb] in B. exact B.
Qed.

Definition pinv (cfs : list config) (ps : pstate) : Prop :=
  (p_called ps = false -> p_next ps = 0) /\ p_next ps <= length cfs /\
  (forall i s, nth_error (p_comps ps) i = Some s -> i < p_next ps -> is_cret (s_c s) = true) /\
  (forall i s, nth_error (p_comps ps) i = Some s -> (p_called ps = false \/ p_next ps < i) -> s_c s = CIdle).

Lemma is_ecall_ne l : is_ecall l = false -> l <> ECall.
Proof. intros H E. subst. discriminate. Qed.

Lemma preach_inv cfs ps : Forall known_cfg cfs -> preachable cfs ps -> pinv cfs ps.
Proof.
  intros Hk Hp. induction Hp as [|ps pl ps' Hp IH Hs].
  - unfold pinv, pinit; simpl. split; [intros _; reflexivity|]. split; [lia|]. split.
    + intros i s Hn Hi. lia.
    + intros i s Hn _. destruct (nth_error cfs i) as [cf|] eqn:E.
      * rewrite (map_nth_error (fun _ => init) i cfs E) in Hn. inversion Hn; subst. reflexivity.
      * apply nth_error_None in E. assert (i < length (map (fun _ : config => init) cfs)) by (eapply nth_error_lt; exact Hn).
        rewrite map_length in H. lia.
  - destruct (preach_comps cfs ps Hp) as [Hl Hreach]. destruct IH as (I1 & I2 & I3 & I4).
    destruct pl as [i l| | |]; unfold pstep in Hs.
    + destruct (is_ecall l) eqn:Ee; [discriminate|].
      destruct (nth_error cfs i) as [cf0|] eqn:Ec; [|discriminate].
      destruct (nth_error (p_comps ps) i) as [s0|] eqn:En; [|discriminate].
      destruct (step cf0 s0 l) as [s1|] eqn:Es; [|discriminate]. inversion Hs; subst; clear Hs.
      assert (Hk0 : known_cfg cf0) by (rewrite Forall_forall in Hk; apply Hk; eapply nth_error_In; exact Ec).
      destruct (frame_c cf0 s0 l s1 Hk0 (Hreach i cf0 s0 Ec En) Es) as [F1 F2].
      unfold pinv; simpl. split; [exact I1|]. split; [exact I2|]. split.
      * intros j s Hn Hj. destruct (Nat.eq_dec i j) as [->|Hne].
        -- rewrite nth_error_set_nth_same in Hn by (eapply nth_error_lt; exact En). inversion Hn; subst.
           apply F2. eapply I3; eassumption.
        -- rewrite nth_error_set_nth_other in Hn by exact Hne. eapply I3; eassumption.
      * intros j s Hn Hj. destruct (Nat.eq_dec i j) as [->|Hne].
        -- rewrite nth_error_set_nth_same in Hn by (eapply nth_error_lt; exact En). inversion Hn; subst.
           apply F1; [apply is_ecall_ne; exact Ee | eapply I4; eassumption].
        -- rewrite nth_error_set_nth_other in Hn by exact Hne. eapply I4; eassumption.
    + destruct (p_called ps) eqn:Ecl; [discriminate|]. inversion Hs; subst; clear Hs.
      unfold pinv; simpl. rewrite (I1 eq_refl) in *. split; [intro; discriminate|]. split; [lia|]. split.
      * intros j s Hn Hj. lia.
      * intros j s Hn _. eapply I4; [exact Hn | left; reflexivity].
    + destruct (p_called ps) eqn:Ecl; [|discriminate].
      destruct (nth_error cfs (p_next ps)) as [cf0|] eqn:Ec; [|discriminate].
      destruct (nth_error (p_comps ps) (p_next ps)) as [s0|] eqn:En; [|discriminate].
      destruct (step cf0 s0 ECall) as [s1|] eqn:Es; [|discriminate]. inversion Hs; subst; clear Hs.
      unfold pinv; simpl. split; [intro; discriminate|]. split; [exact I2|]. split.
      * intros j s Hn Hj. rewrite nth_error_set_nth_other in Hn by lia. eapply I3; eassumption.
      * intros j s Hn [Hj|Hj]; [discriminate|].
        rewrite nth_error_set_nth_other in Hn by lia. eapply I4; [exact Hn | right; exact Hj].
    + destruct (p_called ps) eqn:Ecl; [|discriminate].
      destruct (nth_error (p_comps ps) (p_next ps)) as [s0|] eqn:En; [|discriminate].
      destruct (is_cret (s_c s0)) eqn:Er; [|discriminate]. inversion Hs; subst; clear Hs.
      unfold pinv; simpl. split; [intro; discriminate|]. split; [apply nth_error_lt in En; lia|]. split.
      * intros j s Hn Hj. destruct (Nat.eq_dec j (p_next ps)) as [->|Hne].
        -- rewrite En in Hn. inversion Hn; subst. exact Er.
        -- eapply I3; [exact Hn | lia].
      * intros j s Hn [Hj|Hj]; [discriminate|]. eapply I4; [exact Hn | right; lia].
Qed.

(* when plugin.Close has returned, Close has returned on every recoverer *)
Lemma plugin_returned_all cfs ps :
  Forall known_cfg cfs -> preachable cfs ps -> p_returned cfs ps ->
  forall i s, nth_error (p_comps ps) i = Some s -> is_cret (s_c s) = true.
Proof.
  intros Hk Hp [_ Hn] i s Hi. destruct (preach_inv cfs ps Hk Hp) as (_ & _ & I3 & _).
  destruct (preach_comps cfs ps Hp) as [Hl _].
  eapply I3; [exact Hi|]. apply nth_error_lt in Hi. lia.
Qed.

(* while plugin.Close has not been called no recoverer has seen a Close *)
Lemma plugin_open_all_idle cfs ps :
  Forall known_cfg cfs -> preachable cfs ps -> p_called ps = false ->
  forall i s, nth_error (p_comps ps) i = Some s -> s_c s = CIdle.
Proof.
  intros Hk Hp Hc i s Hi. destruct (preach_inv cfs ps Hk Hp) as (_ & _ & _ & I4).
  eapply I4; [exact Hi | left; exact Hc].
Qed.

(* ------------------------------------------------------------------ plugin.Close does not deadlock *)
Lemma plugin_close_progress cfs ps :
  Forall known_cfg cfs -> preachable cfs ps -> p_called ps = true -> p_next ps < length cfs ->
  exists pl ps', pstep cfs ps pl = Some ps' /\ pmu ps' < pmu ps.
Proof.
  intros Hk Hp Hc Hn. destruct (preach_comps cfs ps Hp) as [Hl Hreach].
  destruct (nth_error cfs (p_next ps)) as [cf|] eqn:Ec; [|apply nth_error_None in Ec; lia].
  destruct (nth_error (p_comps ps) (p_next ps)) as [s|] eqn:En; [|apply nth_error_None in En; lia].
  assert (Hk0 : known_cfg cf) by (rewrite Forall_forall in Hk; apply Hk; eapply nth_error_In; exact Ec).
  assert (Hr : reachable cf s) by (eapply Hreach; eassumption).
  destruct (s_c s) eqn:Esc.
  - (* CIdle: invoke Close *)
    assert (Hs : step cf s ECall = Some (w_c s (if fix_a cf then CMark else CRead))) by (simpl; rewrite Esc; reflexivity).
    exists PInvoke. eexists. split.
    + unfold pstep. rewrite Hc, Ec, En, Hs. reflexivity.
    + unfold pmu; simpl. rewrite set_nth_length.
      pose proof (psum_set_nth (w_c s (if fix_a cf then CMark else CRead)) (p_comps ps) (p_next ps) s En) as E.
      assert (cmu (w_c s (if fix_a cf then CMark else CRead)) < cmu s).
      { unfold cmu. rewrite Esc. destruct (fix_a cf); simpl; lia. }
      lia.
  - destruct (close_progress cf s Hk0 Hr) as (l & s' & He & Hs & Hlt); [unfold midcall; rewrite Esc; reflexivity|].
    exists (PComp (p_next ps) l), (mkP (set_nth (p_next ps) s' (p_comps ps)) (p_called ps) (p_next ps)). split.
    + unfold pstep. assert (is_ecall l = false) as -> by (destruct l; try reflexivity; discriminate).
      rewrite Ec, En, Hs. reflexivity.
    + unfold pmu; simpl. rewrite set_nth_length. pose proof (psum_set_nth s' (p_comps ps) (p_next ps) s En). lia.
  - destruct (close_progress cf s Hk0 Hr) as (l & s' & He & Hs & Hlt); [unfold midcall; rewrite Esc; reflexivity|].
    exists (PComp (p_next ps) l), (mkP (set_nth (p_next ps) s' (p_comps ps)) (p_called ps) (p_next ps)). split.
    + unfold pstep. assert (is_ecall l = false) as -> by (destruct l; try reflexivity; discriminate).
      rewrite Ec, En, Hs. reflexivity.
    + unfold pmu; simpl. rewrite set_nth_length. pose proof (psum_set_nth s' (p_comps ps) (p_next ps) s En). lia.
  - destruct (close_progress cf s Hk0 Hr) as (l & s' & He & Hs & Hlt); [unfold midcall; rewrite Esc; reflexivity|].
    exists (PComp (p_next ps) l), (mkP (set_nth (p_next ps) s' (p_comps ps)) (p_called ps) (p_next ps)). split.
    + unfold pstep. assert (is_ecall l = false) as -> by (destruct l; try reflexivity; discriminate).
      rewrite Ec, En, Hs. reflexivity.
    + unfold pmu; simpl. rewrite set_nth_length. pose proof (psum_set_nth s' (p_comps ps) (p_next ps) s En). lia.
  - destruct (close_progress cf s Hk0 Hr) as (l & s' & He & Hs & Hlt); [unfold midcall; rewrite Esc; reflexivity|].
    exists (PComp (p_next ps) l), (mkP (set_nth (p_next ps) s' (p_comps ps)) (p_called ps) (p_next ps)). split.
    + unfold pstep. assert (is_ecall l = false) as -> by (destruct l; try reflexivity; discriminate).
      rewrite Ec, En, Hs. reflexivity.
    + unfold pmu; simpl. rewrite set_nth_length. pose proof (psum_set_nth s' (p_comps ps) (p_next ps) s En). lia.
  - destruct (close_progress cf s Hk0 Hr) as (l & s' & He & Hs & Hlt); [unfold midcall; rewrite Esc; reflexivity|].
    exists (PComp (p_next ps) l), (mkP (set_nth (p_next ps) s' (p_comps ps)) (p_called ps) (p_next ps)). split.
    + unfold pstep. assert (is_ecall l = false) as -> by (destruct l; try reflexivity; discriminate).
      rewrite Ec, En, Hs. reflexivity.
    + unfold pmu; simpl. rewrite set_nth_length. pose proof (psum_set_nth s' (p_comps ps) (p_next ps) s En). lia.
  - (* CRet: move on to the next recoverer *)
    exists PNext, (mkP (p_comps ps) true (S (p_next ps))). split.
    + unfold pstep. rewrite Hc, En, Esc. reflexivity.
    + unfold pmu; simpl. lia.
Qed.

Lemma plugin_close_monotone cfs ps pl ps' :
  Forall known_cfg cfs -> preachable cfs ps -> pstep cfs ps pl = Some ps' -> pmu ps' <= pmu ps.
Proof.
  intros Hk Hp Hs. destruct (preach_comps cfs ps Hp) as [Hl Hreach].
  destruct pl as [i l| | |]; unfold pstep in Hs.
  - destruct (is_ecall l); [discriminate|].
    destruct (nth_error cfs i) as [cf0|] eqn:Ec; [|discriminate].
    destruct (nth_error (p_comps ps) i) as [s0|] eqn:En; [|discriminate].
    destruct (step cf0 s0 l) as [s1|] eqn:Es; [|discriminate]. inversion Hs; subst; clear Hs.
    assert (Hk0 : known_cfg cf0) by (rewrite Forall_forall in Hk; apply Hk; eapply nth_error_In; exact Ec).
    pose proof (close_monotone cf0 s0 l s1 Hk0 (Hreach i cf0 s0 Ec En) Es).
    unfold pmu; simpl. rewrite set_nth_length. pose proof (psum_set_nth s1 (p_comps ps) i s0 En). lia.
  - destruct (p_called ps); inversion Hs; subst. unfold pmu; simpl. lia.
  - destruct (p_called ps); [|discriminate].
    destruct (nth_error cfs (p_next ps)) as [cf0|] eqn:Ec; [|discriminate].
    destruct (nth_error (p_comps ps) (p_next ps)) as [s0|] eqn:En; [|discriminate].
    destruct (step cf0 s0 ECall) as [s1|] eqn:Es; [|discriminate]. inversion Hs; subst; clear Hs.
    assert (Hk0 : known_cfg cf0) by (rewrite Forall_forall in Hk; apply Hk; eapply nth_error_In; exact Ec).
    pose proof (close_monotone cf0 s0 ECall s1 Hk0 (Hreach _ cf0 s0 Ec En) Es).
    unfold pmu; simpl. rewrite set_nth_length. pose proof (psum_set_nth s1 (p_comps ps) (p_next ps) s0 En). lia.
  - destruct (p_called ps); [|discriminate]. destruct (nth_error (p_comps ps) (p_next ps)); [|discriminate].
    destruct (is_cret (s_c s)); inversion Hs; subst. unfold pmu; simpl. lia.
Qed.

(* ------------------------------------------------------------------ statements exported by Props/C18.v *)
Definition recovery_step_ok (s : state) (l : label) (s' : state) : Prop :=
  if is_env l then recovering s' = true /\ rmu s' = rmu s
  else g_active (s_g s') = true \/ (recovering s' = true /\ rmu s' < rmu s).

Lemma panic_contained :
  forall cfs ps, Forall known_cfg cfs -> preachable cfs ps ->
  (forall pl ps', pstep cfs ps pl = Some ps' ->
     forall j, touched ps pl <> Some j -> nth_error (p_comps ps') j = nth_error (p_comps ps) j) /\
  (p_called ps = false ->
   forall i cf s, nth_error cfs i = Some cf -> nth_error (p_comps ps) i = Some s -> knd cf <> KOnce ->
     s_c s = CIdle /\
     (forall s', step cf s GPanic = Some s' -> recovering s' = true /\ rmu s' <= 7) /\
     (recovering s = true ->
        (exists l s', is_env l = false /\ step cf s l = Some s') /\
        (forall l s', step cf s l = Some s' -> l <> ECall -> recovery_step_ok s l s'))).
Proof.
  intros cfs ps Hk Hp. split.
  - intros pl ps' Hs. exact (pstep_isolation cfs ps pl ps' Hs).
  - intros Hc i cf s Ec En Hn. destruct (preach_comps cfs ps Hp) as [_ Hreach].
    assert (Hk0 : known_cfg cf) by (rewrite Forall_forall in Hk; apply Hk; eapply nth_error_In; exact Ec).
    assert (Hr : reachable cf s) by (eapply Hreach; eassumption).
    assert (Hi : s_c s = CIdle) by (eapply plugin_open_all_idle; eassumption).
    split; [exact Hi|]. split.
    + intros s' Hs. exact (panic_starts_recovery cf s s' Hk0 Hr Hs).
    + intro Hrec. exact (recovery_progress cf s Hk0 Hn Hr Hi Hrec).
Qed.

Lemma close_no_deadlock :
  (forall cf s, known_cfg cf -> reachable cf s -> midcall s = true ->
     exists l s', is_env l = false /\ step cf s l = Some s' /\ cmu s' < cmu s) /\
  (forall cf s l s', known_cfg cf -> reachable cf s -> step cf s l = Some s' -> cmu s' <= cmu s) /\
  (forall s, cmu s = 0 -> is_cret (s_c s) = true) /\
  (forall cfs ps, Forall known_cfg cfs -> preachable cfs ps -> p_called ps = true -> p_next ps < length cfs ->
     exists pl ps', pstep cfs ps pl = Some ps' /\ pmu ps' < pmu ps) /\
  (forall cfs ps pl ps', Forall known_cfg cfs -> preachable cfs ps -> pstep cfs ps pl = Some ps' -> pmu ps' <= pmu ps).
Proof.
  split; [exact close_progress|]. split; [intros; eapply close_monotone; eassumption|].
  split; [exact cmu_zero_ret|]. split; [exact plugin_close_progress|].
  intros; eapply plugin_close_monotone; eassumption.
Qed.

Lemma close_stops :
  forall cf s, repaired cf -> reachable cf s -> is_cret (s_c s) = true ->
  (knd cf = KSticky \/ h_early s = false) ->
  (forall l s', step cf s l = Some s' -> qmu cf s' < qmu cf s) /\
  (forall ls s', run cf s ls = Some s' -> length ls + qmu cf s' <= qmu cf s) /\
  (forall ls s', run cf s ls = Some s' -> stable cf s' = true -> quiescent s' = true) /\
  (h_early s = false ->
     h_late s = false /\
     forall ls s', run cf s ls = Some s' ->
       h_late s' = false /\ step cf s' TLaunch = None /\ step cf s' TRelaunch = None /\ step cf s' GEnter = None).
Proof.
  intros cf s Hk Hr Hc Hh.
  assert (Hyp : close_hyp cf s = true).
  { unfold close_hyp. rewrite Hc. destruct Hh as [-> | ->]; [reflexivity | apply orb_true_r]. }
  assert (Hrun : forall ls s', run cf s ls = Some s' -> reachable cf s' /\ close_hyp cf s' = true).
  { intros ls. revert s Hr Hc Hh Hyp. induction ls as [|l r IH]; simpl; intros s Hr Hc Hh Hyp s' H.
    - inversion H; subst. split; assumption.
    - destruct (step cf s l) as [s1|] eqn:E; [|discriminate].
      destruct (close_stops_decreases cf s l s1 Hk Hr Hyp E) as [_ Hy1].
      assert (Hr1 : reachable cf s1) by (eapply reach_step; eassumption).
      unfold close_hyp in Hy1. apply andb_true_iff in Hy1 as [A B].
      eapply (IH s1 Hr1 A); [| | exact H].
      + apply orb_true_iff in B as [B|B].
        * left. destruct (knd cf); try discriminate; reflexivity.
        * right. destruct (h_early s1); [discriminate | reflexivity].
      + unfold close_hyp. rewrite A, B. reflexivity. }
  split; [intros l s' Hs; exact (proj1 (close_stops_decreases cf s l s' Hk Hr Hyp Hs))|].
  split; [intros ls s' H; exact (close_stops_run cf ls s s' Hk Hr Hyp H)|].
  split.
  - intros ls s' H Hst. destruct (Hrun ls s' H) as [Hr' Hy']. exact (close_stops_quiescent cf s' Hk Hr' Hy' Hst).
  - intro He. split; [exact (proj1 (close_stops_no_restart cf s Hk Hr He))|].
    assert (Hearly : forall ls s0 s', reachable cf s0 -> is_cret (s_c s0) = true -> h_early s0 = false ->
                     run cf s0 ls = Some s' -> reachable cf s' /\ is_cret (s_c s') = true /\ h_early s' = false).
    { induction ls as [|l r IH]; simpl; intros s0 s' Hr0 Hc0 He0 H.
      - inversion H; subst. repeat split; assumption.
      - destruct (step cf s0 l) as [s1|] eqn:E; [|discriminate].
        assert (Hr1 : reachable cf s1) by (eapply reach_step; eassumption).
        destruct (frame_c cf s0 l s1 (repaired_known cf Hk) Hr0 E) as [_ F2].
        assert (He1 : h_early s1 = false).
        { destruct (Bool.bool_dec (h_early s1) (h_early s0)) as [Eq|Ne]; [rewrite Eq; exact He0|].
          destruct (early_only_by_race cf s0 l s1 (repaired_known cf Hk) Hr0 E Ne) as [-> _].
          simpl in E. destruct (s_c s0); try discriminate. }
        eapply IH; [exact Hr1 | exact (F2 Hc0) | exact He1 | exact H]. }
    intros ls s' H. destruct (Hearly ls s s' Hr Hc He H) as (Hr' & Hc' & He').
    destruct (close_stops_no_restart cf s' Hk Hr' He') as [A B]. split; [exact A | exact (B Hc')].
Qed.

(* plugin level: after plugin.Close has returned, every recoverer is in the situation of [close_stops] *)
Lemma plugin_close_stops :
  forall cfs ps, Forall repaired cfs -> preachable cfs ps -> p_returned cfs ps ->
  forall i cf s, nth_error cfs i = Some cf -> nth_error (p_comps ps) i = Some s ->
  reachable cf s /\ is_cret (s_c s) = true.
Proof.
  intros cfs ps Hrep Hp Hret i cf s Ec En.
  assert (Hk : Forall known_cfg cfs) by (eapply Forall_impl; [|exact Hrep]; exact repaired_known).
  destruct (preach_comps cfs ps Hp) as [_ Hreach]. split.
  - eapply Hreach; eassumption.
  - eapply plugin_returned_all; eassumption.
Qed.
