(* Coordinated block and surfaced proposals (properties C05, C02, C03). *)
From Verif Require Import Base.Util Model.Types Model.Outcome Proofs.TypesProofs Proofs.SortProofs.
From Coq Require Import Sorting.Sorted ZifyBool ZifyN ZifyNat.
Open Scope N_scope.

(* ---------------- block votes ---------------- *)
Notation bvotes := (list (blockkey * nat)).

Fixpoint bget (v : bvotes) (b : blockkey) : option nat :=
  match v with
  | [] => None
  | (b0, c) :: t => if bk_eqb b0 b then Some c else bget t b
  end.

Definition bcount (b : blockkey) (bs : list blockkey) : nat := length (filter (bk_eqb b) bs).

Lemma bk_eqb_refl b : bk_eqb b b = true.
Proof. apply bk_eqb_eq. reflexivity. Qed.

Lemma bk_eqb_sym a b : bk_eqb a b = bk_eqb b a.
Proof.
  destruct (bk_eqb a b) eqn:E1, (bk_eqb b a) eqn:E2; try reflexivity.
  - apply bk_eqb_eq in E1. subst. rewrite bk_eqb_refl in E2. discriminate.
  - apply bk_eqb_eq in E2. subst. rewrite bk_eqb_refl in E1. discriminate.
Qed.

Lemma bget_badd1 v x b :
  bget (badd1 v x) b =
    if bk_eqb x b then match bget v b with None => Some 1%nat | Some c => Some (S c) end
    else bget v b.
Proof.
  induction v as [|[b0 c] t IH]; simpl.
  - reflexivity.
  - destruct (bk_eqb b0 x) eqn:E0; simpl.
    + apply bk_eqb_eq in E0. subst b0. destruct (bk_eqb x b); reflexivity.
    + destruct (bk_eqb b0 b) eqn:E1.
      * apply bk_eqb_eq in E1. subst b0. rewrite bk_eqb_sym, E0. reflexivity.
      * exact IH.
Qed.

Lemma bget_fold bs : forall v b,
  bget (fold_left badd1 bs v) b =
    match bget v b with
    | Some c => Some (c + bcount b bs)%nat
    | None => if Nat.eqb (bcount b bs) 0 then None else Some (bcount b bs)
    end.
Proof.
  induction bs as [|x bs IH]; intros v b; simpl.
  - destruct (bget v b); [rewrite Nat.add_0_r|]; reflexivity.
  - rewrite IH, bget_badd1. unfold bcount. simpl. rewrite (bk_eqb_sym b x).
    destruct (bk_eqb x b); [|reflexivity].
    destruct (bget v b); simpl; f_equal; lia.
Qed.

Lemma bkeys_badd1 v x b : In b (map fst (badd1 v x)) <-> In b (map fst v) \/ b = x.
Proof.
  induction v as [|[b0 c] t IH]; simpl; [intuition|].
  destruct (bk_eqb b0 x) eqn:E; simpl.
  - apply bk_eqb_eq in E. subst. intuition.
  - rewrite IH. intuition.
Qed.

Lemma bnodup_badd1 v x : NoDup (map fst v) -> NoDup (map fst (badd1 v x)).
Proof.
  induction v as [|[b0 c] t IH]; simpl; intro N.
  - constructor; [intros []|constructor].
  - inversion N as [|? ? Nin Nt]; subst. destruct (bk_eqb b0 x) eqn:E; simpl.
    + constructor; assumption.
    + constructor; [|apply IH; assumption]. rewrite bkeys_badd1. intros [H|H]; [auto|].
      subst. rewrite bk_eqb_refl in E. discriminate.
Qed.

Lemma bnodup_fold bs : forall v, NoDup (map fst v) -> NoDup (map fst (fold_left badd1 bs v)).
Proof. induction bs as [|x bs IH]; intros v N; simpl; [exact N | apply IH, bnodup_badd1, N]. Qed.

Lemma bget_In v b c : NoDup (map fst v) -> (In (b, c) v <-> bget v b = Some c).
Proof.
  induction v as [|[b0 c0] t IH]; simpl; intro N.
  - split; [intros [] | discriminate].
  - inversion N as [|? ? Nin Nt]; subst. destruct (bk_eqb b0 b) eqn:E.
    + apply bk_eqb_eq in E. subst. split.
      * intros [H|H]; [congruence|]. exfalso. apply Nin. change b with (fst (b, c)). apply in_map, H.
      * intro H. left. congruence.
    + rewrite <- (IH Nt). split; [intros [H|H]; [|exact H] | auto].
      inversion H; subst. rewrite bk_eqb_refl in E. discriminate.
Qed.

Lemma badd_fold obs : forall v, fold_left badd obs v = fold_left badd1 (flat_map o_hist obs) v.
Proof.
  induction obs as [|o obs IH]; intro v; simpl; [reflexivity|].
  rewrite IH. unfold badd. rewrite fold_left_app. reflexivity.
Qed.

(* number of observations that list block b *)
Definition bsupport (b : blockkey) (obs : list observation) : nat :=
  length (filter (fun o => existsb (bk_eqb b) (o_hist o)) obs).

Definition hist_ok (o : observation) : Prop := NoDup (map bk_num (o_hist o)).

Lemma bcount_one b l : NoDup (map bk_num l) ->
  bcount b l = if existsb (bk_eqb b) l then 1%nat else 0%nat.
Proof.
  unfold bcount. induction l as [|a t IH]; simpl; intro N; [reflexivity|].
  inversion N as [|? ? Nin Nt]; subst. destruct (bk_eqb b a) eqn:E; simpl.
  - apply bk_eqb_eq in E. subst a. rewrite (IH Nt).
    destruct (existsb (bk_eqb b) t) eqn:Ex; [|reflexivity].
    exfalso. apply Nin. apply existsb_exists in Ex as [x [Hx He]]. apply bk_eqb_eq in He. subst.
    apply in_map. exact Hx.
  - apply IH, Nt.
Qed.

Lemma bcount_support b obs : Forall hist_ok obs -> bcount b (flat_map o_hist obs) = bsupport b obs.
Proof.
  unfold bcount, bsupport. induction obs as [|o obs IH]; intro F; simpl; [reflexivity|].
  inversion F as [|? ? Ho Fo]; subst. rewrite filter_app, app_length, (IH Fo).
  pose proof (bcount_one b (o_hist o) Ho) as H1. unfold bcount in H1. rewrite H1.
  destruct (existsb (bk_eqb b) (o_hist o)); simpl; lia.
Qed.

Theorem bvotes_spec obs b : Forall hist_ok obs ->
  let v := fold_left badd obs [] in
  NoDup (map fst v) /\ forall c, In (b, c) v <-> (c = bsupport b obs /\ (1 <= c)%nat).
Proof.
  intro F. simpl. rewrite badd_fold.
  assert (N : NoDup (map fst (fold_left badd1 (flat_map o_hist obs) []))) by (apply bnodup_fold; constructor).
  split; [exact N|]. intro c. rewrite (bget_In _ _ _ N), bget_fold. simpl.
  rewrite (bcount_support b obs F). destruct (Nat.eqb (bsupport b obs) 0) eqn:E; split; intro H.
  - discriminate.
  - lia.
  - inversion H. lia.
  - destruct H. subst. reflexivity.
Qed.

(* ---------------- latest quorum block ---------------- *)
Definition lex_le (b m : blockkey) : Prop :=
  bk_num b < bk_num m \/ (bk_num b = bk_num m /\ bk_hash b <= bk_hash m).

Definition is_cand (thr : nat) (bc : blockkey * nat) : bool :=
  Nat.leb thr (snd bc) && negb (bk_hash (fst bc) =? 0).

(* invariant of the fold for the repaired code *)
Definition lqb_inv (thr : nat) (seen : bvotes) (most : blockkey) : Prop :=
  ((forall bc, In bc seen -> is_cand thr bc = false) /\ most = mkBK 0 0)
  \/ (bk_hash most <> 0 /\ (exists c, In (most, c) seen /\ (thr <= c)%nat)
      /\ forall bc, In bc seen -> is_cand thr bc = true -> lex_le (fst bc) most).

Lemma lqb_step_inv thr seen most bc :
  lqb_inv thr seen most -> lqb_inv thr (seen ++ [bc]) (lqb_step true thr most bc).
Proof.
  intros I. destruct bc as [b c]. unfold lqb_step.
  destruct (Nat.leb thr c && negb (bk_hash b =? 0)) eqn:Q.
  - (* candidate *)
    assert (Qc : is_cand thr (b, c) = true) by exact Q.
    apply andb_true_iff in Q as [Q1 Q2].
    destruct I as [[Hn ->]|[Hh [[c0 [Hi0 Hc0]] Hmax]]].
    + simpl. right. split; [lia|]. split.
      * exists c. split; [apply in_or_app; right; left; reflexivity | lia].
      * intros bc' Hin Hc'. apply in_app_or in Hin as [Hin|[<-|[]]].
        -- rewrite (Hn _ Hin) in Hc'. discriminate.
        -- simpl. right. split; [reflexivity | lia].
    + destruct ((bk_hash most =? 0) || (bk_num most <? bk_num b)
                || ((bk_num b =? bk_num most) && (bk_hash most <? bk_hash b))) eqn:U.
      * right. split; [lia|]. split.
        -- exists c. split; [apply in_or_app; right; left; reflexivity | lia].
        -- intros bc' Hin Hc'. apply in_app_or in Hin as [Hin|[<-|[]]].
           ++ specialize (Hmax _ Hin Hc'). unfold lex_le in *. simpl. lia.
           ++ simpl. right. split; [reflexivity | lia].
      * right. split; [exact Hh|]. split.
        -- exists c0. split; [apply in_or_app; left; exact Hi0 | exact Hc0].
        -- intros bc' Hin Hc'. apply in_app_or in Hin as [Hin|[<-|[]]].
           ++ apply Hmax; assumption.
           ++ simpl. unfold lex_le. lia.
  - (* not a candidate *)
    assert (Qc : is_cand thr (b, c) = false) by exact Q.
    destruct I as [[Hn ->]|[Hh [[c0 [Hi0 Hc0]] Hmax]]].
    + left. split; [|reflexivity]. intros bc' Hin. apply in_app_or in Hin as [Hin|[<-|[]]]; auto.
    + right. split; [exact Hh|]. split.
      * exists c0. split; [apply in_or_app; left; exact Hi0 | exact Hc0].
      * intros bc' Hin Hc'. apply in_app_or in Hin as [Hin|[<-|[]]]; [apply Hmax; assumption|].
        rewrite Qc in Hc'. discriminate.
Qed.

Lemma lqb_fold_inv thr l : forall seen most,
  lqb_inv thr seen most -> lqb_inv thr (seen ++ l) (fold_left (lqb_step true thr) l most).
Proof.
  induction l as [|bc l IH]; intros seen most I; simpl.
  - rewrite app_nil_r. exact I.
  - replace (seen ++ bc :: l) with ((seen ++ [bc]) ++ l) by (rewrite <- app_assoc; reflexivity).
    apply IH, lqb_step_inv, I.
Qed.

(* specification of the selected block over the vote table itself *)
Definition lqb_spec (thr : nat) (v : bvotes) (res : blockkey * bool) : Prop :=
  let '(qb, found) := res in
  if found
  then bk_hash qb <> 0 /\ (exists c, In (qb, c) v /\ (thr <= c)%nat)
       /\ forall b c, In (b, c) v -> (thr <= c)%nat -> bk_hash b <> 0 -> lex_le b qb
  else forall b c, In (b, c) v -> (thr <= c)%nat -> bk_hash b = 0.

Theorem latest_quorum_block_spec (pi_b : bvotes -> bvotes) thr v :
  (forall v, Permutation (pi_b v) v) ->
  lqb_spec thr v (latest_quorum_block true pi_b thr v).
Proof.
  intro P. unfold latest_quorum_block.
  assert (I0 : lqb_inv thr [] (mkBK 0 0)) by (left; split; [intros ? []|reflexivity]).
  pose proof (lqb_fold_inv thr (pi_b v) [] _ I0) as I. simpl in I.
  set (most := fold_left (lqb_step true thr) (pi_b v) (mkBK 0 0)) in *.
  assert (Hin : forall x, In x (pi_b v) <-> In x v).
  { intro x; split; intro H; eapply Permutation_in; try exact H; [apply P | apply Permutation_sym, P]. }
  destruct I as [[Hn Hm]|[Hh [[c0 [Hi0 Hc0]] Hmax]]]; simpl.
  - rewrite Hm. simpl. intros b c Hi Hc. apply Hin in Hi. specialize (Hn _ Hi).
    unfold is_cand in Hn. simpl in Hn. lia.
  - replace (bk_hash most =? 0) with false by lia. simpl. split; [exact Hh|]. split.
    + exists c0. split; [apply Hin; exact Hi0 | exact Hc0].
    + intros b c Hi Hc Hb. apply Hin in Hi. apply (Hmax (b, c) Hi). unfold is_cand. simpl.
      apply andb_true_iff. split; lia.
Qed.

(* the specification determines the answer: independence of map iteration order *)
Lemma lqb_spec_unique thr v r1 r2 :
  NoDup (map fst v) -> lqb_spec thr v r1 -> lqb_spec thr v r2 ->
  snd r1 = snd r2 /\ (snd r1 = true -> fst r1 = fst r2).
Proof.
  intros N. destruct r1 as [q1 [|]], r2 as [q2 [|]]; simpl; intros H1 H2.
  - split; [reflexivity|]. intros _.
    destruct H1 as [Hh1 [[c1 [Hi1 Hc1]] Hm1]], H2 as [Hh2 [[c2 [Hi2 Hc2]] Hm2]].
    pose proof (Hm1 _ _ Hi2 Hc2 Hh2) as L21. pose proof (Hm2 _ _ Hi1 Hc1 Hh1) as L12.
    unfold lex_le in *. destruct q1, q2; simpl in *. f_equal; lia.
  - exfalso. destruct H1 as [Hh1 [[c1 [Hi1 Hc1]] _]]. apply Hh1. eapply H2; eassumption.
  - exfalso. destruct H2 as [Hh2 [[c2 [Hi2 Hc2]] _]]. apply Hh2. eapply H1; eassumption.
  - split; [reflexivity | discriminate].
Qed.

Theorem latest_quorum_block_order_indep (pi1 pi2 : bvotes -> bvotes) thr v :
  (forall v, Permutation (pi1 v) v) -> (forall v, Permutation (pi2 v) v) -> NoDup (map fst v) ->
  latest_quorum_block true pi1 thr v = latest_quorum_block true pi2 thr v.
Proof.
  intros P1 P2 N.
  pose proof (latest_quorum_block_spec pi1 thr v P1) as S1.
  pose proof (latest_quorum_block_spec pi2 thr v P2) as S2.
  destruct (lqb_spec_unique thr v _ _ N S1 S2) as [Hf Hq].
  unfold latest_quorum_block in *. simpl in *.
  set (m1 := fold_left (lqb_step true thr) (pi1 v) (mkBK 0 0)) in *.
  set (m2 := fold_left (lqb_step true thr) (pi2 v) (mkBK 0 0)) in *.
  destruct (bk_hash m1 =? 0) eqn:E1.
  - (* not found in either: both are the sentinel *)
    assert (E2 : (bk_hash m2 =? 0) = true) by (simpl in Hf; destruct (bk_hash m2 =? 0); [reflexivity | discriminate]).
    assert (I0 : lqb_inv thr [] (mkBK 0 0)) by (left; split; [intros ? []|reflexivity]).
    pose proof (lqb_fold_inv thr (pi1 v) [] _ I0) as I1. pose proof (lqb_fold_inv thr (pi2 v) [] _ I0) as I2.
    simpl in I1, I2. fold m1 in I1. fold m2 in I2.
    destruct I1 as [[_ ->]|[Hh _]]; [|lia]. destruct I2 as [[_ ->]|[Hh _]]; [|lia]. reflexivity.
  - simpl in Hq. rewrite (Hq eq_refl). simpl in Hf. rewrite <- Hf. reflexivity.
Qed.

(* the pinned commit's variant (zero-hash keys not skipped) depends on the iteration order *)
Theorem latest_quorum_block_unskipped_refuted :
  exists (pi1 pi2 : bvotes -> bvotes) thr v,
    (forall v, Permutation (pi1 v) v) /\ (forall v, Permutation (pi2 v) v) /\ NoDup (map fst v) /\
    latest_quorum_block false pi1 thr v <> latest_quorum_block false pi2 thr v.
Proof.
  exists (fun v => v), (@rev _), 1%nat, [(mkBK 100 0, 1%nat); (mkBK 50 1, 1%nat)].
  split; [intro; apply Permutation_refl|]. split; [intro; apply Permutation_sym, Permutation_rev|].
  split.
  - simpl. constructor; [intros [H|[]]; discriminate|]. constructor; [intros []|constructor].
  - vm_compute. discriminate.
Qed.
