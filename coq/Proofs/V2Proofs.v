(* Proofs about Model/V2.v (property C16). *)
From Verif Require Import Base.Util Model.V2 Gen.Generated.
From Coq Require Import ZifyBool ZifyNat ZifyN Sorted.
Open Scope N_scope.

(* ============================================================================== *)
(* generic list facts *)

Lemma filter_length_le {A} (f : A -> bool) l : (length (filter f l) <= length l)%nat.
Proof. induction l as [|x t IH]; simpl; [lia|]. destruct (f x); simpl; lia. Qed.

Lemma filter_length_perm {A} (f : A -> bool) l l' :
  Permutation l l' -> length (filter f l) = length (filter f l').
Proof.
  induction 1; simpl; try lia.
  - destruct (f x); simpl; lia.
  - destruct (f x), (f y); simpl; lia.
Qed.

Lemma filter_all {A} (f : A -> bool) l : Forall (fun x => f x = true) l -> filter f l = l.
Proof. induction 1; simpl; [reflexivity|]. rewrite H. f_equal. exact IHForall. Qed.

Lemma filter_none {A} (f : A -> bool) l : Forall (fun x => f x = false) l -> filter f l = [].
Proof. induction 1; simpl; [reflexivity|]. rewrite H. exact IHForall. Qed.

Lemma count_app f a b : count f (a ++ b) = (count f a + count f b)%nat.
Proof. unfold count. rewrite filter_app, app_length. reflexivity. Qed.

Lemma count_le_length f l : (count f l <= length l)%nat.
Proof. apply filter_length_le. Qed.

Lemma count_perm f l l' : Permutation l l' -> count f l = count f l'.
Proof. apply filter_length_perm. Qed.

(* ============================================================================== *)
(* sorting and the median *)

Lemma ins_perm x l : Permutation (ins x l) (x :: l).
Proof.
  induction l as [|y t IH]; simpl; [reflexivity|].
  destruct (x <=? y); [reflexivity|].
  rewrite IH. apply perm_swap.
Qed.

Lemma isort_perm l : Permutation (isort l) l.
Proof.
  induction l as [|x t IH]; simpl; [reflexivity|].
  rewrite ins_perm. constructor. exact IH.
Qed.

Lemma ins_sorted x l : StronglySorted N.le l -> StronglySorted N.le (ins x l).
Proof.
  induction 1 as [|y t Hs IH Hy]; simpl.
  - repeat constructor.
  - destruct (x <=? y) eqn:E.
    + constructor; [constructor; assumption|]. constructor; [lia|].
      rewrite Forall_forall in *. intros z Hz. specialize (Hy z Hz). lia.
    + constructor; [exact IH|].
      rewrite Forall_forall in *. intros z Hz.
      apply (Permutation_in _ (ins_perm x t)) in Hz. destruct Hz as [<-|Hz]; [lia|auto].
Qed.

Lemma isort_sorted l : StronglySorted N.le (isort l).
Proof. induction l; simpl; [constructor|]. apply ins_sorted. assumption. Qed.

Lemma sorted_nth_le s : StronglySorted N.le s ->
  forall a b, (a <= b)%nat -> (b < length s)%nat -> nth a s 0 <= nth b s 0.
Proof.
  induction 1 as [|y t Hs IH Hy]; simpl; intros a b Hab Hb; [lia|].
  destruct a, b; try lia.
  - rewrite Forall_forall in Hy. apply Hy. apply nth_In. lia.
  - apply IH; lia.
Qed.

Lemma firstn_skipn_nth (s : list N) i : (i < length s)%nat ->
  s = firstn i s ++ nth i s 0 :: skipn (S i) s.
Proof.
  revert i. induction s as [|x t IH]; simpl; intros i Hi; [lia|].
  destruct i; simpl; [reflexivity|]. f_equal. apply IH. lia.
Qed.

Lemma my_nth_firstn (s : list N) : forall i j, (j < i)%nat -> nth j (firstn i s) 0 = nth j s 0.
Proof.
  induction s as [|x t IH]; intros i j H; [destruct i, j; reflexivity|].
  destruct i; [lia|]. destruct j; simpl; [reflexivity|]. apply IH. lia.
Qed.

Lemma my_nth_skipn (s : list N) : forall i j, nth j (skipn i s) 0 = nth (i + j) s 0.
Proof.
  induction s as [|x t IH]; intros i j; [destruct i, j; reflexivity|].
  destruct i; simpl; [reflexivity|]. apply IH.
Qed.

Lemma sorted_split s i : StronglySorted N.le s -> (i < length s)%nat ->
  Forall (fun x => x <= nth i s 0) (firstn i s) /\ Forall (fun x => nth i s 0 <= x) (skipn (S i) s).
Proof.
  intros Hs Hi. split; apply Forall_forall; intros x Hx; apply (In_nth _ _ 0) in Hx; destruct Hx as [j [Hj <-]].
  - rewrite firstn_length in Hj. rewrite my_nth_firstn by lia. apply sorted_nth_le; [assumption|lia|lia].
  - rewrite skipn_length in Hj. rewrite my_nth_skipn. apply sorted_nth_le; [assumption|lia|lia].
Qed.

(* rank characterisation of the element at index i of a sorted list *)
Lemma sorted_rank s i : StronglySorted N.le s -> (i < length s)%nat ->
  (count_lt (nth i s 0%N) s <= i)%nat /\ (i < count_le (nth i s 0%N) s)%nat.
Proof.
  intros Hs Hi. destruct (sorted_split s i Hs Hi) as [Hl Hr].
  set (m := nth i s 0) in *.
  pose proof (firstn_skipn_nth s i Hi) as E. fold m in E.
  assert (Lf : length (firstn i s) = i) by (rewrite firstn_length; lia).
  split.
  - unfold count_lt. rewrite E at 1. rewrite count_app.
    assert (Z1 : count (fun x => x <? m) (m :: skipn (S i) s) = 0%nat).
    { unfold count. rewrite filter_none; [reflexivity|]. constructor; [lia|].
      eapply Forall_impl; [|exact Hr]. simpl. intros; lia. }
    rewrite Z1. pose proof (count_le_length (fun x => x <? m) (firstn i s)). lia.
  - unfold count_le. rewrite E at 1. rewrite count_app.
    assert (Z1 : count (fun x => x <=? m) (firstn i s) = i).
    { unfold count. rewrite filter_all; [exact Lf|]. eapply Forall_impl; [|exact Hl]. simpl. intros; lia. }
    rewrite Z1. unfold count at 1. simpl. replace (m <=? m) with true by lia. simpl. lia.
Qed.

Definition upper_medianP (m : N) (l : list N) : Prop :=
  In m l /\ (count_lt m l <= length l / 2)%nat /\ (length l / 2 < count_le m l)%nat.

Lemma is_upper_median_sound m l : is_upper_median m l = true <-> upper_medianP m l.
Proof.
  unfold is_upper_median, upper_medianP. rewrite !andb_true_iff, memN_In. split.
  - intros [[H1 H2] H3]. repeat split; [assumption|lia|lia].
  - intros [H1 [H2 H3]]. repeat split; [assumption|lia|lia].
Qed.

Lemma half_lt n : (0 < n)%nat -> (n / 2 < n)%nat.
Proof. intro H. apply Nat.div_lt; lia. Qed.

Lemma median_upper l : l <> [] -> upper_medianP (median l) l.
Proof.
  intro Hne. unfold median, median_at.
  pose proof (isort_perm l) as P. pose proof (isort_sorted l) as S.
  assert (Hlen : length (isort l) = length l) by (apply Permutation_length; exact P).
  assert (Hpos : (0 < length l)%nat) by (destruct l; [congruence|simpl; lia]).
  assert (Hi : (length l / 2 < length (isort l))%nat) by (rewrite Hlen; apply half_lt; exact Hpos).
  destruct (sorted_rank _ _ S Hi) as [R1 R2].
  set (m := nth (length l / 2) (isort l) 0) in *.
  unfold upper_medianP. repeat split.
  - apply (Permutation_in _ P). apply nth_In. exact Hi.
  - unfold count_lt in *. rewrite <- (count_perm _ _ _ P). exact R1.
  - unfold count_le in *. rewrite <- (count_perm _ _ _ P). exact R2.
Qed.

(* any upper median of a list with at most f faulty entries out of >= 2f+1 lies between two honest ones *)
Lemma upper_median_between m l honest faulty f :
  upper_medianP m l -> Permutation l (honest ++ faulty) ->
  (length faulty <= f)%nat -> (2 * f + 1 <= length l)%nat ->
  exists h1 h2, In h1 honest /\ In h2 honest /\ h1 <= m <= h2.
Proof.
  intros [_ [Hlt Hle]] P Hf Hn.
  assert (Hlen : length l = (length honest + length faulty)%nat)
    by (rewrite (Permutation_length P), app_length; reflexivity).
  assert (Hdiv : (length l / 2 * 2 <= length l)%nat /\ (length l < length l / 2 * 2 + 2)%nat).
  { pose proof (Nat.div_mod (length l) 2 ltac:(lia)). pose proof (Nat.mod_upper_bound (length l) 2 ltac:(lia)). lia. }
  assert (E1 : exists h1, In h1 honest /\ h1 <= m).
  { destruct (existsb (fun h => h <=? m) honest) eqn:E.
    - apply existsb_exists in E. destruct E as [h [Hh Hhm]]. exists h. split; [assumption|lia].
    - exfalso.
      assert (Z0 : count (fun x => x <=? m) honest = 0%nat).
      { unfold count. rewrite filter_none; [reflexivity|]. apply Forall_forall. intros x Hx.
        destruct (x <=? m) eqn:Ex; [|reflexivity].
        assert (existsb (fun h => h <=? m) honest = true) by (apply existsb_exists; exists x; auto). congruence. }
      unfold count_le in Hle. rewrite (count_perm _ _ _ P), count_app, Z0 in Hle.
      pose proof (count_le_length (fun x => x <=? m) faulty). lia. }
  assert (E2 : exists h2, In h2 honest /\ m <= h2).
  { destruct (existsb (fun h => m <=? h) honest) eqn:E.
    - apply existsb_exists in E. destruct E as [h [Hh Hhm]]. exists h. split; [assumption|lia].
    - exfalso.
      assert (Z0 : count (fun x => x <? m) honest = length honest).
      { unfold count. rewrite filter_all; [reflexivity|]. apply Forall_forall. intros x Hx.
        destruct (x <? m) eqn:Ex; [reflexivity|].
        assert (existsb (fun h => m <=? h) honest = true) by (apply existsb_exists; exists x; split; [auto|lia]). congruence. }
      unfold count_lt in Hlt. rewrite (count_perm _ _ _ P), count_app, Z0 in Hlt. lia. }
  destruct E1 as [h1 [A1 B1]], E2 as [h2 [A2 B2]]. exists h1, h2. auto.
Qed.

Lemma median_between l honest faulty f :
  Permutation l (honest ++ faulty) ->
  (length faulty <= f)%nat -> (2 * f + 1 <= length l)%nat ->
  exists h1 h2, In h1 honest /\ In h2 honest /\ h1 <= median l <= h2.
Proof.
  intros P Hf Hn. eapply upper_median_between; eauto.
  apply median_upper. intro E. subst. simpl in Hn. lia.
Qed.

Lemma median_bound l honest faulty f lo hi :
  Permutation l (honest ++ faulty) ->
  (length faulty <= f)%nat -> (2 * f + 1 <= length l)%nat ->
  Forall (fun h => lo <= h) honest -> Forall (fun h => h <= hi) honest ->
  lo <= median l <= hi.
Proof.
  intros P Hf Hn Hlo Hhi.
  destruct (median_between l honest faulty f P Hf Hn) as [h1 [h2 [A1 [A2 B]]]].
  rewrite Forall_forall in Hlo, Hhi. specialize (Hlo h1 A1). specialize (Hhi h2 A2). lia.
Qed.

(* with one faulty entry too many the bound fails: f+1 faulty of 2f+1 move the median anywhere *)
Lemma median_bound_needs_quorum :
  exists l honest faulty f, Permutation l (honest ++ faulty) /\ (length faulty <= f + 1)%nat /\
    (2 * f + 1 <= length l)%nat /\ Forall (fun h => h <= 100) honest /\ ~ median l <= 100.
Proof.
  exists [100; 18446744073709551615; 18446744073709551615], [100], [18446744073709551615; 18446744073709551615], 1%nat.
  repeat split; try (simpl; lia); try reflexivity.
  - repeat constructor. lia.
  - vm_compute. intro H. apply H. reflexivity.
Qed.

(* the mutation "(len-1)/2" picks the lower median: not the property's upper median *)
Lemma lower_median_not_upper : exists l, ~ upper_medianP (median_at true l) l.
Proof.
  exists [10; 20]. vm_compute. intros [_ [_ H]]. lia.
Qed.

(* ============================================================================== *)
(* validation, keys from valid observations *)

Lemma valid_obs_In v obs : In v (valid_obs obs) <-> exists o, In o obs /\ validate o = Some v.
Proof.
  induction obs as [|o t IH]; simpl.
  - split; [intros []|intros [o [[] _]]].
  - destruct (validate o) eqn:E.
    + simpl. rewrite IH. split.
      * intros [<-|[o' [H1 H2]]]; [exists o; auto|exists o'; auto].
      * intros [o' [[<-|H1] H2]]; [left; congruence|right; exists o'; auto].
    + rewrite IH. split.
      * intros [o' [H1 H2]]. exists o'; auto.
      * intros [o' [[<-|H1] H2]]; [congruence|exists o'; auto].
Qed.

Lemma valid_obs_length obs : (length (valid_obs obs) <= length obs)%nat.
Proof. induction obs as [|o t IH]; simpl; [lia|]. destruct (validate o); simpl; lia. Qed.

Lemma allowed_ids_In i obs :
  In i (allowed_ids obs) <-> exists o b ids, In o obs /\ validate o = Some (b, ids) /\ In i (firstn obs_limit ids).
Proof.
  unfold allowed_ids. rewrite in_flat_map. split.
  - intros [[b ids] [H1 H2]]. apply valid_obs_In in H1. destruct H1 as [o [Ho Hv]]. exists o, b, ids. auto.
  - intros [o [b [ids [Ho [Hv Hi]]]]]. exists (b, ids). split; [apply valid_obs_In; exists o; auto|exact Hi].
Qed.

Lemma is_nil_true {A} (l : list A) : is_nil l = true <-> l = [].
Proof. destruct l; simpl; split; congruence. Qed.

Lemma obs_to_keys_spec obs ks :
  obs_to_keys obs = Some ks ->
  valid_obs obs <> [] /\
  forall l, In l ks -> (length l <= 1)%nat /\
    forall k, In k l -> fst k = median (map fst (valid_obs obs)) /\ In (snd k) (allowed_ids obs).
Proof.
  unfold obs_to_keys. destruct (is_nil (valid_obs obs)) eqn:E; [discriminate|].
  intro H. inversion H; subst; clear H. split.
  - intro C. rewrite C in E. discriminate.
  - intros l Hl. apply in_map_iff in Hl. destruct Hl as [ids [<- Hids]].
    apply filter_In in Hids. destruct Hids as [Hids _].
    apply in_map_iff in Hids. destruct Hids as [[b ids'] [Eq Hv]]. simpl in Eq. subst ids'.
    split.
    + rewrite map_length. destruct ids; simpl; lia.
    + intros k Hk. apply in_map_iff in Hk. destruct Hk as [i [<- Hi]]. simpl. split; [reflexivity|].
      unfold allowed_ids. apply in_flat_map. exists (b, ids). split; [exact Hv|exact Hi].
Qed.

Lemma obs_to_keys_none obs : obs_to_keys obs = None <-> valid_obs obs = [].
Proof.
  unfold obs_to_keys. destruct (is_nil (valid_obs obs)) eqn:E.
  - apply is_nil_true in E. split; auto.
  - split; [discriminate|]. intro C. rewrite C in E. discriminate.
Qed.

(* ============================================================================== *)
(* dedupe / filter *)

Lemma key_eqb_eq a b : key_eqb a b = true <-> a = b.
Proof.
  unfold key_eqb. destruct a as [a1 a2], b as [b1 b2]. simpl.
  rewrite andb_true_iff, !N.eqb_eq. split; [intros [-> ->]; reflexivity|intro H; inversion H; auto].
Qed.

Lemma memk_In k l : memk k l = true <-> In k l.
Proof.
  unfold memk. rewrite existsb_exists. split.
  - intros [y [Hy He]]. apply key_eqb_eq in He. subst. exact Hy.
  - intro H. exists k. split; [exact H|apply key_eqb_eq; reflexivity].
Qed.

Lemma memk_false k l : memk k l = false <-> ~ In k l.
Proof. rewrite <- memk_In. destruct (memk k l); split; intro H; auto; try discriminate. exfalso. apply H. reflexivity. Qed.

Lemma nodupk_NoDup l : nodupk l = true <-> NoDup l.
Proof.
  induction l as [|x t IH]; simpl.
  - split; intro; [constructor|reflexivity].
  - rewrite andb_true_iff, negb_true_iff, memk_false, IH. split.
    + intros [H1 H2]. constructor; assumption.
    + intro H. inversion H; subst. split; assumption.
Qed.

Lemma dd_In m l k : In k (dd m l) <-> In k l /\ ~ In k m.
Proof.
  revert m. induction l as [|x t IH]; simpl; intro m.
  - tauto.
  - destruct (memk x m) eqn:E.
    + apply memk_In in E. rewrite IH. split.
      * intros [H1 H2]. auto.
      * intros [[<-|H1] H2]; [contradiction|auto].
    + apply memk_false in E. simpl. rewrite IH. simpl. split.
      * intros [<-|[H1 H2]]; [auto|]. split; [auto|]. intro C. apply H2. right. exact C.
      * intros [[<-|H1] H2]; [left; reflexivity|].
        destruct (memk k [x]) eqn:Ex.
        -- apply memk_In in Ex. destruct Ex as [<-|[]]. left; reflexivity.
        -- apply memk_false in Ex. right. split; [exact H1|]. intros [C|C]; [apply Ex; left; exact C|contradiction].
Qed.

Lemma dd_NoDup m l : NoDup (dd m l).
Proof.
  revert m. induction l as [|x t IH]; simpl; intro m; [constructor|].
  destruct (memk x m); [apply IH|]. constructor; [|apply IH].
  rewrite dd_In. intros [_ C]. apply C. left. reflexivity.
Qed.

Section Dedupe.
  Variable pi : list key -> list key.
  Hypothesis pi_perm : forall l, Permutation (pi l) l.
  Variable pend : key -> bool.

  Lemma filter_dedupe_In inputs k :
    In k (filter_dedupe pi pend inputs) <-> In k (concat inputs) /\ pend k = false.
  Proof.
    unfold filter_dedupe. split.
    - intro H. apply (Permutation_in _ (pi_perm _)) in H. apply dd_In in H. destruct H as [H _].
      apply filter_In in H. destruct H as [H1 H2]. split; [exact H1|]. destruct (pend k); [discriminate|reflexivity].
    - intros [H1 H2]. apply (Permutation_in _ (Permutation_sym (pi_perm _))). apply dd_In. split; [|intros []].
      apply filter_In. split; [exact H1|]. rewrite H2. reflexivity.
  Qed.

  Lemma filter_dedupe_NoDup inputs : NoDup (filter_dedupe pi pend inputs).
  Proof.
    unfold filter_dedupe. eapply Permutation_NoDup; [apply Permutation_sym; apply pi_perm|]. apply dd_NoDup.
  Qed.
End Dedupe.

Lemma id_order_perm l : Permutation (id_order l) l.
Proof. reflexivity. Qed.

(* dropping the de-duplication or the pending filter is visible *)
Lemma dedupe_needed : exists ks : list (list key), ~ NoDup (concat ks).
Proof. exists [[(1, 7)]; [(1, 7)]]. simpl. intro H. inversion H; subst. apply H2. left. reflexivity. Qed.

Lemma In_firstn {A} n (l : list A) x : In x (firstn n l) -> In x l.
Proof.
  revert n. induction l as [|y t IH]; intros n H; destruct n; simpl in *; try contradiction.
  destruct H as [H|H]; [left; exact H|right; eapply IH; exact H].
Qed.

Lemma NoDup_firstn {A} n (l : list A) : NoDup l -> NoDup (firstn n l).
Proof.
  revert n. induction l as [|x t IH]; intros n H; destruct n; simpl; try constructor.
  - inversion H; subst. intro C. apply H2. eapply In_firstn. exact C.
  - inversion H; subst. apply IH. assumption.
Qed.

Lemma keys_limit_10 : keys_limit = 10%nat.
Proof. reflexivity. Qed.

Lemma obs_limit_1 : obs_limit = 1%nat.
Proof. reflexivity. Qed.

Lemma max_obs_len_1000 : max_obs_len = 1000%nat.
Proof. reflexivity. Qed.

Section Checked.
  Variable pend : key -> bool.
  Variable shuf : list key -> list key.
  Hypothesis shuf_perm : forall l, Permutation (shuf l) l.

  Lemma checked_In ks k : In k (checked_keys pend shuf ks) -> In k (concat ks) /\ pend k = false.
  Proof.
    unfold checked_keys. intro H. apply In_firstn in H. apply (Permutation_in _ (shuf_perm _)) in H.
    apply (filter_dedupe_In id_order id_order_perm) in H. exact H.
  Qed.

  Lemma checked_NoDup ks : NoDup (checked_keys pend shuf ks).
  Proof.
    unfold checked_keys. apply NoDup_firstn.
    eapply Permutation_NoDup; [apply Permutation_sym; apply shuf_perm|].
    apply (filter_dedupe_NoDup id_order id_order_perm).
  Qed.

  Lemma checked_length ks : (length (checked_keys pend shuf ks) <= 10)%nat.
  Proof. unfold checked_keys. rewrite firstn_length, keys_limit_10. lia. Qed.

  (* nothing is lost below the cap: with at most ten candidates every non-pending key is checked *)
  Lemma checked_complete ks k :
    (length (filter_dedupe id_order pend ks) <= 10)%nat ->
    In k (concat ks) -> pend k = false -> In k (checked_keys pend shuf ks).
  Proof.
    intros Hl H1 H2. unfold checked_keys. rewrite firstn_all2.
    - apply (Permutation_in _ (Permutation_sym (shuf_perm _))).
      apply (filter_dedupe_In id_order id_order_perm). auto.
    - rewrite (Permutation_length (shuf_perm _)), keys_limit_10. exact Hl.
  Qed.
End Checked.

(* ============================================================================== *)
(* the eligibility / gas / batch loop *)

Definition wf_cfg (c : v2cfg) : Prop := (1 <= v_batch c)%Z /\ v_limit c < two32 /\ v_over c < two32.

Definition good (fixed : bool) (r : res) : Prop := skip_elig fixed r = false /\ r_deterr r = false.

Lemma gas_total_app c a b : gas_total c (a ++ b) = gas_total c a + gas_total c b.
Proof. unfold gas_total. induction a as [|x a IH]; simpl; [reflexivity|]. fold (gas_total c) in *. rewrite IH. lia. Qed.

Lemma loop_incl fixed wide c rs : forall total acc r,
  In r (loop fixed wide c rs total acc) -> In r acc \/ In r rs.
Proof.
  induction rs as [|x rs IH]; simpl; intros total acc r H; [auto|].
  destruct (skip_elig fixed x); [destruct (IH _ _ _ H); auto|].
  destruct (r_deterr x); [destruct (IH _ _ _ H); auto|].
  destruct (v_limit c <? addw wide total (addw wide (r_gas x) (v_over c))); [destruct (IH _ _ _ H); auto|].
  destruct (v_batch c <=? Z.of_nat (length (acc ++ [x])))%Z.
  - apply in_app_iff in H. destruct H as [H|[<-|[]]]; auto.
  - destruct (IH _ _ _ H) as [H1|H1]; [|auto]. apply in_app_iff in H1. destruct H1 as [H1|[<-|[]]]; auto.
Qed.

Lemma loop_good fixed wide c rs : forall total acc,
  Forall (good fixed) acc -> Forall (good fixed) (loop fixed wide c rs total acc).
Proof.
  induction rs as [|x rs IH]; simpl; intros total acc H; [exact H|].
  destruct (skip_elig fixed x) eqn:E1; [apply IH; exact H|].
  destruct (r_deterr x) eqn:E2; [apply IH; exact H|].
  assert (H' : Forall (good fixed) (acc ++ [x])).
  { apply Forall_app. split; [exact H|]. constructor; [split; assumption|constructor]. }
  destruct (v_limit c <? addw wide total (addw wide (r_gas x) (v_over c))); [apply IH; exact H|].
  destruct (v_batch c <=? Z.of_nat (length (acc ++ [x])))%Z; [exact H'|apply IH; exact H'].
Qed.

Lemma good_fixed r : good true r -> r_elig r = true /\ r_eligerr r = false /\ r_deterr r = false.
Proof.
  unfold good, skip_elig. intros [H1 H2]. apply orb_false_iff in H1. destruct H1 as [H1 H3].
  apply negb_false_iff in H3. auto.
Qed.

Lemma loop_batch fixed wide c rs : forall total acc,
  (Z.of_nat (length acc) < v_batch c)%Z ->
  (Z.of_nat (length (loop fixed wide c rs total acc)) <= v_batch c)%Z.
Proof.
  induction rs as [|x rs IH]; simpl; intros total acc H; [lia|].
  destruct (skip_elig fixed x); [apply IH; exact H|].
  destruct (r_deterr x); [apply IH; exact H|].
  destruct (v_limit c <? addw wide total (addw wide (r_gas x) (v_over c))); [apply IH; exact H|].
  destruct (v_batch c <=? Z.of_nat (length (acc ++ [x])))%Z eqn:E.
  - rewrite app_length in *. simpl in *. lia.
  - apply IH. lia.
Qed.

Lemma NoDup_app_l {A} (a b : list A) : NoDup (a ++ b) -> NoDup a.
Proof.
  induction a as [|x a IH]; simpl; intro H; [constructor|].
  inversion H; subst. constructor; [intro C; apply H2; apply in_or_app; left; exact C|apply IH; assumption].
Qed.

Lemma loop_nodup fixed wide c rs : forall total acc,
  NoDup (map r_key (acc ++ rs)) -> NoDup (map r_key (loop fixed wide c rs total acc)).
Proof.
  induction rs as [|x rs IH]; simpl; intros total acc H; [rewrite app_nil_r in H; exact H|].
  assert (Hskip : NoDup (map r_key (acc ++ rs))).
  { rewrite map_app in *. simpl in H. apply NoDup_remove_1 in H. exact H. }
  assert (Hadd : NoDup (map r_key ((acc ++ [x]) ++ rs))) by (rewrite <- app_assoc; exact H).
  destruct (skip_elig fixed x); [apply IH; exact Hskip|].
  destruct (r_deterr x); [apply IH; exact Hskip|].
  destruct (v_limit c <? addw wide total (addw wide (r_gas x) (v_over c))); [apply IH; exact Hskip|].
  destruct (v_batch c <=? Z.of_nat (length (acc ++ [x])))%Z; [|apply IH; exact Hadd].
  rewrite map_app in Hadd. apply NoDup_app_l in Hadd. exact Hadd.
Qed.

(* gas: the sums do not wrap *)
Definition nowrap (wide : bool) (c : v2cfg) (rs : list res) : Prop :=
  forall r t, In r rs -> t <= v_limit c ->
    addw wide (r_gas r) (v_over c) = r_gas r + v_over c /\
    addw wide t (r_gas r + v_over c) = t + (r_gas r + v_over c).

Lemma nowrap_wide c rs : wf_cfg c -> Forall (fun r => r_gas r < two32) rs -> nowrap true c rs.
Proof.
  intros [_ [Hl Ho]] Hg r t Hr Ht. rewrite Forall_forall in Hg. specialize (Hg r Hr).
  unfold addw, two32, two64 in *. split; apply N.mod_small; lia.
Qed.

Lemma nowrap_narrow c rs :
  Forall (fun r => v_limit c + r_gas r + v_over c < two32) rs -> nowrap false c rs.
Proof.
  intros Hg r t Hr Ht. rewrite Forall_forall in Hg. specialize (Hg r Hr).
  unfold addw, two32 in *. split; apply N.mod_small; lia.
Qed.

Lemma nowrap_tail wide c x rs : nowrap wide c (x :: rs) -> nowrap wide c rs.
Proof. intros H r t Hr Ht. apply H; [right; exact Hr|exact Ht]. Qed.

Lemma loop_gas fixed wide c rs : forall total acc,
  nowrap wide c rs -> total = gas_total c acc -> total <= v_limit c ->
  gas_total c (loop fixed wide c rs total acc) <= v_limit c.
Proof.
  induction rs as [|x rs IH]; simpl; intros total acc Hw Ht Hl; [subst; exact Hl|].
  pose proof (nowrap_tail _ _ _ _ Hw) as Hw'.
  destruct (skip_elig fixed x); [apply IH; assumption|].
  destruct (r_deterr x); [apply IH; assumption|].
  destruct (Hw x total (or_introl eq_refl) Hl) as [E1 E2]. rewrite E1, E2.
  destruct (v_limit c <? total + (r_gas x + v_over c)) eqn:E; [apply IH; assumption|].
  assert (G : gas_total c (acc ++ [x]) = total + (r_gas x + v_over c)).
  { rewrite gas_total_app. simpl. subst. lia. }
  destruct (v_batch c <=? Z.of_nat (length (acc ++ [x])))%Z.
  - rewrite G. lia.
  - apply IH; [assumption|symmetry; exact G|lia].
Qed.

(* the pinned commit's condition let an ineligible result in *)
Lemma loop_old_condition_refuted :
  exists c rs, wf_cfg c /\ exists r, In r (loop false true c rs 0 []) /\ r_elig r = false /\ r_eligerr r = false.
Proof.
  exists (mkV2Cfg 5 5300000 300000), [mkRes (10, 7) false false 1000 false; mkRes (10, 8) true false 1000 false].
  split; [unfold wf_cfg, two32; simpl; lia|].
  exists (mkRes (10, 7) false false 1000 false). vm_compute. auto.
Qed.

(* uint32 sums wrap: an upkeep far above the limit is reported (default limit and overhead) *)
Lemma loop_uint32_wrap_refuted :
  exists c rs, wf_cfg c /\ Forall (fun r => r_gas r < two32) rs /\ Forall (good true) rs /\
    v_limit c < gas_total c (loop true false c rs 0 []).
Proof.
  exists (mkV2Cfg 5 5300000 300000), [mkRes (10, 7) true false 4294967295 false].
  split; [unfold wf_cfg, two32; simpl; lia|]. split; [repeat constructor|]. split; [repeat constructor|].
  vm_compute. reflexivity.
Qed.

(* ... also with every single gas + overhead below 2^32, when the configured limit is large *)
Lemma loop_uint32_wrap_total_refuted :
  exists c rs, wf_cfg c /\ Forall (fun r => r_gas r + v_over c < two32) rs /\
    v_limit c < gas_total c (loop true false c rs 0 []).
Proof.
  exists (mkV2Cfg 5 4000000000 1), [mkRes (10, 1) true false 2999999999 false; mkRes (10, 2) true false 1999999999 false].
  split; [unfold wf_cfg, two32; simpl; lia|]. split; [repeat constructor|].
  vm_compute. reflexivity.
Qed.

(* ============================================================================== *)
(* the property as a predicate on (checked keys, report), and checker soundness *)

Definition res_okP (r : res) : Prop := r_elig r = true /\ r_eligerr r = false /\ r_deterr r = false.

Definition C16_spec (c : v2cfg) (obs : list raw_obs) (pend : key -> bool) (chk : list key) (rep : list res) : Prop :=
  (* checked keys: valid observations' ids at the upper median, not in flight, once, at most ten *)
  Forall (fun k => upper_medianP (fst k) (map fst (valid_obs obs))
                   /\ (exists o b ids, In o obs /\ validate o = Some (b, ids) /\ In (snd k) (firstn 1 ids))
                   /\ pend k = false) chk
  /\ NoDup chk
  /\ (length chk <= 10)%nat
  (* report: checked, eligible, once, within batch and gas *)
  /\ Forall (fun r => In (r_key r) chk /\ res_okP r) rep
  /\ NoDup (map r_key rep)
  /\ (Z.of_nat (length rep) <= v_batch c)%Z
  /\ gas_total c rep <= v_limit c.

Lemma res_ok_sound r : res_ok r = true <-> res_okP r.
Proof.
  unfold res_ok, res_okP. rewrite !andb_true_iff, !negb_true_iff. tauto.
Qed.

Lemma C16_check_sound c obs pend chk rep : C16_check c obs pend chk rep = true -> C16_spec c obs pend chk rep.
Proof.
  unfold C16_check, checked_ok, report_ok, C16_spec. rewrite !andb_true_iff.
  intros [[[H1 H2] H3] [[[H4 H5] H6] H7]]. repeat split.
  - eapply forallb_Forall; [|exact H1]. simpl. intros k Hk. rewrite !andb_true_iff in Hk.
    destruct Hk as [[K1 K2] K3]. split; [apply is_upper_median_sound; exact K1|]. split.
    + apply memN_In in K2. apply allowed_ids_In in K2. exact K2.
    + apply negb_true_iff in K3. exact K3.
  - apply nodupk_NoDup. exact H2.
  - lia.
  - eapply forallb_Forall; [|exact H4]. simpl. intros r Hr. rewrite andb_true_iff in Hr.
    destruct Hr as [R1 R2]. split; [apply memk_In; exact R1|apply res_ok_sound; exact R2].
  - apply nodupk_NoDup. exact H5.
  - lia.
  - lia.
Qed.

(* ============================================================================== *)
(* Report of the current tree satisfies the property *)

Section ReportSpec.
  Variable c : v2cfg.
  Variable pend : key -> bool.
  Variable shuf : list key -> list key.
  Variable runner : list key -> run_out.
  Hypothesis c_wf : wf_cfg c.
  Hypothesis shuf_perm : forall l, Permutation (shuf l) l.
  (* the local check pipeline answers for the keys it was asked, each at most once, gas is a uint32 *)
  Hypothesis runner_wf : forall ks rs, runner ks = RunRes rs -> NoDup ks ->
    NoDup (map r_key rs) /\ incl (map r_key rs) ks /\ Forall (fun r => r_gas r < two32) rs.

  Definition chk_of (o : rout) : list key := match o_checked o with Some l => l | None => [] end.

  Lemma checked_spec obs ks : obs_to_keys obs = Some ks ->
    Forall (fun k => upper_medianP (fst k) (map fst (valid_obs obs))
                   /\ (exists o b ids, In o obs /\ validate o = Some (b, ids) /\ In (snd k) (firstn 1 ids))
                   /\ pend k = false) (checked_keys pend shuf ks).
  Proof.
    intro E. destruct (obs_to_keys_spec _ _ E) as [Hne Hks].
    apply Forall_forall. intros k Hk. apply (checked_In pend shuf shuf_perm) in Hk. destruct Hk as [Hk Hp].
    apply in_concat in Hk. destruct Hk as [l [Hl Hkl]]. destruct (Hks l Hl) as [_ Hk2]. destruct (Hk2 k Hkl) as [Hm Ha].
    split; [|split; [|exact Hp]].
    - rewrite Hm. apply median_upper. intro C. apply Hne. destruct (valid_obs obs); [reflexivity|discriminate].
    - apply allowed_ids_In in Ha. exact Ha.
  Qed.

  Lemma report_spec encfail obs :
    let o := report true true c pend shuf runner encfail obs in
    C16_spec c obs pend (chk_of o) (o_report o).
  Proof.
    assert (Triv : forall chk,
      Forall (fun k => upper_medianP (fst k) (map fst (valid_obs obs))
                   /\ (exists o b ids, In o obs /\ validate o = Some (b, ids) /\ In (snd k) (firstn 1 ids))
                   /\ pend k = false) chk -> NoDup chk -> (length chk <= 10)%nat ->
      C16_spec c obs pend chk []).
    { intros chk A B C. unfold C16_spec. repeat split; auto; try constructor.
      - destruct c_wf as [W _]. simpl. lia.
      - simpl. lia. }
    assert (Nil : C16_spec c obs pend [] []).
    { apply Triv; [constructor|constructor|simpl; lia]. }
    simpl. unfold report. destruct obs as [|o0 obs']; [exact Nil|].
    set (obs := o0 :: obs') in *.
    destruct (obs_to_keys obs) as [ks|] eqn:E; [|exact Nil].
    pose proof (checked_spec obs ks E) as HC.
    pose proof (checked_NoDup pend shuf shuf_perm ks) as HN.
    pose proof (checked_length pend shuf ks) as HL.
    destruct (checked_keys pend shuf ks) as [|k0 chk'] eqn:EC; [exact Nil|].
    set (chk := k0 :: chk') in *.
    destruct (runner chk) as [|rs] eqn:ER; [apply Triv; assumption|].
    destruct (is_nil rs); [apply Triv; assumption|].
    destruct (length chk <? length rs)%nat; [apply Triv; assumption|].
    destruct (runner_wf chk rs ER HN) as [RN [RI RG]].
    assert (Full : C16_spec c obs pend chk (loop true true c rs 0 [])).
    { unfold C16_spec. repeat split; try assumption.
      - apply Forall_forall. intros r Hr.
        pose proof (loop_good true true c rs 0 [] (Forall_nil _)) as G. rewrite Forall_forall in G.
        destruct (loop_incl _ _ _ _ _ _ _ Hr) as [[]|Hin]. split.
        + apply RI. apply in_map. exact Hin.
        + apply good_fixed. apply G. exact Hr.
      - apply loop_nodup. simpl. exact RN.
      - apply loop_batch. destruct c_wf as [W _]. simpl. lia.
      - apply loop_gas; [apply nowrap_wide; assumption|reflexivity|lia]. }
    destruct (loop true true c rs 0 []) as [|r0 tp] eqn:EL; [apply Triv; assumption|].
    destruct encfail; [apply Triv; assumption|exact Full].
  Qed.
End ReportSpec.

(* ============================================================================== *)
(* Observation *)

Lemma ndigits_fuel_bound fuel : forall n k, (1 <= k)%nat -> n < 10 ^ N.of_nat k -> (ndigits_fuel fuel n <= k)%nat.
Proof.
  induction fuel as [|f IH]; simpl; intros n k Hk Hn; [lia|].
  destruct (n <? 10) eqn:E; [lia|].
  destruct k as [|[|k]]; [lia| |].
  - simpl in Hn. lia.
  - assert (ndigits_fuel f (n / 10) <= S k)%nat; [|lia].
    apply IH; [lia|].
    replace (N.of_nat (S (S k))) with (N.succ (N.of_nat (S k))) in Hn by lia.
    rewrite N.pow_succ_r' in Hn. apply N.div_lt_upper_bound; lia.
Qed.

Lemma ndigits_bound n k : (1 <= k)%nat -> n < 10 ^ N.of_nat k -> (ndigits n <= k)%nat.
Proof. apply ndigits_fuel_bound. Qed.

Lemma ndigits_u64 n : n <= max_u64 -> (ndigits n <= 20)%nat.
Proof. intro H. apply ndigits_bound; [lia|]. unfold max_u64 in H. simpl. lia. Qed.

Lemma ndigits_u256 n : n <= max_u256 -> (ndigits n <= 78)%nat.
Proof. intro H. apply ndigits_bound; [lia|]. unfold max_u256 in H. simpl. lia. Qed.

Lemma lim_loop_spec blk limit rest : forall pre best e,
  lim_loop blk limit pre rest best = Some e ->
  best = Some e \/ (exists k, e = pre ++ firstn (S k) rest /\ (enc_len blk e <= limit)%nat).
Proof.
  induction rest as [|i rest IH]; simpl; intros pre best e H; [left; exact H|].
  destruct (limit <? enc_len blk (pre ++ [i]))%nat eqn:E; [left; exact H|].
  apply IH in H. destruct H as [H|[k [H1 H2]]].
  - inversion H; subst. right. exists 0%nat. simpl. split; [reflexivity|lia].
  - right. exists (S k). rewrite <- app_assoc in H1. simpl in *. auto.
Qed.

Lemma lim_loop_first_fits blk limit i rest :
  (enc_len blk [i] <= limit)%nat -> lim_loop blk limit [] (i :: rest) None <> None.
Proof.
  simpl. intro H. destruct (limit <? enc_len blk [i])%nat eqn:E; [lia|].
  assert (G : forall rest pre best, best <> None -> lim_loop blk limit pre rest best <> None).
  { clear. induction rest as [|j rest IH]; simpl; intros pre best Hb; [exact Hb|].
    destruct (limit <? enc_len blk (pre ++ [j]))%nat; [exact Hb|]. apply IH. discriminate. }
  apply G. discriminate.
Qed.

Lemma last_sample_stager heads : forall st0 s0,
  st0 = match s0 with Some (b, rs) => Some (b, stage rs) | None => None end ->
  fold_left stager_step heads st0 =
  match fold_left (fun st h => match h with Some x => Some x | None => st end) heads s0 with
  | Some (b, rs) => Some (b, stage rs) | None => None end.
Proof.
  induction heads as [|h t IH]; simpl; intros st0 s0 E; [exact E|].
  destruct h as [[b rs]|]; simpl.
  - apply IH. reflexivity.
  - apply IH. exact E.
Qed.

Lemma stage_In i rs : In i (stage rs) -> exists r, In r rs /\ snd (r_key r) = i /\ res_ok r = true.
Proof.
  unfold stage. intro H. apply in_map_iff in H. destruct H as [r [<- Hr]].
  apply filter_In in Hr. destruct Hr as [H1 H2]. exists r. split; [exact H1|]. split; [reflexivity|].
  unfold res_ok. rewrite !andb_true_iff in *. tauto.
Qed.

Definition obs_okP (pend : key -> bool) (heads : list (option (N * list res)))
           (blk : option N) (ids : list N) (len : nat) : Prop :=
  (len <= 1000)%nat /\ (length ids <= 1)%nat /\
  match last_sample heads, blk with
  | None, None => ids = []
  | Some (b, rs), Some b' =>
      b = b' /\ forall i, In i ids -> (exists r, In r rs /\ snd (r_key r) = i /\ res_okP r) /\ pend (b, i) = false
  | _, _ => False
  end.

Lemma obs_ok_sound pend heads blk ids len : obs_ok pend heads blk ids len = true -> obs_okP pend heads blk ids len.
Proof.
  unfold obs_ok, obs_okP. rewrite !andb_true_iff. intros [[H1 H2] H3]. split; [lia|]. split; [lia|].
  destruct (last_sample heads) as [[b rs]|], blk as [b'|]; try discriminate.
  - rewrite andb_true_iff in H3. destruct H3 as [Hb Hf]. split; [lia|].
    intros i Hi. rewrite forallb_forall in Hf. specialize (Hf i Hi). rewrite andb_true_iff in Hf.
    destruct Hf as [F1 F2]. split.
    + apply existsb_exists in F1. destruct F1 as [r [Hr Hx]]. rewrite andb_true_iff in Hx. destruct Hx as [X1 X2].
      exists r. split; [exact Hr|]. split; [lia|apply res_ok_sound; exact X2].
    + apply negb_true_iff in F2. exact F2.
  - apply is_nil_true. exact H3.
Qed.

Lemma C16_check_obs_sound pend heads dec len :
  C16_check_obs pend heads dec len = true ->
  exists blk ids, dec = Some (blk, ids) /\ obs_okP pend heads blk ids len.
Proof.
  unfold C16_check_obs. destruct dec as [[blk ids]|]; [|discriminate].
  intro H. exists blk, ids. split; [reflexivity|apply obs_ok_sound; exact H].
Qed.

(* heads whose block keys and registered ids are valid (uint64 / uint256) *)
Definition wf_heads (heads : list (option (N * list res))) : Prop :=
  Forall (fun h => match h with
                   | Some (b, rs) => b <= max_u64 /\ Forall (fun r => snd (r_key r) <= max_u256) rs
                   | None => True end) heads.

Lemma last_sample_wf heads : wf_heads heads ->
  match last_sample heads with
  | Some (b, rs) => b <= max_u64 /\ Forall (fun r => snd (r_key r) <= max_u256) rs
  | None => True end.
Proof.
  unfold last_sample, wf_heads.
  assert (G : forall s0, match s0 with Some (b, rs) => b <= max_u64 /\ Forall (fun r => snd (r_key r) <= max_u256) rs | None => True end ->
     Forall (fun h => match h with Some (b, rs) => b <= max_u64 /\ Forall (fun r => snd (r_key r) <= max_u256) rs | None => True end) heads ->
     match fold_left (fun st h => match h with Some x => Some x | None => st end) heads s0 with
     | Some (b, rs) => b <= max_u64 /\ Forall (fun r => snd (r_key r) <= max_u256) rs | None => True end).
  { induction heads as [|h t IH]; simpl; intros s0 H0 H; [exact H0|].
    inversion H; subst. destruct h as [[b rs]|]; apply IH; auto. }
  intro H. apply G; [exact I|exact H].
Qed.

Lemma enc_len_single b i : (ndigits b <= 20)%nat -> (ndigits i <= 78)%nat -> (enc_len (Some b) [i] <= 142)%nat.
Proof.
  intros Hb Hi. unfold enc_len, ids_len, b64len.
  assert (Q : ((ndigits i + 2) / 3 < 27)%nat) by (apply Nat.div_lt_upper_bound; lia).
  cbn [fold_right length]. lia.
Qed.

Lemma enc_len_empty b : (ndigits b <= 20)%nat -> (enc_len (Some b) [] <= 36)%nat.
Proof. intro Hb. unfold enc_len, ids_len. cbn [fold_right length]. lia. Qed.

Section ObservationSpec.
  Variable pend : key -> bool.
  Variable shuf : list N -> list N.
  Hypothesis shuf_perm : forall l, Permutation (shuf l) l.

  Lemma observation_spec heads : wf_heads heads ->
    let o := v2_observation pend shuf heads in
    exists ids, oo_ids o = Some ids /\ obs_okP pend heads (oo_blk o) ids (oo_len o).
  Proof.
    intro Hwf. cbv zeta. unfold v2_observation.
    rewrite (last_sample_stager heads None None eq_refl).
    change (fold_left (fun st h => match h with Some x => Some x | None => st end) heads None) with (last_sample heads).
    pose proof (last_sample_wf heads Hwf) as HW. unfold obs_okP.
    destruct (last_sample heads) as [[b rs]|] eqn:EL; unfold observe; cbv beta iota zeta.
    - destruct HW as [Hb Hrs].
      set (fl := filter (fun i => negb (pend (b, i))) (stage rs)).
      set (ids1 := firstn obs_limit (shuf fl)).
      assert (Hfl : forall i, In i ids1 ->
                (exists r, In r rs /\ snd (r_key r) = i /\ res_okP r) /\ pend (b, i) = false /\ i <= max_u256).
      { intros i Hi. apply In_firstn in Hi. apply (Permutation_in _ (shuf_perm _)) in Hi.
        apply filter_In in Hi. destruct Hi as [H1 H2]. apply negb_true_iff in H2.
        apply stage_In in H1. destruct H1 as [r [R1 [R2 R3]]]. split; [|split; [exact H2|]].
        - exists r. split; [exact R1|]. split; [exact R2|apply res_ok_sound; exact R3].
        - rewrite Forall_forall in Hrs. rewrite <- R2. apply Hrs. exact R1. }
      assert (Hlen : (length ids1 <= 1)%nat) by (unfold ids1; rewrite firstn_length, obs_limit_1; lia).
      clearbody ids1. destruct ids1 as [|i [|j t]]; simpl in Hlen; try lia.
      + unfold limited_encode. exists []. split; [reflexivity|]. cbn [oo_blk oo_len].
        pose proof (enc_len_empty b (ndigits_u64 b Hb)).
        split; [lia|]. split; [simpl; lia|]. split; [reflexivity|intros i []].
      + destruct (Hfl i (or_introl eq_refl)) as [Hr [Hp Hi]].
        pose proof (enc_len_single b i (ndigits_u64 b Hb) (ndigits_u256 i Hi)) as HE.
        unfold limited_encode. rewrite max_obs_len_1000. cbn [lim_loop app].
        destruct (1000 <? enc_len (Some b) [i])%nat eqn:E; [lia|].
        exists [i]. split; [reflexivity|]. cbn [oo_blk oo_len].
        split; [lia|]. split; [simpl; lia|]. split; [reflexivity|].
        intros i' [<-|[]]. split; assumption.
    - assert (E0 : firstn obs_limit (shuf []) = []).
      { pose proof (Permutation_length (shuf_perm [])) as PL.
        destruct (shuf []); [destruct obs_limit; reflexivity|simpl in PL; lia]. }
      rewrite E0. unfold limited_encode. exists []. split; [reflexivity|]. cbn [oo_blk oo_len].
      split; [unfold enc_len, ids_len; simpl; lia|]. split; [simpl; lia|reflexivity].
  Qed.
End ObservationSpec.

(* without the bound on identifier length the observation can be empty, i.e. undecodable:
   an identifier of 800 digits does not fit into 1000 bytes *)
Lemma observation_needs_id_bound :
  exists heads, oo_ids (v2_observation (fun _ => false) (fun l => l) heads) = None.
Proof.
  exists [Some (5, [mkRes (5, 10 ^ 800) true false 1000 false])].
  vm_compute. reflexivity.
Qed.

(* canonical numerals: what the validators accept *)
(* ============================================================================== *)
(* statements in the form exported by Props/C16.v *)

Lemma keys_from_valid obs ks : obs_to_keys obs = Some ks ->
  forall l k, In l ks -> In k l ->
    fst k = median (map fst (valid_obs obs)) /\
    exists o b ids, In o obs /\ validate o = Some (b, ids) /\ In (snd k) (firstn 1 ids).
Proof.
  intros E l k Hl Hk. destruct (obs_to_keys_spec _ _ E) as [_ H]. destruct (H l Hl) as [_ H2].
  destruct (H2 k Hk) as [A B]. split; [exact A|]. apply allowed_ids_In in B. exact B.
Qed.

Lemma keys_one_per_observation obs ks : obs_to_keys obs = Some ks ->
  (length ks <= length obs)%nat /\ Forall (fun l => (length l <= 1)%nat) ks.
Proof.
  intro E. split.
  - unfold obs_to_keys in E. destruct (is_nil (valid_obs obs)); [discriminate|]. inversion E; subst.
    rewrite map_length. etransitivity; [apply filter_length_le|]. rewrite map_length. apply valid_obs_length.
  - apply Forall_forall. intros l Hl. destruct (obs_to_keys_spec _ _ E) as [_ H]. apply (H l Hl).
Qed.

Lemma dedupe_spec (pi : list key -> list key) (pend : key -> bool) inputs :
  (forall l, Permutation (pi l) l) ->
  NoDup (filter_dedupe pi pend inputs) /\
  forall k, In k (filter_dedupe pi pend inputs) <-> In k (concat inputs) /\ pend k = false.
Proof.
  intro P. split; [apply filter_dedupe_NoDup; exact P|intro k; apply filter_dedupe_In; exact P].
Qed.

Lemma checked_spec_all (pend : key -> bool) (shuf : list key -> list key) ks :
  (forall l, Permutation (shuf l) l) ->
  NoDup (checked_keys pend shuf ks) /\
  (forall k, In k (checked_keys pend shuf ks) -> In k (concat ks) /\ pend k = false) /\
  (length (checked_keys pend shuf ks) <= 10)%nat.
Proof.
  intro P. split; [apply checked_NoDup; exact P|]. split; [intro k; apply checked_In; exact P|apply checked_length].
Qed.

Lemma no_pending_spec (pend : key -> bool) (shuf : list key -> list key) ks :
  (forall l, Permutation (shuf l) l) ->
  forall k, In k (checked_keys pend shuf ks) -> In k (concat ks) /\ pend k = false.
Proof. intros P k. apply checked_In. exact P. Qed.

Lemma batch_spec fixed wide c rs : wf_cfg c -> (Z.of_nat (length (loop fixed wide c rs 0 [])) <= v_batch c)%Z.
Proof. intros [W _]. apply loop_batch. simpl. lia. Qed.

Lemma only_eligible_spec wide c rs r : In r (loop true wide c rs 0 []) ->
  In r rs /\ r_elig r = true /\ r_eligerr r = false /\ r_deterr r = false.
Proof.
  intro H. split.
  - destruct (loop_incl _ _ _ _ _ _ _ H) as [[]|Hin]. exact Hin.
  - apply good_fixed. pose proof (loop_good true wide c rs 0 [] (Forall_nil _)) as G.
    rewrite Forall_forall in G. apply G. exact H.
Qed.

Lemma gas_spec fixed c rs : wf_cfg c -> Forall (fun r => r_gas r < two32) rs ->
  gas_total c (loop fixed true c rs 0 []) <= v_limit c.
Proof. intros W G. apply loop_gas; [apply nowrap_wide; assumption|reflexivity|lia]. Qed.

Lemma gas_uint32_spec fixed c rs : Forall (fun r => v_limit c + r_gas r + v_over c < two32) rs ->
  gas_total c (loop fixed false c rs 0 []) <= v_limit c.
Proof. intro G. apply loop_gas; [apply nowrap_narrow; assumption|reflexivity|lia]. Qed.

Lemma gen_limits : V2ReportKeysLimit = 10%Z /\ V2ObservationUpkeepsLimit = 1%Z /\ V2MaxObservationLength = 1000%Z.
Proof. repeat split. Qed.

Module StrExamples.
Import String.
Open Scope string_scope.
Lemma canon_dec_examples :
  canon_dec "+5" = None /\ canon_dec "05" = None /\ canon_dec "-0" = None /\ canon_dec "" = None /\
  canon_dec "-5" = None /\ canon_dec " 5" = None /\ canon_dec "5 " = None /\ canon_dec "00" = None /\
  canon_dec "0" = Some 0 /\ canon_dec "5" = Some 5 /\ canon_dec "50" = Some 50 /\
  valid_block "18446744073709551616" = None /\ valid_block "18446744073709551615" = Some max_u64.
Proof. vm_compute. repeat split. Qed.
End StrExamples.
