(* Network-level safety by composition (property C09). *)
From Verif Require Import Base.Util Model.Types Model.Outcome Model.Network
  Proofs.TypesProofs Proofs.SortProofs Proofs.PerformablesProofs.
From Coq Require Import ZifyBool ZifyN ZifyNat.
Open Scope N_scope.

Section N.
  Variable uid : result -> N.
  Variable shuf : N -> N.
  Variable valid : observation -> bool.
  Variables (f limit : nat).
  Notation thr := (S f).

  Hypothesis uid_inj : forall a b, uid a = uid b -> a = b.
  Hypothesis valid_nodup : forall o, valid o = true -> NoDup (map r_wid (o_perf o)).

  Notation gstep := (gstep uid shuf valid thr limit).
  Notation grun := (grun uid shuf valid thr limit).

  (* ---------------- nget / nset ---------------- *)
  Lemma nget_nset_same s i st : nget (nset s i st) i = st.
  Proof.
    induction s as [|[j st0] t IH]; simpl.
    - rewrite Nat.eqb_refl. reflexivity.
    - destruct (Nat.eqb i j) eqn:E; simpl; rewrite ?E; [reflexivity | exact IH].
  Qed.
  Lemma nget_nset_other s i j st : i <> j -> nget (nset s i st) j = nget s j.
  Proof.
    intro H. induction s as [|[k st0] t IH]; simpl.
    - replace (Nat.eqb j i) with false by (symmetry; apply Nat.eqb_neq; auto). reflexivity.
    - destruct (Nat.eqb i k) eqn:E; simpl.
      + apply Nat.eqb_eq in E. subst k. replace (Nat.eqb j i) with false by (symmetry; apply Nat.eqb_neq; auto). reflexivity.
      + destruct (Nat.eqb j k); [reflexivity | exact IH].
  Qed.

  Lemma sublist_at_In {A} (l : list A) idx x : In x (sublist_at l idx) -> In x l.
  Proof.
    unfold sublist_at. intro H. apply in_flat_map in H as [i [_ Hi]].
    destruct (nth_error l i) eqn:E; [|destruct Hi]. destruct Hi as [<-|[]]. eapply nth_error_In; eauto.
  Qed.

  (* ---------------- counting: at most f Byzantine members ---------------- *)
  Definition honest_contains (s : net) (r : result) (m : member) : bool :=
    match m with
    | Honest i picked => existsb (result_eqb r) (sublist_at (ns_staged (nget s i)) picked)
    | Byz _ => false
    end.

  Lemma support_split s r ms :
    (support r (valid_obs_list valid (map (member_obs s) ms))
     <= length (filter is_byz ms) + length (filter (honest_contains s r) ms))%nat.
  Proof.
    unfold support. induction ms as [|m ms IH]; simpl; [lia|].
    rewrite filter_app, app_length. destruct m as [i picked|a]; simpl.
    - destruct (valid _) eqn:V; simpl.
      + destruct (existsb (result_eqb r) (sublist_at (ns_staged (nget s i)) picked)); simpl; lia.
      + destruct (existsb (result_eqb r) (sublist_at (ns_staged (nget s i)) picked)); simpl; lia.
    - destruct a as [|o]; simpl; [lia|]. destruct (valid o); simpl; [|lia].
      destruct (existsb (result_eqb r) (o_perf o)); simpl; lia.
  Qed.

  Lemma vlist_ok l : Forall obs_ok (valid_obs_list valid l).
  Proof.
    apply Forall_forall. intros o H. unfold obs_ok. apply valid_nodup.
    induction l as [|a l IH]; simpl in H; [destruct H|]. apply in_app_or in H as [H|H]; [|auto].
    destruct a as [|o']; [destruct H|]. destruct (valid o') eqn:E; [|destruct H]. destruct H as [<-|[]]. exact E.
  Qed.

  (* what a round agrees on was staged by an honest member of that round *)
  Lemma round_agreed_honest s ms r :
    (length (filter is_byz ms) <= f)%nat ->
    In r (round_agreed uid shuf valid thr limit s ms) ->
    (thr <= support r (valid_obs_list valid (map (member_obs s) ms)))%nat /\
    exists i picked, In (Honest i picked) ms /\ In r (ns_staged (nget s i)).
  Proof.
    intros Hb Hr. unfold round_agreed, outcome_of in Hr. simpl in Hr.
    assert (Hs : (thr <= support r (valid_obs_list valid (map (member_obs s) ms)))%nat).
    { eapply (agreed_sound uid shuf uid_inj id_perm); [intro; apply Permutation_refl | apply vlist_ok | exact Hr]. }
    split; [exact Hs|].
    pose proof (support_split s r ms) as Hsp.
    assert (Hh : (1 <= length (filter (honest_contains s r) ms))%nat) by lia.
    destruct (filter (honest_contains s r) ms) as [|m t] eqn:E; [simpl in Hh; lia|].
    assert (Hm : In m (filter (honest_contains s r) ms)) by (rewrite E; left; reflexivity).
    apply filter_In in Hm as [Hm Hc]. destruct m as [i picked|a]; [|discriminate].
    exists i, picked. split; [exact Hm|]. simpl in Hc.
    apply existsb_exists in Hc as [x [Hx He]]. apply result_eqb_eq in He. subst x.
    eapply sublist_at_In. exact Hx.
  Qed.

  (* ---------------- invariants of the network ---------------- *)
  Definition staged_sub (g : gstate) : Prop :=
    forall i r, In r (ns_staged (nget (g_net g) i)) -> In r (ns_checked (nget (g_net g) i)).

  Definition reports_ok (g : gstate) : Prop :=
    forall rep obs r, In (rep, obs) (g_reports g) -> In r rep ->
      (thr <= support r obs)%nat /\ exists j, In r (ns_checked (nget (g_net g) j)).

  Definition accepted_ok (g : gstate) : Prop :=
    forall i rep, In rep (ns_accepted (nget (g_net g) i)) -> exists obs, In (rep, obs) (g_reports g).

  Definition byz_bounded (o : nop) : Prop :=
    match o with Round ms _ => (length (filter is_byz ms) <= f)%nat | _ => True end.

  Lemma chunks_In {A} (l : list A) sizes : forall c x, In c (chunks l sizes) -> In x c -> In x l.
  Proof.
    revert l. induction sizes as [|k t IH]; intros l c x Hc Hx; simpl in Hc.
    - destruct l; [destruct Hc|]. destruct Hc as [<-|[]]. exact Hx.
    - destruct Hc as [<-|Hc].
      + eapply In_firstn. exact Hx.
      + specialize (IH _ _ _ Hc Hx). rewrite <- (firstn_skipn k l). apply in_or_app. right. exact IH.
  Qed.

  Lemma checked_mono g o j r :
    In r (ns_checked (nget (g_net g) j)) -> In r (ns_checked (nget (g_net (gstep g o)) j)).
  Proof.
    intro H. destruct o as [i rs|ms split|i rep|i|i ws]; simpl; try exact H.
    - destruct (Nat.eq_dec i j) as [->|N]; [rewrite nget_nset_same; simpl; apply in_or_app; right; exact H
                                            | rewrite nget_nset_other by exact N; exact H].
    - destruct (existsb _ _); [|exact H]. simpl.
      destruct (Nat.eq_dec i j) as [->|N]; [rewrite nget_nset_same; exact H | rewrite nget_nset_other by exact N; exact H].
    - destruct (Nat.eq_dec i j) as [->|N]; [rewrite nget_nset_same; exact H | rewrite nget_nset_other by exact N; exact H].
    - destruct (Nat.eq_dec i j) as [->|N]; [rewrite nget_nset_same; exact H | rewrite nget_nset_other by exact N; exact H].
  Qed.

  Lemma inv_step g o : byz_bounded o ->
    staged_sub g /\ reports_ok g /\ accepted_ok g ->
    staged_sub (gstep g o) /\ reports_ok (gstep g o) /\ accepted_ok (gstep g o).
  Proof.
    intros Hb [I1 [I2 I3]].
    assert (R2 : forall rep obs r, In (rep, obs) (g_reports g) -> In r rep ->
                 (thr <= support r obs)%nat /\ exists j, In r (ns_checked (nget (g_net (gstep g o)) j))).
    { intros rep obs r H1 H2. destruct (I2 _ _ _ H1 H2) as [Hs [j Hj]]. split; [exact Hs|].
      exists j. apply checked_mono. exact Hj. }
    destruct o as [i rs|ms split|i rep|i|i ws].
    - (* Stage *)
      split; [|split].
      + intros j r. simpl. destruct (Nat.eq_dec i j) as [->|N].
        * rewrite nget_nset_same. simpl. intro H. apply in_app_or in H as [H|H]; apply in_or_app; [left; exact H | right; apply I1; exact H].
        * rewrite nget_nset_other by exact N. apply I1.
      + exact R2.
      + intros j rep. simpl. destruct (Nat.eq_dec i j) as [->|N].
        * rewrite nget_nset_same. simpl. apply I3.
        * rewrite nget_nset_other by exact N. apply I3.
    - (* Round *)
      split; [exact I1|]. split.
      + intros rep obs r H1 H2. simpl in H1. apply in_app_or in H1 as [H1|H1].
        * apply in_map_iff in H1 as [c [Hc Hin]]. inversion Hc; subst rep obs.
          pose proof (chunks_In _ _ _ _ Hin H2) as Hag.
          destruct (round_agreed_honest (g_net g) ms r Hb Hag) as [Hs [i [picked [_ Hst]]]].
          split; [exact Hs|]. exists i. apply I1. exact Hst.
        * apply (R2 rep obs r H1 H2).
      + intros i rep H. destruct (I3 i rep H) as [obs Ho]. exists obs. simpl. apply in_or_app. right. exact Ho.
    - (* Accept *)
      simpl. destruct (existsb (fun x => list_eqb result_eqb (fst x) rep) (g_reports g)) eqn:E.
      + split; [|split].
        * intros j r. simpl. destruct (Nat.eq_dec i j) as [->|N];
            [rewrite nget_nset_same; simpl | rewrite nget_nset_other by exact N]; apply I1.
        * intros rep' obs r H1 H2. simpl in H1. destruct (I2 _ _ _ H1 H2) as [Hs [j Hj]]. split; [exact Hs|].
          exists j. simpl. destruct (Nat.eq_dec i j) as [->|N];
            [rewrite nget_nset_same; simpl | rewrite nget_nset_other by exact N]; exact Hj.
        * intros j rep'. simpl. destruct (Nat.eq_dec i j) as [->|N].
          -- rewrite nget_nset_same. simpl. intros [<-|H]; [|exact (I3 _ _ H)].
             apply existsb_exists in E as [[rp ob] [Hin He]]. simpl in He.
             apply (list_eqb_eq result_eqb result_eqb_eq) in He. subst rp. exists ob. exact Hin.
          -- rewrite nget_nset_other by exact N. apply I3.
      + split; [exact I1|]. split; [exact I2 | exact I3].
    - (* Restart *)
      split; [|split].
      + intros j r. simpl. destruct (Nat.eq_dec i j) as [->|N].
        * rewrite nget_nset_same. simpl. intros [].
        * rewrite nget_nset_other by exact N. apply I1.
      + exact R2.
      + intros j rep. simpl. destruct (Nat.eq_dec i j) as [->|N].
        * rewrite nget_nset_same. simpl. intros [].
        * rewrite nget_nset_other by exact N. apply I3.
    - (* Unstage *)
      split; [|split].
      + intros j r. simpl. destruct (Nat.eq_dec i j) as [->|N].
        * rewrite nget_nset_same. simpl. intro H. apply filter_In in H as [H _]. apply I1. exact H.
        * rewrite nget_nset_other by exact N. apply I1.
      + exact R2.
      + intros j rep. simpl. destruct (Nat.eq_dec i j) as [->|N].
        * rewrite nget_nset_same. simpl. apply I3.
        * rewrite nget_nset_other by exact N. apply I3.
  Qed.

  Lemma inv_run ops : Forall byz_bounded ops -> forall g,
    staged_sub g /\ reports_ok g /\ accepted_ok g ->
    let g' := fold_left gstep ops g in staged_sub g' /\ reports_ok g' /\ accepted_ok g'.
  Proof.
    induction 1 as [|o ops Ho Hops IH]; intros g I; simpl; [exact I|]. apply IH. apply inv_step; assumption.
  Qed.

  (* C09 safety: in every reachable state, every upkeep inside a report that an honest node has
     accepted (and may be willing to transmit) was found eligible with identical fields by the local
     pipeline of an honest node, and was contained in >= f+1 valid observations of one round *)
  Theorem network_safety ops : Forall byz_bounded ops ->
    forall i rep r, In rep (ns_accepted (nget (g_net (grun ops)) i)) -> In r rep ->
      (exists j, In r (ns_checked (nget (g_net (grun ops)) j))) /\
      (exists obs, (thr <= support r obs)%nat).
  Proof.
    intros Hb i rep r Ha Hr.
    assert (I0 : staged_sub (mkGS [] []) /\ reports_ok (mkGS [] []) /\ accepted_ok (mkGS [] [])).
    { split; [|split].
      - intros j r0 H. simpl in H. destruct H.
      - intros rp ob r0 H. simpl in H. destruct H.
      - intros j rp H. simpl in H. destruct H. }
    destruct (inv_run ops Hb _ I0) as [_ [I2 I3]]. unfold grun in *.
    destruct (I3 i rep Ha) as [obs Ho]. destruct (I2 rep obs r Ho Hr) as [Hs Hj].
    split; [exact Hj | exists obs; exact Hs].
  Qed.

  (* C09 "not reported again while in flight on every honest node": a unit of work that no honest
     member's observation contains cannot be agreed *)
  Theorem not_agreed_without_honest s ms w :
    (length (filter is_byz ms) <= f)%nat ->
    (forall i picked r, In (Honest i picked) ms -> In r (ns_staged (nget s i)) -> r_wid r <> w) ->
    forall r, In r (round_agreed uid shuf valid thr limit s ms) -> r_wid r <> w.
  Proof.
    intros Hb Hn r Hr. destruct (round_agreed_honest s ms r Hb Hr) as [_ [i [picked [Hm Hst]]]].
    eapply Hn; eauto.
  Qed.
End N.

(* ---------------------------------------------------------------------------------------------
   K09 decides the property on a run log: stated as propositions over the log, K09 = true implies
   every clause.  (K09 judges the implementation's own log; the theorems above are about the model.) *)
Definition C09_log_spec (k : n_case) : Prop :=
  (* safety: everything an honest node was willing to transmit was checked by an honest node and had
     f+1 support in some round *)
  (forall t rep r, In t (nc_transmit k) -> In rep (snd t) -> In r rep ->
     (exists c, In c (nc_checked k) /\ In r (snd c)) /\
     (exists rd, In rd (nc_rounds k) /\ (S (nc_f k) <= round_support rd r)%nat)) /\
  (* not reported again while in flight on every honest node *)
  (forall rd r, In rd (nc_rounds k) -> In r (nr_agreed rd) -> ~ In (wid_of k r) (nr_inflight rd)) /\
  (* never two different reports for one unit of work at once *)
  (forall t a b, In t (nc_transmit k) -> In a (snd t) -> In b (snd t) ->
     a = b \/ forall r r', In r a -> In r' b -> wid_of k r <> wid_of k r') /\
  (* reported within the window of every recorded obligation whose window was run completely *)
  (forall w from to, In (w, (from, to)) (nc_live k) -> (to < length (nc_rounds k))%nat ->
     exists rd r, In rd (rounds_between (nc_rounds k) from to) /\ In r (nr_agreed rd) /\ wid_of k r = w).

Lemma mem_nat_In x l : mem_nat x l = true <-> In x l.
Proof.
  unfold mem_nat. rewrite existsb_exists. split.
  - intros [y [Hy E]]. apply Nat.eqb_eq in E. subst. exact Hy.
  - intro H. exists x. split; [exact H | apply Nat.eqb_refl].
Qed.

Lemma rows_eqb_eq a b : rows_eqb a b = true -> a = b.
Proof.
  unfold rows_eqb. revert b. induction a as [|x a IH]; intros [|y b]; simpl; try discriminate; [reflexivity|].
  destruct (Nat.eqb x y) eqn:E; [|discriminate]. apply Nat.eqb_eq in E. subst. intro H. f_equal. apply IH. exact H.
Qed.

Theorem K09_sound k : K09 k = true -> C09_log_spec k.
Proof.
  unfold K09. intro H.
  destruct (K09_safety k) eqn:Hs; [|discriminate].
  destruct (K09_not_again k) eqn:Hn; [|discriminate].
  destruct (K09_single k) eqn:Hg; [|discriminate].
  rename H into Hl. unfold C09_log_spec. repeat split.
  - unfold K09_safety in Hs. rewrite forallb_forall in Hs. specialize (Hs t H).
    rewrite forallb_forall in Hs. specialize (Hs rep H0). rewrite forallb_forall in Hs. specialize (Hs r H1).
    destruct (checked_by_honest k r) eqn:E; [|discriminate].
    unfold checked_by_honest in E. apply existsb_exists in E as [c [Hc Hm]]. exists c. split; [exact Hc|].
    apply mem_nat_In. exact Hm.
  - unfold K09_safety in Hs. rewrite forallb_forall in Hs. specialize (Hs t H).
    rewrite forallb_forall in Hs. specialize (Hs rep H0). rewrite forallb_forall in Hs. specialize (Hs r H1).
    destruct (checked_by_honest k r); [|discriminate].
    unfold quorum_somewhere in Hs. apply existsb_exists in Hs as [rd [Hrd Hq]]. exists rd. split; [exact Hrd|].
    apply Nat.leb_le. exact Hq.
  - intros rd r Hrd Hr Hin. unfold K09_not_again in Hn. rewrite forallb_forall in Hn. specialize (Hn rd Hrd).
    rewrite forallb_forall in Hn. specialize (Hn r Hr). apply negb_true_iff in Hn.
    apply memN_false_In in Hn. exact (Hn Hin).
  - intros t a b Ht Ha Hb. unfold K09_single in Hg. rewrite forallb_forall in Hg. specialize (Hg t Ht).
    rewrite forallb_forall in Hg. specialize (Hg a Ha). rewrite forallb_forall in Hg. specialize (Hg b Hb).
    apply orb_true_iff in Hg as [Hg|Hg]; [left; apply rows_eqb_eq; exact Hg|]. right.
    intros r r' Hr Hr' E. apply negb_true_iff in Hg. unfold share_wid in Hg.
    assert (X : existsb (fun r0 => existsb (fun r'0 => wid_of k r0 =? wid_of k r'0) b) a = true).
    { apply existsb_exists. exists r. split; [exact Hr|]. apply existsb_exists. exists r'. split; [exact Hr'|].
      apply N.eqb_eq. exact E. }
    congruence.
  - intros w from to Hin Hlt. unfold K09_live in Hl. rewrite forallb_forall in Hl. specialize (Hl _ Hin). simpl in Hl.
    apply orb_true_iff in Hl as [Hl|Hl]; [apply Nat.leb_le in Hl; lia|].
    apply existsb_exists in Hl as [rd [Hrd Hx]]. apply existsb_exists in Hx as [r [Hr E]].
    exists rd, r. split; [exact Hrd|]. split; [exact Hr|]. apply N.eqb_eq. exact E.
Qed.
