(* The hand-written v2 report-loop model takes exactly the decisions of ocrPlugin.Report's loop as /verif/gen
   translated it from /repo's current pkg/v2/ocr.go (Gen/GeneratedTr.v). *)
From Coq Require Import ZArith NArith Bool List Lia ZifyBool ZifyN ZifyNat.
From Verif Require Import Base.GenIR Gen.GeneratedTr Model.V2.
Import ListNotations.
Open Scope Z_scope.

Lemma of_N_addw64 : forall a b : N, Z.of_N (addw true a b) = wrap64 (Z.of_N a + Z.of_N b).
Proof. intros. unfold addw, wrap64, two64. rewrite N2Z.inj_mod, N2Z.inj_add. reflexivity. Qed.

(* Report, loop over the checked upkeeps: 1 = append to the report, 2 = totalReportGas += upkeepMaxGas; Fall = skipped
   (not eligible / Eligible or Detail failed / over the gas limit); Brk = batch size reached.  The model's loop
   (repaired variant: `err != nil || !ok`, uint64 sums) is the interpretation of the generated body. *)
Lemma gen_v2_report_body : forall c r rs' total acc,
  let mx := addw true (r_gas r) (v_over c) in
  loop true true c (r :: rs') total acc =
  match g_v2_report_body (r_eligerr r) (r_elig r) (r_deterr r) (Z.of_N total) (Z.of_N mx) (Z.of_N (v_limit c))
                         (Z.of_nat (length (acc ++ [r]))) (v_batch c) with
  | ([], Fall) => loop true true c rs' total acc
  | ([1; 2], Brk) => acc ++ [r]
  | ([1; 2], Fall) => loop true true c rs' (addw true total mx) (acc ++ [r])
  | _ => acc
  end.
Proof.
  intros. cbn [loop]. unfold g_v2_report_body, skip_elig. fold mx.
  rewrite <- of_N_addw64.
  set (X := addw true total mx).
  destruct (r_eligerr r), (r_elig r), (r_deterr r); cbn [orb negb]; try reflexivity;
    gen_split; try reflexivity; try (exfalso; lia).
Qed.
