(* Post-processors (pkg/v3/postprocessors): the routing predicates and the payload matching of Model/Pipeline.v are
   the decisions of the code as /verif/gen translated it from /repo's current sources. *)
From Coq Require Import ZArith NArith Bool List Lia ZifyBool ZifyN ZifyNat.
From Verif Require Import Base.GenIR Gen.GeneratedTr Model.Runner Model.Pipeline.
Import ListNotations.
Open Scope Z_scope.

(* eligible -> staging (2), metadata proposal (1): exactly the successfully checked eligible results *)
Lemma gen_pp_eligible : forall r,
  g_pp_eligible_body (Z.of_N (r_state r)) (r_elig r) = (if elig_ok r then ([1; 2], Fall) else ([], Fall)) /\
  g_pp_metadata_body (Z.of_N (r_state r)) (r_elig r) = (if elig_ok r then ([1], Fall) else ([], Fall)).
Proof.
  intros. unfold g_pp_eligible_body, g_pp_metadata_body, elig_ok.
  destruct (r_elig r); gen_split; cbn [andb]; split; try reflexivity; try (exfalso; lia).
Qed.

(* ineligible -> state updater (1): exactly the successfully checked ineligible results; an updater error is joined
   (2) and the loop goes on *)
Lemma gen_pp_ineligible : forall r (upd_err : bool),
  g_pp_ineligible_body (Z.of_N (r_state r)) (r_elig r) upd_err =
  if inelig_ok r then (if upd_err then ([1; 2], Fall) else ([1; 3], Fall)) else ([], Fall).
Proof.
  intros. unfold g_pp_ineligible_body, inelig_ok.
  destruct (r_elig r), upd_err; gen_split; cbn [andb negb]; try reflexivity; try (exfalso; lia).
Qed.

(* retry: exactly the retryable failures; the payload is looked up (1); without one an error is joined (2); otherwise
   it is enqueued with the result's interval (3) and the queue's error joined (5) *)
Lemma gen_pp_retry : forall r (found enq_ok : bool),
  g_pp_retry_body (Z.of_N (r_state r)) (r_retry r) found enq_ok =
  if retry_fail r then
    (if found then (if enq_ok then ([1; 3; 4; 5], Fall) else ([1; 3; 5], Fall)) else ([1; 2], Fall))
  else ([], Fall).
Proof.
  intros. unfold g_pp_retry_body, retry_fail.
  destruct (r_retry r), found, enq_ok; gen_split; cbn [andb negb]; try reflexivity; try (exfalso; lia).
Qed.

(* payloadOf: a result without a work id is paired by position (bounds checked); otherwise the payload with the same
   work id, check block and hash (RetO 1 inside the loop), else the first one with the same work id (found), else none *)
Lemma gen_pp_payloadOf : forall (no_wid : bool) pos n found,
  g_pp_payloadOf no_wid pos n found =
  if no_wid then (if pos <? n then ([], RetO 1) else ([], RetO 2))
  else if found <? 0 then ([1], RetO 2) else ([1], RetO 3).
Proof.
  intros. unfold g_pp_payloadOf. destruct no_wid; gen_split; try reflexivity; try (exfalso; lia).
Qed.

Lemma gen_pp_payloadOf_body : forall p_wid r_wid p_blk r_blk p_hash r_hash found,
  g_pp_payloadOf_body p_wid r_wid p_blk r_blk p_hash r_hash found =
  if negb (p_wid =? r_wid) then ([], Fall)
  else if (p_blk =? r_blk) && (p_hash =? r_hash) then ([], RetO 1)
  else if found <? 0 then ([1], Fall) else ([], Fall).
Proof.
  intros. unfold g_pp_payloadOf_body. gen_split; cbn [negb andb]; try reflexivity; try (exfalso; lia).
Qed.

(* the model's find_exact / find_wid are these two searches *)
Lemma gen_pp_payloadOf_model : forall r p t,
  find_exact r (p :: t) =
  match g_pp_payloadOf_body (Z.of_N (pl_wid p)) (Z.of_N (r_wid r)) (Z.of_N (pl_blk p)) (Z.of_N (r_blk r))
                            (Z.of_N (pl_hash p)) (Z.of_N (r_hash r)) (-1) with
  | (_, RetO 1) => Some p
  | _ => find_exact r t
  end.
Proof.
  intros. cbn [find_exact]. unfold g_pp_payloadOf_body, key3_eqb, pl_key, r_key. cbn [fst snd].
  gen_split; cbn [negb andb]; try reflexivity; try (exfalso; lia).
Qed.

(* combined post-processor: every post-processor of the chain runs, errors are joined *)
Lemma gen_pp_combine : g_pp_combine_body = ([1], Fall).
Proof. reflexivity. Qed.

(* Observer.Process: tick value (1), every pre-processor in turn (2; body: the output of one is the input of the next),
   the check pipeline (3), the post-processor on the results and the PRE-PROCESSED payloads (4); any error returns *)
Lemma gen_observer_process : forall tick_err run_err post_err pre_err : bool,
  g_observer_process tick_err run_err post_err =
    (if tick_err then ([1], RetO 1) else if run_err then ([1; 2; 3], RetO 1)
     else if post_err then ([1; 2; 3; 4], RetO 1) else ([1; 2; 3; 4], RetO 0)) /\
  g_observer_preprocess_body pre_err = (if pre_err then ([1], RetO 1) else ([1], Fall)).
Proof. intros [|] [|] [|] [|]; split; reflexivity. Qed.

(* proposal filterer: a payload whose work id is already a pending proposal is dropped; final-flow tick: empty payloads
   the builder returned are dropped *)
Lemma gen_flow_filters : forall already empty : bool,
  g_proposal_filterer_body already = (if already then ([], Fall) else ([1], Fall)) /\
  g_final_flow_tick_body empty = (if empty then ([1], Fall) else ([2], Fall)).
Proof. intros [|] [|]; split; reflexivity. Qed.

(* ---------------- wiring of the flows ---------------- *)
(* what each flow constructor hands to NewRunnableObserver, read from pkg/v3/flows/*.go by gen/wiring.go:
   post-processors 1 eligible -> staging, 2 retryable -> retry queue, 3 ineligible -> state updater, 4 proposals ->
   metadata store; pre-processors 0 the coordinator (the caller's slice), 5 proposal filterer *)
Definition memZ (x : Z) (l : list Z) : bool := existsb (Z.eqb x) l.
Definition post_of (k : kind) : list Z :=
  match k with
  | KLog => g_wire_log_post | KRetry => g_wire_retry_post | KRecFinal => g_wire_rec_final_post
  | KCondFinal => g_wire_cond_final_post | KRecProp => g_wire_rec_prop_post | KSample => g_wire_sample_post
  end.
Definition pre_of (k : kind) : list Z :=
  match k with
  | KLog => g_wire_log_pre | KRetry => g_wire_retry_pre | KRecFinal => g_wire_rec_final_pre
  | KCondFinal => g_wire_cond_final_pre | KRecProp => g_wire_rec_prop_pre | KSample => g_wire_sample_pre
  end.

(* the model's table of which flow holds which post-processor is the wiring found in the source *)
Lemma gen_wiring_post : forall k,
  has_stage k = memZ 1 (post_of k) /\ has_retry k = memZ 2 (post_of k) /\
  has_inelig k = memZ 3 (post_of k) /\ has_prop k = memZ 4 (post_of k).
Proof. intros k. destruct k; vm_compute; repeat split. Qed.

(* every flow's pre-processors start with the coordinator; the two proposal flows add the proposal filterer *)
Lemma gen_wiring_pre : forall k,
  hd (-1) (pre_of k) = 0 /\ memZ 5 (pre_of k) = has_prop k.
Proof. intros k. destruct k; vm_compute; repeat split. Qed.

(* the factories hand every flow constructor a slice holding exactly the coordinator *)
Lemma gen_wiring_factories : g_wire_factory_log = [0; 0; 0] /\ g_wire_factory_cond = [0; 0].
Proof. split; reflexivity. Qed.
