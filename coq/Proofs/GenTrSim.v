(* Simulator key order: decisions of the code as translated by /verif/gen. *)
From Coq Require Import ZArith NArith Bool List Lia ZifyBool ZifyN ZifyNat.
From Verif Require Import Base.GenIR Gen.GeneratedTr Model.SimChain.
Import ListNotations.
Open Scope Z_scope.

(* simulator keyLess: shorter decimal keys first, equal lengths lexicographically: the model's keyless *)
Lemma gen_sim_keyLess : forall a b : str,
  g_sim_keyLess (Z.of_nat (length a)) (Z.of_nat (length b)) (str_ltb a b) = ([], RetB (keyless a b)).
Proof.
  intros. unfold g_sim_keyLess, keyless.
  destruct (Nat.eqb_spec (length a) (length b)); gen_split; cbn [negb]; try reflexivity; try (exfalso; lia).
Qed.

(* ---------------- util.SortedKeyMap ---------------- *)
Definition is_some {A} (o : option A) : bool := match o with Some _ => true | None => false end.

(* Set: a new key is appended and the key slice re-sorted (1, 2); the value is stored either way (3) *)
Lemma gen_skm_set : forall (V : Type) lt (m : skm V) k v,
  skm_set lt m k v =
  match g_skm_set (is_some (lookup k (sk_vals m))) with
  | ([1; 2; 3], Fall) => mkSkm (sort_keys lt (sk_keys m ++ [k])) (update k v (sk_vals m))
  | ([3], Fall) => mkSkm (sk_keys m) (update k v (sk_vals m))
  | _ => m
  end.
Proof. intros. unfold skm_set, g_skm_set. destruct (lookup k (sk_vals m)); reflexivity. Qed.

(* Get: the stored value and true when the key is known; for an unknown key either the explicit zero value and false
   (RetO 0) or the map lookup's own result (RetO 1), which Go defines to be the zero value and false *)
Lemma gen_skm_get :
  snd (g_skm_get true) = RetO 1 /\ (snd (g_skm_get false) = RetO 0 \/ snd (g_skm_get false) = RetO 1) /\
  (forall b, fst (g_skm_get b) = []).
Proof.
  split; [reflexivity|]. split; [first [left; reflexivity | right; reflexivity]|].
  intros b; destruct b; reflexivity.
Qed.

Lemma firstn_min : forall (A : Type) n (l : list A), firstn n l = firstn (Nat.min n (length l)) l.
Proof.
  intros. destruct (Nat.le_ge_cases n (length l)) as [H|H].
  - rewrite Nat.min_l by exact H. reflexivity.
  - rewrite Nat.min_r by exact H. rewrite firstn_all. apply firstn_all2. exact H.
Qed.

(* Keys(count): the count is clamped to the number of keys (1) before the copy loop (2), which takes the keys
   from the top end - the model's firstn count (rev keys) *)
Lemma gen_skm_keys : forall (V : Type) (m : skm V) count,
  skm_keys m count =
  let n := length (sk_keys m) in
  match g_skm_keys (Z.of_nat count) (Z.of_nat n) with
  | ([1; 2], RetO 1) => firstn n (rev (sk_keys m))
  | ([2], RetO 1) => firstn count (rev (sk_keys m))
  | _ => []
  end.
Proof.
  intros. unfold skm_keys, g_skm_keys. cbv zeta. gen_split; try reflexivity.
  rewrite firstn_min, rev_length. rewrite Nat.min_r by lia. reflexivity.
Qed.

(* ---------------- OCR3TransmitLoader ---------------- *)
(* Transmit (encoders succeeding): queued and recorded (4, 5) exactly when the (report, round) key was not
   transmitted before; otherwise rejected with an error and nothing changes *)
Lemma gen_sim_transmit : forall s t,
  tl_transmit s t =
  match g_sim_transmit false false (key_mem (tx_key t) (map tx_key (tl_done s))) with
  | ([1; 2; 3; 4; 5], RetO 0) => (mkTl (tl_queue s ++ [t]) (tl_done s ++ [t]), true)
  | _ => (s, false)
  end.
Proof. intros. unfold tl_transmit, g_sim_transmit. destruct (key_mem _ _); reflexivity. Qed.

Lemma gen_sim_transmit_errors : forall e2 d,
  g_sim_transmit true e2 d = ([], RetO 1) /\ g_sim_transmit false true d = ([1; 2], RetO 1) /\
  g_sim_transmit false false true = ([1; 2; 3], RetO 2).
Proof. intros. repeat split. Qed.

(* Load: nothing happens on an empty queue; otherwise every queued transmit is stamped and copied (1), the queue is
   emptied (2) and one transaction holding the copies is added to the block (3) *)
Lemma gen_sim_load : forall s p,
  fst (tl_load s) = mkTl [] (tl_done s) /\
  g_sim_load (Z.of_nat (length (tl_queue s))) p =
  match tl_queue s with
  | [] => ([], RetU)
  | _ => (if p then [1; 2; 3; 4] else [1; 2; 3], Fall)
  end.
Proof.
  intros. split; [reflexivity|]. unfold g_sim_load. destruct (tl_queue s); cbn [length]; gen_split; try (exfalso; lia);
  destruct p; reflexivity.
Qed.

(* straight-line bodies: block history fan-out, Load's loop, report tracker look-back *)
Lemma gen_sim_straight :
  g_skm_keys_body = ([1], Fall) /\ g_sim_load_body = ([1; 2; 3; 4], Fall) /\
  g_sim_history_broadcast = ([1; 2; 3], Fall) /\ g_sim_history_broadcast_keys = ([1; 2], Fall) /\
  g_sim_history_broadcast_send = ([1], Fall) /\ g_sim_plugin_events_body = ([1; 2], Fall).
Proof. repeat split. Qed.

(* GetLatestEvents: nothing before the first block; otherwise the look-back keys are read (1) and every event of
   every block in range contributes its plug-in events (2), a report that fails to decode contributing none *)
Lemma gen_sim_latest_events : forall s,
  g_sim_latest_events (negb (is_some (rt_latest s))) =
  match rt_latest s with None => ([], RetO 0) | Some _ => ([1; 2], RetO 1) end.
Proof. intros. unfold g_sim_latest_events. destruct (rt_latest s); reflexivity. Qed.

Lemma gen_sim_latest_events_event : forall e, g_sim_latest_events_event e = ([1; 2], Fall).
Proof. intros. unfold g_sim_latest_events_event. destruct e; reflexivity. Qed.

Lemma gen_sim_plugin_events : forall e, g_sim_plugin_events e = if e then ([], RetO 0) else ([1], RetO 1).
Proof. intros. reflexivity. Qed.

(* ---------------- BlockBroadcaster ---------------- *)
(* one timer tick: the next block number is taken (1); past the limit the run ends (2), otherwise the block is broadcast
   (3); the done signal stops the timer and the loop *)
Lemma gen_sim_bb_run : forall c,
  g_sim_bb_run = ([1; 2], Fall) /\
  g_sim_bb_run_body true c = (if 0 <? c then ([1; 2; 4], Fall) else ([1; 3; 4], Fall)) /\
  g_sim_bb_run_body false c = ([5], RetU).
Proof.
  intros c. unfold g_sim_bb_run_body. split; [reflexivity|]. split; gen_split; try reflexivity; exfalso; lia.
Qed.

(* a broadcast: every loader fills the block (1), the block is hashed (2), and every subscription gets it (4) on a
   goroutine of its own, which always sends (2 of the deliver function), delayed only for delay subscriptions *)
Lemma gen_sim_bb_broadcast : forall p d m,
  In 1 (fst (g_sim_bb_broadcast p)) /\ In 4 (fst (g_sim_bb_broadcast p)) /\
  g_sim_bb_loaders_body = ([1], Fall) /\ g_sim_bb_subs_body = ([1], Fall) /\
  last (fst (g_sim_bb_deliver d m)) 0 = 2 /\ snd (g_sim_bb_deliver d m) = Fall.
Proof.
  intros p d m. unfold g_sim_bb_broadcast, g_sim_bb_deliver, g_sim_bb_loaders_body, g_sim_bb_subs_body.
  destruct p, d; cbn [andb negb orb]; gen_split; cbn; auto 10.
Qed.

(* unsubscribe: the subscription is forgotten either way (3, 4); a known one is counted down (1) and, unless the
   subscriber's goroutine panicked on a closed channel, its channel is closed (2) *)
Lemma gen_sim_bb_unsubscribe : forall k c,
  g_sim_bb_unsubscribe k c = if k then (if c then ([1; 2; 3; 4], Fall) else ([1; 3; 4], Fall)) else ([3; 4], Fall).
Proof. intros. reflexivity. Qed.

(* ---------------- Listener ---------------- *)
(* a block from the broadcaster is saved (1), sent to the block channel (2) - always - and each of its transactions to
   the channel of its kind (3; the perform-upkeep transactions the report tracker reads go to channel 3, then 5) *)
Lemma gen_sim_listener : forall l c p u,
  g_sim_listener_run_body true = ([1; 2; 3], Fall) /\ g_sim_listener_run_body false = ([], RetU) /\
  last (fst (g_sim_listener_tx_body l c p u)) 0 = 5 /\
  g_sim_listener_tx_body false false true u = ([3; 5], Fall).
Proof. intros l c p u. repeat split; destruct l, c, p, u; reflexivity. Qed.

(* an event reaches every subscriber of its channel, each on its own goroutine; subscribing appends to every named
   channel's list *)
Lemma gen_sim_listener_fanout : forall s,
  g_sim_listener_broadcast true = ([1], Fall) /\ g_sim_listener_broadcast false = ([], Fall) /\
  g_sim_listener_broadcast_body = ([1], Fall) /\ last (fst (g_sim_listener_subscribe_body s)) 0 = 2.
Proof. intros s. repeat split; destruct s; reflexivity. Qed.
