(* Simulator key order: decisions of the code as translated by /verif/gen. *)
From Coq Require Import ZArith NArith Bool List Lia ZifyBool ZifyN ZifyNat.
From Verif Require Import Base.GenIR Gen.GeneratedTr Model.SimChain.
Import ListNotations.
Open Scope Z_scope.

(* simulator keyLess: shorter decimal keys first, equal lengths lexicographically: the model's keyless *)
Lemma gen_sim_keyLess : forall a b : str,
  g_sim_keyLess (Z.of_nat (length a)) (Z.of_nat (length b)) (str_ltb a b) = ([], RetB (keyless a b)).
Proof.
  intros. unfold g_sim_keyLess, keyless.
  destruct (Nat.eqb_spec (length a) (length b)); gen_split; cbn [negb]; try reflexivity; try (exfalso; lia).
Qed.
